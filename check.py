#!/usr/bin/env python3
"""Supervisor of the runtime-monitoring checks (entry point of every MANIFEST command).

usage: check.py <PROPERTY_ID> [--tier quick|thorough] [--replay FILE] [--keep]

Rebuilds the harness test binaries against /repo's current working tree (hooks on),
runs the property's monitors in child processes (one per shard / mode), aggregates
what the monitors observed, classifies violations against known_findings.json,
writes evidence/<ID>.json and exits
  0  property held on everything explored (known findings are listed, not alarms)
  1  at least one violation that known_findings.json does not list (VIOLATION line)
  2  could not decide (build failure, watchdog, observation floor not reached)
"""
import argparse
import fnmatch
import glob
import json
import os
import shutil
import signal
import subprocess
import sys
import tempfile
import time

VERIF = os.path.dirname(os.path.abspath(__file__))
BUILD = os.environ.get("VERIF_BUILD", os.path.join(VERIF, ".build"))
PLAIN = os.path.join(BUILD, "bin", "verifh.test")
RACE = os.path.join(BUILD, "bin", "verifh.race.test")
NCPU = os.cpu_count() or 4

# ---------------------------------------------------------------------------
# per-property configuration
#   runs: list of (mode, binary kind, shards) ; mode "" is the default entry
#   floor: minimal (evaluations, distinct_nontrivial) for a verdict; below => exit 2
#   crash_is_violation: a child death on a journalled case is a violation of this property
PROPS = {
    "C01": dict(test="TestC01", level="exploration", runs=[("", "plain", 16)], timeout=(900, 5400), floor=(2000, 200),
                rule="case = generated (config, relationships, 6 queries) x modes {ast-default, opl-default, opl-strict} x insertion orders/schedules; "
                     "non-trivial = the reference needed more than the direct lookup AND the engine issued >= 2 storage calls; distinct by (case, mode, query)"),
    "C02": dict(test="TestC02", level="exploration", runs=[("", "plain", 16)], timeout=(900, 5400), floor=(20000, 5000),
                rule="case = generated (config, relationships, queries) incl. chains / wide nodes / dense diamonds straddling the limits, run on the real engine over a grid of "
                     "global depth g in {1,2,3,5,8} (+ every effective depth), width w in {1,3,100} (thorough: +2) and request depth r in {-3,0,1,2,3,g-1,g,g+1,1000}; "
                     "oracles: allowed under a limit => allowed by the unbounded reference semantics; answer(r,g,w) = answer(0,eff(r,g),w) on the same database (a mismatch is re-run 5x per side; "
                     "only a deterministic difference is a violation, nondeterminism under a binding limit is counted); non-trivial = a grid point whose run logged a depth/width cut; distinct by (case, g, w, r, query)"),
    "C03": dict(test="TestC03", level="fault_enumeration", runs=[("", "plain", 16)], timeout=(900, 5400), floor=(4000, 2500),
                rule="case = generated (config, relationships, queries); for every query the fault-free run is recorded (answer, N storage calls), then for EVERY k in 1..N (capped at 40 quick / 80 thorough) "
                     "the k-th storage call fails (transient, and persistent from k on) with rotating error kinds (connection refused, context canceled, deadline exceeded, sqlcon, herodot 500); "
                     "oracles: result is an error or the fault-free answer; never allowed when fault-free is denied; never Err != nil together with IsMember; REST and gRPC batch entries never allowed:true with an error; "
                     "non-trivial = a run in which the planned fault position was actually reached; distinct by (case, query, k, persistent)"),
    "C14": dict(test="TestC14", level="exploration", runs=[("", "plain", 16), ("race", "race", 8)], timeout=(1200, 7200), floor=(4000, 1500),
                rule="round = one registry with generated data and a multiset of 50-250 requests over few keys (REST check GET/POST, batch check, expand, list; gRPC check, expand, list); "
                     "determinism: every distinct request is answered alone three times (requests whose solo answer varies are excluded), then the whole multiset runs with 4/16/64 concurrent clients "
                     "under schedule perturbation (verif hook points) and GOMAXPROCS 16/2: every concurrent answer must equal the solo answer byte for byte; "
                     "race mode (-race binary, GORACE log files): routers/servers are built sequentially like ServeAll does, then the FIRST requests on the cold registry run concurrently together with REST/gRPC writers "
                     "and namespace reloads; every race-detector report is a violation (deduplicated by stack pair); non-trivial = a compared concurrent answer, distinct by (round, request), or a race round"),
    "C15": dict(test="TestC15", level="fault_enumeration", runs=[("", "plain", 16), ("selfperm", "plain", 8)], timeout=(900, 5400), floor=(1500, 60),
                rule="case = generated (config, relationships, queries) incl. cycles through subject sets, recursive traverse on cyclic parents, same-object recursion through permits under && / ! (own children), nodes with >100 children; "
                     "per query: fault-free run (N storage calls), context cancelled before start, 50 ms deadline, and for EVERY k in 1..min(N,cap): context cancelled when call k starts / returns, call k failing (transient / persistent); "
                     "monitors: the call returns (else: quiescent deadlock or storage-less spinning observed in consecutive goroutine profiles = violation, a bare watchdog = inconclusive), storage calls <= analytic bound, "
                     "after return + context release no goroutine with a keto check frame remains (stable stacks in consecutive profiles = leak); a child death on a journalled case is a violation; "
                     "non-trivial = query whose fault-free run returned; distinct by (case, query); cancel/fault positions are counted in the counters"),
    "C04": dict(test="TestC04", level="exploration", runs=[("", "plain", 16)], timeout=(900, 5400), floor=(75000, 750),
                rule="case = one generated history of 5..60 write-API operations (REST PUT / DELETE / PATCH /admin/relation-tuples, gRPC TransactRelationTuples, DeleteRelationTuples with relation_query and with the deprecated query) "
                     "over a small universe with adversarial strings, duplicates, insert+delete of one tuple in one request, unknown namespaces, missing subjects, both subject kinds, executed on a real registry (REST routers, gRPC servers, SQLite) "
                     "next to the multiset model (refstore); after EVERY step: lists of all 16 query shapes x {touched values, random universe values, unknown values} through REST and gRPC (random page size, pagination followed to the end), "
                     "3 checks against the reference semantics and 2 expands against the expand oracle on the model's rows, table row count = model size; a request that was not accepted must leave the full database dump unchanged, "
                     "invalid requests must be rejected, valid ones accepted; evaluation = one oracle decision (one listing, check, expand, dump or row-count comparison, one write verdict); "
                     "non-trivial = a step whose accepted operation changed the model multiset; distinct by (case, step)",
                assumptions=["requests carrying both subject_id and subject_set, null entries and ACTION_UNSPECIFIED deltas are not sent (outside the property / C13's inputs)",
                             "a list query naming an unknown namespace may be answered 404 / NotFound; that is read as 'no match'",
                             "checks whose run logged a depth/width cut are skipped and counted (max depth 64, width 1000: none observed)"]),
    "C06": dict(test="TestC06", level="exploration", runs=[("", "plain", 16)], timeout=(900, 5400), floor=(92000, 660),
                rule="case = one generated history in network A (as C04, plus the empty delete query, patches of 40..200 deltas) next to a fixed data set in network B over the SAME strings, on one database, "
                     "run under 4 wirings: ctx (one registry, Contextualizer takes the network from the request context / gRPC metadata; REST, gRPC and handler-level calls), persisters (two sql.Persister with different nid, own traverser / mappers / engines), "
                     "and both again below the string->UUID mapping (raw: Manager + engines with internal tuples whose UUIDs are identical in A and B, the only way to exercise nid predicates that the per-network UUIDv5 mapping shadows); "
                     "after EVERY step of A: 32 lists (16 shapes x 2 value sets), 6 checks, 3 expands of B and B's part of the database dump (rows with nid=B + B's uuid mappings) equal their values before the history; "
                     "A's lists / checks / expands equal the model of A (a surplus explained by B's rows is a leak); no row carries another nid, every uuid mapping is UUIDv5(A|B, string); "
                     "evaluation = one oracle decision; non-trivial = a step whose accepted operation changed A's multiset while B holds rows over the same strings; distinct by (case, wiring, step)",
                assumptions=["the gRPC transport of the ctx wiring conveys the network id as request metadata read by the Contextualizer (a server-side context cannot inherit client context values)",
                             "the raw wirings bypass the Mapper, hence namespace validation; they judge Manager / traverser / engine isolation only"]),
    "C07": dict(test="TestC07", level="exploration", runs=[("", "plain", 16), ("race", "race", 4)], race_scale=(0.1, 0.03), timeout=(900, 5400), floor=(2900, 2000),
                rule="families: iter (6 of 8 cases) = a stored multiset whose matches for one query of a random shape number m in {0,1,2,99,100,101,199,200,201,250}, plus non-matching and volatile rows; the query is listed to the end for every page size in "
                     "{0,1,2,3,50,100,101,1000,m-1,m,m+1} through Manager.GetRelationTuples, REST and gRPC (rotating): concatenation = match multiset, |page| <= effective size, token empty exactly when nothing remains; then up to 4 sizes again while a writer "
                     "(another transport) inserts and deletes other rows between page fetches: stable rows exactly once, volatile rows at most as often as they existed, nothing else; token (1 of 8) = truncated / non-UUID tokens must be client errors on all transports, "
                     "other spellings of a token = same page or client error, a re-sent token = the same continuation, foreign UUIDs = client error or matches only, negative / non-numeric sizes = client error, sizes up to MaxInt64 = one full page or client error; "
                     "internal (1 of 8) = expand and tuple-to-subject-set check over up to 250 children through keto's ManagerWrapper forcing page sizes 1..3 and through REST / gRPC, subject-set expansion over 999..2001 subject sets (the traverser's own paging); "
                     "evaluation = one complete listing, one token / size probe, one internal expand or check; non-trivial = a listing that needed >= 2 pages, a token probe, or an internal consumer run over more than one page",
                assumptions=["tokens are treated as opaque except that the token issued after row i of an iteration, sent again with the same query and size on an unchanged store, must give the same continuation",
                             "the writer runs between page fetches (deterministic interleaving), not concurrently with a page query"]),
    "C08": dict(test="TestC08", level="exploration", runs=[("", "plain", 16)], timeout=(900, 5400), floor=(186000, 8000),
                rule="case = generated (configuration loaded as AST / OPL / OPL strict, relationships incl. adversarial names, global max-depth in {2,3,5,8}, limit.max_batch_check_size in {5,8}) + ~18 probe tuples "
                     "(stored, generated queries, adversarial names, unseen names, unknown namespace, unknown subject-set namespace, undeclared relation) x max-depth {absent,0,1,2,3,big,negative} "
                     "x {REST GET/POST mirror + openapi, gRPC Check with tuple and with the deprecated flat fields} + ~14 batches (sizes 0..limit and limit+1, duplicates, a shuffle, an invalid entry at every position) "
                     "through REST and gRPC batch check, all on one registry; evaluation = one oracle decision (one transport answer or one batch entry judged against the engine's decision for that tuple and depth, "
                     "one mirror/openapi status rule, one batch request); a disagreement is re-run 8x per side interleaved and only disjoint outcome sets are a violation "
                     "(the rest is counted as nondeterministic_under_binding_limit); "
                     "non-trivial = a (case, probe, max-depth) point where the engine answers 'allowed' for a tuple that is not itself stored, or where a depth/width cut was logged; "
                     "or a batch whose entries have at least two different engine decisions (so order and cross-talk are observable), distinct by (case, batch, transport)",
                assumptions=["decision = allowed | denied; an error answer is 'no decision': it equals 'not allowed' where the property says so (unknown namespace, malformed entry, engine error) and is reported under its own signature class where the engine decides",
                             "null batch entries and absent gRPC subjects are C13's inputs and are not sent; names are valid UTF-8 (JSON and proto3 cannot carry others)",
                             "checks that hit the 10 s request timeout give no decision; the case is then abandoned (also after 90 s), counted, never judged"]),
    "C09": dict(test="TestC09", level="exploration", runs=[("", "plain", 16)], timeout=(900, 5400), floor=(37000, 1600),
                rule="case = a relationship multiset (chain, layered diamond, cycle / self loop, node with 101-250 children, 'reached deep first, shallow later' shape, random graph, C02's chain generator with its rewrite configuration) "
                     "inserted 8 (thorough: 16) times into the wiped database (random shard ids = random expansion order) x 1-2 root subject sets x request depth {1..6, 0, -2, 1000000} under 1-2 global limits "
                     "x {expand engine + ToTree, REST GET /relation-tuples/expand, gRPC Expand}; evaluation = one returned tree judged (root, every edge is a stored relationship with multiplicity, no subject set expanded twice, "
                     "levels <= effective depth, every subject at distance <= eff-1 present; REST/gRPC trees equal to the engine's tree inherit its verdict), plus one differential per (case, root): subject-id nodes of the "
                     "tree = subjects allowed by the real check engine (rewrite-free configurations, depth not binding); "
                     "non-trivial = an engine tree in which a subject set below the root is expanded, or a subject set with relationships recurs as a leaf, or a node has more than 100 children; distinct by (case, root, effective depth, tree)",
                assumptions=["depth convention: root = level 1, a tree has at most eff levels and shows the subjects at edge distance <= eff-1 (internal/expand/engine.go, keto's test 'respects max depth')",
                             "which child is expanded first is keto's random shard_id order: a replay re-inserts the multiset and may need several insertions to show an order-dependent defect again (8/16 per case)",
                             "an expansion that does not return within 20 s is inconclusive unless the goroutine dump shows buildTreeRecursive nested deeper than the effective depth"]),
    # C05: mode "faults" = statement faults (SQLite triggers on a poison row) + invalid positions + fault-free controls; mode "isolation" = concurrent
    # histories (porcupine + direct oracle) on the WAL database and, labelled, the shared-cache memory DSN; mode "crash" = SIGKILL at the N-th
    # pwrite64/fsync/fdatasync (strace) of a child performing one 6001/201 transact
    "C05": dict(test="TestC05", level="fault_enumeration", runs=[("faults", "plain", 8), ("isolation", "plain", 8), ("crash", "plain", 4), ("isolation-race", "race", 4)], race_scale=(0.25, 0.02), timeout=(1200, 7200), floor=(900, 800), ulimit_f_kb=2097152,
                rule="faults: case = one write request (Manager.Write/Delete/TransactRelationTuples, REST PATCH/PUT/DELETE, gRPC Transact/Delete) with |I| in {1,2,2999,3000,3001,6001} (+7501 for the second uuid-mapping chunk), "
                     "|D| in {0,1,99,100,101,201}, and ONE failure: RAISE(ABORT) or RAISE(FAIL) from a SQLite trigger on a poison row placed in every chunk of the tuple INSERT (3000), tuple DELETE (100) and uuid-mapping INSERT (15000), "
                     "or a nil subject / unknown namespace / unknown subject-set namespace at position {0,1,mid,chunk edge-1,chunk edge,last} of a 6001/201 request; oracle: the request fails and the full database dump is unchanged "
                     "(relationships strictly; uuid-mapping leftovers under their own signature); fault-free controls: success and relationships = apply(I,D,before). "
                     "isolation: case = one history (<= 200 client calls: W in {1,2,4} writers, each round one multi-chunk transact (>3000 inserts, >100 deletes) + one multi-row delete by query on its own marker set; 4-8 readers woken from the hook points "
                     "between the SQL chunks, single-statement list/exists/check through Manager, REST, gRPC), stamps from one atomic counter, checked by porcupine against the sequential multiset model (failed write = no effect, timed-out call open) "
                     "plus the direct partial-application oracle on every list. crash: case = one (journal mode, path, syscall, N[, main-db-file only]) kill point; oracle: reopened database in {before, after}, integrity_check ok. "
                     "evaluation = one judged request / one judged list read / one porcupine verdict / one reopened database; "
                     "non-trivial = a failed request that had already executed >= 1 SQL statement of the same request, a successful read overlapping a successful transact of the same marker set, or a kill that actually happened after the transact started; distinct by case (and read)",
                assumptions=["crash points are process kills (SIGKILL through strace) on SQLite: the page cache survives, nothing is claimed about power loss",
                             "strace's when=N counts per thread; which kill points fired is recorded in the counters (fdatasync is never issued by this SQLite build)",
                             "lock errors of the shared-cache memory DSN ('database table is locked', 'Unable to serialize access') are failed operations, reported under mem_* counters, never violations",
                             "porcupine timeouts and harness deadlines give no verdict (inconclusive)"]),
    "C16": dict(test="TestC16", level="exploration", runs=[("", "plain", 16), ("race", "race", 6)], race_scale=(0.08, 0.02), timeout=(900, 5400), floor=(25000, 600),
                rule="case = one generated batch of 1..350 API tuples over a pool of adversarial names (modes distinct / repeat-heavy / obj-eq-subj / mixed / page-edge / adversarial-small), "
                     "run through the real Mapper + SQLite persister (FromTuple/ToTuple/FromQuery/ToQuery/FromSubjectSet/ToTree, MapStringsToUUIDs[ReadOnly], MapUUIDsToStrings) and, for the valid-UTF-8 tuples, "
                     "through REST PUT/PATCH + gRPC Transact -> list (REST+gRPC, paged) -> list by name -> expand -> check on a fresh database; evaluation = one oracle decision (a position-wise / multiset comparison); "
                     "non-trivial = batch of more than one tuple that repeats a string or has more than 100 distinct strings (crosses the lookup page); distinct by case",
                assumptions=["names that are not valid UTF-8 are exercised at the mapper API only (JSON and proto3 cannot carry them)",
                             "UUIDv5 collisions are out of reach", "gRPC write requests are kept below the server's default 4 MiB receive limit"]),
    "C17": dict(test="TestC17", level="exploration", runs=[("", "plain", 16)], timeout=(900, 5400), floor=(37000, 13000),
                rule="case = generated (configuration, stored relationships) + a sequence of 30 read/syntax API requests (17 kinds: 9 REST incl. all 5 check variants, expand, list, namespaces, OPL syntax check and the write router's DELETE by a non-matching query; "
                     "8 gRPC: Check, BatchCheck, Expand, ListRelationTuples, ListNamespaces, Syntax Check, DeleteRelationTuples non-matching) in flavours known / unseen names / unknown namespace / malformed; "
                     "evaluation = one full-database dump comparison (after every request, plus one per sequence); "
                     "non-trivial = a request that mentions at least one name absent from the database and was answered by the handler (2xx/403/404, gRPC OK/NotFound), i.e. reached the mapping layer; distinct by (case, request position)",
                assumptions=["inputs owned by C13 (null batch entries, absent gRPC subjects that handlers dereference) are not sent; handler panics and 5xx answers are counted, not judged"]),
    "C18": dict(test="TestC18", level="exploration", runs=[("", "plain", 16)], timeout=(900, 5400), floor=(12000000, 7500),
                rule="case = 192 generated API tuples (half projected into the string domain), 96 API queries, 256 arbitrary separator-rich strings and 4 parse-command files; "
                     "evaluation = one oracle decision (one value through one encoding: JSON, URL query, proto FromProto / FromDataProvider, string form on its domain, the arbitrary-string re-parse clause, one parse-command file); "
                     "non-trivial = case containing at least one in-domain tuple with separator characters in non-significant positions and at least one arbitrary string accepted by FromString; distinct by case "
                     "(value-level counts are in the counters)",
                assumptions=["JSON / URL / proto round trips are claimed for valid UTF-8 field contents (the encodings cannot carry other byte strings)",
                             "the string-form domain is the one stated at the top of harness/verifh/c18_test.go"]),
    "C10": dict(test="TestC10", level="exploration", runs=[("", "plain", 16)], timeout=(900, 5400), floor=(9000, 29000),
                rule="case = generated namespace AST (all operator kinds, nesting of '(' and '!' up to the documented limit 10) rendered to OPL text with random documented spellings, "
                     "parsed by the real schema.Parse and compared with the generating AST (declarations, truth table over the distinct leaves, structure up to flattening); "
                     "every 50th (quick) / 400th (thorough) index additionally runs a standalone permission end to end on a server configured with the text; "
                     "non-trivial = a permission of a judged case, distinct by (case, namespace, permission), or an executed end-to-end case",
                assumptions=["TypeScript itself is not executed: 'what TypeScript means' is !, &&, || with the standard precedence; the renderer's expressions were cross-checked against node (TestC10RendererSelfTest)",
                             "cases whose rendering nests deeper than the documented limit (10) are outside the property and only counted"]),
    "C11": dict(test="TestC11", level="exploration", runs=[("", "plain", 16)], timeout=(900, 5400), floor=(34000, 25000),
                rule="evaluation = one real-engine check of a declared (namespace, relation) on an accepted, well-typed generated program with type-conforming tuples (default and strict mode), "
                     "or one single-reference mutation (undeclared name) judged by schema.Parse incl. the error span; "
                     "non-trivial = a check that needed >= 2 storage calls, distinct by (case, mode, query), or a mutation, distinct by (case, site)",
                assumptions=["'well typed' and 'conforming' are the harness's reading of the spec's type rules (cfgTypeErrors / conforms in c11_test.go)",
                             "checks that hit the wall-clock timeout give no decision and are only counted"]),
    "C12": dict(test="TestC12", level="exploration", runs=[("", "plain", 16), ("race", "race", 6)], race_scale=(0.05, 0.02), timeout=(900, 5400), floor=(180000, 130000),
                rule="evaluation = one input (random bytes, invalid UTF-8, token soups, valid and mutated programs, unterminated strings/comments at every offset, nesting 1..200, "
                     "long identifiers, CRLF, multibyte text, sizes up to 1 MiB, type-check fan-out family, operator placements) through schema.Parse under the step budget "
                     "100*(len+64) with the panic / result / position / rendering oracles, a deterministic quarter of them also through REST and gRPC; "
                     "non-trivial = the parser consumed >= 3 tokens; distinct by input bytes",
                assumptions=["'linear' is decided on hook steps (lexer rune reads, parser token reads, emitted errors, type-check recursions), never on the clock; work that passes no hook (namespace lookup in the type checker, error position computation) is not measured",
                             "inputs are at most 1 MiB"]),
    # C13: mode "" = every REST route / gRPC method with one named mutation per request, except the requests whose mutated part is
    # consumed on an unrecovered worker goroutine (batch-check tuple elements); mode "fatal" = only those, in many tiny children,
    # because a process-fatal input costs the whole child (only complete results are counted).
    "C13": dict(test="TestC13", level="exploration", runs=[("", "plain", 32), ("fatal", "plain", 64)], timeout=(900, 5400), floor=(15000, 250),
                rule="case = one request (REST through the real routers parsed by net/http's request reader, gRPC through the real in-process servers and "
                     "again by calling the handler method directly) derived from the OpenAPI/proto shape of a route and changed by ONE named mutation, "
                     "against a registry holding 3-8 relationships; evaluation = one request answered and judged (panic, status class, state dump, 2xx body shape); "
                     "non-trivial = the request was dispatched to a keto handler (not answered by httprouter/net/http itself); distinct by (route, mutation class, answer class)"),
    # C19: mode "" = plain binary; mode "race" = the same monitor (fewer histories) under the race detector (reports become <prop>:data-race:... violations)
    "C19": dict(test="TestC19", level="exploration", runs=[("", "plain", 16), ("race", "race", 8)], timeout=(900, 5400), floor=(250000, 800),
                rule="case = one edit history (3-12 steps: valid / syntactically invalid / type-invalid / empty / removed-and-recreated versions, written atomically or in place) of the files of one "
                     "watched target (OPL file, OPL directory, legacy directory, legacy file) with 2-4 samplers polling the namespace manager, REST GET /namespaces and gRPC ListNamespaces; "
                     "evaluation = one (sample, watched file) decision of the version-admissibility oracle (plus one per file for the final bounded-progress check); "
                     "non-trivial = a sample was attributed to a version other than the initial one, i.e. a reload was actually observed; distinct by (history, file, version)",
                assumptions=["file events are those Linux inotify delivers through fsnotify on the scratch filesystem; other platforms' watcher behaviour is not covered",
                             "the meaning ns(v) of a file content is computed with keto's own parsers (schema.Parse, config.GetParser); parser defects are C10/C12's business"]),
}

ASSUMPTIONS_COMMON = [
    "SQLite (cgo, -tags sqlite) is the only reachable database; nothing is claimed about PostgreSQL/MySQL/CockroachDB",
    "the reference models in /verif/harness/verifh are the trusted base",
    "schedules explored are those the Go scheduler produces under perturbation at storage calls and verif hook points",
]


def load_known():
    p = os.path.join(VERIF, "known_findings.json")
    try:
        return json.load(open(p)).get("findings", [])
    except OSError:
        return []


def match_known(known, prop, sig):
    for k in known:
        if k.get("property") != prop or k.get("status") != "known":
            continue
        for pat in k.get("signatures", []):
            if fnmatch.fnmatchcase(sig, pat):
                return k
    return None


def build(kinds):
    r = subprocess.run([sys.executable, os.path.join(VERIF, "tools", "build.py"), "both" if len(kinds) > 1 else kinds[0]],
                       stdout=subprocess.PIPE, stderr=subprocess.PIPE, text=True)
    if r.returncode != 0:
        sys.stdout.write(r.stdout)
        sys.stderr.write(r.stderr)
        return False
    return True


def death_signature(logpath):
    """Classify a child death from its captured output."""
    try:
        with open(logpath, "rb") as f:
            data = f.read(4 << 20).decode("utf-8", "replace")
    except OSError:
        return "unknown", ""
    cls = "unknown"
    first = ""
    for line in data.splitlines():
        if line.startswith("fatal error:") or line.startswith("panic:") or "WARNING: DATA RACE" in line or line.startswith("SIGQUIT"):
            first = line.strip()
            break
    if "stack overflow" in data[:20000] or "goroutine stack exceeds" in data[:20000]:
        cls = "stack-overflow"
    elif first.startswith("fatal error: checkptr"):
        cls = "checkptr"
    elif first.startswith("fatal error: all goroutines are asleep"):
        cls = "deadlock"
    elif first.startswith("fatal error:"):
        cls = "fatal:" + first[len("fatal error:"):].strip()[:40]
    elif first.startswith("panic:"):
        msg = first[len("panic:"):].strip()
        if "nil pointer" in msg:
            cls = "panic:nil-deref"
        elif "index out of range" in msg or "slice bounds" in msg:
            cls = "panic:bounds"
        else:
            cls = "panic:" + msg[:40]
    elif first.startswith("SIGQUIT"):
        cls = "watchdog"
    frames = []
    for line in data.splitlines():
        s = line.strip()
        if s.startswith("github.com/ory/keto/") and "/verifh" not in s:
            fn = s.split("(")[0] if "(" in s else s
            fn = s[:s.rfind("(")] if "(" in s else s
            fn = fn.replace("github.com/ory/keto/", "")
            if fn not in frames:
                frames.append(fn)
            if len(frames) >= 3:
                break
    return cls, "<".join(frames)


def journal_open_cases(jpath):
    """Return the journalled cases that have a begin but no end record."""
    open_cases = {}
    try:
        with open(jpath, "rb") as f:
            for raw in f:
                try:
                    rec = json.loads(raw)
                except Exception:
                    continue
                key = (rec.get("idx"), rec.get("sub", ""))
                if rec.get("ev") == "begin":
                    open_cases[key] = rec
                elif rec.get("ev") == "end":
                    open_cases.pop(key, None)
    except OSError:
        pass
    return list(open_cases.values())


def run_children(prop, cfg, tier, seed, workdir, replay=None):
    """Launch all (mode, shard) children; returns list of child records."""
    tmo = cfg["timeout"][1 if tier == "thorough" else 0]
    children = []
    jobs = []
    for (mode, kind, shards) in cfg["runs"]:
        if replay is not None:
            if (replay.get("mode") or "") != mode:
                continue
            shards = 1
        for sh in range(shards):
            jobs.append((mode, kind, sh, shards))
    maxpar = int(os.environ.get("VERIF_PARALLEL", NCPU))
    pending = list(jobs)
    running = []
    scratch = os.path.join(workdir, "scratch")
    os.makedirs(scratch, exist_ok=True)

    def start(job):
        mode, kind, sh, shards = job
        tag = "%s.%s.%d" % (prop, mode or "main", sh)
        logpath = os.path.join(workdir, "log.%s.txt" % tag)
        env = dict(os.environ)
        env.update({
            "VERIF_SEED": str(seed), "VERIF_TIER": tier, "VERIF_SHARD": "%d/%d" % (sh, shards),
            "VERIF_OUT": workdir, "VERIF_MODE": mode, "VERIF_SCRATCH": scratch, "VERIF_DIR": VERIF,
            "GOTRACEBACK": "all", "TMPDIR": scratch,
        })
        if kind == "race":
            env["GORACE"] = "halt_on_error=0 log_path=%s" % os.path.join(workdir, "race.%s" % tag)
            if "race_scale" in cfg and not os.environ.get("VERIF_SCALE"):
                rs = cfg["race_scale"]  # the -race build is 5-15x slower; (quick, thorough) or one value
                if isinstance(rs, tuple):
                    rs = rs[1] if tier == "thorough" else rs[0]
                env["VERIF_SCALE"] = str(rs)
        if replay is not None:
            env["VERIF_REPLAY_INDEX"] = str(replay["index"])
            env["VERIF_REPLAY_SUB"] = str(replay.get("sub", ""))
        binary = RACE if kind == "race" else PLAIN
        # cap the output file (a stack overflow dump can be hundreds of MB)
        # (the cap applies to every file the child writes; C05's WAL files grow past 200 MB while readers pin snapshots => per-property override)
        cmd = "ulimit -f %d; exec timeout -s QUIT -k 20 %d %s -test.run '^%s$' -test.timeout 0 -test.v" % (cfg.get("ulimit_f_kb", 204800), tmo, binary, cfg["test"])
        lf = open(logpath, "wb")
        p = subprocess.Popen(["bash", "-c", cmd], cwd=scratch, env=env, stdout=lf, stderr=subprocess.STDOUT, start_new_session=True)
        return dict(job=job, proc=p, log=logpath, lf=lf, tag=tag, t0=time.time(), kind=kind)

    rss_limit = float(os.environ.get("VERIF_RSS_LIMIT_GB", "8")) * (1 << 30)
    last_scan = 0.0
    while pending or running:
        while pending and len(running) < maxpar:
            running.append(start(pending.pop(0)))
        time.sleep(0.2)
        # memory watchdog: a child (process group) whose resident set exceeds the
        # limit is killed; the supervisor reports it as a process death on the
        # journalled case (an input that makes the server allocate without bound)
        if time.time() - last_scan > 1.0:
            last_scan = time.time()
            usage = _rss_by_pgrp()
            for c in running:
                # the race detector's shadow memory multiplies the footprint of the harness itself
                lim = rss_limit * (2 if c.get("kind") == "race" else 1)
                if usage.get(c["proc"].pid, 0) > lim and not c.get("killed_rss"):
                    c["killed_rss"] = usage.get(c["proc"].pid, 0)
                    try:
                        os.killpg(c["proc"].pid, signal.SIGKILL)
                    except OSError:
                        pass
        still = []
        for c in running:
            rc = c["proc"].poll()
            if rc is None:
                still.append(c)
            else:
                c["rc"] = rc
                c["wall"] = time.time() - c["t0"]
                c["lf"].close()
                children.append(c)
        running = still
    return children


def _rss_by_pgrp():
    """resident set size in bytes per process group (children run in their own session/group)"""
    out = {}
    page = os.sysconf("SC_PAGE_SIZE")
    for d in os.listdir("/proc"):
        if not d.isdigit():
            continue
        try:
            with open("/proc/%s/stat" % d) as f:
                st = f.read()
            rest = st[st.rindex(")") + 2:].split()
            pgrp = int(rest[2])
            rss = int(rest[21]) * page
            out[pgrp] = out.get(pgrp, 0) + rss
        except (OSError, ValueError, IndexError):
            continue
    return out


def main():
    ap = argparse.ArgumentParser()
    ap.add_argument("prop")
    ap.add_argument("--tier", default=os.environ.get("VERIF_TIER", "quick"))
    ap.add_argument("--replay")
    ap.add_argument("--keep", action="store_true")
    ap.add_argument("--no-evidence", action="store_true", help="do not rewrite evidence/<id>.json (used when checking a scratch copy of the repository)")
    args = ap.parse_args()
    prop = args.prop
    if prop not in PROPS:
        print("unknown property", prop)
        sys.exit(2)
    cfg = PROPS[prop]
    tier = "thorough" if args.tier == "thorough" else "quick"
    seed = int(os.environ.get("VERIF_SEED", "1") or 1)
    t0 = time.time()

    replay = None
    if args.replay:
        replay = json.load(open(args.replay))
        seed = int(replay.get("seed", seed))
        tier = replay.get("tier", tier)

    kinds = sorted({k for (_, k, _) in cfg["runs"]})
    if not build(kinds):
        print("INCONCLUSIVE property=%s reason=build-failed" % prop)
        sys.exit(2)

    workdir = tempfile.mkdtemp(prefix="verif-%s-" % prop, dir=os.environ.get("VERIF_WORKROOT", "/tmp"))
    try:
        rc = supervise(prop, cfg, tier, seed, workdir, replay, t0, write_evidence=not args.no_evidence)
    finally:
        if not args.keep:
            shutil.rmtree(workdir, ignore_errors=True)
        else:
            print("workdir kept:", workdir)
    sys.exit(rc)


def supervise(prop, cfg, tier, seed, workdir, replay, t0, write_evidence=True):
    known = load_known()
    children = run_children(prop, cfg, tier, seed, workdir, replay)

    evaluations = 0
    nontriv = set()
    counters = {}
    sets = {}
    samples = []
    violations = []
    inconclusive = []
    for c in children:
        mode, kind, sh, shards = c["job"]
        suffix = "%s.%d" % (prop, sh) if not mode else "%s.%s.%d" % (prop, mode, sh)
        rpath = os.path.join(workdir, "result.%s.json" % suffix)
        jpath = os.path.join(workdir, "journal.%s.jsonl" % suffix)
        res = None
        try:
            res = json.load(open(rpath))
        except Exception:
            res = None
        if res is None or not res.get("complete"):
            cls, frames = death_signature(c["log"])
            opens = journal_open_cases(jpath)
            if c.get("killed_rss") and kind == "race":
                # memory of a race-instrumented child is not comparable (shadow memory); the
                # plain children of the same property carry the memory verdict
                inconclusive.append("child %s (race build) exceeded the memory limit of the watchdog (%.1f GiB) and was stopped" % (c["tag"], c["killed_rss"] / float(1 << 30)))
            elif c.get("killed_rss"):
                oc = opens[0] if opens else {}
                violations.append(dict(property=prop, index=oc.get("idx", -1), sub=oc.get("sub", ""), mode=mode,
                                       sig="%s:process-death:memory-exhaustion" % prop,
                                       summary="child process reached %.1f GiB resident memory while executing a journalled case and was killed by the supervisor (limit VERIF_RSS_LIMIT_GB)" % (c["killed_rss"] / float(1 << 30)),
                                       case=oc.get("case"), detail={"open_cases": [(o.get("idx"), o.get("sub")) for o in opens][:5]}))
            elif c["rc"] in (124, 137) or cls == "watchdog":
                inconclusive.append("child %s hit the wall-clock watchdog (rc=%s); open cases: %s" % (c["tag"], c["rc"], [(o.get("idx"), o.get("sub")) for o in opens][:3]))
                _keep_log(c, prop)
            else:
                sig = "%s:process-death:%s:%s" % (prop, cls, frames)
                oc = opens[0] if opens else {}
                violations.append(dict(property=prop, index=oc.get("idx", -1), sub=oc.get("sub", ""), sig=sig, mode=mode,
                                       summary="child process died (%s, rc=%s) %s; top keto frames: %s" % (cls, c["rc"], "while executing a journalled case" if opens else "outside any journalled case (set-up or tear-down call into keto)", frames),
                                       case=oc.get("case"), detail={"log_tail": _tail(c["log"])}))
            # partial results of a dead child are still counted from its journal? no: only complete results count
            continue
        evaluations += res.get("evaluations", 0)
        nontriv.update("%s/%s" % (mode, s) for s in (res.get("nontrivial_sigs") or []))
        for k, v in (res.get("counters") or {}).items():
            counters[k] = max(counters.get(k, 0), v) if k.startswith("max_") else counters.get(k, 0) + v
        for k, v in (res.get("sets") or {}).items():
            sets.setdefault(k, set()).update(v)
        for s in (res.get("samples") or []):
            if len(samples) < 4:
                samples.append(s)
        for v in (res.get("violations") or []):
            v["mode"] = mode
            violations.append(v)
        for m in (res.get("inconclusive") or []):
            inconclusive.append(m)
        # race reports (race binary): counted from the log files
    race_reports = _collect_race_reports(workdir, prop)
    for rr in race_reports:
        violations.append(rr)

    # classify
    known_hits = {}
    fresh = []
    for v in violations:
        k = match_known(known, prop, v["sig"])
        if k is not None:
            known_hits.setdefault(k["id"], (k, 0))
            known_hits[k["id"]] = (k, known_hits[k["id"]][1] + 1)
        else:
            fresh.append(v)

    os.makedirs(os.path.join(VERIF, "replays"), exist_ok=True)
    out_lines = []
    for kid, (k, n) in sorted(known_hits.items()):
        out_lines.append("KNOWN-FINDING: property=%s %s [%s, seen %d time(s) in this run]" % (prop, k["summary"], kid, n))
    seen_sigs = {}
    for v in fresh:
        n = seen_sigs.get(v["sig"], 0)
        seen_sigs[v["sig"]] = n + 1
        if n >= 3:
            continue  # at most three witnesses per signature
        path = os.path.join(VERIF, "replays", "%s-%s-%d.json" % (prop, _slug(v["sig"]), n))
        rec = dict(property=prop, seed=seed, tier=tier, index=v.get("index", -1), sub=v.get("sub", ""), mode=v.get("mode", ""),
                   sig=v["sig"], summary=v.get("summary"), case=v.get("case"), detail=v.get("detail"))
        with open(path, "w") as f:
            json.dump(rec, f, indent=1, default=str)
        out_lines.append("VIOLATION property=%s replay=%s" % (prop, path))
        out_lines.append("  signature: %s" % v["sig"])
        out_lines.append("  %s" % (v.get("summary") or "")[:600])

    wall = time.time() - t0
    coverage = dict(
        evaluations=int(evaluations),
        distinct_nontrivial=len(nontriv),
        rule=cfg.get("rule", ""),
        samples=samples if samples else [{"note": "no sample recorded"}],
        counters=counters,
        distinct_sets={k: len(v) for k, v in sets.items()},
        children=len(children),
        known_findings_seen={kid: n for kid, (k, n) in known_hits.items()},
        unlisted_violation_signatures=seen_sigs,
        inconclusive=inconclusive[:20],
    )
    ev = dict(property_id=prop, tier=tier, seed=seed, level=cfg["level"], coverage=coverage,
              assumptions=ASSUMPTIONS_COMMON + cfg.get("assumptions", []), wall_s=round(wall, 2), violations=len(fresh))
    if replay is None and write_evidence:
        os.makedirs(os.path.join(VERIF, "evidence"), exist_ok=True)
        tmp = os.path.join(VERIF, "evidence", prop + ".json.tmp")
        with open(tmp, "w") as f:
            json.dump(ev, f, indent=1, default=str)
        os.replace(tmp, os.path.join(VERIF, "evidence", prop + ".json"))

    for l in out_lines:
        print(l)
    print("property=%s tier=%s seed=%d evaluations=%d distinct_nontrivial=%d children=%d wall=%.1fs" % (
        prop, tier, seed, evaluations, len(nontriv), len(children), wall))
    print("counters:", json.dumps(counters, sort_keys=True))
    print("distinct:", json.dumps({k: len(v) for k, v in sets.items()}, sort_keys=True))
    if fresh:
        return 1
    if replay is not None:
        print("replay: no violation reproduced")
        return 0
    if inconclusive:
        for m in inconclusive[:10]:
            print("INCONCLUSIVE:", m)
    fl = cfg.get("floor", (1, 2))
    hard_inconclusive = [m for m in inconclusive if "watchdog" in m]
    if evaluations < fl[0] or len(nontriv) < fl[1] or hard_inconclusive:
        print("INCONCLUSIVE property=%s observation floor not reached (evaluations %d/%d, nontrivial %d/%d) or watchdog fired" % (
            prop, evaluations, fl[0], len(nontriv), fl[1]))
        return 2
    return 0


def _tail(path, n=3000):
    try:
        with open(path, "rb") as f:
            data = f.read(20000).decode("utf-8", "replace")
        return data[:n]
    except OSError:
        return ""


def _keep_log(c, prop):
    try:
        d = os.path.join(VERIF, "replays")
        os.makedirs(d, exist_ok=True)
        with open(c["log"], "rb") as f:
            data = f.read(200000)
        with open(os.path.join(d, "%s-watchdog-%s.log" % (prop, c["tag"])), "wb") as o:
            o.write(data)
    except OSError:
        pass


def _slug(s):
    out = []
    for ch in s:
        out.append(ch if ch.isalnum() else "_")
    return "".join(out)[:80]


def _collect_race_reports(workdir, prop):
    """Parse race detector logs (GORACE log_path): dedupe by stack pair with line numbers stripped."""
    reports = {}
    for path in glob.glob(os.path.join(workdir, "race.*")):
        try:
            data = open(path, errors="replace").read()
        except OSError:
            continue
        blocks = data.split("==================")
        for b in blocks:
            if "WARNING: DATA RACE" not in b:
                continue
            frames = []
            keto = []
            for line in b.splitlines():
                s = line.strip()
                if s.startswith("github.com/") or s.startswith("runtime.") or s.startswith("sync") or (s and s[0].isalpha() and s.endswith(")") and "." in s):
                    fn = s[:s.rfind("(")] if s.endswith(")") else s
                    frames.append(fn)
                    if s.startswith("github.com/ory/keto/") and "/verifh" not in s:
                        keto.append(fn.replace("github.com/ory/keto/", ""))
            key = "|".join(frames[:12])
            if key in reports:
                reports[key]["count"] += 1
                continue
            top = "<".join(keto[:2]) if keto else "no-keto-frame"
            reports[key] = dict(property=prop, index=-1, sub="", sig="%s:data-race:%s" % (prop, top),
                                summary="race detector report: %s" % (" / ".join(keto[:4]) or "dependency-only stacks"),
                                case=None, detail={"report": b[:6000]}, count=1)
    return list(reports.values())


if __name__ == "__main__":
    main()
