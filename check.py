#!/usr/bin/env python3
"""Supervisor of the runtime-monitoring checks (entry point of every MANIFEST command).

usage: check.py <PROPERTY_ID> [--tier quick|thorough] [--replay FILE] [--keep]

Rebuilds the harness test binaries against /repo's current working tree (hooks on),
runs the property's monitors in child processes (one per shard / mode), aggregates
what the monitors observed, classifies violations against known_findings.json,
writes evidence/<ID>.json and exits
  0  property held on everything explored (known findings are listed, not alarms)
  1  at least one violation that known_findings.json does not list (VIOLATION line)
  2  could not decide (build failure, watchdog, observation floor not reached)
"""
import argparse
import fnmatch
import glob
import json
import os
import shutil
import signal
import subprocess
import sys
import tempfile
import time

VERIF = os.path.dirname(os.path.abspath(__file__))
BUILD = os.path.join(VERIF, ".build")
PLAIN = os.path.join(BUILD, "bin", "verifh.test")
RACE = os.path.join(BUILD, "bin", "verifh.race.test")
NCPU = os.cpu_count() or 4

# ---------------------------------------------------------------------------
# per-property configuration
#   runs: list of (mode, binary kind, shards) ; mode "" is the default entry
#   floor: minimal (evaluations, distinct_nontrivial) for a verdict; below => exit 2
#   crash_is_violation: a child death on a journalled case is a violation of this property
PROPS = {
    "C01": dict(test="TestC01", level="exploration", runs=[("", "plain", 16)], timeout=(900, 5400), floor=(2000, 200),
                rule="case = generated (config, relationships, 6 queries) x modes {ast-default, opl-default, opl-strict} x insertion orders/schedules; "
                     "non-trivial = the reference needed more than the direct lookup AND the engine issued >= 2 storage calls; distinct by (case, mode, query)"),
    "C02": dict(test="TestC02", level="exploration", runs=[("", "plain", 16)], timeout=(900, 5400), floor=(20000, 5000),
                rule="case = generated (config, relationships, queries) incl. chains / wide nodes / dense diamonds straddling the limits, run on the real engine over a grid of "
                     "global depth g in {1,2,3,5,8} (+ every effective depth), width w in {1,3,100} (thorough: +2) and request depth r in {-3,0,1,2,3,g-1,g,g+1,1000}; "
                     "oracles: allowed under a limit => allowed by the unbounded reference semantics; answer(r,g,w) = answer(0,eff(r,g),w) on the same database (a mismatch is re-run 5x per side; "
                     "only a deterministic difference is a violation, nondeterminism under a binding limit is counted); non-trivial = a grid point whose run logged a depth/width cut; distinct by (case, g, w, r, query)"),
    "C03": dict(test="TestC03", level="fault_enumeration", runs=[("", "plain", 16)], timeout=(900, 5400), floor=(4000, 2500),
                rule="case = generated (config, relationships, queries); for every query the fault-free run is recorded (answer, N storage calls), then for EVERY k in 1..N (capped at 40 quick / 80 thorough) "
                     "the k-th storage call fails (transient, and persistent from k on) with rotating error kinds (connection refused, context canceled, deadline exceeded, sqlcon, herodot 500); "
                     "oracles: result is an error or the fault-free answer; never allowed when fault-free is denied; never Err != nil together with IsMember; REST and gRPC batch entries never allowed:true with an error; "
                     "non-trivial = a run in which the planned fault position was actually reached; distinct by (case, query, k, persistent)"),
    # C05: mode "faults" = statement faults (SQLite triggers on a poison row) + invalid positions + fault-free controls; mode "isolation" = concurrent
    # histories (porcupine + direct oracle) on the WAL database and, labelled, the shared-cache memory DSN; mode "crash" = SIGKILL at the N-th
    # pwrite64/fsync/fdatasync (strace) of a child performing one 6001/201 transact
    "C05": dict(test="TestC05", level="fault_enumeration", runs=[("faults", "plain", 8), ("isolation", "plain", 8), ("crash", "plain", 4)], timeout=(1200, 7200), floor=(900, 800), ulimit_f_kb=2097152,
                rule="faults: case = one write request (Manager.Write/Delete/TransactRelationTuples, REST PATCH/PUT/DELETE, gRPC Transact/Delete) with |I| in {1,2,2999,3000,3001,6001} (+7501 for the second uuid-mapping chunk), "
                     "|D| in {0,1,99,100,101,201}, and ONE failure: RAISE(ABORT) or RAISE(FAIL) from a SQLite trigger on a poison row placed in every chunk of the tuple INSERT (3000), tuple DELETE (100) and uuid-mapping INSERT (15000), "
                     "or a nil subject / unknown namespace / unknown subject-set namespace at position {0,1,mid,chunk edge-1,chunk edge,last} of a 6001/201 request; oracle: the request fails and the full database dump is unchanged "
                     "(relationships strictly; uuid-mapping leftovers under their own signature); fault-free controls: success and relationships = apply(I,D,before). "
                     "isolation: case = one history (<= 200 client calls: W in {1,2,4} writers, each round one multi-chunk transact (>3000 inserts, >100 deletes) + one multi-row delete by query on its own marker set; 4-8 readers woken from the hook points "
                     "between the SQL chunks, single-statement list/exists/check through Manager, REST, gRPC), stamps from one atomic counter, checked by porcupine against the sequential multiset model (failed write = no effect, timed-out call open) "
                     "plus the direct partial-application oracle on every list. crash: case = one (journal mode, path, syscall, N[, main-db-file only]) kill point; oracle: reopened database in {before, after}, integrity_check ok. "
                     "evaluation = one judged request / one judged list read / one porcupine verdict / one reopened database; "
                     "non-trivial = a failed request that had already executed >= 1 SQL statement of the same request, a successful read overlapping a successful transact of the same marker set, or a kill that actually happened after the transact started; distinct by case (and read)",
                assumptions=["crash points are process kills (SIGKILL through strace) on SQLite: the page cache survives, nothing is claimed about power loss",
                             "strace's when=N counts per thread; which kill points fired is recorded in the counters (fdatasync is never issued by this SQLite build)",
                             "lock errors of the shared-cache memory DSN ('database table is locked', 'Unable to serialize access') are failed operations, reported under mem_* counters, never violations",
                             "porcupine timeouts and harness deadlines give no verdict (inconclusive)"]),
    "C16": dict(test="TestC16", level="exploration", runs=[("", "plain", 16)], timeout=(900, 5400), floor=(25000, 600),
                rule="case = one generated batch of 1..350 API tuples over a pool of adversarial names (modes distinct / repeat-heavy / obj-eq-subj / mixed / page-edge / adversarial-small), "
                     "run through the real Mapper + SQLite persister (FromTuple/ToTuple/FromQuery/ToQuery/FromSubjectSet/ToTree, MapStringsToUUIDs[ReadOnly], MapUUIDsToStrings) and, for the valid-UTF-8 tuples, "
                     "through REST PUT/PATCH + gRPC Transact -> list (REST+gRPC, paged) -> list by name -> expand -> check on a fresh database; evaluation = one oracle decision (a position-wise / multiset comparison); "
                     "non-trivial = batch of more than one tuple that repeats a string or has more than 100 distinct strings (crosses the lookup page); distinct by case",
                assumptions=["names that are not valid UTF-8 are exercised at the mapper API only (JSON and proto3 cannot carry them)",
                             "UUIDv5 collisions are out of reach", "gRPC write requests are kept below the server's default 4 MiB receive limit"]),
    "C17": dict(test="TestC17", level="exploration", runs=[("", "plain", 16)], timeout=(900, 5400), floor=(37000, 13000),
                rule="case = generated (configuration, stored relationships) + a sequence of 30 read/syntax API requests (17 kinds: 9 REST incl. all 5 check variants, expand, list, namespaces, OPL syntax check and the write router's DELETE by a non-matching query; "
                     "8 gRPC: Check, BatchCheck, Expand, ListRelationTuples, ListNamespaces, Syntax Check, DeleteRelationTuples non-matching) in flavours known / unseen names / unknown namespace / malformed; "
                     "evaluation = one full-database dump comparison (after every request, plus one per sequence); "
                     "non-trivial = a request that mentions at least one name absent from the database and was answered by the handler (2xx/403/404, gRPC OK/NotFound), i.e. reached the mapping layer; distinct by (case, request position)",
                assumptions=["inputs owned by C13 (null batch entries, absent gRPC subjects that handlers dereference) are not sent; handler panics and 5xx answers are counted, not judged"]),
    "C18": dict(test="TestC18", level="exploration", runs=[("", "plain", 16)], timeout=(900, 5400), floor=(12000000, 7500),
                rule="case = 192 generated API tuples (half projected into the string domain), 96 API queries, 256 arbitrary separator-rich strings and 4 parse-command files; "
                     "evaluation = one oracle decision (one value through one encoding: JSON, URL query, proto FromProto / FromDataProvider, string form on its domain, the arbitrary-string re-parse clause, one parse-command file); "
                     "non-trivial = case containing at least one in-domain tuple with separator characters in non-significant positions and at least one arbitrary string accepted by FromString; distinct by case "
                     "(value-level counts are in the counters)",
                assumptions=["JSON / URL / proto round trips are claimed for valid UTF-8 field contents (the encodings cannot carry other byte strings)",
                             "the string-form domain is the one stated at the top of harness/verifh/c18_test.go"]),
    "C10": dict(test="TestC10", level="exploration", runs=[("", "plain", 16)], timeout=(900, 5400), floor=(9000, 29000),
                rule="case = generated namespace AST (all operator kinds, nesting of '(' and '!' up to the documented limit 10) rendered to OPL text with random documented spellings, "
                     "parsed by the real schema.Parse and compared with the generating AST (declarations, truth table over the distinct leaves, structure up to flattening); "
                     "every 50th (quick) / 400th (thorough) index additionally runs a standalone permission end to end on a server configured with the text; "
                     "non-trivial = a permission of a judged case, distinct by (case, namespace, permission), or an executed end-to-end case",
                assumptions=["TypeScript itself is not executed: 'what TypeScript means' is !, &&, || with the standard precedence; the renderer's expressions were cross-checked against node (TestC10RendererSelfTest)",
                             "cases whose rendering nests deeper than the documented limit (10) are outside the property and only counted"]),
    "C11": dict(test="TestC11", level="exploration", runs=[("", "plain", 16)], timeout=(900, 5400), floor=(34000, 25000),
                rule="evaluation = one real-engine check of a declared (namespace, relation) on an accepted, well-typed generated program with type-conforming tuples (default and strict mode), "
                     "or one single-reference mutation (undeclared name) judged by schema.Parse incl. the error span; "
                     "non-trivial = a check that needed >= 2 storage calls, distinct by (case, mode, query), or a mutation, distinct by (case, site)",
                assumptions=["'well typed' and 'conforming' are the harness's reading of the spec's type rules (cfgTypeErrors / conforms in c11_test.go)",
                             "checks that hit the wall-clock timeout give no decision and are only counted"]),
    "C12": dict(test="TestC12", level="exploration", runs=[("", "plain", 16)], timeout=(900, 5400), floor=(180000, 130000),
                rule="evaluation = one input (random bytes, invalid UTF-8, token soups, valid and mutated programs, unterminated strings/comments at every offset, nesting 1..200, "
                     "long identifiers, CRLF, multibyte text, sizes up to 1 MiB, type-check fan-out family, operator placements) through schema.Parse under the step budget "
                     "100*(len+64) with the panic / result / position / rendering oracles, a deterministic quarter of them also through REST and gRPC; "
                     "non-trivial = the parser consumed >= 3 tokens; distinct by input bytes",
                assumptions=["'linear' is decided on hook steps (lexer rune reads, parser token reads, emitted errors, type-check recursions), never on the clock; work that passes no hook (namespace lookup in the type checker, error position computation) is not measured",
                             "inputs are at most 1 MiB"]),
    # C13: mode "" = every REST route / gRPC method with one named mutation per request, except the requests whose mutated part is
    # consumed on an unrecovered worker goroutine (batch-check tuple elements); mode "fatal" = only those, in many tiny children,
    # because a process-fatal input costs the whole child (only complete results are counted).
    "C13": dict(test="TestC13", level="exploration", runs=[("", "plain", 32), ("fatal", "plain", 64)], timeout=(900, 5400), floor=(15000, 250),
                rule="case = one request (REST through the real routers parsed by net/http's request reader, gRPC through the real in-process servers and "
                     "again by calling the handler method directly) derived from the OpenAPI/proto shape of a route and changed by ONE named mutation, "
                     "against a registry holding 3-8 relationships; evaluation = one request answered and judged (panic, status class, state dump, 2xx body shape); "
                     "non-trivial = the request was dispatched to a keto handler (not answered by httprouter/net/http itself); distinct by (route, mutation class, answer class)"),
    # C19: mode "" = plain binary; mode "race" = the same monitor (fewer histories) under the race detector (reports become <prop>:data-race:... violations)
    "C19": dict(test="TestC19", level="exploration", runs=[("", "plain", 16), ("race", "race", 8)], timeout=(900, 5400), floor=(250000, 800),
                rule="case = one edit history (3-12 steps: valid / syntactically invalid / type-invalid / empty / removed-and-recreated versions, written atomically or in place) of the files of one "
                     "watched target (OPL file, OPL directory, legacy directory, legacy file) with 2-4 samplers polling the namespace manager, REST GET /namespaces and gRPC ListNamespaces; "
                     "evaluation = one (sample, watched file) decision of the version-admissibility oracle (plus one per file for the final bounded-progress check); "
                     "non-trivial = a sample was attributed to a version other than the initial one, i.e. a reload was actually observed; distinct by (history, file, version)",
                assumptions=["file events are those Linux inotify delivers through fsnotify on the scratch filesystem; other platforms' watcher behaviour is not covered",
                             "the meaning ns(v) of a file content is computed with keto's own parsers (schema.Parse, config.GetParser); parser defects are C10/C12's business"]),
}

ASSUMPTIONS_COMMON = [
    "SQLite (cgo, -tags sqlite) is the only reachable database; nothing is claimed about PostgreSQL/MySQL/CockroachDB",
    "the reference models in /verif/harness/verifh are the trusted base",
    "schedules explored are those the Go scheduler produces under perturbation at storage calls and verif hook points",
]


def load_known():
    p = os.path.join(VERIF, "known_findings.json")
    try:
        return json.load(open(p)).get("findings", [])
    except OSError:
        return []


def match_known(known, prop, sig):
    for k in known:
        if k.get("property") != prop or k.get("status") != "known":
            continue
        for pat in k.get("signatures", []):
            if fnmatch.fnmatchcase(sig, pat):
                return k
    return None


def build(kinds):
    r = subprocess.run([sys.executable, os.path.join(VERIF, "tools", "build.py"), "both" if len(kinds) > 1 else kinds[0]],
                       stdout=subprocess.PIPE, stderr=subprocess.PIPE, text=True)
    if r.returncode != 0:
        sys.stdout.write(r.stdout)
        sys.stderr.write(r.stderr)
        return False
    return True


def death_signature(logpath):
    """Classify a child death from its captured output."""
    try:
        with open(logpath, "rb") as f:
            data = f.read(4 << 20).decode("utf-8", "replace")
    except OSError:
        return "unknown", ""
    cls = "unknown"
    first = ""
    for line in data.splitlines():
        if line.startswith("fatal error:") or line.startswith("panic:") or "WARNING: DATA RACE" in line or line.startswith("SIGQUIT"):
            first = line.strip()
            break
    if "stack overflow" in data[:20000] or "goroutine stack exceeds" in data[:20000]:
        cls = "stack-overflow"
    elif first.startswith("fatal error: checkptr"):
        cls = "checkptr"
    elif first.startswith("fatal error: all goroutines are asleep"):
        cls = "deadlock"
    elif first.startswith("fatal error:"):
        cls = "fatal:" + first[len("fatal error:"):].strip()[:40]
    elif first.startswith("panic:"):
        msg = first[len("panic:"):].strip()
        if "nil pointer" in msg:
            cls = "panic:nil-deref"
        elif "index out of range" in msg or "slice bounds" in msg:
            cls = "panic:bounds"
        else:
            cls = "panic:" + msg[:40]
    elif first.startswith("SIGQUIT"):
        cls = "watchdog"
    frames = []
    for line in data.splitlines():
        s = line.strip()
        if s.startswith("github.com/ory/keto/") and "/verifh" not in s:
            fn = s.split("(")[0] if "(" in s else s
            fn = s[:s.rfind("(")] if "(" in s else s
            fn = fn.replace("github.com/ory/keto/", "")
            if fn not in frames:
                frames.append(fn)
            if len(frames) >= 3:
                break
    return cls, "<".join(frames)


def journal_open_cases(jpath):
    """Return the journalled cases that have a begin but no end record."""
    open_cases = {}
    try:
        with open(jpath, "rb") as f:
            for raw in f:
                try:
                    rec = json.loads(raw)
                except Exception:
                    continue
                key = (rec.get("idx"), rec.get("sub", ""))
                if rec.get("ev") == "begin":
                    open_cases[key] = rec
                elif rec.get("ev") == "end":
                    open_cases.pop(key, None)
    except OSError:
        pass
    return list(open_cases.values())


def run_children(prop, cfg, tier, seed, workdir, replay=None):
    """Launch all (mode, shard) children; returns list of child records."""
    tmo = cfg["timeout"][1 if tier == "thorough" else 0]
    children = []
    jobs = []
    for (mode, kind, shards) in cfg["runs"]:
        if replay is not None:
            if (replay.get("mode") or "") != mode:
                continue
            shards = 1
        for sh in range(shards):
            jobs.append((mode, kind, sh, shards))
    maxpar = int(os.environ.get("VERIF_PARALLEL", NCPU))
    pending = list(jobs)
    running = []
    scratch = os.path.join(workdir, "scratch")
    os.makedirs(scratch, exist_ok=True)

    def start(job):
        mode, kind, sh, shards = job
        tag = "%s.%s.%d" % (prop, mode or "main", sh)
        logpath = os.path.join(workdir, "log.%s.txt" % tag)
        env = dict(os.environ)
        env.update({
            "VERIF_SEED": str(seed), "VERIF_TIER": tier, "VERIF_SHARD": "%d/%d" % (sh, shards),
            "VERIF_OUT": workdir, "VERIF_MODE": mode, "VERIF_SCRATCH": scratch, "VERIF_DIR": VERIF,
            "GOTRACEBACK": "all", "TMPDIR": scratch,
        })
        if kind == "race":
            env["GORACE"] = "halt_on_error=0 log_path=%s" % os.path.join(workdir, "race.%s" % tag)
        if replay is not None:
            env["VERIF_REPLAY_INDEX"] = str(replay["index"])
            env["VERIF_REPLAY_SUB"] = str(replay.get("sub", ""))
        binary = RACE if kind == "race" else PLAIN
        # cap the output file (a stack overflow dump can be hundreds of MB)
        # (the cap applies to every file the child writes; C05's WAL files grow past 200 MB while readers pin snapshots => per-property override)
        cmd = "ulimit -f %d; exec timeout -s QUIT -k 20 %d %s -test.run '^%s$' -test.timeout 0 -test.v" % (cfg.get("ulimit_f_kb", 204800), tmo, binary, cfg["test"])
        lf = open(logpath, "wb")
        p = subprocess.Popen(["bash", "-c", cmd], cwd=scratch, env=env, stdout=lf, stderr=subprocess.STDOUT, start_new_session=True)
        return dict(job=job, proc=p, log=logpath, lf=lf, tag=tag, t0=time.time())

    while pending or running:
        while pending and len(running) < maxpar:
            running.append(start(pending.pop(0)))
        time.sleep(0.2)
        still = []
        for c in running:
            rc = c["proc"].poll()
            if rc is None:
                still.append(c)
            else:
                c["rc"] = rc
                c["wall"] = time.time() - c["t0"]
                c["lf"].close()
                children.append(c)
        running = still
    return children


def main():
    ap = argparse.ArgumentParser()
    ap.add_argument("prop")
    ap.add_argument("--tier", default=os.environ.get("VERIF_TIER", "quick"))
    ap.add_argument("--replay")
    ap.add_argument("--keep", action="store_true")
    args = ap.parse_args()
    prop = args.prop
    if prop not in PROPS:
        print("unknown property", prop)
        sys.exit(2)
    cfg = PROPS[prop]
    tier = "thorough" if args.tier == "thorough" else "quick"
    seed = int(os.environ.get("VERIF_SEED", "1") or 1)
    t0 = time.time()

    replay = None
    if args.replay:
        replay = json.load(open(args.replay))
        seed = int(replay.get("seed", seed))
        tier = replay.get("tier", tier)

    kinds = sorted({k for (_, k, _) in cfg["runs"]})
    if not build(kinds):
        print("INCONCLUSIVE property=%s reason=build-failed" % prop)
        sys.exit(2)

    workdir = tempfile.mkdtemp(prefix="verif-%s-" % prop, dir=os.environ.get("VERIF_WORKROOT", "/tmp"))
    try:
        rc = supervise(prop, cfg, tier, seed, workdir, replay, t0)
    finally:
        if not args.keep:
            shutil.rmtree(workdir, ignore_errors=True)
        else:
            print("workdir kept:", workdir)
    sys.exit(rc)


def supervise(prop, cfg, tier, seed, workdir, replay, t0):
    known = load_known()
    children = run_children(prop, cfg, tier, seed, workdir, replay)

    evaluations = 0
    nontriv = set()
    counters = {}
    sets = {}
    samples = []
    violations = []
    inconclusive = []
    for c in children:
        mode, kind, sh, shards = c["job"]
        suffix = "%s.%d" % (prop, sh) if not mode else "%s.%s.%d" % (prop, mode, sh)
        rpath = os.path.join(workdir, "result.%s.json" % suffix)
        jpath = os.path.join(workdir, "journal.%s.jsonl" % suffix)
        res = None
        try:
            res = json.load(open(rpath))
        except Exception:
            res = None
        if res is None or not res.get("complete"):
            cls, frames = death_signature(c["log"])
            opens = journal_open_cases(jpath)
            if c["rc"] in (124, 137) or cls == "watchdog":
                inconclusive.append("child %s hit the wall-clock watchdog (rc=%s); open cases: %s" % (c["tag"], c["rc"], [(o.get("idx"), o.get("sub")) for o in opens][:3]))
                _keep_log(c, prop)
            else:
                sig = "%s:process-death:%s:%s" % (prop, cls, frames)
                oc = opens[0] if opens else {}
                violations.append(dict(property=prop, index=oc.get("idx", -1), sub=oc.get("sub", ""), sig=sig, mode=mode,
                                       summary="child process died (%s, rc=%s) while executing a journalled case; top keto frames: %s" % (cls, c["rc"], frames),
                                       case=oc.get("case"), detail={"log_tail": _tail(c["log"])}))
            # partial results of a dead child are still counted from its journal? no: only complete results count
            continue
        evaluations += res.get("evaluations", 0)
        nontriv.update("%s/%s" % (mode, s) for s in (res.get("nontrivial_sigs") or []))
        for k, v in (res.get("counters") or {}).items():
            counters[k] = max(counters.get(k, 0), v) if k.startswith("max_") else counters.get(k, 0) + v
        for k, v in (res.get("sets") or {}).items():
            sets.setdefault(k, set()).update(v)
        for s in (res.get("samples") or []):
            if len(samples) < 4:
                samples.append(s)
        for v in (res.get("violations") or []):
            v["mode"] = mode
            violations.append(v)
        for m in (res.get("inconclusive") or []):
            inconclusive.append(m)
        # race reports (race binary): counted from the log files
    race_reports = _collect_race_reports(workdir, prop)
    for rr in race_reports:
        violations.append(rr)

    # classify
    known_hits = {}
    fresh = []
    for v in violations:
        k = match_known(known, prop, v["sig"])
        if k is not None:
            known_hits.setdefault(k["id"], (k, 0))
            known_hits[k["id"]] = (k, known_hits[k["id"]][1] + 1)
        else:
            fresh.append(v)

    os.makedirs(os.path.join(VERIF, "replays"), exist_ok=True)
    out_lines = []
    for kid, (k, n) in sorted(known_hits.items()):
        out_lines.append("KNOWN-FINDING: property=%s %s [%s, seen %d time(s) in this run]" % (prop, k["summary"], kid, n))
    seen_sigs = {}
    for v in fresh:
        n = seen_sigs.get(v["sig"], 0)
        seen_sigs[v["sig"]] = n + 1
        if n >= 3:
            continue  # at most three witnesses per signature
        path = os.path.join(VERIF, "replays", "%s-%s-%d.json" % (prop, _slug(v["sig"]), n))
        rec = dict(property=prop, seed=seed, tier=tier, index=v.get("index", -1), sub=v.get("sub", ""), mode=v.get("mode", ""),
                   sig=v["sig"], summary=v.get("summary"), case=v.get("case"), detail=v.get("detail"))
        with open(path, "w") as f:
            json.dump(rec, f, indent=1, default=str)
        out_lines.append("VIOLATION property=%s replay=%s" % (prop, path))
        out_lines.append("  signature: %s" % v["sig"])
        out_lines.append("  %s" % (v.get("summary") or "")[:600])

    wall = time.time() - t0
    coverage = dict(
        evaluations=int(evaluations),
        distinct_nontrivial=len(nontriv),
        rule=cfg.get("rule", ""),
        samples=samples if samples else [{"note": "no sample recorded"}],
        counters=counters,
        distinct_sets={k: len(v) for k, v in sets.items()},
        children=len(children),
        known_findings_seen={kid: n for kid, (k, n) in known_hits.items()},
        unlisted_violation_signatures=seen_sigs,
        inconclusive=inconclusive[:20],
    )
    ev = dict(property_id=prop, tier=tier, seed=seed, level=cfg["level"], coverage=coverage,
              assumptions=ASSUMPTIONS_COMMON + cfg.get("assumptions", []), wall_s=round(wall, 2), violations=len(fresh))
    if replay is None:
        os.makedirs(os.path.join(VERIF, "evidence"), exist_ok=True)
        tmp = os.path.join(VERIF, "evidence", prop + ".json.tmp")
        with open(tmp, "w") as f:
            json.dump(ev, f, indent=1, default=str)
        os.replace(tmp, os.path.join(VERIF, "evidence", prop + ".json"))

    for l in out_lines:
        print(l)
    print("property=%s tier=%s seed=%d evaluations=%d distinct_nontrivial=%d children=%d wall=%.1fs" % (
        prop, tier, seed, evaluations, len(nontriv), len(children), wall))
    print("counters:", json.dumps(counters, sort_keys=True))
    print("distinct:", json.dumps({k: len(v) for k, v in sets.items()}, sort_keys=True))
    if fresh:
        return 1
    if replay is not None:
        print("replay: no violation reproduced")
        return 0
    if inconclusive:
        for m in inconclusive[:10]:
            print("INCONCLUSIVE:", m)
    fl = cfg.get("floor", (1, 2))
    hard_inconclusive = [m for m in inconclusive if "watchdog" in m]
    if evaluations < fl[0] or len(nontriv) < fl[1] or hard_inconclusive:
        print("INCONCLUSIVE property=%s observation floor not reached (evaluations %d/%d, nontrivial %d/%d) or watchdog fired" % (
            prop, evaluations, fl[0], len(nontriv), fl[1]))
        return 2
    return 0


def _tail(path, n=3000):
    try:
        with open(path, "rb") as f:
            data = f.read(20000).decode("utf-8", "replace")
        return data[:n]
    except OSError:
        return ""


def _keep_log(c, prop):
    try:
        d = os.path.join(VERIF, "replays")
        os.makedirs(d, exist_ok=True)
        with open(c["log"], "rb") as f:
            data = f.read(200000)
        with open(os.path.join(d, "%s-watchdog-%s.log" % (prop, c["tag"])), "wb") as o:
            o.write(data)
    except OSError:
        pass


def _slug(s):
    out = []
    for ch in s:
        out.append(ch if ch.isalnum() else "_")
    return "".join(out)[:80]


def _collect_race_reports(workdir, prop):
    """Parse race detector logs (GORACE log_path): dedupe by stack pair with line numbers stripped."""
    reports = {}
    for path in glob.glob(os.path.join(workdir, "race.*")):
        try:
            data = open(path, errors="replace").read()
        except OSError:
            continue
        blocks = data.split("==================")
        for b in blocks:
            if "WARNING: DATA RACE" not in b:
                continue
            frames = []
            keto = []
            for line in b.splitlines():
                s = line.strip()
                if s.startswith("github.com/") or s.startswith("runtime.") or s.startswith("sync") or (s and s[0].isalpha() and "(" in s and "." in s.split("(")[0]):
                    fn = s.split("(")[0]
                    frames.append(fn)
                    if s.startswith("github.com/ory/keto/") and "/verifh" not in s:
                        keto.append(fn.replace("github.com/ory/keto/", ""))
            key = "|".join(frames[:12])
            if key in reports:
                reports[key]["count"] += 1
                continue
            top = "<".join(keto[:2]) if keto else "no-keto-frame"
            reports[key] = dict(property=prop, index=-1, sub="", sig="%s:data-race:%s" % (prop, top),
                                summary="race detector report: %s" % (" / ".join(keto[:4]) or "dependency-only stacks"),
                                case=None, detail={"report": b[:6000]}, count=1)
    return list(reports.values())


if __name__ == "__main__":
    main()
