#!/bin/bash
# Confirm a seeded change independently: in a scratch worktree of /repo
#  - the patch applies and the tree builds (with and without the sqlite tag),
#  - the repository's pinned baseline suite still passes (tools/baseline_off.sh against the scratch tree),
#  - the demonstration FAILS with the patch and PASSES without it.
# usage: confirm_mutant.sh <dir with patch.diff> <demo file> <target dir relative to repo root> <go test args...>
# e.g.   confirm_mutant.sh seeded/x demo_test.go internal/check -tags sqlite -run TestDemo ./internal/check/
set -u
D=$(readlink -f "$1"); DEMO=$(readlink -f "$2"); TARGET=$3; shift 3
export GOPROXY=off GOFLAGS=-mod=mod
W=$(mktemp -d /tmp/confrepo.XXXXXX); rmdir "$W"
trap 'git -C /repo worktree remove --force "$W" >/dev/null 2>&1; rm -rf "$W"' EXIT
git -C /repo worktree add -q "$W" HEAD || exit 2
DEMONAME=$(basename "$DEMO" | sed 's/\.txt$//')
cp "$DEMO" "$W/$TARGET/$DEMONAME"
echo "## demo on the unmodified tree (expected: PASS)"
(cd "$W" && go test -count=1 "$@" 2>&1 | grep -v '^time=' | grep -E '^(ok|FAIL|--- FAIL|panic)' | head -8); CLEAN=${PIPESTATUS[0]}
git -C "$W" apply "$D/patch.diff" || { echo "PATCH DOES NOT APPLY"; exit 2; }
echo "## build with the change"
(cd "$W" && go build ./... && go build -tags sqlite ./...) && echo build-ok || { echo BUILD-FAILS; exit 1; }
echo "## demo with the change (expected: FAIL)"
(cd "$W" && go test -count=1 "$@" 2>&1 | grep -v '^time=' | grep -E '^(ok|FAIL|--- FAIL|panic)' | head -8)
rm -f "$W/$TARGET/$DEMONAME"
echo "## pinned baseline suite with the change (hooks off)"
VERIF_REPO=$W "$(dirname "$0")/baseline_off.sh" | tail -3
