#!/bin/bash
# usage: sweep.sh <tier> <seed> [props...]   - runs checks without rewriting evidence; prints one block per property
cd "$(dirname "$0")/.."
TIER=$1; SEED=$2; shift 2
PROPS=${@:-C01 C02 C03 C04 C05 C06 C07 C08 C09 C10 C11 C12 C13 C14 C15 C16 C17 C18 C19}
for p in $PROPS; do
  t0=$(date +%s)
  VERIF_SEED=$SEED python3 check.py $p --tier $TIER --no-evidence 2>&1 | grep -a -E "^(VIOLATION|KNOWN|INCONCLUSIVE|property=|  signature)" | cut -c1-260 | head -12
  echo "  -> $p seed=$SEED tier=$TIER exit=${PIPESTATUS[0]} $(( $(date +%s) - t0 ))s"
done
