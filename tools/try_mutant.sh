#!/bin/bash
# Run checks against a scratch copy of /repo with a patch applied (does not touch /repo).
# usage: try_mutant.sh <patch.diff> <PROP> [<PROP> ...]      (env TIER=quick|thorough)
set -u
PATCH=$(readlink -f "$1"); shift
HERE=$(cd "$(dirname "$0")/.." && pwd)
W=$(mktemp -d /tmp/mutrepo.XXXXXX); B=$(mktemp -d /tmp/mutbuild.XXXXXX)
cleanup() { git -C /repo worktree remove --force "$W" >/dev/null 2>&1; rm -rf "$W" "$B"; }
trap cleanup EXIT
rmdir "$W"; git -C /repo worktree add -q "$W" HEAD || exit 2
git -C "$W" apply "$PATCH" || { echo "PATCH DOES NOT APPLY"; exit 2; }
for P in "$@"; do
  echo "=== $P on mutant $(basename $(dirname $PATCH))"
  VERIF_REPO=$W VERIF_BUILD=$B python3 "$HERE/check.py" "$P" --tier "${TIER:-quick}" --no-evidence 2>&1 | grep -a -E "^(VIOLATION|KNOWN|INCONCLUSIVE|property=|  signature)" | cut -c1-300 | head -${LINES_MAX:-14}
  echo "exit=${PIPESTATUS[0]}"
done
