#!/opt/veriftools/pyvenv/bin/python
import json,jsonschema,glob,sys
jsonschema.validate(json.load(open('/verif/MANIFEST.json')),json.load(open('/root/.vp/MANIFEST.schema.json')))
es=json.load(open('/root/.vp/EVIDENCE.schema.json'))
for f in sorted(glob.glob('/verif/evidence/*.json')):
    jsonschema.validate(json.load(open(f)),es); print('ok',f)
m=json.load(open('/verif/MANIFEST.json'))
ids={c['property_id'] for c in m['checks']}|{n['property_id'] for n in m.get('not_applicable',[])}
props=[json.loads(l)['id'] for l in open('/verif/properties.jsonl')]
missing=[p for p in props if p not in ids]
print('manifest ok; unclaimed-and-unlisted:',missing)
