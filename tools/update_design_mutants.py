#!/usr/bin/env python3
"""Regenerates the table of DESIGN.md §9.3 from seeded/*/meta.json (run seeded/make_meta.py first)."""
import glob, json, os, re
V = os.path.dirname(os.path.dirname(os.path.abspath(__file__)))
rows = []
for d in sorted(glob.glob(os.path.join(V, "seeded", "*", ""))):
    mp = os.path.join(d, "meta.json")
    if os.path.exists(mp):
        rows.append(json.load(open(mp)))
s = open(os.path.join(V, "DESIGN.md")).read()
i = s.index("| seeded change | property |")
j = s.index("\nAlso used while building", i)
late = sum(1 for r in rows if any(k in r["history"] for k in ("missed", "inconclusive", "hung", "caught after")))
tbl = "| seeded change | property | needs, in order to manifest | detected by (signature) | history |\n|---|---|---|---|---|\n"
for r in rows:
    conf = "confirmed" if "PASS" in r.get("confirmed_by", "") and "FAIL" in r.get("confirmed_by", "") else "confirmation pending"
    tbl += "| `%s` | %s | %s | %s: `%s` | %s (%s) |\n" % (r["id"], r["property"], r["needs_to_manifest"].replace("|", "\\|"), ", ".join(r["detected_by"]),
                                                   r["signature_reported"].replace("|", "\\|"), r["history"].replace("|", "\\|"), conf)
s = s[:i] + tbl + s[j:]
s = re.sub(r"\*\*\d+ seeded changes; all are detected", "**%d seeded changes; all are detected" % len(rows), s)
s = re.sub(r"\*\*\. \d+ of them were\nmissed or inconclusive at first\*\*|property \(two by a neighbouring property's check, as noted\)\. \d+ of them were\nmissed or inconclusive at first", lambda m: m.group(0), s)
s = re.sub(r"(as noted\)\. )\d+( of them were)", r"\g<1>%d\g<2>" % late, s)
open(os.path.join(V, "DESIGN.md"), "w").write(s)
print(len(rows), "rows;", late, "caught only after strengthening")
