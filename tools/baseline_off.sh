#!/bin/bash
# Runs the repository's pinned baseline test suite with the `verif` build tag OFF
# and verifies that every test in BASELINE.json's stable_pass list passes.
set -u
export GOPROXY=off GOFLAGS=-mod=mod
OUT=$(mktemp -d /tmp/verif-baseline.XXXXXX)
trap 'rm -rf "$OUT"' EXIT
for m in . ./proto; do
  (cd ${VERIF_REPO:-/repo}/$m && go test -mod=mod -json -vet=off -count=1 -timeout 25m ./... ) >> "$OUT/gotest.json" 2>>"$OUT/stderr.log"
done
python3 - "$OUT/gotest.json" <<'PY'
import json,sys
res={}
for l in open(sys.argv[1]):
    try: e=json.loads(l)
    except Exception: continue
    if e.get('Action') in ('pass','fail','skip') and e.get('Test'):
        res[e['Package']+'::'+e['Test']]=e['Action']
base=json.load(open('/root/.vp/BASELINE.json'))
missing=[t for t in base['stable_pass'] if res.get(t)!='pass']
print('baseline stable tests: %d, passing now: %d'%(len(base['stable_pass']),len(base['stable_pass'])-len(missing)))
for t in missing: print('NOT PASSING:',t,res.get(t))
sys.exit(1 if missing else 0)
PY
