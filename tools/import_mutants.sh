#!/bin/bash
# usage: import_mutants.sh <scratch worktree> <PROP>   copies <worktree>/MUTANTS/<name>/ to seeded/<PROP>-<name>/
W=$1; P=$2
for d in "$W"/MUTANTS/*/; do
  n=$(basename "$d"); t=/verif/seeded/$P-$n
  [ -f "$d/patch.diff" ] || continue
  mkdir -p "$t"; cp "$d"/patch.diff "$d"/meta.md "$t"/ 2>/dev/null; cp "$d"/*.go.txt "$t"/ 2>/dev/null
  echo "$t: $(ls $t | tr '\n' ' ')"
done
