#!/bin/bash
# dev helper: run one property test across 16 shards directly (no supervisor)
# usage: devrun.sh TestC01 [tier]
T=$1; TIER=${2:-quick}
OUT=/tmp/vh/out.$T; rm -rf "$OUT"; mkdir -p "$OUT"
cd /tmp/vh
for i in $(seq 0 15); do VERIF_TIER=$TIER VERIF_OUT=$OUT VERIF_SHARD=$i/16 /verif/.build/bin/verifh.test -test.run "$T\$" -test.timeout 0 > $OUT/log.$i 2>&1 & done; wait
python3 - "$OUT" <<'PY'
import json,glob,sys
from collections import Counter
c=Counter(); sig=Counter(); ev=0; nt=set(); inc=[]; done=0
for f in glob.glob(sys.argv[1]+'/result.*.json'):
    r=json.load(open(f)); ev+=r['evaluations']; done+=1
    nt|=set(r['nontrivial_sigs'] or [])
    inc+=r['inconclusive'] or []
    for k,v in r['counters'].items(): c[k]+=v
    for v in r['violations'] or []:
        sig[v['sig']]+=1
        if sig[v['sig']]<3: print(v['index'],v['sub'],v['summary'][:400])
print('shards done',done,'evals',ev,'nontrivial',len(nt)); print(dict(c)); print(dict(sig)); print(inc[:5])
PY
