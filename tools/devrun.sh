#!/bin/bash
# dev helper: run one property test across N shards directly (no supervisor)
# usage: devrun.sh TestC01 [tier] [shards] [mode]
HERE=$(cd "$(dirname "$0")/.." && pwd)
T=$1; TIER=${2:-quick}; N=${3:-16}; MODE=${4:-}
OUT=/tmp/vh-$(basename "$HERE")/out.$T; rm -rf "$OUT"; mkdir -p "$OUT/scratch"
cd "$OUT/scratch"
for i in $(seq 0 $((N-1))); do VERIF_DIR=$HERE VERIF_MODE=$MODE VERIF_SCRATCH=$OUT/scratch VERIF_TIER=$TIER VERIF_OUT=$OUT VERIF_SHARD=$i/$N "$HERE/.build/bin/verifh.test" -test.run "^$T\$" -test.timeout 0 > "$OUT/log.$i" 2>&1 & done; wait
python3 - "$OUT" <<'PY'
import json,glob,sys
from collections import Counter
c=Counter(); sig=Counter(); ev=0; nt=set(); inc=[]; done=0; walls=[]
for f in glob.glob(sys.argv[1]+'/result.*.json'):
    r=json.load(open(f)); ev+=r['evaluations']; done+=1; walls.append(r['wall_s'])
    nt|=set(r['nontrivial_sigs'] or [])
    inc+=r['inconclusive'] or []
    for k,v in r['counters'].items(): c[k]=max(c[k],v) if k.startswith('max_') else c[k]+v
    for v in r['violations'] or []:
        sig[v['sig']]+=1
        if sig[v['sig']]<3: print(v['index'],v.get('sub',''),v['summary'][:400])
print('shards done',done,'evals',ev,'nontrivial',len(nt),'max shard wall %.1fs'%(max(walls) if walls else 0)); print(dict(c)); print(dict(sig)); print(inc[:5])
print('results/logs in',sys.argv[1])
PY
