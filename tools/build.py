#!/usr/bin/env python3
"""Build the verification harness test binaries against /repo's current working tree.

No file is written under /repo: the harness sources in /verif/harness/verifh are
mounted at /repo/internal/verifh through `go build -overlay`, and a generated
go.mod/go.sum pair (a copy of /repo's plus porcupine) is used via -modfile.

usage: build.py [plain|race|both]   (default: plain)
Prints the path of each built binary. Exit status != 0 when the build fails.
"""
import base64
import glob
import hashlib
import json
import os
import subprocess
import sys

VERIF = os.path.dirname(os.path.dirname(os.path.abspath(__file__)))
REPO = os.environ.get("VERIF_REPO", "/repo")
BUILD = os.environ.get("VERIF_BUILD", os.path.join(VERIF, ".build"))
HARNESS = os.path.join(VERIF, "harness", "verifh")
MODCACHE = os.path.expanduser("~/go/pkg/mod")
TAGS = "sqlite verif"


def go_env():
    env = dict(os.environ)
    env["GOPROXY"] = "off"
    env["GOFLAGS"] = "-mod=mod"
    env.pop("GOTOOLCHAIN", None)
    env.pop("GOSUMDB", None)
    env["GONOSUMDB"] = "*"
    env["GONOSUMCHECK"] = "1"
    env["GOFLAGS"] = "-mod=mod"
    env["CGO_ENABLED"] = "1"
    return env


def h1_from_ziphash(mod, ver):
    p = os.path.join(MODCACHE, "cache", "download", mod, "@v", ver + ".ziphash")
    return open(p).read().strip()


def h1_gomod(mod, ver):
    # go.sum "/go.mod" hash: h1 over the single file "go.mod"
    p = os.path.join(MODCACHE, "cache", "download", mod, "@v", ver + ".mod")
    data = open(p, "rb").read()
    fh = hashlib.sha256(data).hexdigest()
    summary = ("%s  %s\n" % (fh, "go.mod")).encode()
    return "h1:" + base64.b64encode(hashlib.sha256(summary).digest()).decode()


def gen_modfiles():
    os.makedirs(BUILD, exist_ok=True)
    gomod = open(os.path.join(REPO, "go.mod")).read()
    gomod = gomod.replace("replace github.com/ory/keto/proto => ./proto",
                          "replace github.com/ory/keto/proto => %s/proto" % REPO)
    gomod += "\nrequire github.com/anishathalye/porcupine v1.3.0\n"
    gosum = open(os.path.join(REPO, "go.sum")).read()
    m, v = "github.com/anishathalye/porcupine", "v1.3.0"
    gosum += "%s %s %s\n" % (m, v, h1_from_ziphash(m, v))
    gosum += "%s %s/go.mod %s\n" % (m, v, h1_gomod(m, v))
    _write_if_changed(os.path.join(BUILD, "go.mod"), gomod)
    _write_if_changed(os.path.join(BUILD, "go.sum"), gosum)


def _write_if_changed(path, content):
    try:
        if open(path).read() == content:
            return
    except OSError:
        pass
    with open(path, "w") as f:
        f.write(content)


def gen_overlay():
    repl = {}
    for f in sorted(glob.glob(os.path.join(HARNESS, "*.go"))):
        repl[os.path.join(REPO, "internal", "verifh", os.path.basename(f))] = f
    _write_if_changed(os.path.join(BUILD, "overlay.json"), json.dumps({"Replace": repl}, indent=1))


def build(kind):
    out = os.path.join(BUILD, "bin", "verifh.race.test" if kind == "race" else "verifh.test")
    os.makedirs(os.path.dirname(out), exist_ok=True)
    cmd = ["go", "test", "-c", "-vet=off", "-tags", TAGS,
           "-overlay", os.path.join(BUILD, "overlay.json"),
           "-modfile", os.path.join(BUILD, "go.mod"),
           "-o", out]
    if kind == "race":
        cmd.append("-race")
    cmd.append("./internal/verifh")
    r = subprocess.run(cmd, cwd=REPO, env=go_env(), stdout=subprocess.PIPE, stderr=subprocess.STDOUT, text=True)
    if r.returncode != 0:
        sys.stderr.write("BUILD FAILED (%s)\n%s\n" % (kind, r.stdout))
        return None
    return out


def main():
    which = sys.argv[1] if len(sys.argv) > 1 else "plain"
    gen_modfiles()
    gen_overlay()
    kinds = ["plain", "race"] if which == "both" else [which]
    rc = 0
    for k in kinds:
        out = build(k)
        if out is None:
            rc = 2
        else:
            print(out)
    sys.exit(rc)


if __name__ == "__main__":
    main()
