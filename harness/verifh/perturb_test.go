package verifh

// Schedule perturbation at real suspension points (storage calls, verif hook
// points between critical sections of the check engine).

import (
	"runtime"
	"sync/atomic"
	"time"

	"github.com/ory/keto/internal/x/verifhook"
)

type perturber struct {
	seed  uint64
	n     atomic.Uint64
	level int // 0 off, 1 gosched only, 2 gosched + short sleeps
	hits  atomic.Int64
}

func splitmix(x uint64) uint64 {
	x += 0x9e3779b97f4a7c15
	x = (x ^ (x >> 30)) * 0xbf58476d1ce4e5b9
	x = (x ^ (x >> 27)) * 0x94d049bb133111eb
	return x ^ (x >> 31)
}

func (p *perturber) point(name string) {
	if p == nil || p.level == 0 {
		return
	}
	p.hits.Add(1)
	v := splitmix(p.seed + p.n.Add(1))
	switch v % 8 {
	case 0, 1, 2:
		runtime.Gosched()
	case 3:
		if p.level >= 2 {
			time.Sleep(time.Duration(v>>8%200) * time.Microsecond)
		} else {
			runtime.Gosched()
		}
	}
}

// install activates the perturber on the verif hook points; returns an uninstall func.
func (p *perturber) install() func() {
	verifhook.Set(p.point)
	return func() { verifhook.Set(nil) }
}
