package verifh

// Harness-side model of namespace configurations (independent of keto's engine
// and parser code): AST, conversion to/from keto's ast package, OPL rendering.

import (
	"fmt"
	"math/rand/v2"
	"sort"
	"strings"

	"github.com/ory/keto/internal/namespace"
	"github.com/ory/keto/internal/namespace/ast"
	"github.com/ory/keto/ketoapi"
)

type (
	Cfg struct {
		NS []*NSDef `json:"ns"`
	}
	NSDef struct {
		Name string    `json:"name"`
		Rels []*RelDef `json:"rels,omitempty"`
	}
	RelDef struct {
		Name    string    `json:"name"`
		Types   []TypeRef `json:"types,omitempty"`
		Rewrite *Expr     `json:"rewrite,omitempty"`
		// Perm: declared in `permits` (OPL rendering only)
		Perm bool `json:"perm,omitempty"`
	}
	TypeRef struct {
		NS  string `json:"ns"`
		Rel string `json:"rel,omitempty"`
	}
	// Expr: Op in {"or","and","not","csr","ttu"}
	Expr struct {
		Op   string  `json:"op"`
		Kids []*Expr `json:"kids,omitempty"`
		Rel  string  `json:"rel,omitempty"`  // csr: relation; ttu: tupleset relation
		Comp string  `json:"comp,omitempty"` // ttu: computed relation
		// rendering hints (OPL): csr rendered as permits-call instead of includes
		ViaPermits bool `json:"via_permits,omitempty"`
	}
)

func (c *Cfg) ns(name string) *NSDef {
	for _, n := range c.NS {
		if n.Name == name {
			return n
		}
	}
	return nil
}

func (n *NSDef) rel(name string) *RelDef {
	for _, r := range n.Rels {
		if r.Name == name {
			return r
		}
	}
	return nil
}

func (e *Expr) String() string {
	switch e.Op {
	case "csr":
		return e.Rel
	case "ttu":
		return e.Rel + "->" + e.Comp
	case "not":
		return "!(" + e.Kids[0].String() + ")"
	default:
		var ks []string
		for _, k := range e.Kids {
			ks = append(ks, k.String())
		}
		sep := " | "
		if e.Op == "and" {
			sep = " & "
		}
		return "(" + strings.Join(ks, sep) + ")"
	}
}

func (e *Expr) hasOp(op string) bool {
	if e == nil {
		return false
	}
	if e.Op == op {
		return true
	}
	for _, k := range e.Kids {
		if k.hasOp(op) {
			return true
		}
	}
	return false
}

func (e *Expr) size() int {
	if e == nil {
		return 0
	}
	n := 1
	for _, k := range e.Kids {
		n += k.size()
	}
	return n
}

func (c *Cfg) hasOp(op string) bool {
	for _, n := range c.NS {
		for _, r := range n.Rels {
			if r.Rewrite.hasOp(op) {
				return true
			}
		}
	}
	return false
}

// ---------------------------------------------------------------------------
// to keto AST

func childToKeto(e *Expr) ast.Child {
	switch e.Op {
	case "csr":
		return &ast.ComputedSubjectSet{Relation: e.Rel}
	case "ttu":
		return &ast.TupleToSubjectSet{Relation: e.Rel, ComputedSubjectSetRelation: e.Comp}
	case "not":
		return &ast.InvertResult{Child: childToKeto(e.Kids[0])}
	case "or", "and":
		rw := &ast.SubjectSetRewrite{Operation: ast.OperatorOr}
		if e.Op == "and" {
			rw.Operation = ast.OperatorAnd
		}
		for _, k := range e.Kids {
			rw.Children = append(rw.Children, childToKeto(k))
		}
		return rw
	}
	panic("bad expr op " + e.Op)
}

func rewriteToKeto(e *Expr) *ast.SubjectSetRewrite {
	if e == nil {
		return nil
	}
	c := childToKeto(e)
	if rw, ok := c.(*ast.SubjectSetRewrite); ok {
		return rw
	}
	return &ast.SubjectSetRewrite{Operation: ast.OperatorOr, Children: ast.Children{c}}
}

func (c *Cfg) toKeto() []*namespace.Namespace {
	var out []*namespace.Namespace
	for _, n := range c.NS {
		kn := &namespace.Namespace{Name: n.Name}
		for _, r := range n.Rels {
			kr := ast.Relation{Name: r.Name}
			for _, t := range r.Types {
				kr.Types = append(kr.Types, ast.RelationType{Namespace: t.NS, Relation: t.Rel})
			}
			kr.SubjectSetRewrite = rewriteToKeto(r.Rewrite)
			kn.Relations = append(kn.Relations, kr)
		}
		out = append(out, kn)
	}
	return out
}

// ---------------------------------------------------------------------------
// from keto AST (what the parser produced)

func childFromKeto(c ast.Child) (*Expr, error) {
	switch x := c.(type) {
	case *ast.ComputedSubjectSet:
		if x == nil {
			return nil, fmt.Errorf("nil computed subject set")
		}
		return &Expr{Op: "csr", Rel: x.Relation}, nil
	case *ast.TupleToSubjectSet:
		if x == nil {
			return nil, fmt.Errorf("nil ttu")
		}
		return &Expr{Op: "ttu", Rel: x.Relation, Comp: x.ComputedSubjectSetRelation}, nil
	case *ast.InvertResult:
		if x == nil || x.Child == nil {
			return nil, fmt.Errorf("nil invert")
		}
		k, err := childFromKeto(x.Child)
		if err != nil {
			return nil, err
		}
		return &Expr{Op: "not", Kids: []*Expr{k}}, nil
	case *ast.SubjectSetRewrite:
		if x == nil {
			return nil, fmt.Errorf("nil rewrite")
		}
		e := &Expr{Op: "or"}
		if x.Operation == ast.OperatorAnd {
			e.Op = "and"
		}
		for _, ch := range x.Children {
			k, err := childFromKeto(ch)
			if err != nil {
				return nil, err
			}
			e.Kids = append(e.Kids, k)
		}
		return e, nil
	}
	return nil, fmt.Errorf("unknown child type %T", c)
}

func cfgFromKeto(nn []namespace.Namespace) (*Cfg, error) {
	c := &Cfg{}
	for _, n := range nn {
		d := &NSDef{Name: n.Name}
		for _, r := range n.Relations {
			rd := &RelDef{Name: r.Name}
			for _, t := range r.Types {
				rd.Types = append(rd.Types, TypeRef{NS: t.Namespace, Rel: t.Relation})
			}
			if r.SubjectSetRewrite != nil {
				e, err := childFromKeto(r.SubjectSetRewrite)
				if err != nil {
					return nil, err
				}
				rd.Rewrite = e
				rd.Perm = true
			}
			d.Rels = append(d.Rels, rd)
		}
		c.NS = append(c.NS, d)
	}
	return c, nil
}

// normalize flattens nested same-operator nodes and unwraps single-child
// or/and nodes; used for "equal up to flattening".
func (e *Expr) normalize() *Expr {
	if e == nil {
		return nil
	}
	switch e.Op {
	case "csr":
		return &Expr{Op: "csr", Rel: e.Rel}
	case "ttu":
		return &Expr{Op: "ttu", Rel: e.Rel, Comp: e.Comp}
	case "not":
		return &Expr{Op: "not", Kids: []*Expr{e.Kids[0].normalize()}}
	}
	out := &Expr{Op: e.Op}
	for _, k := range e.Kids {
		nk := k.normalize()
		if nk.Op == e.Op {
			out.Kids = append(out.Kids, nk.Kids...)
		} else {
			out.Kids = append(out.Kids, nk)
		}
	}
	if len(out.Kids) == 1 {
		return out.Kids[0]
	}
	return out
}

func (e *Expr) equal(o *Expr) bool {
	if e == nil || o == nil {
		return e == o
	}
	if e.Op != o.Op || e.Rel != o.Rel || e.Comp != o.Comp || len(e.Kids) != len(o.Kids) {
		return false
	}
	for i := range e.Kids {
		if !e.Kids[i].equal(o.Kids[i]) {
			return false
		}
	}
	return true
}

// leaves returns the distinct leaves in first-occurrence order.
func (e *Expr) leaves(acc *[]string) {
	switch e.Op {
	case "csr", "ttu":
		k := e.String()
		for _, x := range *acc {
			if x == k {
				return
			}
		}
		*acc = append(*acc, k)
	default:
		for _, k := range e.Kids {
			k.leaves(acc)
		}
	}
}

func (e *Expr) evalBool(env map[string]bool) bool {
	switch e.Op {
	case "csr", "ttu":
		return env[e.String()]
	case "not":
		return !e.Kids[0].evalBool(env)
	case "and":
		if len(e.Kids) == 0 {
			return false
		}
		for _, k := range e.Kids {
			if !k.evalBool(env) {
				return false
			}
		}
		return true
	default:
		for _, k := range e.Kids {
			if k.evalBool(env) {
				return true
			}
		}
		return false
	}
}

// ---------------------------------------------------------------------------
// OPL rendering

type renderStyle struct {
	FullParens bool       // parenthesise every composite operand (engine tests)
	R          *rand.Rand // nil: canonical spelling; else syntactic variants
}

func isIdent(s string) bool {
	if s == "" {
		return false
	}
	for i, c := range s {
		switch {
		case c == '_' || (c >= 'a' && c <= 'z') || (c >= 'A' && c <= 'Z'):
		case c >= '0' && c <= '9' && i > 0:
		default:
			return false
		}
	}
	switch s {
	case "class", "implements", "this", "ctx":
		return false
	}
	return true
}

func (st *renderStyle) coin(p float64) bool { return st.R != nil && st.R.Float64() < p }

func (st *renderStyle) quote(s string) string {
	if st.coin(0.5) {
		return "'" + s + "'"
	}
	return "\"" + s + "\""
}

func (st *renderStyle) ws() string {
	if st.R == nil {
		return ""
	}
	switch st.R.IntN(12) {
	case 0:
		return " "
	case 1:
		return "\n"
	case 2:
		return " /* c */ "
	case 3:
		return " // lc\n"
	case 4:
		return "\t"
	case 5:
		return "/** doc */"
	}
	return ""
}

func (st *renderStyle) propName(s string) string {
	if !isIdent(s) || st.coin(0.25) {
		return st.quote(s)
	}
	return s
}

// access renders ".name" or "[\"name\"]"
func (st *renderStyle) access(s string) string {
	if !isIdent(s) || st.coin(0.3) {
		return "[" + st.quote(s) + "]"
	}
	return "." + s
}

func (st *renderStyle) typeRef(t TypeRef) string {
	if t.Rel == "" {
		return t.NS
	}
	return "SubjectSet<" + st.ws() + t.NS + st.ws() + "," + st.ws() + st.quote(t.Rel) + st.ws() + ">"
}

func (st *renderStyle) types(ts []TypeRef) string {
	var parts []string
	for _, t := range ts {
		parts = append(parts, st.typeRef(t))
	}
	u := strings.Join(parts, " | ")
	if st.coin(0.35) {
		return "Array<" + u + ">"
	}
	if len(ts) == 1 && !st.coin(0.2) {
		return u + "[]"
	}
	return "(" + u + ")[]"
}

func prec(op string) int {
	switch op {
	case "or":
		return 1
	case "and":
		return 2
	case "not":
		return 3
	}
	return 4
}

func (st *renderStyle) leaf(e *Expr) string {
	switch e.Op {
	case "csr":
		if e.ViaPermits {
			return "this" + st.ws() + ".permits" + st.access(e.Rel) + "(ctx)"
		}
		return "this" + st.ws() + ".related" + st.access(e.Rel) + ".includes(ctx.subject)"
	case "ttu":
		arg := "p"
		if st.R != nil {
			arg = []string{"p", "x", "parent", "_o"}[st.R.IntN(4)]
		}
		lhs := arg
		if st.coin(0.5) || st.R == nil {
			lhs = "(" + arg + ")"
		}
		body := ""
		if e.ViaPermits {
			body = arg + ".permits" + st.access(e.Comp) + "(ctx)"
		} else {
			body = arg + ".related" + st.access(e.Comp) + ".includes(ctx.subject" + st.optComma() + ")"
		}
		return "this.related" + st.access(e.Rel) + ".traverse(" + lhs + st.ws() + "=>" + st.ws() + body + st.optComma() + ")"
	}
	panic("not a leaf")
}

func (st *renderStyle) optComma() string {
	if st.coin(0.15) {
		return ","
	}
	return ""
}

// expr renders e; parent precedence decides on parentheses.
func (st *renderStyle) expr(e *Expr, parentPrec int) string {
	switch e.Op {
	case "csr", "ttu":
		s := st.leaf(e)
		if st.coin(0.08) {
			return "(" + s + ")"
		}
		return s
	case "not":
		k := e.Kids[0]
		var inner string
		if k.Op == "csr" || k.Op == "ttu" {
			inner = st.leaf(k)
			if st.coin(0.2) {
				inner = "(" + inner + ")"
			}
		} else if k.Op == "not" {
			inner = st.expr(k, 3)
		} else {
			inner = "(" + st.expr(k, 0) + ")"
		}
		return "!" + inner
	}
	opTok := " || "
	if e.Op == "and" {
		opTok = " && "
	}
	var parts []string
	for _, k := range e.Kids {
		need := prec(k.Op) <= prec(e.Op) && (k.Op == "or" || k.Op == "and")
		if k.Op == e.Op {
			// same operator nested: keep grouping explicit so the tree is preserved
			need = true
		}
		if st.FullParens && (k.Op == "or" || k.Op == "and") {
			need = true
		}
		s := st.expr(k, prec(e.Op))
		if need || ((k.Op == "or" || k.Op == "and") && st.coin(0.15)) {
			s = "(" + s + ")"
		}
		parts = append(parts, s)
	}
	return strings.Join(parts, st.ws()+opTok+st.ws())
}

func (st *renderStyle) render(c *Cfg) string {
	var sb strings.Builder
	if st.coin(0.5) || st.R == nil {
		sb.WriteString("import { Namespace, SubjectSet, Context } from \"@ory/keto-namespace-types\"\n\n")
	}
	for _, n := range c.NS {
		sb.WriteString(st.ws())
		sb.WriteString("class " + n.Name + " implements Namespace {\n")
		var related, permits []*RelDef
		for _, r := range n.Rels {
			if r.Rewrite != nil {
				permits = append(permits, r)
			} else {
				related = append(related, r)
			}
		}
		if len(related) > 0 {
			sb.WriteString("  related: {\n")
			for _, r := range related {
				sb.WriteString("    " + st.propName(r.Name) + ":" + st.ws() + " " + st.types(r.Types))
				if st.R != nil {
					sb.WriteString([]string{"", ",", ";", "\n"}[st.R.IntN(4)])
				}
				sb.WriteString("\n")
			}
			sb.WriteString("  }" + st.maybe(";") + "\n")
		}
		if len(permits) > 0 {
			sb.WriteString("  permits = {\n")
			for i, r := range permits {
				ctxArg := "ctx"
				if st.coin(0.5) || st.R == nil {
					ctxArg = "ctx: Context"
				}
				ret := ""
				if st.coin(0.5) || st.R == nil {
					ret = ": boolean"
				}
				sb.WriteString("    " + st.propName(r.Name) + ": (" + ctxArg + ")" + ret + " =>" + st.ws() + "\n      ")
				sb.WriteString(st.expr(r.Rewrite, 0))
				if i < len(permits)-1 || st.coin(0.5) || st.R == nil {
					sb.WriteString(",")
				}
				sb.WriteString("\n")
			}
			sb.WriteString("  }" + st.maybe(";") + "\n")
		}
		sb.WriteString("}\n")
	}
	return sb.String()
}

func (st *renderStyle) maybe(s string) string {
	if st.coin(0.3) {
		return s
	}
	return ""
}

// ---------------------------------------------------------------------------
// tuples

type Tup = ketoapi.RelationTuple

func tupID(ns, obj, rel, sub string) *Tup {
	return &Tup{Namespace: ns, Object: obj, Relation: rel, SubjectID: sp(sub)}
}
func tupSet(ns, obj, rel, sns, sobj, srel string) *Tup {
	return &Tup{Namespace: ns, Object: obj, Relation: rel, SubjectSet: &ketoapi.SubjectSet{Namespace: sns, Object: sobj, Relation: srel}}
}

func tupKey(t *Tup) string {
	if t.SubjectID != nil {
		return fmt.Sprintf("%q:%q#%q@id:%q", t.Namespace, t.Object, t.Relation, *t.SubjectID)
	}
	if t.SubjectSet != nil {
		return fmt.Sprintf("%q:%q#%q@set:%q:%q#%q", t.Namespace, t.Object, t.Relation, t.SubjectSet.Namespace, t.SubjectSet.Object, t.SubjectSet.Relation)
	}
	return fmt.Sprintf("%q:%q#%q@nil", t.Namespace, t.Object, t.Relation)
}

func subjKey(t *Tup) string {
	if t.SubjectID != nil {
		return "id:" + *t.SubjectID
	}
	if t.SubjectSet != nil {
		return fmt.Sprintf("set:%q:%q#%q", t.SubjectSet.Namespace, t.SubjectSet.Object, t.SubjectSet.Relation)
	}
	return "nil"
}

func tupStrings(ts []*Tup) []string {
	out := make([]string, len(ts))
	for i, t := range ts {
		out[i] = t.String()
	}
	return out
}

func sortedKeys(ts []*Tup) []string {
	out := make([]string, len(ts))
	for i, t := range ts {
		out[i] = tupKey(t)
	}
	sort.Strings(out)
	return out
}

func cloneTup(t *Tup) *Tup {
	c := *t
	if t.SubjectID != nil {
		c.SubjectID = sp(*t.SubjectID)
	}
	if t.SubjectSet != nil {
		ss := *t.SubjectSet
		c.SubjectSet = &ss
	}
	return &c
}
