package verifh

// Harness-side model of namespace configurations (independent of keto's engine
// and parser code): AST, conversion to/from keto's ast package, OPL rendering.

import (
	"fmt"
	"math/rand/v2"
	"sort"
	"strings"

	"github.com/ory/keto/internal/namespace"
	"github.com/ory/keto/internal/namespace/ast"
	"github.com/ory/keto/ketoapi"
)

type (
	Cfg struct {
		NS []*NSDef `json:"ns"`
	}
	NSDef struct {
		Name string    `json:"name"`
		Rels []*RelDef `json:"rels,omitempty"`
	}
	RelDef struct {
		Name    string    `json:"name"`
		Types   []TypeRef `json:"types,omitempty"`
		Rewrite *Expr     `json:"rewrite,omitempty"`
		// Perm: declared in `permits` (OPL rendering only)
		Perm bool `json:"perm,omitempty"`
	}
	TypeRef struct {
		NS  string `json:"ns"`
		Rel string `json:"rel,omitempty"`
	}
	// Expr: Op in {"or","and","not","csr","ttu"}
	Expr struct {
		Op   string  `json:"op"`
		Kids []*Expr `json:"kids,omitempty"`
		Rel  string  `json:"rel,omitempty"`  // csr: relation; ttu: tupleset relation
		Comp string  `json:"comp,omitempty"` // ttu: computed relation
		// rendering hints (OPL): csr rendered as permits-call instead of includes
		ViaPermits bool `json:"via_permits,omitempty"`
	}
)

func (c *Cfg) ns(name string) *NSDef {
	for _, n := range c.NS {
		if n.Name == name {
			return n
		}
	}
	return nil
}

func (n *NSDef) rel(name string) *RelDef {
	for _, r := range n.Rels {
		if r.Name == name {
			return r
		}
	}
	return nil
}

func (e *Expr) String() string {
	switch e.Op {
	case "csr":
		return e.Rel
	case "ttu":
		return e.Rel + "->" + e.Comp
	case "not":
		return "!(" + e.Kids[0].String() + ")"
	default:
		var ks []string
		for _, k := range e.Kids {
			ks = append(ks, k.String())
		}
		sep := " | "
		if e.Op == "and" {
			sep = " & "
		}
		return "(" + strings.Join(ks, sep) + ")"
	}
}

func (e *Expr) hasOp(op string) bool {
	if e == nil {
		return false
	}
	if e.Op == op {
		return true
	}
	for _, k := range e.Kids {
		if k.hasOp(op) {
			return true
		}
	}
	return false
}

func (e *Expr) size() int {
	if e == nil {
		return 0
	}
	n := 1
	for _, k := range e.Kids {
		n += k.size()
	}
	return n
}

func (c *Cfg) hasOp(op string) bool {
	for _, n := range c.NS {
		for _, r := range n.Rels {
			if r.Rewrite.hasOp(op) {
				return true
			}
		}
	}
	return false
}

// ---------------------------------------------------------------------------
// to keto AST

func childToKeto(e *Expr) ast.Child {
	switch e.Op {
	case "csr":
		return &ast.ComputedSubjectSet{Relation: e.Rel}
	case "ttu":
		return &ast.TupleToSubjectSet{Relation: e.Rel, ComputedSubjectSetRelation: e.Comp}
	case "not":
		return &ast.InvertResult{Child: childToKeto(e.Kids[0])}
	case "or", "and":
		rw := &ast.SubjectSetRewrite{Operation: ast.OperatorOr}
		if e.Op == "and" {
			rw.Operation = ast.OperatorAnd
		}
		for _, k := range e.Kids {
			rw.Children = append(rw.Children, childToKeto(k))
		}
		return rw
	}
	panic("bad expr op " + e.Op)
}

func rewriteToKeto(e *Expr) *ast.SubjectSetRewrite {
	if e == nil {
		return nil
	}
	c := childToKeto(e)
	if rw, ok := c.(*ast.SubjectSetRewrite); ok {
		return rw
	}
	return &ast.SubjectSetRewrite{Operation: ast.OperatorOr, Children: ast.Children{c}}
}

func (c *Cfg) toKeto() []*namespace.Namespace {
	var out []*namespace.Namespace
	for _, n := range c.NS {
		kn := &namespace.Namespace{Name: n.Name}
		for _, r := range n.Rels {
			kr := ast.Relation{Name: r.Name}
			for _, t := range r.Types {
				kr.Types = append(kr.Types, ast.RelationType{Namespace: t.NS, Relation: t.Rel})
			}
			kr.SubjectSetRewrite = rewriteToKeto(r.Rewrite)
			kn.Relations = append(kn.Relations, kr)
		}
		out = append(out, kn)
	}
	return out
}

// ---------------------------------------------------------------------------
// from keto AST (what the parser produced)

func childFromKeto(c ast.Child) (*Expr, error) {
	switch x := c.(type) {
	case *ast.ComputedSubjectSet:
		if x == nil {
			return nil, fmt.Errorf("nil computed subject set")
		}
		return &Expr{Op: "csr", Rel: x.Relation}, nil
	case *ast.TupleToSubjectSet:
		if x == nil {
			return nil, fmt.Errorf("nil ttu")
		}
		return &Expr{Op: "ttu", Rel: x.Relation, Comp: x.ComputedSubjectSetRelation}, nil
	case *ast.InvertResult:
		if x == nil || x.Child == nil {
			return nil, fmt.Errorf("nil invert")
		}
		k, err := childFromKeto(x.Child)
		if err != nil {
			return nil, err
		}
		return &Expr{Op: "not", Kids: []*Expr{k}}, nil
	case *ast.SubjectSetRewrite:
		if x == nil {
			return nil, fmt.Errorf("nil rewrite")
		}
		e := &Expr{Op: "or"}
		if x.Operation == ast.OperatorAnd {
			e.Op = "and"
		}
		for _, ch := range x.Children {
			k, err := childFromKeto(ch)
			if err != nil {
				return nil, err
			}
			e.Kids = append(e.Kids, k)
		}
		return e, nil
	}
	return nil, fmt.Errorf("unknown child type %T", c)
}

func cfgFromKeto(nn []namespace.Namespace) (*Cfg, error) {
	c := &Cfg{}
	for _, n := range nn {
		d := &NSDef{Name: n.Name}
		for _, r := range n.Relations {
			rd := &RelDef{Name: r.Name}
			for _, t := range r.Types {
				rd.Types = append(rd.Types, TypeRef{NS: t.Namespace, Rel: t.Relation})
			}
			if r.SubjectSetRewrite != nil {
				e, err := childFromKeto(r.SubjectSetRewrite)
				if err != nil {
					return nil, err
				}
				rd.Rewrite = e
				rd.Perm = true
			}
			d.Rels = append(d.Rels, rd)
		}
		c.NS = append(c.NS, d)
	}
	return c, nil
}

// normalize flattens nested same-operator nodes and unwraps single-child
// or/and nodes; used for "equal up to flattening".
func (e *Expr) normalize() *Expr {
	if e == nil {
		return nil
	}
	switch e.Op {
	case "csr":
		return &Expr{Op: "csr", Rel: e.Rel}
	case "ttu":
		return &Expr{Op: "ttu", Rel: e.Rel, Comp: e.Comp}
	case "not":
		return &Expr{Op: "not", Kids: []*Expr{e.Kids[0].normalize()}}
	}
	out := &Expr{Op: e.Op}
	for _, k := range e.Kids {
		nk := k.normalize()
		if nk.Op == e.Op {
			out.Kids = append(out.Kids, nk.Kids...)
		} else {
			out.Kids = append(out.Kids, nk)
		}
	}
	if len(out.Kids) == 1 {
		return out.Kids[0]
	}
	return out
}

func (e *Expr) equal(o *Expr) bool {
	if e == nil || o == nil {
		return e == o
	}
	if e.Op != o.Op || e.Rel != o.Rel || e.Comp != o.Comp || len(e.Kids) != len(o.Kids) {
		return false
	}
	for i := range e.Kids {
		if !e.Kids[i].equal(o.Kids[i]) {
			return false
		}
	}
	return true
}

// leaves returns the distinct leaves in first-occurrence order.
func (e *Expr) leaves(acc *[]string) {
	switch e.Op {
	case "csr", "ttu":
		k := e.String()
		for _, x := range *acc {
			if x == k {
				return
			}
		}
		*acc = append(*acc, k)
	default:
		for _, k := range e.Kids {
			k.leaves(acc)
		}
	}
}

func (e *Expr) evalBool(env map[string]bool) bool {
	switch e.Op {
	case "csr", "ttu":
		return env[e.String()]
	case "not":
		return !e.Kids[0].evalBool(env)
	case "and":
		if len(e.Kids) == 0 {
			return false
		}
		for _, k := range e.Kids {
			if !k.evalBool(env) {
				return false
			}
		}
		return true
	default:
		for _, k := range e.Kids {
			if k.evalBool(env) {
				return true
			}
		}
		return false
	}
}

// ---------------------------------------------------------------------------
// OPL rendering
//
// The renderer is the trusted base of C10/C11: it emits only text that is
// valid TypeScript against the keto namespace type library and that uses
// spellings documented for OPL (spec, examples and parser tests of the
// repository). Canonical spelling (R == nil): import line, `T[]` / `(A | B)[]`,
// dot access, `ctx: Context`, `: boolean`, `(p) =>`, trailing comma after every
// permission, parentheses only where TypeScript precedence (! > && > ||) needs
// them plus around nested same-operator groups.
//
// With R != nil every optional spelling ("feature") is decided by a coin that
// is a pure function of (seed drawn once from R, feature name, ordinal of the
// decision within that feature). Disabling one feature therefore does not
// change the decisions of the others, which is what the C10 shrinker needs:
//   Off[f]    feature f never fires
//   Force     (non-nil) exactly the listed features fire, always
//   Used      how often each feature fired in this rendering
//   MaxNest   maximal nesting of "(" and "!" inside one permission body,
//             counted as the parser counts it (limits.go)

type renderStyle struct {
	FullParens bool       // parenthesise every composite operand (engine tests)
	R          *rand.Rand // nil: canonical spelling; else syntactic variants

	Off     map[string]bool
	Force   map[string]bool
	Used    map[string]int
	MaxNest int

	seeded bool
	seed   uint64
	cnt    map[string]uint64
}

func isIdent(s string) bool {
	if s == "" {
		return false
	}
	for i, c := range s {
		switch {
		case c == '_' || (c >= 'a' && c <= 'z') || (c >= 'A' && c <= 'Z'):
		case c >= '0' && c <= '9' && i > 0:
		default:
			return false
		}
	}
	switch s {
	case "class", "implements", "this", "ctx":
		return false
	}
	return true
}

func fnv64(s string) uint64 {
	h := uint64(14695981039346656037)
	for i := 0; i < len(s); i++ {
		h ^= uint64(s[i])
		h *= 1099511628211
	}
	return h
}

// draw returns the next pseudo-random number of feature f's own stream.
func (st *renderStyle) draw(f string) uint64 {
	if !st.seeded {
		st.seeded = true
		if st.R != nil {
			st.seed = st.R.Uint64()
		}
	}
	if st.cnt == nil {
		st.cnt = map[string]uint64{}
	}
	n := st.cnt[f]
	st.cnt[f] = n + 1
	return splitmix(st.seed ^ fnv64(f) ^ splitmix(n))
}

// random reports whether syntactic variants are drawn (R given, or a style
// re-created from a known seed by reseeded()).
func (st *renderStyle) random() bool { return st.R != nil || st.seeded }

// reseeded returns a fresh style that repeats this style's decisions (same
// seed) with the given features switched off.
func (st *renderStyle) reseeded(off map[string]bool) *renderStyle {
	st.draw("reseed") // make sure the seed is drawn
	return &renderStyle{FullParens: st.FullParens, seeded: true, seed: st.seed, Off: off}
}

func (st *renderStyle) note(f string) {
	if st.Used == nil {
		st.Used = map[string]int{}
	}
	st.Used[f]++
}

// coin decides whether optional spelling f is used at this site.
func (st *renderStyle) coin(f string, p float64) bool {
	if st.Force != nil {
		if st.Force[f] {
			st.note(f)
			return true
		}
		return false
	}
	if !st.random() {
		return false
	}
	v := st.draw(f)
	if st.Off[f] {
		return false
	}
	if float64(v>>11)/float64(1<<53) < p {
		st.note(f)
		return true
	}
	return false
}

// pickN chooses among n alternatives of feature group f (0 = canonical).
func (st *renderStyle) pickN(f string, n int) int {
	if !st.random() || st.Force != nil {
		return 0
	}
	return int(st.draw(f) % uint64(n))
}

func (st *renderStyle) quote(f string, s string) string {
	if st.coin(f+"-single-quote", 0.5) {
		return "'" + s + "'"
	}
	return "\"" + s + "\""
}

var wsKinds = []struct{ name, text string }{
	{"ws-space", " "}, {"ws-newline", "\n"}, {"ws-block-comment", " /* c */ "}, {"ws-line-comment", " // lc\n"},
	{"ws-tab", "\t"}, {"ws-doc-comment", "/** doc */"},
	// comment terminators and contents that a hand-written comment scanner gets wrong
	{"ws-comment-empty", "/**/"}, {"ws-comment-stars", "/***/"}, {"ws-comment-star-run-end", "/* x **/"},
	{"ws-comment-banner", "/**** banner ****/"}, {"ws-comment-dashes-stars", "/*----**/"},
	{"ws-comment-slashes-inside", "/* a / b // c */"}, {"ws-line-comment-with-block", " // x /* y */\n"},
	{"ws-comment-multiline", "/*\n * doc\n */"}, {"ws-crlf", "\r\n"}, {"ws-comment-quote-inside", "/* it's \"q\" */"},
}

// ws: optional white space / comment between two tokens.
func (st *renderStyle) ws() string {
	if st.Force != nil {
		for _, k := range wsKinds {
			if st.Force[k.name] {
				st.note(k.name)
				return k.text
			}
		}
		return ""
	}
	if !st.random() {
		return ""
	}
	k := int(st.draw("ws") % uint64(2*len(wsKinds)))
	if k < len(wsKinds) && !st.Off[wsKinds[k].name] {
		st.note(wsKinds[k].name)
		return wsKinds[k].text
	}
	return ""
}

// wsInline: like ws but never contains a line terminator (TypeScript forbids
// one between the parameters of an arrow function and "=>").
func (st *renderStyle) wsInline() string {
	s := st.ws()
	if strings.Contains(s, "\n") {
		return " "
	}
	return s
}

func (st *renderStyle) propName(s string) string {
	if !isIdent(s) || st.coin("quoted-name", 0.25) {
		return st.quote("quoted-name", s)
	}
	return s
}

// access renders ".name" or "[\"name\"]"
func (st *renderStyle) access(s string) string {
	if !isIdent(s) || st.coin("bracket-access", 0.3) {
		return "[" + st.quote("bracket-access", s) + "]"
	}
	return "." + s
}

func (st *renderStyle) typeRef(t TypeRef) string {
	if t.Rel == "" {
		return t.NS
	}
	return "SubjectSet<" + st.ws() + t.NS + st.ws() + "," + st.ws() + st.quote("subjectset", t.Rel) + st.ws() + ">"
}

// types renders the array type of a relation; generic reports the Array<...> spelling.
func (st *renderStyle) types(ts []TypeRef) (text string, generic bool) {
	var parts []string
	for _, t := range ts {
		parts = append(parts, st.typeRef(t))
	}
	u := strings.Join(parts, " | ")
	if st.coin("type-array-generic", 0.35) {
		return "Array<" + u + ">", true
	}
	if len(ts) == 1 && !st.coin("type-parens-single", 0.2) {
		return u + "[]", false
	}
	return "(" + u + ")[]", false
}

func prec(op string) int {
	switch op {
	case "or":
		return 1
	case "and":
		return 2
	case "not":
		return 3
	}
	return 4
}

func (st *renderStyle) nest(d int) {
	if d > st.MaxNest {
		st.MaxNest = d
	}
}

func (st *renderStyle) leaf(e *Expr) string {
	switch e.Op {
	case "csr":
		if e.ViaPermits {
			return "this" + st.ws() + ".permits" + st.access(e.Rel) + "(ctx)"
		}
		return "this" + st.ws() + ".related" + st.access(e.Rel) + ".includes(ctx.subject)"
	case "ttu":
		arg := "p"
		if k := st.pickN("lambda-arg-name", 4); k > 0 && !st.Off["lambda-arg-name"] {
			arg = []string{"p", "x", "parent", "_o"}[k]
			st.note("lambda-arg-name")
		}
		lhs := "(" + arg + ")"
		if st.coin("lambda-no-parens", 0.5) {
			lhs = arg
		}
		body := ""
		if e.ViaPermits {
			body = arg + ".permits" + st.access(e.Comp) + "(ctx)"
			if st.coin("comma-after-permits-lambda", 0.05) {
				body += ","
			}
		} else {
			body = arg + ".related" + st.access(e.Comp) + ".includes(ctx.subject"
			if st.coin("comma-after-ctx-subject-in-traverse", 0.15) {
				body += ","
			}
			body += ")"
			if st.coin("comma-after-includes-lambda", 0.15) {
				body += ","
			}
		}
		return "this.related" + st.access(e.Rel) + ".traverse(" + lhs + st.wsInline() + "=>" + st.ws() + body + ")"
	}
	panic("not a leaf")
}

// expr renders e at nesting depth d (number of enclosing "(" and "!").
func (st *renderStyle) expr(e *Expr, d int) string {
	switch e.Op {
	case "csr", "ttu":
		if st.coin("redundant-parens-leaf", 0.08) {
			st.nest(d + 1)
			return "(" + st.leaf(e) + ")"
		}
		return st.leaf(e)
	case "not":
		k := e.Kids[0]
		st.nest(d + 1)
		switch {
		case k.Op == "csr" || k.Op == "ttu":
			if st.coin("parens-after-not-leaf", 0.2) {
				st.nest(d + 2)
				return "!(" + st.leaf(k) + ")"
			}
			return "!" + st.leaf(k)
		case k.Op == "not" && !st.FullParens:
			// TypeScript: `!!x` needs no parentheses
			if st.coin("parens-between-nots", 0.3) {
				st.nest(d + 2)
				return "!(" + st.expr(k, d+2) + ")"
			}
			return "!" + st.expr(k, d+1)
		default:
			st.nest(d + 2)
			return "!(" + st.expr(k, d+2) + ")"
		}
	}
	opTok := " || "
	if e.Op == "and" {
		opTok = " && "
	}
	var parts []string
	for _, k := range e.Kids {
		composite := k.Op == "or" || k.Op == "and"
		need := composite && prec(k.Op) < prec(e.Op)
		if composite && k.Op == e.Op {
			// same operator nested: canonical keeps the grouping explicit
			need = !st.coin("no-parens-same-op", 0.5)
		}
		if st.FullParens && composite {
			need = true
		}
		if composite && !need && st.coin("redundant-parens-group", 0.15) {
			need = true
		}
		if need {
			st.nest(d + 1)
			parts = append(parts, "("+st.expr(k, d+1)+")")
		} else {
			parts = append(parts, st.expr(k, d))
		}
	}
	return strings.Join(parts, st.ws()+opTok+st.ws())
}

func (st *renderStyle) render(c *Cfg) string {
	var sb strings.Builder
	switch {
	case st.coin("no-import", 0.4):
	case st.coin("import-single-quote-semicolon", 0.3):
		sb.WriteString("import { Namespace, SubjectSet, Context } from '@ory/keto-namespace-types';\n\n")
	default:
		sb.WriteString("import { Namespace, SubjectSet, Context } from \"@ory/keto-namespace-types\"\n\n")
	}
	for _, n := range c.NS {
		sb.WriteString(st.ws())
		sb.WriteString("class " + n.Name + " implements Namespace {\n")
		var related, permits []*RelDef
		for _, r := range n.Rels {
			if r.Rewrite != nil {
				permits = append(permits, r)
			} else {
				related = append(related, r)
			}
		}
		// the two members of a class may come in either order
		permitsFirst := len(related) > 0 && len(permits) > 0 && st.coin("permits-before-related", 0.25)
		outer := &sb
		var relatedBlock strings.Builder
		if len(related) > 0 {
			sb := outer
			if permitsFirst {
				sb = &relatedBlock
			}
			sb.WriteString("  related: {\n")
			for _, r := range related {
				ty, generic := st.types(r.Types)
				sb.WriteString("    " + st.propName(r.Name) + ":" + st.ws() + " " + ty)
				// member separators of a TypeScript type literal: newline, "," or ";"
				sfx := ""
				if generic {
					sfx = "-after-generic"
				}
				switch {
				case st.coin("rel-sep-comma"+sfx, 0.1):
					sb.WriteString(",")
				case st.coin("rel-sep-semicolon"+sfx, 0.2):
					sb.WriteString(";")
				}
				sb.WriteString("\n")
			}
			sb.WriteString("  }")
			if st.coin("semicolon-after-related-block", 0.3) {
				sb.WriteString(";")
			}
			sb.WriteString("\n")
		}
		if len(permits) > 0 {
			sb.WriteString("  permits = {\n")
			for i, r := range permits {
				ctxArg := "ctx: Context"
				if st.coin("no-ctx-type", 0.5) {
					ctxArg = "ctx"
				}
				ret := ": boolean"
				if st.coin("no-return-type", 0.5) {
					ret = ""
				}
				sb.WriteString("    " + st.propName(r.Name) + ": (" + ctxArg + ")" + ret + " =>" + st.ws() + "\n      ")
				sb.WriteString(st.expr(r.Rewrite, 0))
				if i < len(permits)-1 || !st.coin("no-trailing-comma-last-permission", 0.5) {
					sb.WriteString(",")
				}
				sb.WriteString("\n")
			}
			sb.WriteString("  }")
			if st.coin("semicolon-after-permits-block", 0.3) {
				sb.WriteString(";")
			}
			sb.WriteString("\n")
		}
		if permitsFirst {
			sb.WriteString(relatedBlock.String())
		}
		sb.WriteString("}\n")
	}
	out := sb.String()
	if st.coin("crlf", 0.1) {
		out = strings.ReplaceAll(out, "\n", "\r\n")
	}
	return out
}

// ---------------------------------------------------------------------------
// tuples

type Tup = ketoapi.RelationTuple

func tupID(ns, obj, rel, sub string) *Tup {
	return &Tup{Namespace: ns, Object: obj, Relation: rel, SubjectID: sp(sub)}
}
func tupSet(ns, obj, rel, sns, sobj, srel string) *Tup {
	return &Tup{Namespace: ns, Object: obj, Relation: rel, SubjectSet: &ketoapi.SubjectSet{Namespace: sns, Object: sobj, Relation: srel}}
}

func tupKey(t *Tup) string {
	if t.SubjectID != nil {
		return fmt.Sprintf("%q:%q#%q@id:%q", t.Namespace, t.Object, t.Relation, *t.SubjectID)
	}
	if t.SubjectSet != nil {
		return fmt.Sprintf("%q:%q#%q@set:%q:%q#%q", t.Namespace, t.Object, t.Relation, t.SubjectSet.Namespace, t.SubjectSet.Object, t.SubjectSet.Relation)
	}
	return fmt.Sprintf("%q:%q#%q@nil", t.Namespace, t.Object, t.Relation)
}

func subjKey(t *Tup) string {
	if t.SubjectID != nil {
		return "id:" + *t.SubjectID
	}
	if t.SubjectSet != nil {
		return fmt.Sprintf("set:%q:%q#%q", t.SubjectSet.Namespace, t.SubjectSet.Object, t.SubjectSet.Relation)
	}
	return "nil"
}

func tupStrings(ts []*Tup) []string {
	out := make([]string, len(ts))
	for i, t := range ts {
		out[i] = t.String()
	}
	return out
}

func sortedKeys(ts []*Tup) []string {
	out := make([]string, len(ts))
	for i, t := range ts {
		out[i] = tupKey(t)
	}
	sort.Strings(out)
	return out
}

func cloneTup(t *Tup) *Tup {
	c := *t
	if t.SubjectID != nil {
		c.SubjectID = sp(*t.SubjectID)
	}
	if t.SubjectSet != nil {
		ss := *t.SubjectSet
		c.SubjectSet = &ss
	}
	return &c
}
