package verifh

// C17 — the read API never modifies stored state.
//
// A state is built through the real mapper + persister (generated configuration,
// conforming and non-conforming relationships, adversarial object names). Then a
// generated sequence of read-API and syntax-API requests is served by the real
// REST routers and gRPC servers of the same registry:
//   REST  GET/POST /relation-tuples/check, GET/POST /relation-tuples/check/openapi,
//         POST /relation-tuples/batch/check, GET /relation-tuples/expand,
//         GET /relation-tuples, GET /namespaces, POST /opl/syntax/check
//   gRPC  Check, BatchCheck, Expand, ListRelationTuples, ListNamespaces, Syntax Check
// with names the database has never seen, unknown namespaces and malformed
// requests; plus the write API's read-only behaviour: DELETE by a query that
// matches nothing (REST and gRPC), which must not add name mappings either.
//
// Oracle: the byte-level dump of every table (env.Dump: all tables of
// sqlite_master, commit_time excluded) is taken before the sequence and after
// EVERY request; any difference is a violation attributed to the request kind
// that caused it.
//
// Inputs owned by C13 (null entries in a batch, absent gRPC subjects where the
// handler dereferences them) are not sent; handler panics / 5xx are counted, not
// judged here.

import (
	"context"
	"encoding/json"
	"fmt"
	"io"
	"math/rand/v2"
	"net/http"
	"net/http/httptest"
	"net/url"
	"strings"
	"testing"
	"time"

	"google.golang.org/grpc/status"

	"github.com/ory/keto/ketoapi"
	opl "github.com/ory/keto/proto/ory/keto/opl/v1alpha1"
	rts "github.com/ory/keto/proto/ory/keto/relation_tuples/v1alpha2"
)

type c17Req struct {
	Kind   string `json:"kind"`
	Flavor string `json:"flavor"` // known | unseen | unknown-ns | malformed
	// REST
	Method string `json:"method,omitempty"`
	Target string `json:"target,omitempty"`
	Body   string `json:"body,omitempty"`
	// gRPC
	Tuples     []*Tup                 `json:"tuples,omitempty"`
	Query      *ketoapi.RelationQuery `json:"query,omitempty"`
	Deprecated bool                   `json:"deprecated_fields,omitempty"`
	NoPayload  bool                   `json:"no_payload,omitempty"`
	MaxDepth   int32                  `json:"max_depth,omitempty"`
	PageSize   int32                  `json:"page_size,omitempty"`
	PageToken  string                 `json:"page_token,omitempty"`
	Content    string                 `json:"content,omitempty"`
	// request options every read request may carry (gRPC fields latest / snaptoken,
	// REST query parameters of the same names): they must not change what a read does
	Latest    bool   `json:"latest,omitempty"`
	Snaptoken string `json:"snaptoken,omitempty"`
}

type c17Case struct {
	Cfg      *Cfg      `json:"cfg"`
	Tuples   []string  `json:"tuples"`
	Requests []*c17Req `json:"requests"`
	tuples   []*Tup
}

type c17Gen struct {
	r       *rand.Rand
	idx     int64
	cfg     *Cfg
	w       *world
	state   []*Tup
	queries []*Tup
	names   map[string]bool // every object / subject string of the state
	nUnseen int
}

func (g *c17Gen) unseen() string {
	g.nUnseen++
	for {
		var s string
		switch g.r.IntN(3) {
		case 0:
			s = fmt.Sprintf("unseen-%d-%d", g.idx, g.nUnseen)
		case 1:
			s = advString(g.r) + fmt.Sprintf("~u%d", g.nUnseen)
		default:
			s = pickS(g.r, advPool) + fmt.Sprintf("~%d.%d", g.idx, g.nUnseen)
		}
		if len(s) > 600 {
			s = s[:utf8Cut(s, 600)] + fmt.Sprintf("~u%d", g.nUnseen)
		}
		if !g.names[s] {
			return s
		}
	}
}

func (g *c17Gen) unknownNS() string {
	for {
		s := pickS(g.r, []string{"NoSuchNamespace", "nosuch", "", " ", "Doc ", "doc", "USER", "n/a"}) + pickS(g.r, []string{"", "", "~x", advString(g.r)})
		if len(s) > 200 {
			s = s[:utf8Cut(s, 200)]
		}
		if g.cfg.ns(s) == nil {
			return s
		}
	}
}

// tuple returns a check-shaped tuple of the given flavor.
func (g *c17Gen) tuple(flavor string) *Tup {
	var t *Tup
	if len(g.state) > 0 && g.r.IntN(2) == 0 {
		t = cloneTup(g.state[g.r.IntN(len(g.state))])
	} else if len(g.queries) > 0 {
		t = cloneTup(g.queries[g.r.IntN(len(g.queries))])
	} else {
		t = tupID(g.cfg.NS[0].Name, "o", "r", "s")
	}
	switch flavor {
	case "unseen":
		k := 1 + g.r.IntN(3)
		if k&1 != 0 {
			t.Object = g.unseen()
		}
		if k&2 != 0 {
			if t.SubjectID != nil {
				t.SubjectID = sp(g.unseen())
			} else {
				t.SubjectSet.Object = g.unseen()
			}
		}
		if g.r.IntN(6) == 0 {
			t.Relation = g.unseen() // relations are not mapped, but never-seen ones take other engine paths
		}
	case "unknown-ns":
		if t.SubjectSet != nil && g.r.IntN(2) == 0 {
			t.SubjectSet.Namespace = g.unknownNS()
		} else {
			t.Namespace = g.unknownNS()
		}
		if g.r.IntN(2) == 0 {
			t.Object = g.unseen()
		}
	}
	return t
}

func (g *c17Gen) flavor() string {
	switch k := g.r.IntN(10); {
	case k < 2:
		return "known"
	case k < 6:
		return "unseen"
	case k < 8:
		return "unknown-ns"
	}
	return "malformed"
}

func (g *c17Gen) depthParam(v url.Values) {
	switch g.r.IntN(6) {
	case 0:
		v.Set("max-depth", fmt.Sprint(1+g.r.IntN(6)))
	case 1:
		v.Set("max-depth", pickS(g.r, []string{"0", "-1", "100", "1000000"}))
	}
}

var c17BadJSON = []string{"", "{", "[]", "null", "\"x\"", "{\"namespace\":1}", "{\"subject_set\":\"x\"}", "{\"subject_id\":{}}", "{\"tuples\":\"x\"}", "{\"tuples\":{}}", "{\"tuples\":[{}]}", "{\"tuples\":[[]]}", "\x00", "{\"namespace\":\"Doc\",\"object\":\"o\",\"relation\":\"r\"}"}

// query returns a list-shaped query of the given flavor.
func (g *c17Gen) query(flavor string) *ketoapi.RelationQuery {
	t := g.tuple(flavor)
	q := &ketoapi.RelationQuery{}
	shape := 1 + g.r.IntN(15)
	if flavor == "unknown-ns" {
		shape |= 1 | 8
	}
	if flavor == "unseen" {
		shape |= 2 | 8
	}
	if shape&1 != 0 {
		q.Namespace = sp(t.Namespace)
	}
	if shape&2 != 0 {
		q.Object = sp(t.Object)
	}
	if shape&4 != 0 {
		q.Relation = sp(t.Relation)
	}
	if shape&8 != 0 {
		q.SubjectID, q.SubjectSet = t.SubjectID, t.SubjectSet
	}
	return q
}

// noMatchQuery: a delete query that matches no stored relationship. With the
// deprecated gRPC query message an empty string means "field absent", so the
// query is judged in that reading too.
func (g *c17Gen) noMatchQuery(flavor string, deprecated bool) *ketoapi.RelationQuery {
	q := g.query(flavor)
	if q.Namespace == nil {
		q.Namespace = sp(g.cfg.NS[g.r.IntN(len(g.cfg.NS))].Name) // REST DELETE requires it
	}
	eff := *q
	if deprecated {
		for _, f := range []**string{&eff.Namespace, &eff.Object, &eff.Relation} {
			if *f != nil && **f == "" {
				*f = nil
			}
		}
	}
	for _, t := range g.state {
		if matchesQuery(t, &eff) {
			q.Object = sp(g.unseen())
			break
		}
	}
	return q
}

func (g *c17Gen) oplText(flavor string) string {
	text := (&renderStyle{R: g.r}).render(g.cfg)
	switch flavor {
	case "known":
		return text
	case "unseen":
		return strings.ReplaceAll(text, g.cfg.NS[0].Name, "Unseen"+fmt.Sprint(g.r.IntN(100)))
	case "unknown-ns":
		return "import { Namespace, Context } from \"@ory/keto-namespace-types\"\nclass A implements Namespace { related: { r: NoSuch[] } }"
	}
	switch g.r.IntN(4) {
	case 0:
		rs := []rune(text)
		return string(rs[:g.r.IntN(len(rs)+1)])
	case 1:
		return pickS(g.r, advPool)
	case 2:
		return ""
	}
	rs := []rune(text)
	if len(rs) > 0 {
		rs[g.r.IntN(len(rs))] = []rune("{}()=>.|&!:;\"x")[g.r.IntN(14)]
	}
	return string(rs)
}

var c17Kinds = []string{
	"rest-check-get", "rest-check-get-openapi", "rest-check-post", "rest-check-post-openapi", "rest-batch-check",
	"rest-expand", "rest-list", "rest-namespaces", "rest-syntax-check", "rest-delete-nomatch",
	"grpc-check", "grpc-batch-check", "grpc-expand", "grpc-list", "grpc-namespaces", "grpc-syntax-check", "grpc-delete-nomatch",
}

func (g *c17Gen) request(kind string) *c17Req {
	r := g.r
	fl := g.flavor()
	rq := &c17Req{Kind: kind, Flavor: fl}
	switch kind {
	case "rest-check-get", "rest-check-get-openapi":
		rq.Method = "GET"
		path := "/relation-tuples/check"
		if kind == "rest-check-get-openapi" {
			path += "/openapi"
		}
		v := g.tuple(fl).ToURLQuery()
		if fl == "malformed" {
			switch r.IntN(6) {
			case 0:
				v.Del("subject_id")
				v.Del("subject_set.namespace")
				v.Del("subject_set.object")
				v.Del("subject_set.relation")
			case 1:
				v.Set("subject", g.unseen())
			case 2:
				v.Set("subject_id", g.unseen())
				v.Set("subject_set.namespace", g.cfg.NS[0].Name)
			case 3:
				v.Del("object")
			case 4:
				v.Set("max-depth", pickS(r, []string{"abc", "1.5", "", "99999999999999999999"}))
			default:
				v.Del("namespace")
				v.Set("object", g.unseen())
			}
		} else {
			g.depthParam(v)
		}
		rq.Target = path + "?" + v.Encode()
	case "rest-check-post", "rest-check-post-openapi":
		rq.Method = "POST"
		path := "/relation-tuples/check"
		if kind == "rest-check-post-openapi" {
			path += "/openapi"
		}
		v := url.Values{}
		if fl == "malformed" {
			rq.Body = pickS(r, c17BadJSON)
			if r.IntN(3) == 0 {
				t := g.tuple("unseen")
				t.SubjectSet = &ketoapi.SubjectSet{Namespace: g.cfg.NS[0].Name, Object: g.unseen(), Relation: "r"}
				t.SubjectID = sp(g.unseen()) // both subjects
				rq.Body = jsonStr(t)
			}
		} else {
			rq.Body = jsonStr(g.tuple(fl))
			g.depthParam(v)
		}
		rq.Target = path
		if len(v) > 0 {
			rq.Target += "?" + v.Encode()
		}
	case "rest-batch-check":
		rq.Method = "POST"
		rq.Target = "/relation-tuples/batch/check"
		if fl == "malformed" {
			rq.Body = pickS(r, c17BadJSON)
			if r.IntN(3) == 0 {
				// one tuple without a subject between well-formed ones (never a null entry: C13)
				ts := []*Tup{g.tuple("unseen"), {Namespace: g.cfg.NS[0].Name, Object: g.unseen(), Relation: "r"}, g.tuple("known")}
				rq.Body = jsonStr(map[string]any{"tuples": ts})
			}
		} else {
			n := 1 + r.IntN(8)
			var ts []*Tup
			for i := 0; i < n; i++ {
				f := fl
				if i > 0 && r.IntN(3) == 0 {
					f = pickS(r, []string{"known", "unseen", "unknown-ns"})
				}
				ts = append(ts, g.tuple(f))
			}
			rq.Body = jsonStr(map[string]any{"tuples": ts})
			v := url.Values{}
			g.depthParam(v)
			if len(v) > 0 {
				rq.Target += "?" + v.Encode()
			}
		}
	case "rest-expand":
		rq.Method = "GET"
		t := g.tuple(fl)
		v := url.Values{"namespace": {t.Namespace}, "object": {t.Object}, "relation": {t.Relation}}
		if fl == "malformed" {
			switch r.IntN(3) {
			case 0:
				v.Del("namespace")
			case 1:
				v.Set("max-depth", "x")
			default:
				v = url.Values{"subject_id": {g.unseen()}}
			}
		} else {
			g.depthParam(v)
		}
		rq.Target = "/relation-tuples/expand?" + v.Encode()
	case "rest-list":
		rq.Method = "GET"
		q := g.query(fl)
		v := q.ToURLQuery()
		if fl == "malformed" {
			switch r.IntN(5) {
			case 0:
				v.Set("page_token", pickS(r, []string{"x", "-1", "00000000-0000-0000-0000-000000000000", g.unseen()}))
			case 1:
				v.Set("page_size", pickS(r, []string{"x", "-5", "1e3", "99999999999999999999"}))
			case 2:
				v.Set("subject", g.unseen())
			case 3:
				v.Set("subject_set.namespace", g.cfg.NS[0].Name)
				v.Del("subject_set.object")
				v.Del("subject_id")
			default:
				v.Set("subject_id", g.unseen())
				v.Set("subject_set.object", g.unseen())
			}
		} else if r.IntN(3) == 0 {
			v.Set("page_size", fmt.Sprint(1+r.IntN(5)))
		}
		rq.Target = "/relation-tuples?" + v.Encode()
	case "rest-namespaces":
		rq.Method = "GET"
		rq.Target = "/namespaces"
		if fl == "malformed" {
			rq.Target += "?x=" + url.QueryEscape(g.unseen())
		}
	case "rest-syntax-check":
		rq.Method = "POST"
		rq.Target = "/opl/syntax/check"
		rq.Body = g.oplText(fl)
	case "rest-delete-nomatch":
		rq.Method = "DELETE"
		v := g.noMatchQuery(fl, false).ToURLQuery()
		if fl == "malformed" {
			switch r.IntN(3) {
			case 0:
				v.Del("namespace")
			case 1:
				v.Set("extra", g.unseen())
			default:
				v.Set("subject", g.unseen())
			}
		}
		rq.Target = "/admin/relation-tuples?" + v.Encode()
	case "grpc-check":
		rq.Tuples = []*Tup{g.tuple(fl)}
		if fl == "malformed" {
			rq.Tuples = []*Tup{g.tuple("unseen")}
			switch r.IntN(3) {
			case 0:
				rq.NoPayload = true // neither tuple nor flat fields
			case 1:
				rq.Tuples[0].SubjectID, rq.Tuples[0].SubjectSet = nil, nil // Check tolerates an absent subject (InvalidArgument)
			default:
				rq.MaxDepth = -7
			}
		} else {
			rq.Deprecated = r.IntN(4) == 0
			rq.MaxDepth = int32([]int{0, 0, 1, 3, 100}[r.IntN(5)])
		}
	case "grpc-batch-check":
		n := 1 + r.IntN(8)
		if fl == "malformed" {
			n = 0
			if r.IntN(2) == 0 {
				n = 12 // above nothing: default batch limit is larger; still a plain batch
			}
			fl2 := "unseen"
			for i := 0; i < n; i++ {
				rq.Tuples = append(rq.Tuples, g.tuple(fl2))
			}
			rq.MaxDepth = -1
		} else {
			for i := 0; i < n; i++ {
				f := fl
				if i > 0 && r.IntN(3) == 0 {
					f = pickS(r, []string{"known", "unseen", "unknown-ns"})
				}
				rq.Tuples = append(rq.Tuples, g.tuple(f))
			}
		}
	case "grpc-expand":
		t := g.tuple(fl)
		if fl == "malformed" {
			// a subject id instead of a subject set
			rq.Tuples = []*Tup{{SubjectID: sp(g.unseen())}}
		} else {
			rq.Tuples = []*Tup{{SubjectSet: &ketoapi.SubjectSet{Namespace: t.Namespace, Object: t.Object, Relation: t.Relation}}}
			rq.MaxDepth = int32([]int{0, 0, 1, 2, 50}[r.IntN(5)])
		}
	case "grpc-list":
		rq.Query = g.query(fl)
		if fl == "malformed" {
			switch r.IntN(3) {
			case 0:
				rq.NoPayload = true
			case 1:
				rq.PageToken = pickS(r, []string{"x", "-1", g.unseen()})
			default:
				rq.PageSize = -3
			}
		} else {
			rq.Deprecated = r.IntN(4) == 0
			if r.IntN(3) == 0 {
				rq.PageSize = int32(1 + r.IntN(5))
			}
		}
	case "grpc-namespaces":
	case "grpc-syntax-check":
		rq.Content = g.oplText(fl)
	case "grpc-delete-nomatch":
		rq.Deprecated = fl != "malformed" && r.IntN(4) == 0
		rq.Query = g.noMatchQuery(fl, rq.Deprecated)
		rq.NoPayload = fl == "malformed"
	}
	switch g.r.IntN(5) {
	case 0:
		rq.Latest = true
	case 1:
		rq.Snaptoken = "not-a-snaptoken"
	case 2:
		rq.Latest, rq.Snaptoken = true, g.unseen()
	}
	if rq.Method == "GET" && (rq.Latest || rq.Snaptoken != "") && strings.Contains(rq.Target, "?") {
		rq.Target += "&latest=" + fmt.Sprint(rq.Latest) + "&snaptoken=" + url.QueryEscape(rq.Snaptoken)
	}
	return rq
}

func genC17Case(r *rand.Rand, idx int64, nReq int) *c17Case {
	o := genOpts{AllowAnd: true, AllowNot: idx%2 == 0, AllowTTU: true, MaxExprDepth: 2}
	cfg := genCfg(r, o)
	w := genWorld(r, cfg, true)
	c := &c17Case{Cfg: cfg}
	c.tuples = genTuples(r, cfg, w, 3+r.IntN(38), true)
	for _, t := range c.tuples {
		c.Tuples = append(c.Tuples, descTup(t))
	}
	g := &c17Gen{r: r, idx: idx, cfg: cfg, w: w, state: c.tuples, names: map[string]bool{}}
	g.queries = genQueries(r, cfg, w, c.tuples, 8)
	for _, t := range c.tuples {
		g.names[t.Object] = true
		g.names[c16SubjectName(t)] = true
	}
	// every kind at least once, the rest random
	kinds := shuffled(r, c17Kinds)
	for len(kinds) < nReq {
		kinds = append(kinds, c17Kinds[r.IntN(len(c17Kinds))])
	}
	kinds = shuffled(r, kinds[:nReq])
	for _, k := range kinds {
		c.Requests = append(c.Requests, g.request(k))
	}
	return c
}

type c17Exec struct {
	env    *Env
	ctx    context.Context
	read   http.Handler
	write  http.Handler
	syntax http.Handler
	g      *grpcClients
}

// serveHTTP drives a handler the way net/http's server does: the request is a
// server request (httptest.NewRequest: Body is never nil, http.NoBody when
// empty) carrying ctx. A panic escaping ServeHTTP is returned as panicText.
func serveHTTP(ctx context.Context, h http.Handler, method, target, body string) (status int, respBody string, panicText string) {
	var req *http.Request
	if pt := guard(func() {
		var rd io.Reader
		if body != "" {
			rd = strings.NewReader(body)
		}
		req = httptest.NewRequest(method, "http://keto.test"+target, rd).WithContext(ctx)
	}); pt != "" {
		return -1, "", "" // not expressible as an HTTP request line
	}
	rec := httptest.NewRecorder()
	if panicText = guard(func() { h.ServeHTTP(rec, req) }); panicText != "" {
		return 0, "", panicText
	}
	return rec.Code, rec.Body.String(), ""
}

func protoSubject(t *Tup) *rts.Subject {
	switch {
	case t.SubjectID != nil:
		return rts.NewSubjectID(*t.SubjectID)
	case t.SubjectSet != nil:
		return rts.NewSubjectSet(t.SubjectSet.Namespace, t.SubjectSet.Object, t.SubjectSet.Relation)
	}
	return nil
}

func protoTuple(t *Tup) *rts.RelationTuple {
	return &rts.RelationTuple{Namespace: t.Namespace, Object: t.Object, Relation: t.Relation, Subject: protoSubject(t)}
}

func strOr(p *string) string {
	if p == nil {
		return ""
	}
	return *p
}

// do executes one request; returns a status label ("200", "grpc:NotFound", "panic", "timeout").
func (x *c17Exec) do(rq *c17Req) string {
	if rq.Method != "" {
		h := x.read
		switch rq.Kind {
		case "rest-syntax-check":
			h = x.syntax
		case "rest-delete-nomatch":
			h = x.write
		}
		st, _, pt := serveHTTP(x.ctx, h, rq.Method, rq.Target, rq.Body)
		if pt != "" {
			return "panic"
		}
		return fmt.Sprint(st)
	}
	ctx, cancel := context.WithTimeout(x.ctx, 20*time.Second)
	defer cancel()
	var err error
	switch rq.Kind {
	case "grpc-check":
		req := &rts.CheckRequest{MaxDepth: rq.MaxDepth, Latest: rq.Latest, Snaptoken: rq.Snaptoken}
		if !rq.NoPayload {
			t := rq.Tuples[0]
			if rq.Deprecated {
				req.Namespace, req.Object, req.Relation, req.Subject = t.Namespace, t.Object, t.Relation, protoSubject(t)
			} else {
				req.Tuple = protoTuple(t)
			}
		}
		_, err = x.g.Check.Check(ctx, req)
	case "grpc-batch-check":
		req := &rts.BatchCheckRequest{MaxDepth: rq.MaxDepth, Latest: rq.Latest, Snaptoken: rq.Snaptoken}
		for _, t := range rq.Tuples {
			req.Tuples = append(req.Tuples, protoTuple(t))
		}
		_, err = x.g.Check.BatchCheck(ctx, req)
	case "grpc-expand":
		_, err = x.g.Expand.Expand(ctx, &rts.ExpandRequest{Subject: protoSubject(rq.Tuples[0]), MaxDepth: rq.MaxDepth, Snaptoken: rq.Snaptoken})
	case "grpc-list":
		req := &rts.ListRelationTuplesRequest{PageSize: rq.PageSize, PageToken: rq.PageToken, Snaptoken: rq.Snaptoken}
		if !rq.NoPayload {
			if rq.Deprecated {
				req.Query = &rts.ListRelationTuplesRequest_Query{Namespace: strOr(rq.Query.Namespace), Object: strOr(rq.Query.Object), Relation: strOr(rq.Query.Relation), Subject: rq.Query.ToProto().Subject} //nolint:staticcheck
			} else {
				req.RelationQuery = rq.Query.ToProto()
			}
		}
		_, err = x.g.Read.ListRelationTuples(ctx, req)
	case "grpc-namespaces":
		_, err = x.g.Namespaces.ListNamespaces(ctx, &rts.ListNamespacesRequest{})
	case "grpc-syntax-check":
		_, err = x.g.Syntax.Check(ctx, &opl.CheckRequest{Content: []byte(rq.Content)})
	case "grpc-delete-nomatch":
		req := &rts.DeleteRelationTuplesRequest{}
		if !rq.NoPayload {
			if rq.Deprecated {
				req.Query = &rts.DeleteRelationTuplesRequest_Query{Namespace: strOr(rq.Query.Namespace), Object: strOr(rq.Query.Object), Relation: strOr(rq.Query.Relation), Subject: rq.Query.ToProto().Subject} //nolint:staticcheck
			} else {
				req.RelationQuery = rq.Query.ToProto()
			}
		}
		_, err = x.g.Write.DeleteRelationTuples(ctx, req)
	}
	if ctx.Err() != nil {
		return "timeout"
	}
	return "grpc:" + status.Code(err).String()
}

// dumpDelta names the tables that gained / lost rows between two dumps.
func dumpDelta(a, b []string) string {
	cnt := map[string]int{}
	for _, l := range a {
		cnt[l]--
	}
	for _, l := range b {
		cnt[l]++
	}
	tabs := map[string]bool{}
	for l, v := range cnt {
		if v == 0 {
			continue
		}
		tbl := l
		if i := strings.Index(l, "|"); i >= 0 {
			tbl = l[:i]
		}
		if v > 0 {
			tabs["+"+tbl] = true
		} else {
			tabs["-"+tbl] = true
		}
	}
	var out []string
	for t := range tabs {
		out = append(out, t)
	}
	sortStrings(out)
	return strings.Join(out, ",")
}

func sortStrings(xs []string) {
	for i := 1; i < len(xs); i++ {
		for j := i; j > 0 && xs[j] < xs[j-1]; j-- {
			xs[j], xs[j-1] = xs[j-1], xs[j]
		}
	}
}

func c17Reached(st string) bool {
	switch st {
	case "200", "403", "404", "204", "grpc:OK", "grpc:NotFound":
		return true
	}
	return false
}

func TestC17(t *testing.T) {
	run := newRunner(t, "C17")
	defer run.finish()
	p := run.p
	nCases := int64(p.pick(4000, 36000))
	const nReq = 30
	seen := map[string]int{}

	for idx := int64(0); idx < nCases; idx++ {
		if !p.mine(idx) {
			continue
		}
		r := p.rng(idx, "case")
		c := genC17Case(r, idx, nReq)
		run.begin(idx, "", c)
		verdict := runC17Case(run, idx, c, seen)
		run.end(idx, "", verdict)
	}
}

func runC17Case(run *runner, idx int64, c *c17Case, seen map[string]int) string {
	env, err := newEnv(run.t, EnvOpts{Namespaces: c.Cfg.toKeto(), MaxDepth: 6})
	if err != nil {
		run.inconclusive(fmt.Sprintf("idx %d: env: %v", idx, err))
		return "inconclusive"
	}
	// every request of the case runs under reqCtx; cancelling it at the end lets
	// keto's check goroutines that outlive their request (C15's subject) exit, so
	// that Env.Close (which waits for them before closing the connection) is quick
	reqCtx, cancelReqs := context.WithCancel(env.Ctx)
	defer func() {
		cancelReqs()
		env.Close()
	}()
	if err := env.Write(c.tuples...); err != nil {
		run.inconclusive(fmt.Sprintf("idx %d: write: %v", idx, err))
		return "inconclusive"
	}
	g, err := newGRPC(env)
	if err != nil {
		run.inconclusive(fmt.Sprintf("idx %d: grpc: %v", idx, err))
		return "inconclusive"
	}
	defer g.Close()
	x := &c17Exec{env: env, ctx: reqCtx, read: env.Reg.ReadRouter(env.Ctx), write: env.Reg.WriteRouter(env.Ctx), syntax: env.Reg.OPLSyntaxRouter(env.Ctx), g: g}

	base, err := env.Dump()
	if err != nil {
		run.inconclusive(fmt.Sprintf("idx %d: dump: %v", idx, err))
		return "inconclusive"
	}
	first := base
	run.count("state_rows", int64(len(base)))
	verdict := "ok"
	for ri, rq := range c.Requests {
		st := x.do(rq)
		if st == "timeout" {
			env.dirty = true
			run.inconclusive(fmt.Sprintf("idx %d request %d (%s): no answer within 20 s", idx, ri, rq.Kind))
			return "inconclusive"
		}
		after, err := env.Dump()
		if err != nil {
			run.inconclusive(fmt.Sprintf("idx %d: dump after request %d: %v", idx, ri, err))
			return "inconclusive"
		}
		run.eval(1)
		run.count("requests_"+rq.Kind, 1)
		run.setAdd("kind_flavor_status", rq.Kind+"/"+rq.Flavor+"/"+st)
		run.count("answers_"+st, 1)
		switch {
		case st == "panic":
			run.count("handler_panics_not_judged_here", 1)
		case strings.HasPrefix(st, "5") || st == "grpc:Internal" || st == "grpc:Unknown":
			run.count("server_errors_not_judged_here", 1)
		}
		if rq.Flavor == "unseen" && c17Reached(st) {
			run.nontrivial(fmt.Sprintf("%d/%d", idx, ri))
			run.count("requests_with_unseen_names_answered", 1)
		}
		if d := diffDumps(base, after); d != "" {
			verdict = "violation"
			sig := fmt.Sprintf("C17:state-changed:%s:%s:%s", rq.Kind, rq.Flavor, dumpDelta(base, after))
			seen[sig]++
			if seen[sig] <= 3 {
				run.violate(violation{Index: idx, Sub: fmt.Sprintf("req%d", ri), Sig: sig,
					Summary: trunc(fmt.Sprintf("request %d (%s, %s, answered %s) changed the database: %s", ri, rq.Kind, rq.Flavor, st, d), 900),
					Case:    c, Detail: map[string]any{"request": rq, "status": st, "diff": trunc(d, 3000)}})
			} else {
				run.count("violations_beyond_3_per_signature", 1)
			}
			base = after // attribute later changes to their own request
		}
	}
	// whole-sequence comparison (redundant with the per-request one unless a change was undone)
	last, err := env.Dump()
	if err == nil {
		run.eval(1)
		if d := diffDumps(first, last); d != "" && verdict == "ok" {
			verdict = "violation"
			run.violate(violation{Index: idx, Sub: "sequence", Sig: "C17:state-changed:sequence:" + dumpDelta(first, last),
				Summary: trunc("the database differs after the request sequence: "+d, 900), Case: c})
		}
	}
	if idx < 2 {
		b, _ := json.Marshal(c.Requests[:4])
		run.sample(map[string]any{"index": idx, "config": c.Cfg, "tuples": c.Tuples, "first_requests": json.RawMessage(b)})
	}
	return verdict
}
