package verifh

// C06 — networks (tenants) sharing a database are fully isolated.
//
// Every case runs the same generated history under FOUR wirings, each on ONE
// database holding two networks A and B (plus the registry's own default
// network D, which must stay empty):
//
//  ctx         one registry (driver.NewDefaultRegistry) with a Contextualizer that
//              takes the network id from the request: from the request context
//              (ctxNetworkKey{}, REST requests and direct handler-level calls) or
//              from the gRPC metadata key x-verif-network (what a multi-tenant
//              deployment's Contextualizer does with a tenant header). Covered
//              paths: REST routers, gRPC servers, Mapper+Manager+Transactor and
//              both engines called directly — the traverser's raw SQL included.
//              (A gRPC server-side context cannot inherit values from the
//              client's context, hence the metadata route; it needs no
//              interceptor because the Contextualizer sees the handler context.)
//  persisters  two sql.Persister with different nid on the registry's connection
//              (keto's IsolationTest wiring), each with its own traverser,
//              mappers, check and expand engine; operations go through the
//              handler-level path (there is no router for a second persister).
//  ctx-raw, persisters-raw
//              the same two wirings driven BELOW the string<->UUID mapping
//              (rawDriver, storedrv_test.go): Manager, check engine and expand
//              engine are called with internal tuples whose object / subject
//              UUIDs are THE SAME in A and B. Through the API, every object is
//              UUIDv5(network, string), so A and B never share an object UUID and
//              the `nid = ?` predicate of every statement that names an object is
//              shadowed; only the raw wirings (and keto's own IsolationTest)
//              exercise those predicates. Measured on mutants: dropping
//              `AND nid = ?` from buildDelete, un-scoping ExistsRelationTuples or
//              the traverser's inner EXISTS is invisible to ctx / persisters and
//              caught by the raw wirings; UUIDv5 with a constant namespace is
//              caught by the mapped wirings (oracle S1).
//
// B holds a fixed data set drawn from the SAME universe as A's history (same
// namespaces, objects, relations, subjects, subject sets; different membership),
// so A's operations name B's rows all the time: creates of equal tuples, deletes
// of equal tuples, delete-by-query matching B's rows, the empty delete query,
// large patches.
//
// Oracles after EVERY step of A's history:
//   B1  every observable of B is unchanged: 16 list shapes x 2 value sets, 6
//       checks, 3 expands (round-robin over B's drivers) and the byte-level dump
//       restricted to rows with nid = B plus B's uuid mappings;
//   A1  A's observables equal the model of A exactly as in C04 (lists of all
//       shapes, checks, expands); a surplus that B's rows explain is reported as
//       a leak (C06:leak:*), any other difference as C06:list-mismatch etc.;
//   S1  the relationship table holds |model A| rows with nid = A, |B| rows with
//       nid = B and none with any other nid; every uuid mapping row (id, s)
//       satisfies id = UUIDv5(A, s) or UUIDv5(B, s);
//   W   as in C04 (invalid writes rejected without effect, valid ones accepted).

import (
	"context"
	"fmt"
	"math/rand/v2"
	"sort"
	"strconv"
	"strings"
	"sync"
	"testing"
	"time"

	"github.com/gofrs/uuid"
	"github.com/ory/x/networkx"
	"google.golang.org/grpc/metadata"

	"github.com/ory/keto/ketoapi"
)

// c06Contextualizer: netContextualizer (request context) + gRPC metadata.
type c06Contextualizer struct{ netContextualizer }

func (c c06Contextualizer) Network(ctx context.Context, def uuid.UUID) uuid.UUID {
	if n, ok := ctx.Value(ctxNetworkKey{}).(uuid.UUID); ok {
		return n
	}
	if md, ok := metadata.FromIncomingContext(ctx); ok {
		if v := md.Get(netMetadataKey); len(v) > 0 {
			if id, err := uuid.FromString(v[0]); err == nil {
				return id
			}
		}
	}
	return def
}

type c06Case struct {
	Universe *storeUniverse `json:"universe"`
	NidA     string         `json:"nid_a"`
	NidB     string         `json:"nid_b"`
	BData    []*Tup         `json:"b_data"`
	Ops      []*storeOp     `json:"ops"`
	// Rewrites: the first relation of every namespace is ALSO defined as the union
	// of the other relations (computed subject sets): checks then use the
	// traverser's rewrite lookup as well, not only direct lookups and expansions
	Rewrites bool `json:"rewrites,omitempty"`
	nidA     uuid.UUID
	nidB     uuid.UUID
}

func randUUID(r *rand.Rand) uuid.UUID {
	var u uuid.UUID
	for i := 0; i < 16; i++ {
		u[i] = byte(r.UintN(256))
	}
	u.SetVersion(uuid.V4)
	u.SetVariant(uuid.VariantRFC4122)
	return u
}

func genC06Case(r *rand.Rand, idx int64) *c06Case {
	c := &c06Case{Universe: genStoreUniverse(r), Rewrites: idx%3 == 1}
	c.nidA, c.nidB = randUUID(r), randUUID(r)
	c.NidA, c.NidB = c.nidA.String(), c.nidB.String()
	// B's data: a sample of the universe with chains (subject sets of the universe
	// point at (namespace, object, relation) triples of the universe) and duplicates
	nB := 6 + r.IntN(25)
	for i := 0; i < nB; i++ {
		t := c.Universe.tuple(r)
		if i > 0 && r.IntN(10) == 0 {
			t = cloneTup(c.BData[r.IntN(len(c.BData))])
		}
		c.BData = append(c.BData, t)
	}
	g := &historyGen{r: r, u: c.Universe, writeVias: []string{"rest", "grpc", "mgr"}, deleteVias: []string{"rest", "grpc", "grpc-deprecated", "mgr"},
		maxPatch: 6, pEmptyDel: 0.08, pLargePatch: 0.04}
	// A's history names B's rows
	g.recent = append(g.recent, c.BData[:minInt(len(c.BData), 8)]...)
	n := 5 + r.IntN(36)
	for i := 0; i < n; i++ {
		c.Ops = append(c.Ops, g.op())
	}
	return c
}

// ---------------------------------------------------------------------------
// B's observables

type bObs struct {
	Kind  string // list | check | expand
	Query *ketoapi.RelationQuery
	Tuple *Tup
	Root  *ketoapi.SubjectSet
	Depth int
	Size  int
}

func genBObservations(r *rand.Rand, u *storeUniverse, bdata []*Tup) []*bObs {
	var out []*bObs
	own := bdata[r.IntN(len(bdata))]
	other := u.tuple(r)
	for shape := 0; shape < 16; shape++ {
		sz := listPageSizes[r.IntN(len(listPageSizes))]
		if shape%4 == 0 {
			sz = 1 // every page is full, also the last one
		}
		out = append(out, &bObs{Kind: "list", Query: queryOfShape(shape, own), Size: sz})
		out = append(out, &bObs{Kind: "list", Query: queryOfShape(shape, other), Size: listPageSizes[r.IntN(len(listPageSizes))]})
	}
	g := newGraphModel(bdata)
	for k := 0; k < 6; k++ {
		row := bdata[r.IntN(len(bdata))]
		q := cloneTup(row)
		switch k % 3 {
		case 1:
			// a subject one hop away (allowed in B through B's rows only)
			if row.SubjectSet != nil {
				if inner := g.by[setKey(row.SubjectSet.Namespace, row.SubjectSet.Object, row.SubjectSet.Relation)]; len(inner) > 0 {
					in := inner[r.IntN(len(inner))]
					q.SubjectID, q.SubjectSet = in.SubjectID, in.SubjectSet
				}
			}
		case 2:
			// probably denied in B; A's history may well write exactly this tuple
			t := u.tuple(r)
			q.SubjectID, q.SubjectSet = t.SubjectID, t.SubjectSet
		}
		out = append(out, &bObs{Kind: "check", Tuple: q})
	}
	for k := 0; k < 3; k++ {
		row := bdata[r.IntN(len(bdata))]
		out = append(out, &bObs{Kind: "expand", Root: &ketoapi.SubjectSet{Namespace: row.Namespace, Object: row.Object, Relation: row.Relation}, Depth: 2 + r.IntN(3)})
	}
	return out
}

func xnodeCanon(n *xnode) string {
	if n == nil {
		return "nil"
	}
	var kids []string
	for _, k := range n.Kids {
		kids = append(kids, xnodeCanon(k))
	}
	sort.Strings(kids)
	return n.Type + "(" + n.key() + ")[" + strings.Join(kids, ",") + "]"
}

// observeB evaluates one observable of B to a canonical string.
func observeB(d storeDriver, o *bObs) string {
	switch o.Kind {
	case "list":
		rows, pages, ans := listAll(d, o.Query, o.Size)
		if ans.Class != "ok" {
			return "answer:" + ans.Class
		}
		// the page structure is an observable too (a token after a full last page
		// would show as one more, empty, page)
		return "rows:" + strings.Join(sortedKeys(rows), "\x01") + fmt.Sprintf("|pages=%d", pages)
	case "check":
		ca := d.check(o.Tuple, 0)
		if ca.Class != "ok" {
			return "answer:" + ca.Class
		}
		return "allowed:" + strconv.FormatBool(ca.Allowed)
	default:
		ea := d.expand(o.Root, o.Depth)
		if ea.Class != "ok" && ea.Class != "notfound" {
			return "answer:" + ea.Class
		}
		return "tree:" + xnodeCanon(ea.Tree)
	}
}

// ---------------------------------------------------------------------------
// dump partition by network

type c06DumpView struct {
	bPart     []string // rows of network B + B's uuid mappings
	rowsA     int
	rowsB     int
	rowsOther []string
	badMaps   []string
}

func unquoteField(f string) string {
	if s, err := strconv.Unquote(f); err == nil {
		return s
	}
	return f
}

func c06View(dump []string, nidA, nidB uuid.UUID) *c06DumpView {
	v := &c06DumpView{}
	a, b := nidA.String(), nidB.String()
	for _, l := range dump {
		switch {
		case strings.HasPrefix(l, "keto_relation_tuples|"):
			f := strings.SplitN(l, "|", 4)
			nid := ""
			if len(f) >= 3 {
				nid = unquoteField(f[2])
			}
			switch nid {
			case a:
				v.rowsA++
			case b:
				v.rowsB++
				v.bPart = append(v.bPart, l)
			default:
				v.rowsOther = append(v.rowsOther, trunc(l, 300))
			}
		case strings.HasPrefix(l, "keto_uuid_mappings|"):
			rest := strings.TrimPrefix(l, "keto_uuid_mappings|")
			i := strings.Index(rest, "|")
			if i < 0 {
				v.badMaps = append(v.badMaps, trunc(l, 300))
				continue
			}
			id, s := unquoteField(rest[:i]), unquoteField(rest[i+1:])
			switch id {
			case uuid.NewV5(nidB, s).String():
				v.bPart = append(v.bPart, l)
			case uuid.NewV5(nidA, s).String():
			default:
				v.badMaps = append(v.badMaps, trunc(l, 300))
			}
		}
	}
	return v
}

// ---------------------------------------------------------------------------

func TestC06(t *testing.T) {
	run := newRunner(t, "C06")
	defer run.finish()
	p := run.p
	nCases := int64(p.pick(44, 2000))
	seen := map[string]int{}
	for idx := int64(0); idx < nCases; idx++ {
		if !p.mine(idx) {
			continue
		}
		r := p.rng(idx, "case")
		c := genC06Case(r, idx)
		for _, wiring := range []string{"ctx", "persisters", "ctx-raw", "persisters-raw"} {
			if p.ReplaySub != "" && strings.SplitN(p.ReplaySub, "/", 2)[0] != wiring {
				continue // replay: the violation's sub starts with its wiring
			}
			run.begin(idx, wiring, c)
			verdict := runC06Case(run, idx, wiring, c, seen)
			run.end(idx, wiring, verdict)
		}
	}
}

type c06Side struct {
	drivers []storeDriver
	byVia   map[string]storeDriver
}

// c06Cfg: the namespaces of the universe; with rewrites every relation of the
// universe is declared in every namespace and the first one is the union of the
// others (r0 = r1 || r2), in addition to its own relationships.
func c06Cfg(c *c06Case) *Cfg {
	cfg := c.Universe.cfg()
	if !c.Rewrites {
		return cfg
	}
	var names []string
	for _, rn := range c.Universe.Relations {
		if rn != "" {
			names = append(names, rn)
		}
	}
	if len(names) < 2 {
		return cfg
	}
	for _, n := range cfg.NS {
		for i, rn := range names {
			rd := &RelDef{Name: rn}
			if i == 0 {
				rd.Rewrite = &Expr{Op: "or"}
				for _, other := range names[1:] {
					rd.Rewrite.Kids = append(rd.Rewrite.Kids, &Expr{Op: "csr", Rel: other})
				}
			}
			n.Rels = append(n.Rels, rd)
		}
	}
	return cfg
}

func runC06Case(run *runner, idx int64, wiring string, c *c06Case, seen map[string]int) string {
	cfg := c06Cfg(c)
	opts := EnvOpts{Namespaces: c16NSConfig(c.Universe.Namespaces), MaxDepth: 64, MaxWidth: 1000}
	if c.Rewrites {
		opts.Namespaces = cfg.toKeto()
		run.count("cases_with_rewrites", 1)
	}
	if strings.HasPrefix(wiring, "ctx") {
		opts.Contextualizer = c06Contextualizer{}
	}
	env, err := newEnv(run.t, opts)
	if err != nil {
		run.inconclusive(fmt.Sprintf("idx %d %s: env: %v", idx, wiring, err))
		return "inconclusive"
	}
	caseCtx, cancelCase := context.WithCancel(env.Ctx)
	var g *grpcClients
	defer func() {
		cancelCase()
		if g != nil {
			g.Close()
		}
		env.Close()
	}()
	conn, err := env.Reg.PopConnection(env.Ctx)
	if err == nil {
		for _, id := range []uuid.UUID{c.nidA, c.nidB} {
			if err = conn.Create(&networkx.Network{ID: id}); err != nil {
				break
			}
		}
	}
	if err != nil {
		run.inconclusive(fmt.Sprintf("idx %d %s: networks: %v", idx, wiring, err))
		return "inconclusive"
	}

	var A, B c06Side
	one := func(d storeDriver) c06Side {
		return c06Side{drivers: []storeDriver{d}, byVia: map[string]storeDriver{"rest": d, "grpc": d, "grpc-deprecated": d, "mgr": d}}
	}
	switch wiring {
	case "ctx":
		if g, err = newGRPC(env); err != nil {
			run.inconclusive(fmt.Sprintf("idx %d: grpc: %v", idx, err))
			return "inconclusive"
		}
		read, write := env.Reg.ReadRouter(env.Ctx), env.Reg.WriteRouter(env.Ctx)
		side := func(nid uuid.UUID) c06Side {
			ctxN := context.WithValue(caseCtx, ctxNetworkKey{}, nid)
			rest := &restDriver{ctx: ctxN, read: read, write: write}
			gd := newGRPCDriver(caseCtx, g, &nid)
			md := newRegistryMgrDriver(ctxN, env.Reg)
			return c06Side{drivers: []storeDriver{rest, gd, md}, byVia: map[string]storeDriver{"rest": rest, "grpc": gd, "grpc-deprecated": gd, "mgr": md}}
		}
		A, B = side(c.nidA), side(c.nidB)
	case "ctx-raw":
		A = one(newRegistryRawDriver(context.WithValue(caseCtx, ctxNetworkKey{}, c.nidA), env.Reg))
		B = one(newRegistryRawDriver(context.WithValue(caseCtx, ctxNetworkKey{}, c.nidB), env.Reg))
	default:
		side := func(nid uuid.UUID) (c06Side, error) {
			deps, err := newNetDeps(env.Ctx, env.Reg, nid)
			if err != nil {
				return c06Side{}, err
			}
			if wiring == "persisters-raw" {
				return one(deps.rawDriver(caseCtx, "raw")), nil
			}
			return one(deps.driver(caseCtx, "mgr")), nil
		}
		if A, err = side(c.nidA); err == nil {
			B, err = side(c.nidB)
		}
		if err != nil {
			run.inconclusive(fmt.Sprintf("idx %d: persisters: %v", idx, err))
			return "inconclusive"
		}
	}
	raw := strings.HasSuffix(wiring, "-raw")

	// observation-path faults (VERIF_HARNESS_FAULT): A's observations may gain B's tuples, B's may lose rows
	A.drivers = wrapFaults(A.drivers, c.BData)
	if harnessFault() != "leak" {
		B.drivers = wrapFaults(B.drivers, nil)
	}

	m := &storeMon{run: run, prop: "C06", idx: idx, c: c, seen: seen, env: env, u: c.Universe, cfg: cfg, model: newRefStore(), net: "A", foreign: c.BData}

	// B's data set, written through B's drivers (round-robin, patches of up to 7)
	for i, k := 0, 0; i < len(c.BData); k++ {
		j := minInt(len(c.BData), i+1+k%7)
		op := &storeOp{Kind: "patch", Via: "mgr"}
		for _, t := range c.BData[i:j] {
			op.Deltas = append(op.Deltas, &ketoapi.PatchDelta{Action: ketoapi.ActionInsert, RelationTuple: t})
		}
		d := B.drivers[k%len(B.drivers)]
		if ans := d.apply(op); !ans.accepted() {
			m.violate(wiring+"/setup", fmt.Sprintf("C06:valid-write-rejected:setup-B:%s:%s", d.name(), ans.Code), fmt.Sprintf("writing B's data via %s failed: %s %s", d.name(), ans.Code, ans.Text), nil)
			return "violation"
		}
		i = j
	}
	m.model.create("B", c.BData...)

	// B's observables before A's history
	robs := run.p.rng(idx, "b-observables")
	obs := genBObservations(robs, c.Universe, c.BData)
	base := make([]string, len(obs))
	for i, o := range obs {
		base[i] = observeB(B.drivers[i%len(B.drivers)], o)
		if strings.HasPrefix(base[i], "answer:") && !(o.Kind == "list" && strings.HasPrefix(base[i], "answer:notfound")) {
			m.violate(wiring+"/setup", "C06:B-observable-error:"+o.Kind+":"+B.drivers[i%len(B.drivers)].name(), fmt.Sprintf("observable %d of B (%s) cannot be evaluated: %s", i, o.Kind, base[i]), nil)
			return "violation"
		}
		// B's own view must be the model of B (sanity of the set-up; lists only)
		if o.Kind == "list" && strings.HasPrefix(base[i], "rows:") {
			if want := "rows:" + strings.Join(sortedKeys(m.model.match("B", o.Query)), "\x01"); want != strings.SplitN(base[i], "|pages=", 2)[0] {
				m.violate(wiring+"/setup", "C06:B-list-differs-from-its-model:"+B.drivers[i%len(B.drivers)].name(), fmt.Sprintf("list %s in B differs from B's data before A did anything", descQuery(o.Query)), nil)
				return "violation"
			}
		}
	}
	dump0, err := env.Dump()
	if err != nil {
		run.inconclusive(fmt.Sprintf("idx %d: dump: %v", idx, err))
		return "inconclusive"
	}
	view0 := c06View(dump0, c.nidA, c.nidB)
	if view0.rowsB != len(c.BData) || len(view0.rowsOther) > 0 || len(view0.badMaps) > 0 {
		m.violate(wiring+"/setup", "C06:rows-in-wrong-network:setup-B", fmt.Sprintf("after writing %d tuples in B: %d rows with nid=B, %d with nid=A, other-nid rows %v, mappings under other networks %v",
			len(c.BData), view0.rowsB, view0.rowsA, view0.rowsOther[:minInt(len(view0.rowsOther), 3)], view0.badMaps[:minInt(len(view0.badMaps), 3)]), nil)
		return "violation"
	}

	r := run.p.rng(idx, "observe")
	known := c.Universe.knownNS()
	for step, op0 := range c.Ops {
		sub := fmt.Sprintf("%s/step%d", wiring, step)
		op := *op0
		if wiring != "ctx" {
			// one handler-level driver: keep the operation, drop the transport's peculiarities
			if op.Via == "grpc-deprecated" {
				op.Query = op.effQuery() // the deprecated reading of the query: "" = absent
			}
			op.Via = "mgr"
			if raw {
				op.Flaw = rawFlaw(&op)
			} else {
				op.Flaw = flawOf(&op, known)
			}
		}
		before, err := env.Dump()
		if err != nil {
			run.inconclusive(fmt.Sprintf("idx %d %s: dump: %v", idx, sub, err))
			return "inconclusive"
		}
		label, changed, stop := m.applyWrite(sub, A.byVia[op.Via], &op, before, env.Dump)
		if stop {
			break
		}
		label = wiring + "/" + label

		// --- B1: every observable of B
		for i, o := range obs {
			// rotating drivers: every driver of B must agree with the base value
			d := B.drivers[(i+step)%len(B.drivers)]
			got := observeB(d, o)
			run.eval(1)
			run.count("b_observations", 1)
			if got != base[i] {
				what := o.Kind
				if o.Kind == "list" {
					what = "list:q=" + shapeLetters(shapeOfQuery(o.Query))
				}
				m.violate(sub, fmt.Sprintf("C06:B-observable-changed:%s:%s:after=%s", what, d.name(), label),
					fmt.Sprintf("after %s in network A, observable %d of network B (%s via %s) changed: before %s, now %s", label, i, o.Kind, d.name(), trunc(base[i], 300), trunc(got, 300)),
					map[string]any{"op": &op, "observable": o})
			}
		}
		after, err := env.Dump()
		if err != nil {
			run.inconclusive(fmt.Sprintf("idx %d %s: dump: %v", idx, sub, err))
			return "inconclusive"
		}
		view := c06View(after, c.nidA, c.nidB)
		run.eval(1)
		if dd := diffDumps(view0.bPart, view.bPart); dd != "" {
			m.violate(sub, fmt.Sprintf("C06:B-dump-changed:after=%s", label), fmt.Sprintf("after %s in network A the rows / mappings of network B changed: %s", label, dd), map[string]any{"op": &op, "diff": trunc(dd, 2000)})
		}
		// --- S1
		if len(view.rowsOther) > 0 || len(view.badMaps) > 0 {
			m.violate(sub, fmt.Sprintf("C06:rows-in-wrong-network:after=%s", label), fmt.Sprintf("after %s in network A: rows with a nid that is neither A nor B: %v; mappings that are neither UUIDv5(A,s) nor UUIDv5(B,s): %v",
				label, view.rowsOther[:minInt(len(view.rowsOther), 3)], view.badMaps[:minInt(len(view.badMaps), 3)]), map[string]any{"op": &op})
		}
		if view.rowsA != m.model.size("A") {
			m.violate(sub, fmt.Sprintf("C06:row-count:A:after=%s", label), fmt.Sprintf("after %s the table holds %d rows with nid=A, the model of A %d", label, view.rowsA, m.model.size("A")), map[string]any{"op": &op})
		}

		// --- A1
		focus := focusTuple(r, c.Universe, &op)
		m.observeAllShapesBounded(sub, label, r, A.drivers, focus, step)
		m.observeReads(sub, label, r, A.drivers, focus, step)

		run.count("steps_"+wiring, 1)
		run.maxCounter("max_model_rows", int64(m.model.size("A")))
		if changed {
			run.count("steps_changing_A", 1)
			// non-trivial: A changed while B holds rows with the same strings
			run.nontrivial(fmt.Sprintf("%d/%s/%d", idx, wiring, step))
		}
		if op.Kind == "delete-query" && shapeOfQuery(op.effQuery()) == 0 && op.Flaw == "" {
			run.count("empty_delete_queries_in_A", 1)
		}
		if len(op.Deltas) >= 40 {
			run.count("large_patches_in_A", 1)
		}
		if m.fail {
			break
		}
	}
	if wiring == "ctx" && !m.fail {
		c06ConcurrentBatches(run, m, idx, c, env, caseCtx)
	}
	if idx < 2 && wiring == "ctx" {
		run.sample(map[string]any{"index": idx, "universe": c.Universe, "b_data": tupStrings(c.BData), "first_ops": c.Ops[:minInt(len(c.Ops), 4)], "n_ops": len(c.Ops)})
	}
	if m.fail {
		return "violation"
	}
	return "ok"
}

// c06ConcurrentBatches: the SAME batch of tuples (same strings, same max-depth) is
// checked by clients of network A and of network B at the same time, through the
// REST batch route of the one registry both networks share. Each network's
// answers must be what that network answers alone (its sequential answers before
// and after): nothing that is keyed by the strings of a request may be shared
// between networks.
func c06ConcurrentBatches(run *runner, m *storeMon, idx int64, c *c06Case, env *Env, caseCtx context.Context) {
	r := run.p.rng(idx, "concurrent-batches")
	read := env.Reg.ReadRouter(env.Ctx)
	var pool []*Tup
	for _, t := range m.model.rows("A") {
		pool = append(pool, t)
	}
	pool = append(pool, c.BData...)
	if len(pool) == 0 {
		return
	}
	var ts []*Tup
	for k := 0; k < 8; k++ {
		ts = append(ts, pool[r.IntN(len(pool))])
	}
	body := jsonStr(map[string]any{"tuples": ts})
	ask := func(nid uuid.UUID) string {
		ctxN := context.WithValue(caseCtx, ctxNetworkKey{}, nid)
		st, resp, pt := httpDoCtx(ctxN, 20*time.Second, read, "POST", "/relation-tuples/batch/check?max-depth=5", body, nil)
		if pt != "" {
			return "PANIC " + firstLine(pt)
		}
		return fmt.Sprintf("%d %s", st, resp)
	}
	soloA, soloB := ask(c.nidA), ask(c.nidB)
	if soloA == soloB {
		run.count("concurrent_batches_same_answer_in_both_networks", 1)
	} else {
		run.nontrivial(fmt.Sprintf("%d/concurrent-batch", idx))
	}
	type res struct {
		net string
		ans string
	}
	var mu sync.Mutex
	var got []res
	for round := 0; round < 6; round++ {
		var wg sync.WaitGroup
		start := make(chan struct{})
		for k := 0; k < 8; k++ {
			wg.Add(1)
			go func(k int) {
				defer wg.Done()
				<-start
				nid, name := c.nidA, "A"
				if k%2 == 1 {
					nid, name = c.nidB, "B"
				}
				a := ask(nid)
				mu.Lock()
				got = append(got, res{name, a})
				mu.Unlock()
			}(k)
		}
		close(start)
		wg.Wait()
	}
	againA, againB := ask(c.nidA), ask(c.nidB)
	run.count("concurrent_batch_requests", int64(len(got)))
	for _, g := range got {
		run.eval(1)
		want, again, other := soloA, againA, soloB
		if g.net == "B" {
			want, again, other = soloB, againB, soloA
		}
		if g.ans == want || g.ans == again || strings.Contains(g.ans, "deadline") || strings.Contains(g.ans, "canceled") {
			continue
		}
		cls := "differs"
		if g.ans == other {
			cls = "answer-of-the-other-network"
		}
		m.violate("ctx/concurrent-batch", "C06:concurrent-batch-check:"+cls,
			fmt.Sprintf("a batch check of network %s, issued while network %s checked the same tuples, was answered %s; alone the network answers %s (the other network: %s)", g.net, map[string]string{"A": "B", "B": "A"}[g.net], trunc(g.ans, 300), trunc(want, 300), trunc(other, 300)),
			map[string]any{"tuples": tupStrings(ts)})
		break
	}
}

// observeAllShapesBounded: as observeAllShapes, with the page size chosen so
// that one listing needs at most ~25 pages (A's model can hold hundreds of rows
// after a large patch).
func (m *storeMon) observeAllShapesBounded(sub, after string, r *rand.Rand, drivers []storeDriver, focus *Tup, step int) {
	size := func(q *ketoapi.RelationQuery) int {
		s := listPageSizes[r.IntN(len(listPageSizes))]
		if n := len(m.model.match(m.net, q)); s != 0 && n/s > 25 {
			return 0
		}
		return s
	}
	other := m.u.tuple(r)
	if rows := m.model.rows(m.net); len(rows) > 0 && r.IntN(2) == 0 {
		other = rows[r.IntN(len(rows))]
	}
	if len(m.foreign) > 0 && r.IntN(3) == 0 {
		other = m.foreign[r.IntN(len(m.foreign))] // values of a row that exists in B
	}
	unknown := m.u.unknownTuple(r)
	for shape := 0; shape < 16; shape++ {
		q := queryOfShape(shape, focus)
		for k, d := range drivers {
			if len(drivers) > 2 && (k+shape+step)%3 == 0 {
				continue // two of three drivers per shape
			}
			m.observeList(sub, after, d, q, size(q))
		}
		d := drivers[(shape+step)%len(drivers)]
		q2 := queryOfShape(shape, other)
		m.observeList(sub, after, d, q2, size(q2))
		if shape != 0 && (shape+step)%3 == 0 {
			d = drivers[(shape+step+1)%len(drivers)]
			q3 := queryOfShape(shape, unknown)
			m.observeList(sub, after, d, q3, size(q3))
		}
	}
}
