package verifh

// Shared runtime of every property entry point: deterministic per-case PRNG,
// shard selection, write-ahead journal (case before execution, verdict after),
// result aggregation written for the supervisor (check.py).

import (
	"crypto/sha256"
	"encoding/binary"
	"encoding/hex"
	"encoding/json"
	"fmt"
	"math/rand/v2"
	"os"
	"path/filepath"
	"runtime"
	"runtime/debug"
	"sort"
	"strconv"
	"strings"
	"sync"
	"testing"
	"time"

	"github.com/ory/keto/internal/x"
)

type xPaginationOptionSetter = x.PaginationOptionSetter

// ---------------------------------------------------------------------------
// run parameters

type runParams struct {
	Prop      string
	Seed      int64
	Tier      string // quick | thorough
	Shard     int
	NShards   int
	OutDir    string
	ReplayIdx int64 // >=0: execute only this case index
	ReplaySub string
	Mode      string // optional sub-mode of a property entry point
}

func envInt(k string, def int64) int64 {
	if v := os.Getenv(k); v != "" {
		if n, err := strconv.ParseInt(v, 10, 64); err == nil {
			return n
		}
	}
	return def
}

func loadParams(prop string) *runParams {
	p := &runParams{Prop: prop, Seed: envInt("VERIF_SEED", 1), Tier: os.Getenv("VERIF_TIER"), ReplayIdx: -1}
	if p.Tier != "thorough" {
		p.Tier = "quick"
	}
	p.Shard, p.NShards = 0, 1
	if s := os.Getenv("VERIF_SHARD"); s != "" {
		parts := strings.Split(s, "/")
		if len(parts) == 2 {
			a, _ := strconv.Atoi(parts[0])
			b, _ := strconv.Atoi(parts[1])
			if b > 0 {
				p.Shard, p.NShards = a, b
			}
		}
	}
	p.OutDir = os.Getenv("VERIF_OUT")
	if p.OutDir == "" {
		p.OutDir = filepath.Join(os.TempDir(), "verif-out-"+prop)
	}
	_ = os.MkdirAll(p.OutDir, 0o755)
	if v := os.Getenv("VERIF_REPLAY_INDEX"); v != "" {
		p.ReplayIdx = envInt("VERIF_REPLAY_INDEX", -1)
	}
	p.ReplaySub = os.Getenv("VERIF_REPLAY_SUB")
	p.Mode = os.Getenv("VERIF_MODE")
	return p
}

func (p *runParams) thorough() bool { return p.Tier == "thorough" }

// pick returns q in the quick tier and t in the thorough tier. VERIF_SCALE
// (float) scales both, used by sweeps.
func (p *runParams) pick(q, t int) int {
	n := q
	if p.thorough() {
		n = t
	}
	if s := os.Getenv("VERIF_SCALE"); s != "" {
		if f, err := strconv.ParseFloat(s, 64); err == nil && f > 0 {
			n = int(float64(n) * f)
			if n < 1 {
				n = 1
			}
		}
	}
	return n
}

// mine reports whether case idx belongs to this shard (or is the replayed one).
func (p *runParams) mine(idx int64) bool {
	if p.ReplayIdx >= 0 {
		return idx == p.ReplayIdx
	}
	return int(splitmix(uint64(idx)+0x51ed)%uint64(p.NShards)) == p.Shard
}

// rng returns the deterministic generator of one case.
func (p *runParams) rng(idx int64, stream string) *rand.Rand {
	h := sha256.Sum256([]byte(fmt.Sprintf("%s|%d|%d|%s", p.Prop, p.Seed, idx, stream)))
	return rand.New(rand.NewPCG(binary.LittleEndian.Uint64(h[:8]), binary.LittleEndian.Uint64(h[8:16])))
}

// ---------------------------------------------------------------------------
// journal + result

type violation struct {
	Property string `json:"property"`
	Index    int64  `json:"index"`
	Sub      string `json:"sub,omitempty"`
	Sig      string `json:"sig"`     // narrow signature used to match known findings
	Summary  string `json:"summary"` // human readable
	Case     any    `json:"case,omitempty"`
	Detail   any    `json:"detail,omitempty"`
}

type result struct {
	Property     string              `json:"property"`
	Shard        int                 `json:"shard"`
	Evaluations  int64               `json:"evaluations"`
	NontrivSigs  []string            `json:"nontrivial_sigs"`
	Counters     map[string]int64    `json:"counters"`
	Sets         map[string][]string `json:"sets"`
	Samples      []any               `json:"samples"`
	Violations   []violation         `json:"violations"`
	Inconclusive []string            `json:"inconclusive"`
	Complete     bool                `json:"complete"`
	WallS        float64             `json:"wall_s"`
}

type runner struct {
	t  testing.TB
	p  *runParams
	mu sync.Mutex

	jf         *os.File
	res        result
	nontriv    map[string]struct{}
	sets       map[string]map[string]struct{}
	start      time.Time
	maxSamples int
}

func newRunner(t testing.TB, prop string) *runner {
	p := loadParams(prop)
	r := &runner{t: t, p: p, nontriv: map[string]struct{}{}, sets: map[string]map[string]struct{}{}, start: time.Now(), maxSamples: 3}
	r.res.Property = prop
	r.res.Shard = p.Shard
	r.res.Counters = map[string]int64{}
	suffix := fmt.Sprintf("%s.%d", prop, p.Shard)
	if p.Mode != "" {
		suffix = fmt.Sprintf("%s.%s.%d", prop, p.Mode, p.Shard)
	}
	jf, err := os.OpenFile(filepath.Join(p.OutDir, "journal."+suffix+".jsonl"), os.O_CREATE|os.O_WRONLY|os.O_TRUNC, 0o644)
	if err != nil {
		t.Fatalf("journal: %v", err)
	}
	r.jf = jf
	// GC tuning: many short-lived registries
	debug.SetGCPercent(200)
	return r
}

func (r *runner) resultPath() string {
	suffix := fmt.Sprintf("%s.%d", r.p.Prop, r.p.Shard)
	if r.p.Mode != "" {
		suffix = fmt.Sprintf("%s.%s.%d", r.p.Prop, r.p.Mode, r.p.Shard)
	}
	return filepath.Join(r.p.OutDir, "result."+suffix+".json")
}

func (r *runner) jwrite(rec map[string]any) {
	rec["t"] = time.Since(r.start).Milliseconds()
	b, err := json.Marshal(rec)
	if err != nil {
		b, _ = json.Marshal(map[string]any{"ev": rec["ev"], "idx": rec["idx"], "marshal_error": err.Error()})
	}
	b = append(b, '\n')
	r.mu.Lock()
	_, _ = r.jf.Write(b)
	r.mu.Unlock()
}

// begin journals the case before it is executed.
func (r *runner) begin(idx int64, sub string, c any) {
	r.jwrite(map[string]any{"ev": "begin", "idx": idx, "sub": sub, "case": c})
}

// end journals the verdict.
func (r *runner) end(idx int64, sub string, verdict string) {
	r.jwrite(map[string]any{"ev": "end", "idx": idx, "sub": sub, "verdict": verdict})
}

func (r *runner) eval(n int64) {
	r.mu.Lock()
	r.res.Evaluations += n
	r.mu.Unlock()
}

func (r *runner) count(k string, n int64) {
	r.mu.Lock()
	r.res.Counters[k] += n
	r.mu.Unlock()
}

func (r *runner) maxCounter(k string, n int64) {
	r.mu.Lock()
	if r.res.Counters[k] < n {
		r.res.Counters[k] = n
	}
	r.mu.Unlock()
}

// nontrivial records the signature of a case that is non-trivial by the
// property's rule; distinct signatures are counted by the supervisor.
func (r *runner) nontrivial(sig string) {
	h := sha256.Sum256([]byte(sig))
	s := hex.EncodeToString(h[:8])
	r.mu.Lock()
	r.nontriv[s] = struct{}{}
	r.mu.Unlock()
}

// setAdd adds v to a named set (e.g. distinct storage-call orders); the
// supervisor reports set sizes.
func (r *runner) setAdd(name, v string) {
	h := sha256.Sum256([]byte(v))
	s := hex.EncodeToString(h[:8])
	r.mu.Lock()
	m := r.sets[name]
	if m == nil {
		m = map[string]struct{}{}
		r.sets[name] = m
	}
	m[s] = struct{}{}
	r.mu.Unlock()
}

func (r *runner) sample(c any) {
	r.mu.Lock()
	if len(r.res.Samples) < r.maxSamples {
		r.res.Samples = append(r.res.Samples, c)
	}
	r.mu.Unlock()
}

func (r *runner) violate(v violation) {
	v.Property = r.p.Prop
	r.mu.Lock()
	if len(r.res.Violations) < 200 {
		r.res.Violations = append(r.res.Violations, v)
	} else {
		r.res.Counters["violations_dropped"]++
	}
	r.mu.Unlock()
	r.jwrite(map[string]any{"ev": "violation", "idx": v.Index, "sub": v.Sub, "sig": v.Sig, "summary": v.Summary})
}

func (r *runner) inconclusive(msg string) {
	r.mu.Lock()
	if len(r.res.Inconclusive) < 50 {
		r.res.Inconclusive = append(r.res.Inconclusive, msg)
	}
	r.res.Counters["inconclusive"]++
	r.mu.Unlock()
}

func (r *runner) finish() {
	// finish is always the deferred function itself, so recover() sees a panic of the
	// test goroutine. A run that ends in a panic is NOT complete: the supervisor must
	// see a process death (with the original frames), never a short but "complete" run.
	if rec := recover(); rec != nil {
		r.mu.TryLock()
		r.res.Complete = false
		b, _ := json.Marshal(&r.res)
		_ = os.WriteFile(r.resultPath(), b, 0o644)
		panic(rec)
	}
	r.mu.Lock()
	defer r.mu.Unlock()
	r.res.Complete = true
	r.res.WallS = time.Since(r.start).Seconds()
	r.res.NontrivSigs = r.res.NontrivSigs[:0]
	for k := range r.nontriv {
		r.res.NontrivSigs = append(r.res.NontrivSigs, k)
	}
	sort.Strings(r.res.NontrivSigs)
	r.res.Sets = map[string][]string{}
	for name, m := range r.sets {
		var l []string
		for k := range m {
			l = append(l, k)
		}
		sort.Strings(l)
		r.res.Sets[name] = l
	}
	b, _ := json.Marshal(&r.res)
	tmp := r.resultPath() + ".tmp"
	_ = os.WriteFile(tmp, b, 0o644)
	_ = os.Rename(tmp, r.resultPath())
	_ = r.jf.Close()
}

// guard runs f, converting a panic into a violation-like record returned as string.
func guard(f func()) (panicked string) {
	defer func() {
		if rec := recover(); rec != nil {
			buf := make([]byte, 8192)
			n := runtime.Stack(buf, false)
			panicked = fmt.Sprintf("%v\n%s", rec, buf[:n])
		}
	}()
	f()
	return ""
}

// topFrames extracts up to n "github.com/ory/keto" function names from a stack.
func topFrames(stack string, n int) string {
	var out []string
	for _, line := range strings.Split(stack, "\n") {
		line = strings.TrimSpace(line)
		if strings.HasPrefix(line, "github.com/ory/keto/") && !strings.Contains(line, "/verifh") {
			f := line
			if i := strings.LastIndex(f, "("); i > 0 {
				f = f[:i]
			}
			f = strings.TrimPrefix(f, "github.com/ory/keto/")
			out = append(out, f)
			if len(out) >= n {
				break
			}
		}
	}
	return strings.Join(out, "<")
}

func jsonStr(v any) string {
	b, _ := json.Marshal(v)
	return string(b)
}

func sp(s string) *string { return &s }

func minInt(a, b int) int {
	if a < b {
		return a
	}
	return b
}

func TestMain(m *testing.M) {
	// never let the testing package's own timeout kill a child silently: the
	// supervisor owns the watchdog.
	os.Exit(m.Run())
}
