package verifh

// C02 — depth and width limits fail closed and can only be lowered per request.

import (
	"context"
	"encoding/json"
	"fmt"
	"github.com/ory/keto/internal/driver/config"
	"math/rand/v2"
	"net/http"
	"os"
	"path/filepath"
	"sort"
	"strings"
	"testing"
	"time"

	rts "github.com/ory/keto/proto/ory/keto/relation_tuples/v1alpha2"
)

// genLimitCase: C01's generator plus shapes whose size straddles the limits.
func genLimitCase(r *rand.Rand, idx int64) *checkCase {
	switch idx % 4 {
	case 0:
		return genChainCase(r, idx)
	case 1:
		return genWideCase(r, idx)
	case 2:
		return genDenseCase(r, idx)
	}
	return genCheckCase(r, idx*3, nil) // idx*3 never hits the dense branch twice
}

// genChainCase: Doc:d#viewers -> G:g1#members -> ... -> G:gL#members -> u, with
// permissions that reach the chain through includes / ! / &&.
func genChainCase(r *rand.Rand, idx int64) *checkCase {
	cc := &checkCase{Variant: "chain"}
	user := &NSDef{Name: "User"}
	group := &NSDef{Name: "Group", Rels: []*RelDef{{Name: "members", Types: []TypeRef{{NS: "User"}, {NS: "Group", Rel: "members"}}}}}
	doc := &NSDef{Name: "Doc", Rels: []*RelDef{
		{Name: "viewers", Types: []TypeRef{{NS: "User"}, {NS: "Group", Rel: "members"}}},
		{Name: "banned", Types: []TypeRef{{NS: "User"}, {NS: "Group", Rel: "members"}}},
		{Name: "parents", Types: []TypeRef{{NS: "Doc"}}},
	}}
	exprs := []*Expr{
		{Op: "csr", Rel: "viewers"},
		{Op: "not", Kids: []*Expr{{Op: "csr", Rel: "banned"}}},
		{Op: "and", Kids: []*Expr{{Op: "csr", Rel: "viewers"}, {Op: "not", Kids: []*Expr{{Op: "csr", Rel: "banned"}}}}},
		{Op: "or", Kids: []*Expr{{Op: "csr", Rel: "viewers"}, {Op: "ttu", Rel: "parents", Comp: "view", ViaPermits: true}}},
		{Op: "and", Kids: []*Expr{{Op: "csr", Rel: "viewers"}, {Op: "csr", Rel: "banned"}}},
		{Op: "not", Kids: []*Expr{{Op: "not", Kids: []*Expr{{Op: "csr", Rel: "viewers"}}}}},
	}
	V := func() *Expr { return &Expr{Op: "csr", Rel: "viewers"} }
	B := func() *Expr { return &Expr{Op: "csr", Rel: "banned"} }
	not := func(e *Expr) *Expr { return &Expr{Op: "not", Kids: []*Expr{e}} }
	// negations over unions / intersections whose operands are themselves cut
	// short: where "unknown" meets "not a member" inside a union or intersection
	// below another negation, in both operand orders
	exprs = append(exprs,
		not(&Expr{Op: "or", Kids: []*Expr{not(V()), B()}}),
		not(&Expr{Op: "or", Kids: []*Expr{B(), not(V())}}),
		not(&Expr{Op: "and", Kids: []*Expr{not(V()), not(B())}}),
		not(&Expr{Op: "or", Kids: []*Expr{not(B()), V(), B()}}),
		&Expr{Op: "or", Kids: []*Expr{not(&Expr{Op: "or", Kids: []*Expr{not(B()), not(V())}}), B()}},
		not(&Expr{Op: "or", Kids: []*Expr{{Op: "ttu", Rel: "parents", Comp: "viewers"}, not(V()), B()}}),
		// (computed subject sets of a union are evaluated first whatever their
		// position, so the exact operand that follows the cut-short one must be a
		// traverse, a nested expression or a negation)
		not(&Expr{Op: "or", Kids: []*Expr{not(V()), {Op: "ttu", Rel: "parents", Comp: "banned"}}}),
		not(&Expr{Op: "or", Kids: []*Expr{{Op: "ttu", Rel: "parents", Comp: "banned"}, not(V())}}),
		not(&Expr{Op: "or", Kids: []*Expr{not(V()), {Op: "and", Kids: []*Expr{B(), B()}}}}),
		not(&Expr{Op: "or", Kids: []*Expr{not(V()), not(not(B()))}}),
		not(&Expr{Op: "or", Kids: []*Expr{not(B()), not(V()), {Op: "ttu", Rel: "parents", Comp: "banned"}}}),
		&Expr{Op: "and", Kids: []*Expr{not(&Expr{Op: "or", Kids: []*Expr{not(V()), {Op: "ttu", Rel: "parents", Comp: "banned"}}}), not(B())}},
	)
	rewrite := exprs[r.IntN(len(exprs))]
	if r.IntN(3) == 0 {
		tmp := &Cfg{NS: []*NSDef{user, group, doc}}
		rewrite = genExpr(r, tmp, doc, nil, genOpts{AllowAnd: true, AllowNot: true, AllowTTU: false, MaxExprDepth: 3}, 3)
	}
	doc.Rels = append(doc.Rels, &RelDef{Name: "view", Perm: true, Rewrite: rewrite})
	cc.Cfg = &Cfg{NS: []*NSDef{user, group, doc}}
	L := 1 + r.IntN(8)
	var ts []*Tup
	rel := []string{"viewers", "banned"}[r.IntN(2)]
	ts = append(ts, tupSet("Doc", "d", rel, "Group", "g1", "members"))
	for i := 1; i < L; i++ {
		ts = append(ts, tupSet("Group", fmt.Sprintf("g%d", i), "members", "Group", fmt.Sprintf("g%d", i+1), "members"))
	}
	ts = append(ts, tupID("Group", fmt.Sprintf("g%d", L), "members", "u"))
	if r.IntN(2) == 0 {
		other := map[string]string{"viewers": "banned", "banned": "viewers"}[rel]
		ts = append(ts, tupID("Doc", "d", other, "u"))
	}
	if r.IntN(2) == 0 {
		// a parent chain for the traverse variant
		P := 1 + r.IntN(4)
		prev := "d"
		for i := 0; i < P; i++ {
			cur := fmt.Sprintf("p%d", i)
			ts = append(ts, tupSet("Doc", prev, "parents", "Doc", cur, ""))
			prev = cur
		}
		ts = append(ts, tupID("Doc", prev, "viewers", "u"))
	}
	cc.tuples = ts
	cc.queries = []*Tup{
		tupID("Doc", "d", "view", "u"), tupID("Doc", "d", "view", "nobody"),
		tupID("Doc", "d", "viewers", "u"), tupID("Doc", "d", "banned", "u"),
		tupID("Group", "g1", "members", "u"),
	}
	cc.Tuples, cc.Queries = tupStrings(cc.tuples), tupStrings(cc.queries)
	return cc
}

// genWideCase: a node with many subject sets, the member behind one of them.
func genWideCase(r *rand.Rand, idx int64) *checkCase {
	cc := &checkCase{Variant: "wide"}
	user := &NSDef{Name: "User"}
	group := &NSDef{Name: "Group", Rels: []*RelDef{{Name: "members", Types: []TypeRef{{NS: "User"}, {NS: "Group", Rel: "members"}}}}}
	doc := &NSDef{Name: "Doc", Rels: []*RelDef{
		{Name: "viewers", Types: []TypeRef{{NS: "User"}, {NS: "Group", Rel: "members"}}},
	}}
	e := &Expr{Op: "csr", Rel: "viewers"}
	if r.IntN(2) == 0 {
		e = &Expr{Op: "not", Kids: []*Expr{e}}
	}
	doc.Rels = append(doc.Rels, &RelDef{Name: "view", Perm: true, Rewrite: e})
	cc.Cfg = &Cfg{NS: []*NSDef{user, group, doc}}
	W := 1 + r.IntN(6)
	var ts []*Tup
	for i := 0; i < W; i++ {
		ts = append(ts, tupSet("Doc", "d", "viewers", "Group", fmt.Sprintf("g%d", i), "members"))
	}
	// the member sits two hops behind one group (so that `found` shortcuts do not hide the width cut)
	k := r.IntN(W)
	ts = append(ts, tupSet("Group", fmt.Sprintf("g%d", k), "members", "Group", "deep", "members"))
	ts = append(ts, tupID("Group", "deep", "members", "u"))
	cc.tuples = ts
	cc.queries = []*Tup{tupID("Doc", "d", "view", "u"), tupID("Doc", "d", "viewers", "u"), tupID("Doc", "d", "view", "nobody")}
	cc.Tuples, cc.Queries = tupStrings(cc.tuples), tupStrings(cc.queries)
	return cc
}

func effDepth(r, g int) int {
	if r <= 0 || r > g {
		return g
	}
	return r
}

func TestC02(t *testing.T) {
	run := newRunner(t, "C02")
	defer run.finish()
	p := run.p
	nCases := int64(p.pick(160, 3000))
	gs := []int{1, 2, 3, 5, 8}
	ws := []int{1, 3, 100}
	if p.thorough() {
		ws = []int{1, 2, 3, 100}
	}
	for idx := int64(0); idx < nCases; idx++ {
		if !p.mine(idx) {
			continue
		}
		r := p.rng(idx, "case")
		cc := genLimitCase(r, idx)
		run.begin(idx, "", cc)
		verdict := runC02Case(run, idx, cc, gs, ws)
		run.end(idx, "", verdict)
	}
}

func runC02Case(run *runner, idx int64, cc *checkCase, gs, ws []int) string {
	verdict := "ok"
	strict := idx%5 == 4 && cfgIsOPLRenderable(cc.Cfg)
	cfg := cc.Cfg
	opts := EnvOpts{MaxDepth: 8, MaxWidth: 100}
	modeName := "ast-default"
	if strict {
		text := (&renderStyle{FullParens: true}).render(cc.Cfg)
		nn, errs := parseOPL(text)
		if len(errs) > 0 {
			run.count("opl_rejected_skipped", 1)
			return "skipped"
		}
		pc, err := cfgFromKeto(nn)
		if err != nil {
			return "skipped"
		}
		cfg = pc
		opts.OPL, opts.Strict = text, true
		cc.OPL = text
		modeName = "opl-strict"
	} else {
		opts.Namespaces = cc.Cfg.toKeto()
	}
	// every fourth case configures the limits the way a deployment does: in the
	// server's configuration FILE, changed by editing the file (hot reload), not by
	// Config.Set
	fileMode := idx%4 == 3
	cfgFile := ""
	if fileMode {
		dir, derr := os.MkdirTemp(scratchDir(), "c02cfg")
		if derr != nil {
			fileMode = false
		} else {
			defer os.RemoveAll(dir)
			cfgFile = filepath.Join(dir, "keto.yaml")
			if werr := os.WriteFile(cfgFile, []byte("limit:\n  max_read_depth: 8\n  max_read_width: 100\n"), 0o644); werr != nil {
				fileMode = false
			} else {
				opts.MaxDepth, opts.MaxWidth, opts.ConfigFile = 0, 0, cfgFile
				run.count("cases_limits_from_config_file", 1)
			}
		}
	}
	env, err := newEnv(run.t, opts)
	if err != nil {
		run.inconclusive(fmt.Sprintf("idx %d: env: %v", idx, err))
		return "inconclusive"
	}
	defer env.Close()
	if err := env.Write(shuffled(run.p.rng(idx, "order"), cc.tuples)...); err != nil {
		run.inconclusive(fmt.Sprintf("idx %d: write: %v", idx, err))
		return "inconclusive"
	}
	ref := newRefSem(cfg, strict, cc.tuples)
	refs := make([]refResult, len(cc.queries))
	for i, q := range cc.queries {
		refs[i] = ref.Check(q)
	}
	st, eng, _ := env.instrumented()
	st.record = false

	type key struct{ g, w, qi int }
	base := map[key]decision{}
	curG, curW := -1, -1
	setLimits := func(g, w int) bool {
		// Config.Set re-validates the whole configuration (~20 ms): only on change
		dg, dw := 0, 0
		if g != curG {
			dg = g
		}
		if w != curW {
			dw = w
		}
		if dg == 0 && dw == 0 {
			return true
		}
		if fileMode {
			tmp := cfgFile + ".tmp"
			if err := os.WriteFile(tmp, []byte(fmt.Sprintf("limit:\n  max_read_depth: %d\n  max_read_width: %d\n", g, w)), 0o644); err != nil {
				run.inconclusive("config file: " + err.Error())
				return false
			}
			if err := os.Rename(tmp, cfgFile); err != nil {
				run.inconclusive("config file: " + err.Error())
				return false
			}
			// wait until the provider has loaded the new file (its raw values, not the getters)
			src := env.Reg.Config(env.Ctx).Source()
			dl := time.Now().Add(5 * time.Second)
			for (src.Int(config.KeyLimitMaxReadDepth) != g || src.Int(config.KeyLimitMaxReadWidth) != w) && time.Now().Before(dl) {
				time.Sleep(time.Millisecond)
			}
			if src.Int(config.KeyLimitMaxReadDepth) != g || src.Int(config.KeyLimitMaxReadWidth) != w {
				run.inconclusive(fmt.Sprintf("idx %d: the configuration file with depth %d width %d was not loaded within 5 s", idx, g, w))
				return false
			}
			run.count("config_file_reloads", 1)
			time.Sleep(2 * time.Millisecond) // the attached watchers run right after the values changed
			run.eval(1)
			if gd, gw := env.Reg.Config(env.Ctx).MaxReadDepth(), env.Reg.Config(env.Ctx).MaxReadWidth(); gd != g || gw != w {
				verdict = "violation"
				run.violate(violation{Index: idx, Sub: fmt.Sprintf("%s/g%d/w%d", modeName, g, w), Sig: "C02:limit-from-config-file-not-in-effect",
					Summary: fmt.Sprintf("the configuration file was hot-reloaded with limit.max_read_depth=%d, limit.max_read_width=%d (the provider holds these values), but the limits the engines read are depth %d, width %d", g, w, gd, gw),
					Case:    cc, Detail: map[string]any{"configured": []int{g, w}, "in_effect": []int{gd, gw}}})
			}
			curG, curW = g, w
			return true
		}
		if err := env.SetLimit(dg, dw); err != nil {
			run.inconclusive("setlimit: " + err.Error())
			return false
		}
		curG, curW = g, w
		return true
	}
	runAt := func(g, w, rdepth, qi int) decision {
		if !setLimits(g, w) {
			return decision{Err: "setlimit failed"}
		}
		return engineCheck(env, st, eng, cc.queries[qi], rdepth, 10*time.Second)
	}
	inGs := map[int]bool{}
	for _, g := range gs {
		inGs[g] = true
	}
	for _, w := range ws {
		effs := map[int]bool{}
		for _, g := range gs {
			effs[g] = true
			for _, rd := range reqDepths(g) {
				effs[effDepth(rd, g)] = true
			}
		}
		var effList []int
		for e := range effs {
			effList = append(effList, e)
		}
		sort.Ints(effList)
		// pass 1: every effective depth as the *global* limit, no request depth
		for _, e := range effList {
			for qi := range cc.queries {
				d := runAt(e, w, 0, qi)
				base[key{e, w, qi}] = d
				run.eval(1)
				if d.Cuts > 0 {
					run.count("limit_binding", 1)
				}
				checkFailClosed(run, idx, cc, cfg, strict, modeName, qi, e, w, 0, d, refs[qi], &verdict)
			}
		}
		// pass 2: request depths against each global limit
		for _, g := range gs {
			for _, rd := range reqDepths(g) {
				if rd == 0 {
					continue
				}
				for qi := range cc.queries {
					d := runAt(g, w, rd, qi)
					run.eval(1)
					if d.Cuts > 0 {
						run.count("limit_binding", 1)
						run.nontrivial(fmt.Sprintf("%d/%d/%d/%d/%d", idx, g, w, rd, qi))
					}
					checkFailClosed(run, idx, cc, cfg, strict, modeName, qi, g, w, rd, d, refs[qi], &verdict)
					b := base[key{effDepth(rd, g), w, qi}]
					if d.String() != b.String() {
						if isNoDecision(d) || isNoDecision(b) {
							run.count("timeout_no_decision", 1)
							continue
						}
						// Under a binding limit the engine's answer may legitimately vary
						// between runs (which path reaches a shared subject set first is a
						// race between its pipelined sub-checks; a node reached deep first is
						// cut, reached shallow first it is expanded). The property compares
						// behaviours, so both sides are re-run (interleaved) and only
						// disjoint outcome sets are a violation.
						setD := map[string]int{d.String(): 1}
						setB := map[string]int{b.String(): 1}
						for k := 0; k < 12; k++ {
							setD[runAt(g, w, rd, qi).String()]++
							setB[runAt(effDepth(rd, g), w, 0, qi).String()]++
						}
						disjoint := true
						for k := range setD {
							if setB[k] > 0 {
								disjoint = false
							}
						}
						if !disjoint {
							run.count("nondeterministic_under_binding_limit", 1)
							continue
						}
						run.violate(violation{Index: idx, Sub: fmt.Sprintf("%s/q%d/g%d/w%d/r%d", modeName, qi, g, w, rd),
							Sig:     fmt.Sprintf("C02:request-depth-differs:%s-vs-%s", d.kindOnly(), b.kindOnly()),
							Summary: fmt.Sprintf("check %s with request max-depth %d under global %d (width %d) answers %v, but %v under global %d with no request depth (13 runs each, interleaved)", cc.queries[qi], rd, g, w, setD, setB, effDepth(rd, g)),
							Case:    cc, Detail: map[string]any{"g": g, "w": w, "r": rd, "query": cc.queries[qi].String(), "outcomes_request": setD, "outcomes_global": setB}})
						verdict = "violation"
					}
				}
			}
		}
	}
	// the same clamp through the transports: REST max-depth and gRPC max_depth,
	// single and batch, against the engine at the same (g, w, r)
	read := env.Reg.ReadRouter(env.Ctx)
	grpcC, gerr := newGRPC(env)
	if gerr == nil {
		defer grpcC.Close()
		w := ws[len(ws)-1]
		for _, g := range gs {
			for _, rd := range []int{g + 1, 1000, g - 1, -3} {
				for qi, q := range cc.queries {
					engineSide := func() string { return runAt(g, w, rd, qi).kindOnly() }
					want := engineSide()
					for _, tr := range c02Transports {
						got := tr.do(env, read, grpcC, q, rd)
						run.eval(1)
						run.count("transport_runs:"+tr.name, 1)
						if got == want || got == "skip" {
							continue
						}
						setT := map[string]int{got: 1}
						setE := map[string]int{want: 1}
						for k := 0; k < 8; k++ {
							setT[tr.do(env, read, grpcC, q, rd)]++
							setE[engineSide()]++
						}
						disjoint := true
						for k := range setT {
							if setE[k] > 0 {
								disjoint = false
							}
						}
						if !disjoint {
							run.count("nondeterministic_under_binding_limit", 1)
							continue
						}
						run.violate(violation{Index: idx, Sub: fmt.Sprintf("%s/q%d/g%d/w%d/r%d/%s", modeName, qi, g, w, rd, tr.name),
							Sig:     fmt.Sprintf("C02:transport-depth-differs:%s:%s-vs-engine-%s", tr.name, got, want),
							Summary: fmt.Sprintf("check %s with max-depth %d under global %d: %s answers %v, the engine with the same request depth answers %v", q, rd, g, tr.name, setT, setE),
							Case:    cc, Detail: map[string]any{"g": g, "w": w, "r": rd, "query": q.String(), "transport": tr.name}})
						verdict = "violation"
					}
				}
			}
		}
	}
	run.sample(map[string]any{"variant": cc.Variant, "config": cc.Cfg, "tuples": cc.Tuples, "queries": cc.Queries, "grid": map[string]any{"g": gs, "w": ws}})
	return verdict
}

func isNoDecision(d decision) bool {
	return strings.Contains(d.Err, "deadline") || strings.Contains(d.Err, "canceled")
}

func (d decision) kindOnly() string {
	if d.Err != "" {
		return "error"
	}
	return d.String()
}

func reqDepths(g int) []int {
	seen := map[int]bool{}
	var out []int
	for _, r := range []int{-3, 0, 1, 2, 3, g - 1, g, g + 1, 1000} {
		if !seen[r] {
			seen[r] = true
			out = append(out, r)
		}
	}
	return out
}

func checkFailClosed(run *runner, idx int64, cc *checkCase, cfg *Cfg, strict bool, modeName string, qi, g, w, rd int, d decision, rr refResult, verdict *string) {
	if rr.Unstratified || rr.SchemaError {
		run.count("skipped_no_reference", 1)
		return
	}
	if d.Err != "" || !d.Allowed || rr.Member {
		return
	}
	run.count("fail_open_observations", 1)
	if cc.failOpenSeen == nil {
		cc.failOpenSeen = map[int]bool{}
	}
	if cc.failOpenSeen[qi] {
		return // one witness (the first grid point) per case and query
	}
	cc.failOpenSeen[qi] = true
	q := cc.queries[qi]
	// allowed under a limit although the unbounded semantics denies
	still := func(c *Cfg, ts []*Tup) bool {
		r2 := newRefSem(c, strict, ts).Check(q)
		if r2.Unstratified || r2.SchemaError || r2.Member {
			return false
		}
		opts := EnvOpts{MaxDepth: g, MaxWidth: w}
		if strict {
			text := (&renderStyle{FullParens: true}).render(c)
			if _, errs := parseOPL(text); len(errs) > 0 {
				return false
			}
			opts.OPL, opts.Strict = text, true
		} else {
			opts.Namespaces = c.toKeto()
		}
		env, err := newEnv(run.t, opts)
		if err != nil {
			return false
		}
		defer env.Close()
		if err := env.Write(ts...); err != nil {
			return false
		}
		st, eng, _ := env.instrumented()
		d2 := engineCheck(env, st, eng, q, rd, 10*time.Second)
		return d2.Err == "" && d2.Allowed
	}
	needs, _, sts := shrinkAndClassify(cfg, cc.tuples, q, still, 40)
	cut := "no-cut-logged"
	if d.Cuts > 0 {
		cut = "cut"
	}
	if strict {
		needs += ":strict"
	}
	run.violate(violation{Index: idx, Sub: fmt.Sprintf("%s/q%d/g%d/w%d/r%d", modeName, qi, g, w, rd),
		Sig:     fmt.Sprintf("C02:fail-open:%s:needs=%s", cut, needs),
		Summary: fmt.Sprintf("check %s allowed under limits (global depth %d, width %d, request depth %d) but denied by the unbounded semantics; %d cut events", q, g, w, rd, d.Cuts),
		Case:    cc, Detail: map[string]any{"g": g, "w": w, "r": rd, "query": q.String(), "shrunk_tuples": tupStrings(sts)}})
	*verdict = "violation"
}

type c02Transport struct {
	name string
	do   func(env *Env, read http.Handler, g *grpcClients, q *Tup, depth int) string
}

func decisionOfStatus(st int, body string) string {
	if st != 200 {
		if st == 403 {
			return "denied"
		}
		return "error"
	}
	var r struct {
		Allowed bool `json:"allowed"`
	}
	if json.Unmarshal([]byte(body), &r) != nil {
		return "error"
	}
	if r.Allowed {
		return "allowed"
	}
	return "denied"
}

var c02Transports = []c02Transport{
	{"rest-get", func(env *Env, read http.Handler, g *grpcClients, q *Tup, depth int) string {
		v := q.ToURLQuery()
		v.Set("max-depth", fmt.Sprint(depth))
		st, body, pt := httpDoCtx(env.Ctx, 20*time.Second, read, "GET", "/relation-tuples/check/openapi?"+v.Encode(), "", nil)
		if pt != "" {
			return "error"
		}
		return decisionOfStatus(st, body)
	}},
	{"rest-batch", func(env *Env, read http.Handler, g *grpcClients, q *Tup, depth int) string {
		b, _ := json.Marshal(map[string]any{"tuples": []*Tup{q}})
		st, body, pt := httpDoCtx(env.Ctx, 20*time.Second, read, "POST", fmt.Sprintf("/relation-tuples/batch/check?max-depth=%d", depth), string(b), nil)
		if pt != "" || st != 200 {
			return "error"
		}
		var r struct {
			Results []struct {
				Allowed bool   `json:"allowed"`
				Error   string `json:"error"`
			} `json:"results"`
		}
		if json.Unmarshal([]byte(body), &r) != nil || len(r.Results) != 1 || r.Results[0].Error != "" {
			return "error"
		}
		if r.Results[0].Allowed {
			return "allowed"
		}
		return "denied"
	}},
	{"grpc-check", func(env *Env, read http.Handler, g *grpcClients, q *Tup, depth int) string {
		ctx, cancel := context.WithTimeout(env.Ctx, 20*time.Second)
		defer cancel()
		resp, err := g.Check.Check(ctx, &rts.CheckRequest{Tuple: q.ToProto(), MaxDepth: int32(depth)})
		if err != nil {
			return "error"
		}
		if resp.Allowed {
			return "allowed"
		}
		return "denied"
	}},
	{"grpc-batch", func(env *Env, read http.Handler, g *grpcClients, q *Tup, depth int) string {
		ctx, cancel := context.WithTimeout(env.Ctx, 20*time.Second)
		defer cancel()
		resp, err := g.Check.BatchCheck(ctx, &rts.BatchCheckRequest{Tuples: []*rts.RelationTuple{q.ToProto()}, MaxDepth: int32(depth)})
		if err != nil || len(resp.Results) != 1 || resp.Results[0].Error != "" {
			return "error"
		}
		if resp.Results[0].Allowed {
			return "allowed"
		}
		return "denied"
	}},
}
