package verifh

// C12 — the OPL parser is total: any input terminates with a diagnosis.
//
// Runtime monitor around the real schema.Parse:
//   * no panic (Parse, ParseError.Error/ToAPI/ToProto);
//   * logical step budget (verifhook points lex.next / parse.next / parse.err /
//     tc.rec): steps(s) <= c12K*(len(s)+64); a runaway parse is aborted from
//     inside the hook by panicking with a private sentinel, so an exponential
//     input costs milliseconds. The verdict never depends on the clock;
//   * result sanity: errors non-empty, or a well-formed namespace list (which
//     may only be empty when the input has no `class` keyword at all);
//   * every error: 1 <= start.Line <= end.Line <= lines(s)+1, start <= end,
//     columns inside their line, ToProto == ToAPI, Error() renders;
//   * REST POST /opl/syntax/check and gRPC SyntaxService.Check return the same
//     errors as Parse (sampled subset, one Env per child process).

import (
	"context"
	"crypto/sha256"
	"encoding/base64"
	"encoding/json"
	"fmt"
	"math/rand/v2"
	"net/http"
	"os"
	"path/filepath"
	"runtime"
	"sort"
	"strings"
	"sync"
	"sync/atomic"
	"testing"
	"time"
	"unicode/utf8"

	"github.com/ory/keto/internal/namespace"
	"github.com/ory/keto/internal/schema"
	"github.com/ory/keto/internal/x/verifhook"
	"github.com/ory/keto/ketoapi"
	opl "github.com/ory/keto/proto/ory/keto/opl/v1alpha1"
)

// sigLimiter records at most perSig violations of one signature per child
// process (the rest is counted), so that a frequent known finding cannot use up
// the runner's global cap and hide a rare new signature.
type sigLimiter struct {
	n      map[string]int
	perSig int
}

func newSigLimiter() *sigLimiter { return &sigLimiter{n: map[string]int{}, perSig: 8} }

func (l *sigLimiter) violate(run *runner, v violation) {
	l.n[v.Sig]++
	run.count("violations_total", 1)
	if l.n[v.Sig] > l.perSig {
		run.count("violations_counted_not_recorded", 1)
		run.jwrite(map[string]any{"ev": "violation", "idx": v.Index, "sub": v.Sub, "sig": v.Sig, "recorded": false})
		return
	}
	run.violate(v)
}

// c12K: calibrated on the repository's own OPL sources (fuzz seeds, contrib
// examples, test fixtures; max observed steps/(len+64) = 2.7) and on every
// generated valid program in which no SubjectSet-typed relation is traversed
// (max observed < 5); both maxima are reported as max_ratio_{repo,valid}_x1000
// in the evidence counters. The budget is 20x that. Generated programs that DO
// traverse SubjectSet-typed relations are not part of the calibration set:
// they are where the type checker's fan-out lives (up to 72 steps/byte were
// seen on them within the budget).
const c12K = 100

type c12Abort struct{}

type stepCounter struct {
	lex, parse, errs, tc, total int64
	budget                      int64
}

func (sc *stepCounter) hook(name string) {
	atomic.AddInt64(&sc.total, 1)
	switch name {
	case "lex.next":
		sc.lex++
	case "parse.next":
		sc.parse++
	case "parse.err":
		sc.errs++
	case "tc.rec":
		sc.tc++
	}
	if sc.budget > 0 && sc.total > sc.budget {
		panic(c12Abort{})
	}
}

// phase names the dominant consumer of steps.
func (sc *stepCounter) phase() string {
	switch {
	case sc.tc+sc.errs >= sc.lex && sc.tc+sc.errs >= sc.parse:
		return "typecheck"
	case sc.lex >= sc.parse:
		return "lexer"
	}
	return "parser"
}

func c12Budget(n int) int64 { return int64(c12K) * int64(n+64) }

// c12Parse runs the real parser under the step budget (0 = unlimited). The
// parse runs in its own goroutine so that a parse that BLOCKS (no hook step is
// taken any more, so the step budget cannot fire) is noticed: when the call has
// not returned after a generous wall-clock wait, the step counter is observed
// twice; if it does not move and the parsing goroutine is parked inside the
// schema package, the verdict is "no return" with the parked frame (a
// state-based witness; a parse that is merely slow keeps counting steps and is
// stopped by the budget instead). The parked goroutine cannot be killed and is
// left behind.
func c12Parse(input string, budget int64) (ns []namespace.Namespace, errs []*schema.ParseError, sc *stepCounter, aborted bool, panicText string) {
	sc = &stepCounter{budget: budget}
	verifhook.Set(sc.hook)
	defer verifhook.Set(nil)
	done := make(chan struct{})
	go func() {
		defer close(done)
		defer func() {
			if rec := recover(); rec != nil {
				if _, ok := rec.(c12Abort); ok {
					aborted = true
					return
				}
				buf := make([]byte, 8192)
				n := runtime.Stack(buf, false)
				panicText = fmt.Sprintf("%v\n%s", rec, buf[:n])
			}
		}()
		ns, errs = schema.Parse(input)
	}()
	timer := time.NewTimer(10 * time.Second)
	defer timer.Stop()
	for {
		select {
		case <-done:
			return
		case <-timer.C:
			s0 := atomic.LoadInt64(&sc.total)
			time.Sleep(500 * time.Millisecond)
			select {
			case <-done:
				return
			default:
			}
			if s1 := atomic.LoadInt64(&sc.total); s1 == s0 {
				if frame := parkedInSchema(); frame != "" {
					return nil, nil, sc, false, "NO-RETURN parked@" + frame + "\nschema.Parse did not return; no parser step was taken between two observations and its goroutine is parked at " + frame
				}
			}
			timer.Reset(10 * time.Second)
		}
	}
}

// parkedInSchema returns the innermost schema frame of a goroutine that is
// blocked (chan send / chan receive / select) inside keto's schema package.
func parkedInSchema() string {
	buf := make([]byte, 2<<20)
	n := runtime.Stack(buf, true)
	for _, g := range strings.Split(string(buf[:n]), "\n\n") {
		if !strings.Contains(g, "github.com/ory/keto/internal/schema.") {
			continue
		}
		first := g
		if i := strings.IndexByte(g, '\n'); i > 0 {
			first = g[:i]
		}
		if !(strings.Contains(first, "chan send") || strings.Contains(first, "chan receive") || strings.Contains(first, "select")) {
			continue
		}
		for _, l := range strings.Split(g, "\n") {
			l = strings.TrimSpace(l)
			if strings.HasPrefix(l, "github.com/ory/keto/internal/schema.") {
				f := strings.TrimPrefix(l, "github.com/ory/keto/internal/")
				if i := strings.LastIndex(f, "("); i > 0 {
					f = f[:i]
				}
				return f
			}
		}
	}
	return ""
}

// hasClassKeyword: independent scan for a `class` keyword outside comments and
// string literals.
func hasClassKeyword(s string) bool {
	isL := func(c byte) bool { return c == '_' || (c >= 'a' && c <= 'z') || (c >= 'A' && c <= 'Z') }
	isD := func(c byte) bool { return c >= '0' && c <= '9' }
	for i := 0; i < len(s); {
		c := s[i]
		switch {
		case c == '/' && i+1 < len(s) && s[i+1] == '/':
			j := strings.IndexByte(s[i:], '\n')
			if j < 0 {
				return false
			}
			i += j
		case c == '/' && i+1 < len(s) && s[i+1] == '*':
			j := strings.Index(s[i+2:], "*/")
			if j < 0 {
				return false
			}
			i += 2 + j + 2
		case c == '"' || c == '\'':
			j := strings.IndexByte(s[i+1:], c)
			if j < 0 {
				return false
			}
			i += 1 + j + 1
		case isL(c):
			j := i
			for j < len(s) && (isL(s[j]) || isD(s[j])) {
				j++
			}
			if s[i:j] == "class" {
				return true
			}
			i = j
		default:
			i++
		}
	}
	return false
}

// ---------------------------------------------------------------------------
// endpoints (one Env per child process)

type c12Endpoints struct {
	once sync.Once
	env  *Env
	g    *grpcClients
	rest http.Handler
	err  error
}

func (ep *c12Endpoints) init(t testing.TB) error {
	ep.once.Do(func() {
		ep.env, ep.err = newEnv(t, EnvOpts{})
		if ep.err != nil {
			return
		}
		ep.g, ep.err = newGRPC(ep.env)
		if ep.err != nil {
			return
		}
		ep.rest = ep.env.Reg.OPLSyntaxRouter(ep.env.Ctx)
	})
	return ep.err
}

func (ep *c12Endpoints) close() {
	if ep.g != nil {
		ep.g.Close()
	}
	if ep.env != nil {
		ep.env.Close()
	}
}

// ---------------------------------------------------------------------------
// the oracle

type c12Case struct {
	Family   string         `json:"family"`
	Params   map[string]any `json:"params,omitempty"`
	Inputs   int            `json:"inputs"`
	Len      int            `json:"len,omitempty"`
	InputB64 string         `json:"input_b64,omitempty"`
	Head     string         `json:"head,omitempty"`
	inputs   []string
}

func c12Describe(fam string, params map[string]any, inputs []string) *c12Case {
	c := &c12Case{Family: fam, Params: params, Inputs: len(inputs), inputs: inputs}
	if len(inputs) == 1 {
		s := inputs[0]
		c.Len = len(s)
		if len(s) <= 2048 {
			c.InputB64 = base64.StdEncoding.EncodeToString([]byte(s))
		}
		c.Head = fmt.Sprintf("%.120q", s)
	}
	return c
}

type c12Monitor struct {
	run *runner
	ep  *c12Endpoints
	lim *sigLimiter
	// stuck counts parses that blocked forever; each costs the 10 s wait and
	// leaves a parked goroutine behind, so after three of them the remaining
	// inputs of this child are skipped (and counted)
	stuck     int
	sentinels int
}

const c12SentinelValid = "import { Namespace, Context } from \"@ory/keto-namespace-types\"\n\nclass User implements Namespace {}\n\nclass Doc implements Namespace {\n  related: {\n    viewers: User[]\n  }\n  permits = {\n    view: (ctx: Context): boolean => this.related.viewers.includes(ctx.subject),\n  }\n}\n"

const c12SentinelIllTyped = "class Doc implements Namespace {\n  related: {\n    viewers: Undeclared[]\n  }\n}\n"

func inputWitness(s string) map[string]any {
	w := map[string]any{"len": len(s), "head": fmt.Sprintf("%.300q", s)}
	if len(s) <= 4096 {
		w["input_b64"] = base64.StdEncoding.EncodeToString([]byte(s))
		if utf8.ValidString(s) {
			w["input"] = s
		}
	}
	return w
}

// check runs the oracle on one input; returns the verdict.
func (m *c12Monitor) check(idx int64, sub string, c *c12Case, s string, endpoints bool, calib string) string {
	run := m.run
	verdict := "ok"
	if m.stuck >= 3 {
		run.count("inputs_skipped_after_blocked_parses", 1)
		return "skipped"
	}
	viol := func(sig, summary string, extra map[string]any) {
		d := inputWitness(s)
		d["family"] = c.Family
		for k, v := range extra {
			d[k] = v
		}
		m.lim.violate(run, violation{Index: idx, Sub: sub, Sig: sig, Summary: summary, Case: c, Detail: d})
		verdict = "violation"
	}
	run.eval(1)
	run.count("inputs", 1)
	run.count("input_bytes", int64(len(s)))
	if !utf8.ValidString(s) {
		run.count("inputs_invalid_utf8", 1)
	}
	ns, errs, sc, aborted, pt := c12Parse(s, c12Budget(len(s)))
	run.count("steps_total", sc.total)
	ratio := sc.total * 1000 / int64(len(s)+64)
	run.maxCounter("max_ratio_all_x1000", ratio)
	if calib != "" {
		run.maxCounter("max_ratio_"+calib+"_x1000", ratio)
	}
	if sc.parse >= 3 {
		h := sha256.Sum256([]byte(s))
		run.nontrivial(string(h[:]))
	}
	if strings.HasPrefix(pt, "NO-RETURN ") {
		viol("C12:no-return:"+strings.TrimPrefix(firstLine(pt), "NO-RETURN "), "schema.Parse did not return (blocked): "+firstLine(pt), map[string]any{"detail": pt})
		m.stuck++
		return verdict // the endpoints would block on the same input
	} else if pt != "" {
		viol("C12:panic:parse:"+topFrames(pt, 3), "schema.Parse panicked: "+firstLine(pt), map[string]any{"stack": pt})
		return verdict
	}
	if aborted {
		run.count("budget_aborts", 1)
		viol("C12:steps-exceeded:"+sc.phase(),
			fmt.Sprintf("parse of %d bytes exceeded the step budget %d = %d*(len+64): lex=%d parse=%d errors=%d typecheck-recursions=%d when aborted (family %s)",
				len(s), sc.budget, c12K, sc.lex, sc.parse, sc.errs, sc.tc, c.Family),
			map[string]any{"steps": map[string]int64{"lex": sc.lex, "parse": sc.parse, "errors": sc.errs, "tc": sc.tc}})
		return verdict
	}
	if len(errs) > 0 {
		run.count("inputs_with_errors", 1)
		run.count("errors_seen", int64(len(errs)))
	} else {
		run.count("inputs_accepted", 1)
	}
	// Parse is a function of its input: whatever this input did to the parser, two
	// fixed documents parsed right afterwards must still get their diagnosis
	// (alternating: a valid one with two namespaces, one with an undeclared type)
	m.sentinels++
	if m.sentinels%2 == 0 {
		sns, serrs, _, _, spt := c12Parse(c12SentinelValid, c12Budget(len(c12SentinelValid)))
		run.eval(1)
		if spt != "" || len(serrs) != 0 || len(sns) != 2 {
			viol("C12:parse-depends-on-history:valid-document", fmt.Sprintf("a fixed valid document with two classes, parsed right after this input, yields %d namespaces and %d errors (on a fresh parser: 2 and 0) %s", len(sns), len(serrs), firstLine(spt)), map[string]any{"sentinel": c12SentinelValid})
		}
	} else {
		sns, serrs, _, _, spt := c12Parse(c12SentinelIllTyped, c12Budget(len(c12SentinelIllTyped)))
		run.eval(1)
		if spt != "" || len(serrs) == 0 {
			viol("C12:parse-depends-on-history:ill-typed-document", fmt.Sprintf("a fixed document that refers to an undeclared namespace, parsed right after this input, yields %d namespaces and NO error (on a fresh parser: one error) %s", len(sns), firstLine(spt)), map[string]any{"sentinel": c12SentinelIllTyped})
		}
	}
	run.count("sentinel_parses_after_an_input", 1)
	// result sanity
	if len(errs) == 0 {
		if _, err := cfgFromKeto(ns); err != nil {
			viol("C12:malformed-namespaces-without-error", "Parse returned no errors and a namespace list that is not a well-formed AST: "+err.Error(), nil)
		}
		if len(ns) == 0 && hasClassKeyword(s) {
			viol("C12:empty-result-with-class", "Parse returned neither errors nor namespaces although the input contains a class keyword", nil)
		}
	}
	// errors
	lines := strings.Count(s, "\n") + 1
	var lineRunes []int
	check := len(errs)
	limit := 64
	if len(s) > 0 {
		if l := 20_000_000 / len(s); l < limit {
			limit = l
		}
	}
	if limit < 4 {
		limit = 4
	}
	idxs := make([]int, 0, limit)
	if check <= limit {
		for i := range errs {
			idxs = append(idxs, i)
		}
	} else {
		for i := 0; i < limit/2; i++ {
			idxs = append(idxs, i)
		}
		for i := len(errs) - limit/2; i < len(errs); i++ {
			idxs = append(idxs, i)
		}
	}
	for _, i := range idxs {
		e := errs[i]
		var api *ketoapi.ParseError
		var proto *opl.ParseError
		var text string
		if pt := guard(func() { api = e.ToAPI() }); pt != "" {
			viol("C12:panic:ToAPI:"+topFrames(pt, 3), "ParseError.ToAPI panicked: "+firstLine(pt), map[string]any{"stack": pt})
			continue
		}
		if pt := guard(func() { proto = e.ToProto() }); pt != "" {
			viol("C12:panic:ToProto:"+topFrames(pt, 3), "ParseError.ToProto panicked: "+firstLine(pt), map[string]any{"stack": pt})
			continue
		}
		if pt := guard(func() { text = e.Error() }); pt != "" {
			viol("C12:panic:Error:"+topFrames(pt, 3), "ParseError.Error panicked: "+firstLine(pt), map[string]any{"stack": pt, "message": api.Message})
			continue
		}
		run.count("errors_checked", 1)
		st, en := api.Start, api.End
		pos := map[string]any{"message": clip(api.Message, 200), "start": st, "end": en, "lines": lines}
		switch {
		case st.Line < 1 || en.Line < 1:
			viol("C12:position:line-below-1", fmt.Sprintf("error position %d:%d-%d:%d has a line < 1", st.Line, st.Col, en.Line, en.Col), pos)
		case st.Line > en.Line || (st.Line == en.Line && st.Col > en.Col):
			viol("C12:position:start-after-end", fmt.Sprintf("error position start %d:%d is after end %d:%d", st.Line, st.Col, en.Line, en.Col), pos)
		case en.Line > lines+1:
			viol("C12:position:line-beyond-input", fmt.Sprintf("error end line %d > lines(s)+1 = %d", en.Line, lines+1), pos)
		default:
			if lineRunes == nil {
				for _, row := range strings.Split(s, "\n") {
					lineRunes = append(lineRunes, utf8.RuneCountInString(row))
				}
			}
			for _, p := range []ketoapi.SourcePosition{st, en} {
				max := 1
				if p.Line-1 < len(lineRunes) {
					max = lineRunes[p.Line-1] + 1
				}
				if p.Col < 0 || p.Col > max {
					viol("C12:position:column-outside-line", fmt.Sprintf("error column %d outside line %d (%d runes)", p.Col, p.Line, max-1), pos)
					break
				}
			}
		}
		if proto == nil || proto.Start == nil || proto.End == nil || proto.Message != api.Message ||
			int(proto.Start.Line) != st.Line || int(proto.Start.Column) != st.Col || int(proto.End.Line) != en.Line || int(proto.End.Column) != en.Col {
			viol("C12:position:proto-differs-from-api", "ToProto and ToAPI disagree", pos)
		}
		if !strings.HasPrefix(text, fmt.Sprintf("error from %d:%d to %d:%d: ", st.Line, st.Col, en.Line, en.Col)) {
			viol("C12:error-rendering:header", "ParseError.Error() does not start with its position header", map[string]any{"text": clip(text, 300)})
		}
	}
	// errors must keep meaning what they meant: positions and rendering are
	// computed lazily from the parser's state, so they are read again after an
	// unrelated document has been parsed (another request, in a server)
	if n := len(errs); n > 0 && n <= 200 && len(s) <= 200_000 {
		first := make([]ketoapi.ParseError, 0, minInt(n, 8))
		var texts []string
		for _, e := range errs[:minInt(n, 8)] {
			first = append(first, *e.ToAPI())
			texts = append(texts, e.Error())
		}
		_, _ = schema.Parse("class VerifOther implements Namespace {\n  related: {\n    x: VerifOther[]\n  }\n}\n// " + strings.Repeat("padding ", 40) + "\n")
		for i, e := range errs[:len(first)] {
			var api *ketoapi.ParseError
			var text string
			if pt := guard(func() { api = e.ToAPI(); text = e.Error() }); pt != "" {
				viol("C12:panic:render-after-later-parse:"+topFrames(pt, 3), "rendering an error after a later Parse panicked: "+firstLine(pt), nil)
				break
			}
			if *api != first[i] || text != texts[i] {
				viol("C12:error-changes-after-later-parse", "a ParseError reports different positions / text once another document has been parsed",
					map[string]any{"before": first[i], "after": api})
				break
			}
		}
		run.count("errors_reread_after_later_parse", int64(len(first)))
	}
	// endpoints
	if endpoints && len(errs) <= 4000 && (len(errs) == 0 || len(s) <= 20_000_000/len(errs)) {
		if err := m.ep.init(run.t); err != nil {
			run.inconclusive("C12 endpoints: " + err.Error())
			return verdict
		}
		want := make([]*ketoapi.ParseError, len(errs))
		for i, e := range errs {
			want[i] = e.ToAPI()
		}
		run.count("endpoint_comparisons", 1)
		// REST
		status, body, pt := httpDo(m.ep.rest, "POST", schema.RouteBase, s, map[string]string{"Content-Type": "text/plain"})
		switch {
		case pt != "":
			viol("C12:endpoint-differs:rest:panic:"+topFrames(pt, 3), "REST syntax check panicked: "+firstLine(pt), map[string]any{"stack": pt})
		case status != 200:
			viol(fmt.Sprintf("C12:endpoint-differs:rest:status-%d", status), fmt.Sprintf("REST syntax check returned %d: %s", status, clip(body, 300)), nil)
		default:
			var resp ketoapi.CheckOPLSyntaxResponse
			if err := json.Unmarshal([]byte(body), &resp); err != nil {
				viol("C12:endpoint-differs:rest:undecodable", "REST syntax check body is not the documented JSON: "+err.Error(), map[string]any{"body": clip(body, 300)})
			} else if d := diffParseErrors(want, resp.Errors); d != "" {
				viol("C12:endpoint-differs:rest:"+d, "REST syntax check returned different errors than schema.Parse ("+d+")", map[string]any{"parse": clipErrs(want), "rest": clipErrs(resp.Errors)})
			}
		}
		// gRPC
		ctx, cancel := context.WithTimeout(context.Background(), 60*time.Second)
		gresp, err := m.ep.g.Syntax.Check(ctx, &opl.CheckRequest{Content: []byte(s)})
		cancel()
		if err != nil {
			if ctx.Err() != nil {
				run.inconclusive("C12 gRPC syntax check timed out")
			} else {
				viol("C12:endpoint-differs:grpc:error", "gRPC SyntaxService.Check failed: "+clip(err.Error(), 300), nil)
			}
		} else {
			got := make([]*ketoapi.ParseError, len(gresp.ParseErrors))
			for i, e := range gresp.ParseErrors {
				pe := &ketoapi.ParseError{Message: e.GetMessage()}
				pe.Start = ketoapi.SourcePosition{Line: int(e.GetStart().GetLine()), Col: int(e.GetStart().GetColumn())}
				pe.End = ketoapi.SourcePosition{Line: int(e.GetEnd().GetLine()), Col: int(e.GetEnd().GetColumn())}
				got[i] = pe
			}
			if d := diffParseErrors(want, got); d != "" {
				viol("C12:endpoint-differs:grpc:"+d, "gRPC syntax check returned different errors than schema.Parse ("+d+")", map[string]any{"parse": clipErrs(want), "grpc": clipErrs(got)})
			}
		}
	}
	return verdict
}

func diffParseErrors(want, got []*ketoapi.ParseError) string {
	if len(want) != len(got) {
		return "count"
	}
	for i := range want {
		if got[i] == nil {
			return "null-entry"
		}
		if want[i].Message != got[i].Message {
			return "message"
		}
		if want[i].Start != got[i].Start || want[i].End != got[i].End {
			return "position"
		}
	}
	return ""
}

func clipErrs(es []*ketoapi.ParseError) []string {
	var out []string
	for i, e := range es {
		if i >= 5 {
			out = append(out, fmt.Sprintf("... %d more", len(es)-5))
			break
		}
		if e == nil {
			out = append(out, "null")
			continue
		}
		out = append(out, fmt.Sprintf("%d:%d-%d:%d %s", e.Start.Line, e.Start.Col, e.End.Line, e.End.Col, clip(e.Message, 120)))
	}
	return out
}

func clip(s string, n int) string {
	if len(s) > n {
		return s[:n] + "..."
	}
	return s
}

func firstLine(s string) string {
	if i := strings.IndexByte(s, '\n'); i >= 0 {
		return clip(s[:i], 200)
	}
	return clip(s, 200)
}

// ---------------------------------------------------------------------------
// inputs

var c12Vocab = []string{
	"class", "implements", "Namespace", "related", "permits", "this", "ctx", "Context", "boolean", "SubjectSet", "Array",
	"includes", "traverse", "subject", "import", "from", "=>", "||", "&&", "!", "=", ".", ":", ",", ";", "|", "(", ")", "{", "}",
	"[", "]", "<", ">", "\"", "'", "/*", "*/", "//", "/**", "\n", "\r\n", " ", "\t", "User", "Doc", "owners", "view", "\"members\"", "'x'", "p",
	"0", "_", "@", "#", "&", "/", "*", "\\", "é", "日本", "🙂", "\x00", "\xff", "\xc3", "\xe2\x82", "\ufeff",
}

const c12SeedProgram = `import { Namespace, SubjectSet, Context } from "@ory/keto-namespace-types"

class User implements Namespace {}

class Group implements Namespace {
  related: {
    members: (User | Group)[]
  }
}

class Doc implements Namespace {
  related: {
    parents: Array<Doc>
    viewers: (User | SubjectSet<Group, "members">)[]
    'owners': User[];
  }

  // a comment
  permits = {
    view: (ctx: Context): boolean =>
      this.related.parents.traverse((p) => p.permits.view(ctx)) ||
      (this.related.viewers.includes(ctx.subject) && !this.related["owners"].includes(ctx.subject)),
    /* another */
    edit: (ctx) => this.related.owners.includes(ctx.subject),
  }
}
`

var (
	c12RepoOnce  sync.Once
	c12RepoFiles []string // contents
	c12RepoNames []string
)

func c12Repo() ([]string, []string) {
	c12RepoOnce.Do(func() {
		repo := os.Getenv("VERIF_REPO")
		if repo == "" {
			repo = "/repo"
		}
		var files []string
		seeds, _ := filepath.Glob(filepath.Join(repo, ".fuzzer", "fuzz_parser_seeds", "*"))
		sort.Strings(seeds)
		files = append(files, seeds...)
		for _, rel := range []string{"contrib/rewrites-example/namespaces.keto.ts", "internal/check/testfixtures/project_opl.ts", "contrib/namespace-type-lib/test.ts"} {
			files = append(files, filepath.Join(repo, rel))
		}
		corp, _ := filepath.Glob(filepath.Join(repo, "internal", "schema", "testdata", "fuzz", "FuzzParser", "*"))
		sort.Strings(corp)
		files = append(files, corp...)
		for _, f := range files {
			b, err := os.ReadFile(f)
			if err != nil || len(b) > 1<<20 {
				continue
			}
			c12RepoFiles = append(c12RepoFiles, string(b))
			c12RepoNames = append(c12RepoNames, strings.TrimPrefix(f, repo+"/"))
		}
	})
	return c12RepoFiles, c12RepoNames
}

// c12GenValid renders a generated configuration; plain reports that no
// SubjectSet-typed relation is traversed (the calibration set of the step
// budget: programs on which the type checker cannot recurse).
func c12GenValid(r *rand.Rand) (text string, plain bool) {
	o := genOpts{AllowAnd: r.IntN(3) > 0, AllowNot: r.IntN(2) == 0, AllowTTU: r.IntN(3) > 0, RecursiveTTU: r.IntN(4) == 0,
		SubjectSetTTU: r.IntN(3) == 0, MaxExprDepth: r.IntN(5)}
	cfg := genCfg(r, o)
	st := &renderStyle{R: r}
	if r.IntN(4) == 0 {
		st = &renderStyle{FullParens: true}
	}
	return st.render(cfg), !o.SubjectSetTTU
}

func c12Seed(r *rand.Rand) string {
	switch k := r.IntN(10); {
	case k < 6:
		s, _ := c12GenValid(r)
		return s
	case k < 8:
		if fs, _ := c12Repo(); len(fs) > 0 {
			return fs[r.IntN(len(fs))]
		}
		return c12SeedProgram
	}
	return c12SeedProgram
}

// c12Tokenize splits s into lexical chunks whose concatenation is s.
func c12Tokenize(s string) []string {
	var out []string
	isL := func(c byte) bool {
		return c == '_' || (c >= 'a' && c <= 'z') || (c >= 'A' && c <= 'Z') || (c >= '0' && c <= '9')
	}
	for i := 0; i < len(s); {
		j := i + 1
		c := s[i]
		switch {
		case isL(c):
			for j < len(s) && isL(s[j]) {
				j++
			}
		case c == ' ' || c == '\n' || c == '\t' || c == '\r':
			for j < len(s) && (s[j] == ' ' || s[j] == '\n' || s[j] == '\t' || s[j] == '\r') {
				j++
			}
		case c == '"' || c == '\'':
			if k := strings.IndexByte(s[j:], c); k >= 0 {
				j += k + 1
			}
		case c == '/' && j < len(s) && s[j] == '/':
			if k := strings.IndexByte(s[j:], '\n'); k >= 0 {
				j += k
			} else {
				j = len(s)
			}
		case c == '/' && j < len(s) && s[j] == '*':
			if k := strings.Index(s[j+1:], "*/"); k >= 0 {
				j += 1 + k + 2
			} else {
				j = len(s)
			}
		case j < len(s) && (s[i:j+1] == "=>" || s[i:j+1] == "||" || s[i:j+1] == "&&"):
			j++
		}
		out = append(out, s[i:j])
		i = j
	}
	return out
}

func c12RandBytes(r *rand.Rand, n int) string {
	b := make([]byte, n)
	for i := range b {
		b[i] = byte(r.IntN(256))
	}
	return string(b)
}

var c12BadUTF8 = []string{"\xff", "\xfe", "\xc0\xaf", "\xc3", "\xe2\x82", "\xf0\x9f\x99", "\xed\xa0\x80", "\xf4\x90\x80\x80", "\x80", "\xbf\xbf", "\xef\xbb\xbf"}

func c12MutateBytes(r *rand.Rand, s string) string {
	b := []byte(s)
	n := 1 + r.IntN(4)
	for k := 0; k < n; k++ {
		if len(b) == 0 {
			b = append(b, byte(r.IntN(256)))
			continue
		}
		i := r.IntN(len(b))
		switch r.IntN(7) {
		case 0:
			b[i] = byte(r.IntN(256))
		case 1:
			b = append(b[:i], b[i+1:]...)
		case 2:
			b = append(b[:i], append([]byte{byte(r.IntN(256))}, b[i:]...)...)
		case 3: // duplicate a chunk
			j := i + r.IntN(minInt(64, len(b)-i)+1)
			b = append(b[:j], append(append([]byte(nil), b[i:j]...), b[j:]...)...)
		case 4: // truncate
			b = b[:i]
		case 5: // delete a chunk
			j := i + r.IntN(minInt(64, len(b)-i)+1)
			b = append(b[:i], b[j:]...)
		case 6: // insert a vocabulary token
			b = append(b[:i], append([]byte(pickS(r, c12Vocab)), b[i:]...)...)
		}
	}
	return string(b)
}

func c12MutateTokens(r *rand.Rand, s string) string {
	toks := c12Tokenize(s)
	n := 1 + r.IntN(3)
	for k := 0; k < n && len(toks) > 0; k++ {
		i := r.IntN(len(toks))
		switch r.IntN(6) {
		case 0:
			toks = append(toks[:i], toks[i+1:]...)
		case 1:
			j := r.IntN(len(toks))
			toks[i], toks[j] = toks[j], toks[i]
		case 2:
			toks[i] = pickS(r, c12Vocab)
		case 3:
			toks = append(toks[:i], append([]string{toks[i]}, toks[i:]...)...)
		case 4:
			toks = append(toks[:i], append([]string{pickS(r, c12Vocab)}, toks[i:]...)...)
		case 5: // move a token range elsewhere
			j := i + r.IntN(minInt(8, len(toks)-i)+1)
			seg := append([]string(nil), toks[i:j]...)
			rest := append(append([]string(nil), toks[:i]...), toks[j:]...)
			at := 0
			if len(rest) > 0 {
				at = r.IntN(len(rest) + 1)
			}
			toks = append(append(append([]string(nil), rest[:at]...), seg...), rest[at:]...)
		}
	}
	return strings.Join(toks, "")
}

const c12Leaf = "this.related.a.includes(ctx.subject)"

func c12PermProgram(body string) string {
	return "class A implements Namespace {\n  related: { a: A[] }\n  permits = {\n    view: (ctx) => " + body + "\n  }\n}\n"
}

// c12Nest builds nesting pattern pat at depth d.
func c12Nest(pat string, d int, r *rand.Rand) string {
	switch pat {
	case "parens":
		return c12PermProgram(strings.Repeat("(", d) + c12Leaf + strings.Repeat(")", d))
	case "nots":
		return c12PermProgram(strings.Repeat("!", d) + c12Leaf)
	case "not-parens":
		return c12PermProgram(strings.Repeat("!(", d) + c12Leaf + strings.Repeat(")", d))
	case "parens-unclosed":
		return c12PermProgram(strings.Repeat("(", d) + c12Leaf)
	case "or-chain-parens":
		return c12PermProgram(strings.Repeat("("+c12Leaf+" || ", d) + c12Leaf + strings.Repeat(")", d))
	case "type-parens":
		return "class A implements Namespace { related: { a: " + strings.Repeat("(", d) + "A" + strings.Repeat(")", d) + "[] } }"
	case "generic-nest":
		return "class A implements Namespace { related: { a: " + strings.Repeat("Array<", d) + "A" + strings.Repeat(">", d) + " } }"
	case "braces":
		return "class A implements Namespace " + strings.Repeat("{", d) + strings.Repeat("}", d)
	case "mixed":
		var sb strings.Builder
		closers := 0
		for i := 0; i < d; i++ {
			if r != nil && r.IntN(2) == 0 {
				sb.WriteString("!")
			} else {
				sb.WriteString("(")
				closers++
			}
		}
		return c12PermProgram(sb.String() + c12Leaf + strings.Repeat(")", closers))
	}
	return ""
}

var c12NestPatterns = []string{"parens", "nots", "not-parens", "parens-unclosed", "or-chain-parens", "type-parens", "generic-nest", "braces", "mixed"}

// c12Fanout: the type-check fan-out family.
func c12Fanout(k, variant int) string {
	rep := func(s string, n int) []string {
		out := make([]string, n)
		for i := range out {
			out[i] = s
		}
		return out
	}
	trav := `this.related.r.traverse((x) => x.related.r.includes(ctx.subject))`
	switch variant {
	case 0: // duplicate self references, no terminating type
		return `class A implements Namespace { related: { r: (` + strings.Join(rep(`SubjectSet<A,"r">`, k), " | ") + `)[] } permits = { p: (ctx) => ` + trav + ` } }`
	case 1: // plain type first
		return `class A implements Namespace { related: { r: (A | ` + strings.Join(rep(`SubjectSet<A,"r">`, k), " | ") + `)[] } permits = { p: (ctx) => ` + trav + ` } }`
	case 2, 3: // k distinct relations referring to each other
		var members []string
		for i := 0; i < k; i++ {
			members = append(members, fmt.Sprintf(`SubjectSet<A,"r%d">`, i))
		}
		u := strings.Join(members, " | ")
		if variant == 3 {
			u = "A | " + u
		}
		var rels []string
		for i := 0; i < k; i++ {
			rels = append(rels, fmt.Sprintf("r%d: (%s)[]", i, u))
		}
		return "class A implements Namespace {\n related: {\n  " + strings.Join(rels, "\n  ") + "\n }\n permits = { p: (ctx) => this.related.r0.traverse((x) => x.related.r0.includes(ctx.subject)) }\n}"
	case 4: // through permits
		return `class A implements Namespace { related: { r: (` + strings.Join(rep(`SubjectSet<A,"r">`, k), " | ") + `)[] } permits = { p: (ctx) => this.related.r.traverse((x) => x.permits.p(ctx)) } }`
	case 5: // two namespaces
		return `class A implements Namespace { related: { r: (` + strings.Join(rep(`SubjectSet<B,"r">`, k), " | ") + `)[] } permits = { p: (ctx) => ` + trav + ` } }` +
			"\nclass B implements Namespace { related: { r: (" + strings.Join(rep(`SubjectSet<A,"r">`, k), " | ") + ")[] } }"
	case 6: // Array<> spelling
		return `class A implements Namespace { related: { r: Array<` + strings.Join(rep(`SubjectSet<A,'r'>`, k), " | ") + `> } permits = { p: (ctx) => ` + trav + ` } }`
	case 7: // plain type last
		return `class A implements Namespace { related: { r: (` + strings.Join(rep(`SubjectSet<A,"r">`, k), " | ") + ` | A)[] } permits = { p: (ctx) => ` + trav + ` } }`
	}
	return ""
}

const c12FanoutVariants = 8

// c12Big: inputs of (about) n bytes for the linearity ratio.
func c12Big(shape string, n int, r *rand.Rand) string {
	var sb strings.Builder
	switch shape {
	case "block-comment":
		return "/*" + strings.Repeat("x", n) + "*/ class A implements Namespace {}"
	case "unclosed-comment":
		return "class A implements Namespace {} /*" + strings.Repeat("*", n)
	case "line-comments":
		for sb.Len() < n {
			sb.WriteString("// comment line é\n")
		}
		return sb.String() + "class A implements Namespace {}"
	case "whitespace":
		return strings.Repeat(" \n\t", n/3) + "class A implements Namespace {}"
	case "identifier":
		return "class " + strings.Repeat("a", n) + " implements Namespace {}"
	case "string":
		return "class A implements Namespace { related: { \"" + strings.Repeat("s", n) + "\": A[] } }"
	case "unclosed-string":
		return "class A implements Namespace { related: { \"" + strings.Repeat("s", n)
	case "relations":
		sb.WriteString("class A implements Namespace {\n  related: {\n")
		for i := 0; sb.Len() < n; i++ {
			fmt.Fprintf(&sb, "    r%d: (A | SubjectSet<A, \"r0\">)[]\n", i)
		}
		sb.WriteString("  }\n}\n")
		return sb.String()
	case "or-chain":
		sb.WriteString("class A implements Namespace {\n  related: { a: A[] }\n  permits = {\n    view: (ctx) => ")
		for sb.Len() < n {
			sb.WriteString(c12Leaf + " ||\n      ")
		}
		sb.WriteString(c12Leaf + "\n  }\n}\n")
		return sb.String()
	case "permissions":
		sb.WriteString("class A implements Namespace {\n  related: { a: A[] }\n  permits = {\n")
		for i := 0; sb.Len() < n; i++ {
			fmt.Fprintf(&sb, "    p%d: (ctx: Context): boolean => !%s && (%s),\n", i, c12Leaf, c12Leaf)
		}
		sb.WriteString("  }\n}\n")
		return sb.String()
	case "classes":
		// bounded number of classes (the type checker looks namespaces up linearly), padded with comments
		m := n / 64
		if m > 1500 {
			m = 1500
		}
		pad := 0
		if m > 0 {
			pad = n/m - 60
		}
		if pad < 0 {
			pad = 0
		}
		for i := 0; i < m; i++ {
			fmt.Fprintf(&sb, "class N%d implements Namespace { related: { r: N%d[] } } /*%s*/\n", i, (i+1)%m, strings.Repeat("-", pad))
		}
		return sb.String()
	case "undeclared-refs":
		sb.WriteString("class A implements Namespace {\n  related: {\n")
		for i := 0; sb.Len() < n; i++ {
			fmt.Fprintf(&sb, "    r%d: Missing%d[]\n", i, i)
		}
		sb.WriteString("  }\n}\n")
		return sb.String()
	case "open-parens":
		return c12PermProgram(strings.Repeat("(", n))
	case "garbage-ascii":
		b := make([]byte, n)
		for i := range b {
			b[i] = byte(32 + r.IntN(95))
		}
		return string(b)
	case "random-bytes":
		return c12RandBytes(r, n)
	case "token-soup":
		for sb.Len() < n {
			sb.WriteString(pickS(r, c12Vocab))
			sb.WriteString(" ")
		}
		return sb.String()
	case "multibyte-then-error":
		return "class A implements Namespace { /*" + strings.Repeat("日本語🙂é", n/15) + "*/ related: { a: Missing[] } } $"
	case "repeat-seed":
		for sb.Len() < n {
			sb.WriteString(strings.ReplaceAll(c12SeedProgram, "class ", fmt.Sprintf("/* %d */ class ", sb.Len())))
		}
		return sb.String()
	}
	return ""
}

var c12BigShapes = []string{"block-comment", "unclosed-comment", "line-comments", "whitespace", "identifier", "string", "unclosed-string", "relations",
	"or-chain", "permissions", "classes", "undeclared-refs", "open-parens", "garbage-ascii", "random-bytes", "token-soup", "multibyte-then-error", "repeat-seed"}

var c12OpAlphabet = []string{"!", "(", ")", " || ", " && ", c12Leaf, ","}

// c12OpSequence decodes the n-th sequence (lengths 1..5) over c12OpAlphabet.
func c12OpSequence(n int) (string, bool) {
	a := len(c12OpAlphabet)
	size := a
	for l := 1; l <= 5; l++ {
		if n < size {
			var sb strings.Builder
			for i := 0; i < l; i++ {
				sb.WriteString(c12OpAlphabet[n%a])
				n /= a
			}
			return sb.String(), true
		}
		n -= size
		size *= a
	}
	return "", false
}

const c12OpSequences = 7 + 49 + 343 + 2401 + 16807

// ---------------------------------------------------------------------------
// case list: deterministic sweeps first, then random families

type c12Sweep struct {
	fam    string
	params map[string]any
	gen    func(r *rand.Rand) []string
}

func c12Sweeps(p *runParams) []c12Sweep {
	var out []c12Sweep
	// unterminated string / comment openers at every offset of the seed program
	for _, opener := range []string{"/*", "\"", "'", "//", "/**", "*/"} {
		for off := 0; off <= len(c12SeedProgram); off += 64 {
			opener, off := opener, off
			out = append(out, c12Sweep{"unterminated-every-offset", map[string]any{"opener": opener, "from": off}, func(*rand.Rand) []string {
				var ins []string
				for o := off; o < off+64 && o <= len(c12SeedProgram); o++ {
					ins = append(ins, c12SeedProgram[:o]+opener+c12SeedProgram[o:])
				}
				return ins
			}})
		}
	}
	// truncation at every offset
	for off := 0; off <= len(c12SeedProgram); off += 128 {
		off := off
		out = append(out, c12Sweep{"truncated-every-offset", map[string]any{"from": off}, func(*rand.Rand) []string {
			var ins []string
			for o := off; o < off+128 && o <= len(c12SeedProgram); o++ {
				ins = append(ins, c12SeedProgram[:o])
			}
			return ins
		}})
	}
	// operator placement in a permission body
	for from := 0; from < c12OpSequences; from += 512 {
		from := from
		out = append(out, c12Sweep{"operator-placement", map[string]any{"from": from}, func(*rand.Rand) []string {
			var ins []string
			for n := from; n < from+512; n++ {
				if s, ok := c12OpSequence(n); ok {
					ins = append(ins, c12PermProgram(s))
				}
			}
			return ins
		}})
	}
	// nesting 1..200
	for _, pat := range c12NestPatterns {
		pat := pat
		out = append(out, c12Sweep{"nesting", map[string]any{"pattern": pat}, func(r *rand.Rand) []string {
			var ins []string
			for d := 1; d <= 200; d++ {
				ins = append(ins, c12Nest(pat, d, r))
			}
			return ins
		}})
	}
	// very long runs of one token in a permission body (the documented nesting
	// limit must stop the recursion, whatever the token): up to 3 million
	// repetitions (3 MB, still below the gRPC message limit); one input per
	// journalled case, so that a process death (stack overflow) is attributed to it
	for _, tok := range []string{"!", "(", "!(", "((", "!!(", "[", "{", "this.", "||", "&&", "=>", "!this.related.r.includes(ctx.subject)&&", "(this.related.r.includes(ctx.subject)||"} {
		for _, n := range []int{100, 10_000, 1_000_000, 3_000_000} {
			if n*len(tok) > 4_000_000 {
				continue
			}
			tok, n := tok, n
			out = append(out, c12Sweep{"token-run", map[string]any{"token": tok, "count": n}, func(*rand.Rand) []string {
				return []string{c12PermProgram(strings.Repeat(tok, n) + "this.related.r.includes(ctx.subject)")}
			}})
		}
	}
	// type-check fan-out
	for k := 1; k <= 4; k++ {
		for v := 0; v < c12FanoutVariants; v++ {
			k, v := k, v
			out = append(out, c12Sweep{"typecheck-fanout", map[string]any{"k": k, "variant": v}, func(*rand.Rand) []string { return []string{c12Fanout(k, v)} }})
		}
	}
	// densely mutually-referring subject-set relations (every one of k relations is
	// a union over all k): the number of PATHS through them is factorial in k, the
	// number of (namespace, relation) pairs to check is k
	for _, k := range []int{6, 9, 12, 16, 24} {
		for _, v := range []int{2, 3} {
			k, v := k, v
			out = append(out, c12Sweep{"typecheck-dense", map[string]any{"k": k, "variant": v}, func(*rand.Rand) []string { return []string{c12Fanout(k, v)} }})
		}
	}
	// sizes up to 1 MiB
	sizes := []int{1 << 10, 4 << 10, 16 << 10, 64 << 10, 256 << 10, 1 << 20}
	if p.thorough() {
		sizes = []int{1 << 10, 2 << 10, 4 << 10, 8 << 10, 16 << 10, 32 << 10, 64 << 10, 128 << 10, 256 << 10, 512 << 10, 1 << 20}
	}
	for _, shape := range c12BigShapes {
		for _, n := range sizes {
			shape, n := shape, n
			out = append(out, c12Sweep{"size-ladder", map[string]any{"shape": shape, "size": n}, func(r *rand.Rand) []string { return []string{c12Big(shape, n, r)} }})
		}
	}
	// the repository's own OPL sources (calibration of the budget)
	fs, names := c12Repo()
	for i := 0; i < len(fs); i += 64 {
		i := i
		j := minInt(i+64, len(fs))
		out = append(out, c12Sweep{"repo-sources", map[string]any{"first": names[i], "count": j - i}, func(*rand.Rand) []string { return fs[i:j] }})
	}
	return out
}

// c12Random builds the random-family case idx.
func c12Random(r *rand.Rand) (fam string, params map[string]any, input string) {
	params = map[string]any{}
	switch k := r.IntN(100); {
	case k < 8:
		fam = "random-bytes"
		n := r.IntN(256)
		if r.IntN(20) == 0 {
			n = r.IntN(8192)
		}
		input = c12RandBytes(r, n)
	case k < 16:
		fam = "invalid-utf8"
		s := c12Seed(r)
		b := []byte(s)
		for i, n := 0, 1+r.IntN(3); i < n; i++ {
			at := 0
			if len(b) > 0 {
				at = r.IntN(len(b) + 1)
			}
			b = append(b[:at], append([]byte(pickS(r, c12BadUTF8)), b[at:]...)...)
		}
		input = string(b)
	case k < 30:
		fam = "token-soup"
		n := 1 + r.IntN(60)
		var sb strings.Builder
		for i := 0; i < n; i++ {
			sb.WriteString(pickS(r, c12Vocab))
			if r.IntN(3) > 0 {
				sb.WriteString(" ")
			}
		}
		input = sb.String()
		if r.IntN(3) == 0 {
			input = "class A implements Namespace { " + input
		}
	case k < 40:
		fam = "valid"
		var plain bool
		input, plain = c12GenValid(r)
		params["calibration"] = plain
	case k < 56:
		fam = "byte-mutation"
		input = c12MutateBytes(r, c12Seed(r))
	case k < 72:
		fam = "token-mutation"
		input = c12MutateTokens(r, c12Seed(r))
	case k < 76:
		fam = "unterminated"
		s := c12Seed(r)
		at := r.IntN(len(s) + 1)
		input = s[:at] + pickS(r, []string{"/*", "\"", "'", "//", "/**"}) + s[at:]
	case k < 80:
		fam = "nesting"
		pat := pickS(r, c12NestPatterns)
		d := 1 + r.IntN(200)
		params["pattern"], params["depth"] = pat, d
		input = c12Nest(pat, d, r)
	case k < 84:
		fam = "long-identifier"
		n := 1 + r.IntN(1<<uint(4+r.IntN(13)))
		name := strings.Repeat(pickS(r, []string{"a", "Z", "_", "a1", "é"}), n)
		params["n"] = n
		switch r.IntN(5) {
		case 0:
			input = "class " + name + " implements Namespace {}"
		case 1:
			input = "class A implements Namespace { related: { " + name + ": A[] } }"
		case 2:
			input = "class A implements Namespace { related: { a: " + name + "[] } }"
		case 3:
			input = "class A implements Namespace { related: { a: SubjectSet<A, \"" + name + "\">[] } }"
		case 4:
			input = c12PermProgram("this.related." + name + ".includes(ctx.subject)")
		}
	case k < 88:
		fam = "crlf"
		s := c12Seed(r)
		if r.IntN(2) == 0 {
			s = c12MutateTokens(r, s)
		}
		switch r.IntN(3) {
		case 0:
			input = strings.ReplaceAll(s, "\n", "\r\n")
		case 1:
			input = strings.ReplaceAll(s, "\n", "\r")
		default:
			input = strings.ReplaceAll(s, "\n", "\n\r")
		}
	case k < 94:
		fam = "multibyte-before-error"
		s := c12Seed(r)
		toks := c12Tokenize(s)
		mb := pickS(r, []string{"/* é */", "// 日本語\n", "/* 🙂🙂🙂 */", "/* */", "\ufeff", "/*   */", "'ключ'", "/* 👩‍👩‍👧 */"})
		n := 1 + r.IntN(5)
		for i := 0; i < n && len(toks) > 0; i++ {
			at := r.IntN(len(toks))
			toks = append(toks[:at], append([]string{mb}, toks[at:]...)...)
		}
		s = strings.Join(toks, "")
		// then an error somewhere after
		switch r.IntN(3) {
		case 0:
			input = s + " $"
		case 1:
			input = strings.Replace(s, "User", "Undeclared", 1)
		default:
			input = c12MutateTokens(r, s)
		}
	default:
		fam = "fanout-random"
		k, v := 1+r.IntN(4), r.IntN(c12FanoutVariants)
		params["k"], params["variant"] = k, v
		input = c12Fanout(k, v)
		if r.IntN(2) == 0 {
			input = c12MutateTokens(r, input)
		}
	}
	return
}

func TestC12(t *testing.T) {
	run := newRunner(t, "C12")
	defer run.finish()
	p := run.p
	m := &c12Monitor{run: run, ep: &c12Endpoints{}, lim: newSigLimiter()}
	defer m.ep.close()

	sweeps := c12Sweeps(p)
	// random families: one journalled case = a batch of c12Batch inputs (all a
	// pure function of (seed, idx)), so the journal stays small
	nRandom := int64(p.pick(9000, 180000))
	total := int64(len(sweeps)) + nRandom
	for idx := int64(0); idx < total; idx++ {
		if !p.mine(idx) {
			continue
		}
		r := p.rng(idx, "case")
		var c *c12Case
		var fams, calibs []string
		if idx < int64(len(sweeps)) {
			sw := sweeps[idx]
			c = c12Describe(sw.fam, sw.params, sw.gen(r))
			for range c.inputs {
				fams = append(fams, sw.fam)
				if sw.fam == "repo-sources" {
					calibs = append(calibs, "repo")
				} else {
					calibs = append(calibs, "")
				}
			}
		} else {
			var inputs []string
			famCount := map[string]any{}
			for j := 0; j < c12Batch; j++ {
				fam, params, input := c12Random(r)
				inputs = append(inputs, input)
				fams = append(fams, fam)
				if n, ok := famCount[fam].(int); ok {
					famCount[fam] = n + 1
				} else {
					famCount[fam] = 1
				}
				if fam == "valid" && params["calibration"] == true {
					calibs = append(calibs, "valid")
				} else {
					calibs = append(calibs, "")
				}
			}
			c = c12Describe("random-batch", famCount, inputs)
		}
		run.begin(idx, "", c)
		verdict := "ok"
		for i, s := range c.inputs {
			sub := ""
			if len(c.inputs) > 1 {
				sub = fmt.Sprintf("%d", i)
			}
			run.count("family_"+fams[i], 1)
			ic := c
			if c.Family == "random-batch" {
				ic = &c12Case{Family: fams[i], Inputs: 1, Len: len(s), Head: fmt.Sprintf("%.120q", s), Params: map[string]any{"batch": idx, "ordinal": i}}
			}
			// endpoint comparison: a sampled subset (deterministic in the input)
			h := fnv64(s)
			endpoints := h%4 == 0
			if c.Family != "random-batch" && len(c.inputs) > 1 {
				endpoints = h%16 == 0
			}
			if len(s) > 300_000 {
				endpoints = h%3 == 0 && c.Family == "size-ladder"
			}
			if v := m.check(idx, sub, ic, s, endpoints, calibs[i]); v != "ok" {
				verdict = v
			}
		}
		if idx%997 == 0 {
			run.sample(c)
		}
		run.end(idx, "", verdict)
	}
}

const c12Batch = 64
