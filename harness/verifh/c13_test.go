package verifh

// C13 — No request can crash a handler; malformed requests are client errors.
//
// Runtime monitor: requests built from the OpenAPI / proto shapes of every route
// of the three REST routers and every gRPC method, mutated by ONE named mutation
// each, are sent to the real handlers (routers driven in-process with requests
// parsed by net/http's own request reader; gRPC through the registry's real
// servers with all interceptors over bufconn, plus direct calls of the handler
// methods for panic attribution). Monitors:
//   * panic out of ServeHTTP                                  C13:http-panic:<route>:<mutation>
//   * HTTP status >= 500 (no storage fault is ever injected)    C13:http-5xx:<route>:<mutation>
//   * gRPC code Internal / Unknown                              C13:grpc-internal|grpc-unknown:<Method>:<mutation>
//   * panic in a directly called handler method                 C13:grpc-handler-panic:<Method>:<mutation>
//   * stored state (full dump) changed by a read/syntax request,
//     or by a write request that was answered with an error     C13:state-changed:<route>:<mutation>
//   * 2xx body that is not JSON of the documented shape         C13:bad-2xx-body:<route>:<mutation>
//   * process death with a journalled, unfinished request       C13:process-death:... (supervisor)
//
// Process-fatal inputs. Every request is journalled (run.begin(idx, "r<k>", req))
// right before it is sent, so a death is attributed to the exact request by the
// supervisor. A dead child loses its whole result file (the supervisor only
// counts complete results), therefore requests whose mutated part is consumed on
// a worker goroutine outside any recovery (the tuple elements of REST / gRPC
// batch check: errgroup workers in check.Engine.BatchCheck) are "fatal
// candidates"; they are NOT executed by the default entry (VERIF_MODE="") but by
// VERIF_MODE=fatal, which runs only them, in many small children (check.py:
// 64 shards, a bounded number of batches independent of the tier). Running the
// candidates "last within a child" would not help with this supervisor: only
// complete results count, so ordering inside a child cannot save earlier work;
// isolation by mode + many tiny children does.

import (
	"bufio"
	"context"
	"encoding/json"
	"fmt"
	"math/rand/v2"
	"net/http"
	"net/http/httptest"
	"net/url"
	"os"
	"path/filepath"
	"sort"
	"strings"
	"testing"
	"time"

	"google.golang.org/grpc/codes"
	"google.golang.org/grpc/status"
	"google.golang.org/protobuf/encoding/prototext"
	"google.golang.org/protobuf/proto"
	"google.golang.org/protobuf/types/known/fieldmaskpb"

	"github.com/ory/keto/internal/check"
	"github.com/ory/keto/internal/expand"
	"github.com/ory/keto/internal/namespace/namespacehandler"
	"github.com/ory/keto/internal/relationtuple"
	"github.com/ory/keto/internal/schema"
	opl "github.com/ory/keto/proto/ory/keto/opl/v1alpha1"
	rts "github.com/ory/keto/proto/ory/keto/relation_tuples/v1alpha2"
)

// ---------------------------------------------------------------------------
// state of one batch

type c13State struct {
	Tuples []string `json:"tuples"`
	tuples []*Tup
}

func c13Cfg() *Cfg {
	return &Cfg{NS: []*NSDef{
		{Name: "User"},
		{Name: "Group", Rels: []*RelDef{{Name: "members", Types: []TypeRef{{NS: "User"}, {NS: "Group", Rel: "members"}}}}},
		{Name: "Doc", Rels: []*RelDef{
			{Name: "owners", Types: []TypeRef{{NS: "User"}}},
			{Name: "viewers", Types: []TypeRef{{NS: "User"}, {NS: "Group", Rel: "members"}}},
			{Name: "parents", Types: []TypeRef{{NS: "Doc"}}},
			{Name: "view", Perm: true, Rewrite: &Expr{Op: "or", Kids: []*Expr{
				{Op: "csr", Rel: "viewers"}, {Op: "csr", Rel: "owners"}, {Op: "ttu", Rel: "parents", Comp: "view", ViaPermits: true}}}},
		}},
	}}
}

var (
	c13Users  = []string{"u0", "u1", "u2"}
	c13Groups = []string{"g0", "g1"}
	c13Docs   = []string{"d0", "d1", "d2"}
)

func genC13State(r *rand.Rand) *c13State {
	st := &c13State{}
	n := 3 + r.IntN(6)
	for i := 0; i < n; i++ {
		switch r.IntN(5) {
		case 0:
			st.tuples = append(st.tuples, tupID("Group", pickS(r, c13Groups), "members", pickS(r, c13Users)))
		case 1:
			st.tuples = append(st.tuples, tupSet("Group", pickS(r, c13Groups), "members", "Group", pickS(r, c13Groups), "members"))
		case 2:
			st.tuples = append(st.tuples, tupID("Doc", pickS(r, c13Docs), "owners", pickS(r, c13Users)))
		case 3:
			st.tuples = append(st.tuples, tupSet("Doc", pickS(r, c13Docs), "viewers", "Group", pickS(r, c13Groups), "members"))
		case 4:
			st.tuples = append(st.tuples, tupSet("Doc", pickS(r, c13Docs), "parents", "Doc", pickS(r, c13Docs), ""))
		}
	}
	st.Tuples = tupStrings(st.tuples)
	return st
}

// ---------------------------------------------------------------------------
// request description

type c13Req struct {
	Kind   string `json:"kind"`             // rest | grpc
	Router string `json:"router,omitempty"` // read | write | syntax
	Route  string `json:"route"`            // the documented route / gRPC method the request was derived from
	Mut    string `json:"mut"`              // the ONE mutation applied ("none" = schema-conforming request)
	Method string `json:"method,omitempty"`
	Target string `json:"target,omitempty"` // abbreviated request target
	Body   string `json:"body,omitempty"`   // abbreviated body
	Msg    string `json:"msg,omitempty"`    // abbreviated prototext of the gRPC request
	Fatal  bool   `json:"fatal_candidate,omitempty"`

	target   string
	body     string
	hasBody  bool
	msg      proto.Message
	readOnly bool // request must never change stored state
	envelope bool // path / method level mutation: the documented response schema does not apply
	shape    func(status int, body string) string
	// the schema-conforming request this one was derived from
	baseMethod, baseTarget, baseBody string
	baseMsg                          proto.Message
}

// baseReq returns the un-mutated request (nil when there is none).
func (q *c13Req) baseReq() *c13Req {
	if q.Kind == "grpc" {
		if q.baseMsg == nil {
			return nil
		}
		b := &c13Req{Kind: "grpc", Route: q.Route, Mut: "none", msg: q.baseMsg, readOnly: q.readOnly}
		return b.finish()
	}
	if q.baseTarget == "" {
		return nil
	}
	b := &c13Req{Kind: "rest", Router: q.Router, Route: q.Route, Mut: "none", Method: q.baseMethod, target: q.baseTarget, body: q.baseBody,
		hasBody: q.baseBody != "", readOnly: q.readOnly, shape: q.shape}
	return b.finish()
}

func abbrev(s string) string {
	const max = 360
	if len(s) <= max {
		return s
	}
	return fmt.Sprintf("%s…<%d bytes>…%s", s[:200], len(s), s[len(s)-80:])
}

func (q *c13Req) finish() *c13Req {
	q.Target = abbrev(q.target)
	q.Body = abbrev(q.body)
	if q.msg != nil {
		q.Msg = abbrev(prototext.MarshalOptions{Multiline: false}.Format(q.msg))
	}
	return q
}

// ---------------------------------------------------------------------------
// value pools

type kv struct{ K, V string }

func encQuery(q []kv, sep string) string {
	parts := make([]string, 0, len(q))
	for _, p := range q {
		parts = append(parts, url.QueryEscape(p.K)+"="+url.QueryEscape(p.V))
	}
	return strings.Join(parts, sep)
}

const (
	hugeURL  = 64 << 10 // below net/http's 1 MiB header limit, so the request reaches the handler
	hugeBody = 1 << 20
)

func hugeString(n int) string { return strings.Repeat("a", n) }

// c13Adv: adversarial but valid UTF-8 string of bounded size.
func c13Adv(r *rand.Rand) string {
	s := advString(r)
	if len(s) > 3000 {
		s = s[:3000]
		for len(s) > 0 && !isValidUTF8Tail(s) {
			s = s[:len(s)-1]
		}
	}
	if !validUTF8(s) {
		return "x"
	}
	return s
}

func validUTF8(s string) bool { return strings.ToValidUTF8(s, "�") == s }

func isValidUTF8Tail(s string) bool { return validUTF8(s) }

type c13Tuple struct {
	NS, Obj, Rel string
	SID          *string
	SSet         *[3]string
}

// baseTuple: mostly an existing relationship (so checks reach the engine and find something).
func baseTuple(r *rand.Rand, st *c13State) c13Tuple {
	if len(st.tuples) > 0 && r.IntN(10) < 6 {
		t := st.tuples[r.IntN(len(st.tuples))]
		bt := c13Tuple{NS: t.Namespace, Obj: t.Object, Rel: t.Relation}
		if t.SubjectID != nil {
			bt.SID = sp(*t.SubjectID)
		} else {
			bt.SSet = &[3]string{t.SubjectSet.Namespace, t.SubjectSet.Object, t.SubjectSet.Relation}
		}
		if r.IntN(3) == 0 && t.Namespace == "Doc" {
			bt.Rel = "view"
		}
		return bt
	}
	bt := c13Tuple{}
	switch r.IntN(3) {
	case 0:
		bt.NS, bt.Obj, bt.Rel = "Doc", pickS(r, c13Docs), pickS(r, []string{"owners", "viewers", "parents", "view"})
	case 1:
		bt.NS, bt.Obj, bt.Rel = "Group", pickS(r, c13Groups), "members"
	default:
		bt.NS, bt.Obj, bt.Rel = "User", pickS(r, c13Users), ""
	}
	if r.IntN(2) == 0 {
		bt.SID = sp(pickS(r, c13Users))
	} else {
		bt.SSet = &[3]string{"Group", pickS(r, c13Groups), "members"}
	}
	return bt
}

func (t c13Tuple) query() []kv {
	q := []kv{{"namespace", t.NS}, {"object", t.Obj}, {"relation", t.Rel}}
	if t.SID != nil {
		q = append(q, kv{"subject_id", *t.SID})
	} else if t.SSet != nil {
		q = append(q, kv{"subject_set.namespace", t.SSet[0]}, kv{"subject_set.object", t.SSet[1]}, kv{"subject_set.relation", t.SSet[2]})
	}
	return q
}

func (t c13Tuple) jsonMap() map[string]any {
	m := map[string]any{"namespace": t.NS, "object": t.Obj, "relation": t.Rel}
	if t.SID != nil {
		m["subject_id"] = *t.SID
	} else if t.SSet != nil {
		m["subject_set"] = map[string]any{"namespace": t.SSet[0], "object": t.SSet[1], "relation": t.SSet[2]}
	}
	return m
}

func (t c13Tuple) protoSubject() *rts.Subject {
	if t.SID != nil {
		return rts.NewSubjectID(*t.SID)
	}
	if t.SSet != nil {
		return rts.NewSubjectSet(t.SSet[0], t.SSet[1], t.SSet[2])
	}
	return nil
}

func (t c13Tuple) proto() *rts.RelationTuple {
	return &rts.RelationTuple{Namespace: t.NS, Object: t.Obj, Relation: t.Rel, Subject: t.protoSubject()}
}

// ---------------------------------------------------------------------------
// mutations on URL queries

// numeric parameter mutations, named by what is wrong with the value (class), not by the value
var numVariants = []kv{
	{"negative", "-3"}, {"negative", "-1"}, {"negative", "-9223372036854775808"}, {"zero", "0"},
	{"overflow", "99999999999999999999999"}, {"maxint", "9223372036854775807"}, {"maxint", "2147483647"},
	{"not-a-number", "abc"}, {"not-a-number", ""}, {"not-a-number", "1.5"}, {"not-a-number", " 3 "}, {"not-a-number", "1e3"},
	{"alt-syntax", "0x10"}, {"alt-syntax", "+3"}, {"alt-syntax", "1_0"},
}

func setQ(q []kv, k, v string) []kv {
	for i := range q {
		if q[i].K == k {
			q[i].V = v
			return q
		}
	}
	return append(q, kv{k, v})
}

func dropQ(q []kv, k string) []kv {
	var out []kv
	for _, p := range q {
		if p.K != k {
			out = append(out, p)
		}
	}
	return out
}

func hasQ(q []kv, k string) bool {
	for _, p := range q {
		if p.K == k {
			return true
		}
	}
	return false
}

// mutQuery applies one named mutation to a query; numParams are the numeric
// parameters of the route (max-depth, page_size), token says whether the route
// takes a page_token. Returns the mutation name, the new query, the separator
// and a raw suffix.
func mutQuery(r *rand.Rand, q []kv, numParams []string, token bool) (string, []kv, string, string) {
	type m struct {
		name string
		f    func() ([]kv, string, string)
	}
	var ms []m
	add := func(name string, f func() ([]kv, string, string)) { ms = append(ms, m{name, f}) }
	plain := func(g func() []kv) func() ([]kv, string, string) {
		return func() ([]kv, string, string) { return g(), "&", "" }
	}
	keys := map[string]bool{}
	for _, p := range q {
		keys[p.K] = true
	}
	var ks []string
	for k := range keys {
		ks = append(ks, k)
	}
	sort.Strings(ks)
	isNum := map[string]bool{}
	for _, np := range numParams {
		isNum[np] = true
	}
	for _, k := range ks {
		k := k
		add("missing-"+k, plain(func() []kv { return dropQ(q, k) }))
		if isNum[k] {
			// numeric parameters have their own value classes below (an adversarial
			// string such as "-1" would otherwise alias <param>-negative)
			continue
		}
		add("empty-"+k, plain(func() []kv { return setQ(q, k, "") }))
		add("huge-"+k, plain(func() []kv { return setQ(q, k, hugeString(hugeURL)) }))
		add("adv-"+k, plain(func() []kv { return setQ(q, k, c13Adv(r)) }))
		add("duplicate-"+k, plain(func() []kv { return append(q, kv{k, "other"}) }))
	}
	if keys["namespace"] {
		add("unknown-namespace", plain(func() []kv {
			return setQ(q, "namespace", pickS(r, []string{"Nope", "doc", "Doc ", "DOC", "Doc\x00", "Группа"}))
		}))
	}
	if keys["subject_set.namespace"] {
		add("unknown-subject-set-namespace", plain(func() []kv { return setQ(q, "subject_set.namespace", "Nope") }))
		add("incomplete-subject-set", plain(func() []kv {
			return dropQ(q, pickS(r, []string{"subject_set.namespace", "subject_set.object", "subject_set.relation"}))
		}))
		add("both-subjects", plain(func() []kv { return append(q, kv{"subject_id", "u0"}) }))
	}
	if keys["subject_id"] {
		add("both-subjects", plain(func() []kv { return append(q, kv{"subject_set.namespace", "Group"}) }))
		add("no-subject", plain(func() []kv { return dropQ(q, "subject_id") }))
	}
	add("dropped-subject-key", plain(func() []kv { return append(q, kv{"subject", "u0"}) }))
	add("unknown-key", plain(func() []kv {
		return append(q, kv{pickS(r, []string{"foo", "Namespace", "subject_set", "page", "max_depth"}), "bar"})
	}))
	add("bad-percent-escape", func() ([]kv, string, string) {
		return q, "&", pickS(r, []string{"&namespace=%zz", "&%", "&object=%2", "&=", "&&&", "&namespace"})
	})
	add("semicolon-separator", func() ([]kv, string, string) { return q, ";", "" })
	add("no-query", func() ([]kv, string, string) { return nil, "&", "" })
	for _, np := range numParams {
		np := np
		for _, v := range numVariants {
			v := v
			add(np+"-"+v.K, plain(func() []kv { return setQ(q, np, v.V) }))
		}
		add(np+"-duplicate", plain(func() []kv { return append(setQ(q, np, "2"), kv{np, "abc"}) }))
	}
	if token {
		tokens := []kv{
			{"malformed-page-token", "garbage"}, {"malformed-page-token", "123"}, {"malformed-page-token", "00000000-0000-0000-0000-00000000000"},
			{"malformed-page-token", "' OR 1=1 --"}, {"malformed-page-token", "\x00"},
			{"malformed-page-token", hugeString(hugeURL)},
			{"wellformed-unknown-page-token", "6ba7b810-9dad-11d1-80b4-00c04fd430c8"}, {"wellformed-unknown-page-token", "00000000-0000-0000-0000-000000000000"},
			{"wellformed-unknown-page-token", "ffffffff-ffff-ffff-ffff-ffffffffffff"}, {"wellformed-unknown-page-token", "6BA7B810-9DAD-11D1-80B4-00C04FD430C8"},
			{"wellformed-unknown-page-token", "{6ba7b810-9dad-11d1-80b4-00c04fd430c8}"}, {"wellformed-unknown-page-token", "urn:uuid:6ba7b810-9dad-11d1-80b4-00c04fd430c8"},
			{"empty-page-token", ""},
		}
		for _, t := range tokens {
			t := t
			add(t.K, plain(func() []kv { return setQ(q, "page_token", t.V) }))
		}
	}
	x := ms[r.IntN(len(ms))]
	nq, sep, raw := x.f()
	return x.name, nq, sep, raw
}

// ---------------------------------------------------------------------------
// mutations on JSON tuples and raw bodies

func wrongType(r *rand.Rand) any {
	switch r.IntN(6) {
	case 0:
		return 123
	case 1:
		return true
	case 2:
		return map[string]any{"a": 1}
	case 3:
		return []any{"x"}
	case 4:
		return 1.5e300
	}
	return []any{}
}

// mutTupleMap applies one field-level mutation to a JSON relationship object.
func mutTupleMap(r *rand.Rand, m map[string]any) string {
	type mm struct {
		name string
		f    func()
	}
	var ms []mm
	add := func(name string, f func()) { ms = append(ms, mm{name, f}) }
	for _, f := range []string{"namespace", "object", "relation"} {
		f := f
		add("missing-"+f, func() { delete(m, f) })
		add("null-"+f, func() { m[f] = nil })
		add("wrong-type-"+f, func() { m[f] = wrongType(r) })
		add("empty-"+f, func() { m[f] = "" })
		add("huge-"+f, func() { m[f] = hugeString(hugeBody) })
		add("adv-"+f, func() { m[f] = c13Adv(r) })
	}
	add("unknown-namespace", func() { m["namespace"] = pickS(r, []string{"Nope", "doc", "Doc ", "Группа"}) })
	add("no-subject", func() { delete(m, "subject_id"); delete(m, "subject_set") })
	add("both-subjects", func() {
		m["subject_id"] = "u0"
		m["subject_set"] = map[string]any{"namespace": "Group", "object": "g0", "relation": "members"}
	})
	add("null-subject-id", func() { delete(m, "subject_set"); m["subject_id"] = nil })
	add("wrong-type-subject-id", func() { delete(m, "subject_set"); m["subject_id"] = wrongType(r) })
	add("empty-subject-id", func() { delete(m, "subject_set"); m["subject_id"] = "" })
	add("huge-subject-id", func() { delete(m, "subject_set"); m["subject_id"] = hugeString(hugeBody) })
	add("adv-subject-id", func() { delete(m, "subject_set"); m["subject_id"] = c13Adv(r) })
	add("null-subject-set", func() { delete(m, "subject_id"); m["subject_set"] = nil })
	add("wrong-type-subject-set", func() { delete(m, "subject_id"); m["subject_set"] = pickAny(r, "str", 5, []any{}, true) })
	add("empty-object-subject-set", func() { delete(m, "subject_id"); m["subject_set"] = map[string]any{} })
	add("subject-set-missing-field", func() {
		delete(m, "subject_id")
		ss := map[string]any{"namespace": "Group", "object": "g0", "relation": "members"}
		delete(ss, pickS(r, []string{"namespace", "object", "relation"}))
		m["subject_set"] = ss
	})
	add("subject-set-wrong-type-field", func() {
		delete(m, "subject_id")
		ss := map[string]any{"namespace": "Group", "object": "g0", "relation": "members"}
		ss[pickS(r, []string{"namespace", "object", "relation"})] = wrongType(r)
		m["subject_set"] = ss
	})
	add("unknown-subject-set-namespace", func() {
		delete(m, "subject_id")
		m["subject_set"] = map[string]any{"namespace": "Nope", "object": "g0", "relation": "members"}
	})
	add("subject-set-null-fields", func() {
		delete(m, "subject_id")
		m["subject_set"] = map[string]any{"namespace": nil, "object": nil, "relation": nil}
	})
	add("unknown-field", func() { m[pickS(r, []string{"foo", "Namespace", "subject", "id"})] = "bar" })
	x := ms[r.IntN(len(ms))]
	x.f()
	return x.name
}

func pickAny(r *rand.Rand, xs ...any) any { return xs[r.IntN(len(xs))] }

func mustJSON(v any) string {
	b, err := json.Marshal(v)
	if err != nil {
		return "null"
	}
	return string(b)
}

// mutRawBody: body-level mutations independent of the schema.
func mutRawBody(r *rand.Rand, valid string) (string, string) {
	ms := []kv{
		{"body-empty", ""}, {"body-null", "null"}, {"body-array", "[]"}, {"body-array-of-arrays", "[[]]"}, {"body-empty-object", "{}"},
		{"body-string", `"str"`}, {"body-number", "42"}, {"body-true", "true"},
		{"body-truncated", valid[:len(valid)/2]}, {"body-trailing-garbage", valid + "}}garbage"},
		{"body-two-documents", valid + " " + valid},
		{"body-not-json", "namespace=Doc&object=d0"}, {"body-deep-nesting", strings.Repeat("[", 100000)},
		{"body-deep-object-nesting", strings.Repeat(`{"a":`, 20000)},
		{"body-bom", "\xef\xbb\xbf" + valid}, {"body-invalid-utf8", strings.Replace(valid, `"`, "\"\xff\xfe", 1)},
		{"body-nul-bytes", "\x00\x00\x00"}, {"body-whitespace-only", " \n\t "},
		{"body-huge-garbage", hugeString(hugeBody)},
		{"body-duplicate-keys", `{"namespace":"Doc","namespace":"Nope","object":"d0","object":"d1","relation":"owners","subject_id":"u0","subject_id":"u1"}`},
		{"body-big-number", `{"namespace":1e999999}`}, {"body-unicode-escapes", `{"namespace":"\ud800","object":"\u0000","relation":"\udfff","subject_id":"\ud83d"}`},
	}
	x := ms[r.IntN(len(ms))]
	return x.K, x.V
}

// ---------------------------------------------------------------------------
// response shapes (2xx bodies, per the OpenAPI document)

func asObj(body string) (map[string]any, string) {
	var v any
	dec := json.NewDecoder(strings.NewReader(body))
	if err := dec.Decode(&v); err != nil {
		return nil, "body is not JSON: " + err.Error()
	}
	m, ok := v.(map[string]any)
	if !ok {
		return nil, fmt.Sprintf("body is JSON %T, not an object", v)
	}
	return m, ""
}

func relShape(v any) string {
	m, ok := v.(map[string]any)
	if !ok {
		return fmt.Sprintf("relationship is %T, not an object", v)
	}
	for _, f := range []string{"namespace", "object", "relation"} {
		if _, ok := m[f].(string); !ok {
			return "relationship." + f + " missing or not a string"
		}
	}
	if sid, ok := m["subject_id"]; ok {
		if _, ok := sid.(string); !ok {
			return "relationship.subject_id not a string"
		}
	}
	if ss, ok := m["subject_set"]; ok {
		sm, ok := ss.(map[string]any)
		if !ok {
			return "relationship.subject_set not an object"
		}
		for _, f := range []string{"namespace", "object", "relation"} {
			if _, ok := sm[f].(string); !ok {
				return "relationship.subject_set." + f + " missing or not a string"
			}
		}
	}
	return ""
}

func shapeAllowed(_ int, body string) string {
	m, e := asObj(body)
	if e != "" {
		return e
	}
	if _, ok := m["allowed"].(bool); !ok {
		return `required boolean "allowed" missing`
	}
	return ""
}

func shapeList(_ int, body string) string {
	m, e := asObj(body)
	if e != "" {
		return e
	}
	if rt, ok := m["relation_tuples"]; ok && rt != nil {
		arr, ok := rt.([]any)
		if !ok {
			return `"relation_tuples" is not an array`
		}
		for _, x := range arr {
			if e := relShape(x); e != "" {
				return e
			}
		}
	}
	if t, ok := m["next_page_token"]; ok {
		if _, ok := t.(string); !ok {
			return `"next_page_token" is not a string`
		}
	}
	if _, isErr := m["error"]; isErr {
		return `body is an error object ("error" key) under a 2xx status`
	}
	return ""
}

func shapeBatch(_ int, body string) string {
	m, e := asObj(body)
	if e != "" {
		return e
	}
	arr, ok := m["results"].([]any)
	if !ok {
		if m["results"] == nil {
			if _, present := m["results"]; present {
				return "" // results: null for an empty batch (nullable array)
			}
		}
		return `required array "results" missing`
	}
	for _, x := range arr {
		xm, ok := x.(map[string]any)
		if !ok {
			return "results[] element is not an object"
		}
		if _, ok := xm["allowed"].(bool); !ok {
			return `results[].allowed missing`
		}
		if er, ok := xm["error"]; ok {
			if _, ok := er.(string); !ok {
				return "results[].error is not a string"
			}
		}
	}
	return ""
}

var treeTypes = map[string]bool{"union": true, "exclusion": true, "intersection": true, "leaf": true, "tuple_to_subject_set": true, "computed_subject_set": true, "not": true, "unspecified": true}

func treeShape(v any, depth int) string {
	m, ok := v.(map[string]any)
	if !ok {
		return fmt.Sprintf("tree node is %T, not an object", v)
	}
	t, ok := m["type"].(string)
	if !ok {
		if _, isErr := m["code"]; isErr {
			return `required "type" missing: body is an error object (code/status/message) under status 200`
		}
		return `required "type" missing`
	}
	if !treeTypes[t] {
		return "unknown node type " + t
	}
	if tu, ok := m["tuple"]; ok && tu != nil {
		tm, ok := tu.(map[string]any)
		if !ok {
			return "tree.tuple is not an object"
		}
		_ = tm
	}
	if ch, ok := m["children"]; ok && ch != nil {
		arr, ok := ch.([]any)
		if !ok {
			return "tree.children is not an array"
		}
		if depth < 50 {
			for _, c := range arr {
				if e := treeShape(c, depth+1); e != "" {
					return e
				}
			}
		}
	}
	return ""
}

func shapeTree(_ int, body string) string {
	var v any
	if err := json.Unmarshal([]byte(body), &v); err != nil {
		return "body is not JSON: " + err.Error()
	}
	return treeShape(v, 0)
}

func shapeNamespaces(_ int, body string) string {
	m, e := asObj(body)
	if e != "" {
		return e
	}
	if nn, ok := m["namespaces"]; ok && nn != nil {
		arr, ok := nn.([]any)
		if !ok {
			return `"namespaces" is not an array`
		}
		for _, x := range arr {
			xm, ok := x.(map[string]any)
			if !ok {
				return "namespaces[] element is not an object"
			}
			if n, ok := xm["name"]; ok {
				if _, ok := n.(string); !ok {
					return "namespaces[].name is not a string"
				}
			}
		}
	}
	if _, isErr := m["error"]; isErr {
		return `body is an error object under a 2xx status`
	}
	return ""
}

func shapeRelationship(_ int, body string) string {
	var v any
	if err := json.Unmarshal([]byte(body), &v); err != nil {
		return "body is not JSON: " + err.Error()
	}
	return relShape(v)
}

func shapeEmpty(_ int, body string) string {
	if strings.TrimSpace(body) != "" {
		return "204 with a body"
	}
	return ""
}

func shapeSyntax(_ int, body string) string {
	m, e := asObj(body)
	if e != "" {
		return e
	}
	if er, ok := m["errors"]; ok && er != nil {
		arr, ok := er.([]any)
		if !ok {
			return `"errors" is not an array`
		}
		for _, x := range arr {
			xm, ok := x.(map[string]any)
			if !ok {
				return "errors[] element is not an object"
			}
			if _, ok := xm["message"].(string); !ok {
				return "errors[].message missing"
			}
			for _, pos := range []string{"start", "end"} {
				pm, ok := xm[pos].(map[string]any)
				if !ok {
					return "errors[]." + pos + " missing"
				}
				for _, f := range []string{"Line", "column"} {
					n, ok := pm[f].(float64)
					if !ok || n < 0 || n != float64(int64(n)) {
						return "errors[]." + pos + "." + f + " is not a non-negative integer"
					}
				}
			}
		}
	}
	return ""
}

func shapeKey(key string) func(int, string) string {
	return func(_ int, body string) string {
		m, e := asObj(body)
		if e != "" {
			return e
		}
		if _, ok := m[key].(string); !ok {
			return `required string "` + key + `" missing`
		}
		return ""
	}
}

// ---------------------------------------------------------------------------
// REST request families

var otherMethods = []string{"GET", "POST", "PUT", "PATCH", "DELETE", "HEAD", "OPTIONS", "TRACE", "CONNECT", "PROPFIND"}

// restEnvelope applies path / method level mutations shared by all routes.
// Returns "" when none was applied.
func restEnvelope(r *rand.Rand, q *c13Req, path *string) string {
	switch r.IntN(9) {
	case 0:
		m := pickS(r, otherMethods)
		if m == q.Method || m == "CONNECT" {
			m = "TRACE"
		}
		q.Method = m
		return "wrong-method-" + m
	case 1:
		*path += "/"
		return "trailing-slash"
	case 2:
		*path = strings.ToUpper(*path)
		return "uppercase-path"
	case 3:
		*path += "/" + pickS(r, []string{"x", "..", "%2e%2e", "check", "a/b/c", "%00"})
		return "extra-path-segment"
	case 4:
		*path = strings.Replace(*path, "/", "//", 1)
		return "double-slash"
	case 5:
		if !q.hasBody {
			q.hasBody = true
			q.body = pickS(r, []string{`{"namespace":"Doc"}`, "x", "null", hugeString(1 << 16)})
			return "body-on-" + strings.ToLower(q.Method)
		}
		*path += "#frag"
		return "fragment"
	case 6:
		*path = *path + "?" // handled by caller: query appended after, giving "??"
		return "double-question-mark"
	case 7:
		*path = strings.TrimPrefix(*path, "/")
		if !strings.HasPrefix(*path, "/") {
			*path = "/./" + *path
		}
		return "dot-segment"
	}
	*path = *path + "%"
	return "bad-path-escape"
}

func genRESTQueryRoute(r *rand.Rand, router, method, path string, base []kv, numParams []string, token bool, readOnly bool, shape func(int, string) string) *c13Req {
	q := &c13Req{Kind: "rest", Router: router, Route: method + " " + path, Method: method, readOnly: readOnly, shape: shape}
	qs, sep, raw := base, "&", ""
	q.baseMethod, q.baseTarget = method, path
	if len(base) > 0 {
		q.baseTarget = path + "?" + encQuery(base, "&")
	}
	switch k := r.IntN(10); {
	case k == 0:
		q.Mut = "none"
	case k == 1:
		q.Mut, q.envelope = restEnvelope(r, q, &path), true
	default:
		q.Mut, qs, sep, raw = mutQuery(r, append([]kv(nil), base...), numParams, token)
	}
	query := encQuery(qs, sep) + raw
	q.target = path
	if query != "" {
		if strings.HasSuffix(path, "?") {
			q.target = path + "?" + query
		} else if i := strings.Index(path, "#"); i >= 0 {
			q.target = path[:i] + "?" + query + path[i:]
		} else {
			q.target = path + "?" + query
		}
	}
	return q
}

func maybeDepth(r *rand.Rand, q []kv) []kv {
	if r.IntN(3) == 0 {
		return append(q, kv{"max-depth", fmt.Sprint(1 + r.IntN(6))})
	}
	return q
}

func genRESTBodyRoute(r *rand.Rand, router, method, path string, numParams []string, readOnly bool, shape func(int, string) string,
	valid func() any, schemaMut func(v any) (string, any, bool)) *c13Req {
	q := &c13Req{Kind: "rest", Router: router, Route: method + " " + path, Method: method, readOnly: readOnly, shape: shape, hasBody: true}
	v := valid()
	var qs []kv
	qs = maybeDepthIf(r, qs, len(numParams) > 0)
	sep, raw := "&", ""
	q.baseMethod, q.baseTarget, q.baseBody = method, path, mustJSON(v)
	if len(qs) > 0 {
		q.baseTarget = path + "?" + encQuery(qs, "&")
	}
	switch k := r.IntN(12); {
	case k == 0:
		q.Mut = "none"
		q.body = mustJSON(v)
		q.Fatal = schemaFatalNone(path)
	case k == 1:
		q.body = mustJSON(v)
		q.Mut, q.envelope = restEnvelope(r, q, &path), true
	case k <= 3:
		q.Mut, q.body = mutRawBody(r, mustJSON(v))
	case k == 4 && len(numParams) > 0:
		q.body = mustJSON(v)
		q.Fatal = schemaFatalNone(path)
		q.Mut, qs, sep, raw = mutQuery(r, append(qs, kv{numParams[0], "3"}), numParams, false)
	default:
		name, nv, fatal := schemaMut(v)
		q.Mut, q.Fatal = name, fatal
		if s, ok := nv.(string); ok && strings.HasPrefix(name, "raw:") {
			q.Mut = strings.TrimPrefix(name, "raw:")
			q.body = s
		} else {
			q.body = mustJSON(nv)
		}
	}
	query := encQuery(qs, sep) + raw
	q.target = path
	if query != "" {
		q.target = path + "?" + query
	}
	return q
}

func schemaFatalNone(path string) bool { return path == check.BatchRoute }

func maybeDepthIf(r *rand.Rand, q []kv, ok bool) []kv {
	if ok {
		return maybeDepth(r, q)
	}
	return q
}

func genC13REST(r *rand.Rand, st *c13State, fam string) *c13Req {
	bt := baseTuple(r, st)
	switch fam {
	case "rest-list":
		var base []kv
		switch r.IntN(4) {
		case 0:
			base = []kv{{"namespace", bt.NS}}
		case 1:
			base = []kv{{"namespace", bt.NS}, {"object", bt.Obj}}
		case 2:
			base = bt.query()
		default:
			base = []kv{{"namespace", bt.NS}, {"relation", bt.Rel}}
		}
		if r.IntN(2) == 0 {
			base = append(base, kv{"page_size", fmt.Sprint(1 + r.IntN(4))})
		}
		return genRESTQueryRoute(r, "read", "GET", relationtuple.ReadRouteBase, base, []string{"page_size"}, true, true, shapeList)
	case "rest-check-get":
		path := check.RouteBase
		if r.IntN(2) == 0 {
			path = check.OpenAPIRouteBase
		}
		return genRESTQueryRoute(r, "read", "GET", path, maybeDepth(r, bt.query()), []string{"max-depth"}, false, true, shapeAllowed)
	case "rest-expand":
		base := []kv{{"namespace", bt.NS}, {"object", bt.Obj}, {"relation", bt.Rel}}
		return genRESTQueryRoute(r, "read", "GET", expand.RouteBase, maybeDepth(r, base), []string{"max-depth"}, false, true, shapeTree)
	case "rest-namespaces":
		return genRESTQueryRoute(r, "read", "GET", namespacehandler.RouteBase, nil, nil, false, true, shapeNamespaces)
	case "rest-delete":
		var base []kv
		switch r.IntN(3) {
		case 0:
			base = bt.query()
		case 1:
			base = []kv{{"namespace", bt.NS}, {"object", bt.Obj}}
		default:
			base = []kv{{"namespace", bt.NS}, {"relation", bt.Rel}}
		}
		return genRESTQueryRoute(r, "write", "DELETE", relationtuple.WriteRouteBase, base, nil, false, false, shapeEmpty)
	case "rest-misc":
		router := pickS(r, []string{"read", "write", "syntax"})
		p := pickS(r, []string{"/health/alive", "/health/ready", "/version", "/metrics/prometheus", "/", "/admin", "/relation-tuples/unknown", "/opl", "/admin/relation-tuples/x", "/namespaces/x"})
		q := genRESTQueryRoute(r, router, "GET", p, nil, nil, false, true, nil)
		switch p {
		case "/health/alive", "/health/ready":
			q.shape = shapeKey("status")
		case "/version":
			q.shape = shapeKey("version")
		}
		q.Route = "GET " + p + " (" + router + ")"
		return q
	case "rest-check-post":
		path := check.RouteBase
		if r.IntN(2) == 0 {
			path = check.OpenAPIRouteBase
		}
		return genRESTBodyRoute(r, "read", "POST", path, []string{"max-depth"}, true, shapeAllowed,
			func() any { return bt.jsonMap() },
			func(v any) (string, any, bool) { m := v.(map[string]any); return mutTupleMap(r, m), m, false })
	case "rest-put":
		return genRESTBodyRoute(r, "write", "PUT", relationtuple.WriteRouteBase, nil, false, shapeRelationship,
			func() any {
				nt := baseTuple(r, st)
				if r.IntN(2) == 0 {
					nt.Obj = fmt.Sprintf("new%d", r.IntN(5))
				}
				return nt.jsonMap()
			},
			func(v any) (string, any, bool) { m := v.(map[string]any); return mutTupleMap(r, m), m, false })
	case "rest-batch":
		return genRESTBodyRoute(r, "read", "POST", check.BatchRoute, []string{"max-depth"}, true, shapeBatch,
			func() any {
				n := 1 + r.IntN(4)
				var ts []any
				for i := 0; i < n; i++ {
					ts = append(ts, baseTuple(r, st).jsonMap())
				}
				return map[string]any{"tuples": ts}
			},
			func(v any) (string, any, bool) {
				m := v.(map[string]any)
				ts := m["tuples"].([]any)
				switch k := r.IntN(16); k {
				case 0:
					delete(m, "tuples")
					return "tuples-missing", m, false
				case 1:
					m["tuples"] = nil
					return "tuples-null", m, false
				case 2:
					m["tuples"] = map[string]any{"0": ts[0]}
					return "tuples-object", m, false
				case 3:
					m["tuples"] = "str"
					return "tuples-string", m, false
				case 4:
					m["tuples"] = []any{}
					return "tuples-empty", m, false
				case 5:
					for len(ts) < 11 {
						ts = append(ts, baseTuple(r, st).jsonMap())
					}
					m["tuples"] = ts
					return "tuples-too-many", m, false
				case 6:
					m["foo"] = "bar"
					return "unknown-field", m, true
				case 7:
					i := r.IntN(len(ts))
					ts[i] = nil
					return "element-null", m, true
				case 9:
					i := r.IntN(len(ts))
					ts[i] = pickAny(r, "str", 5, []any{}, true, map[string]any{})
					name := map[string]string{"string": "element-string", "int": "element-number", "[]interface {}": "element-array", "bool": "element-bool", "map[string]interface {}": "element-empty-object"}[fmt.Sprintf("%T", ts[i])]
					return name, m, true
				case 10:
					ts = append(ts, ts[0], ts[0])
					m["tuples"] = ts
					return "element-duplicate", m, true
				default:
					i := r.IntN(len(ts))
					return "element-" + mutTupleMap(r, ts[i].(map[string]any)), m, true
				}
			})
	case "rest-patch":
		return genRESTBodyRoute(r, "write", "PATCH", relationtuple.WriteRouteBase, nil, false, shapeEmpty,
			func() any {
				n := 1 + r.IntN(3)
				var ds []any
				for i := 0; i < n; i++ {
					nt := baseTuple(r, st)
					act := "insert"
					if r.IntN(3) == 0 {
						act = "delete"
					} else if r.IntN(2) == 0 {
						nt.Obj = fmt.Sprintf("new%d", r.IntN(5))
					}
					ds = append(ds, map[string]any{"action": act, "relation_tuple": nt.jsonMap()})
				}
				return ds
			},
			func(v any) (string, any, bool) {
				ds := v.([]any)
				i := r.IntN(len(ds))
				d := ds[i].(map[string]any)
				switch k := r.IntN(20); k {
				case 0:
					return "body-object-instead-of-array", d, false
				case 1:
					return "deltas-empty", []any{}, false
				case 2:
					ds[i] = nil
					return "delta-null", ds, false
				case 3:
					return "delta-null", []any{nil}, false
				case 4:
					ds[i] = pickAny(r, "str", 5, []any{}, true)
					return "delta-wrong-type", ds, false
				case 5:
					delete(d, "action")
					return "delta-missing-action", ds, false
				case 6:
					d["action"] = pickS(r, []string{"upsert", "INSERT", "", "Insert ", "ACTION_INSERT"})
					return "delta-unknown-action", ds, false
				case 7:
					d["action"] = pickAny(r, 1, nil, true, []any{}, map[string]any{})
					return "delta-wrong-type-action", ds, false
				case 8:
					d["relation_tuple"] = nil
					return "delta-null-relation-tuple", ds, false
				case 9:
					delete(d, "relation_tuple")
					return "delta-missing-relation-tuple", ds, false
				case 10:
					d["relation_tuple"] = pickAny(r, "str", 5, []any{}, true)
					return "delta-wrong-type-relation-tuple", ds, false
				case 11:
					ds = append(ds, map[string]any{"action": "delete", "relation_tuple": d["relation_tuple"]})
					return "delta-insert-and-delete-same", ds, false
				case 12:
					ds = append(ds, d, d)
					return "delta-duplicate", ds, false
				case 13:
					// a valid insert followed by an invalid delta: nothing may be applied
					ds = append([]any{map[string]any{"action": "insert", "relation_tuple": tupMap("Doc", "atomic", "owners", "u0")}}, ds...)
					ds = append(ds, map[string]any{"action": "insert", "relation_tuple": tupMap("Nope", "x", "y", "u0")})
					return "delta-valid-then-unknown-namespace", ds, false
				case 14:
					d["foo"] = "bar"
					return "delta-unknown-field", ds, false
				default:
					return "delta-" + mutTupleMap(r, d["relation_tuple"].(map[string]any)), ds, false
				}
			})
	case "rest-syntax":
		q := &c13Req{Kind: "rest", Router: "syntax", Route: "POST " + schema.RouteBase, Method: "POST", readOnly: true, shape: shapeSyntax, hasBody: true}
		path := schema.RouteBase
		valid := (&renderStyle{}).render(c13Cfg())
		bodies := []kv{
			{"none", valid}, {"none", "class X implements Namespace {}"}, {"body-empty", ""}, {"opl-garbage", "class class class {{{"},
			{"opl-type-error", "class A implements Namespace { related: { r: B[] } }"}, {"opl-truncated", valid[:len(valid)/2]},
			{"opl-binary", "\x00\x01\x02\xff\xfe"}, {"opl-huge", strings.Repeat("class A implements Namespace {}\n", hugeBody/32)},
			{"opl-json", `{"namespace":"Doc"}`}, {"opl-deep-parens", "class A implements Namespace { permits = { p: (ctx) => " + strings.Repeat("(", 5000) + "} }"},
			{"opl-many-errors", strings.Repeat("} ", 2000)}, {"opl-unterminated-string", `class A implements Namespace { related: { "r`},
			{"opl-unterminated-comment", "/* class A"}, {"opl-unicode", "class Группа implements Namespace {}"},
		}
		x := bodies[r.IntN(len(bodies))]
		q.Mut, q.body = x.K, x.V
		q.baseMethod, q.baseTarget, q.baseBody = "POST", path, valid
		if r.IntN(8) == 0 {
			q.Mut, q.envelope = restEnvelope(r, q, &path), true
		}
		q.target = path
		return q
	}
	panic("unknown family " + fam)
}

func tupMap(ns, obj, rel, sid string) map[string]any {
	return map[string]any{"namespace": ns, "object": obj, "relation": rel, "subject_id": sid}
}

// ---------------------------------------------------------------------------
// gRPC request families

// mutProtoTuple applies one mutation to a proto relationship; returns its name.
func mutProtoTuple(r *rand.Rand, t *rts.RelationTuple) string {
	type mm struct {
		name string
		f    func()
	}
	var ms []mm
	add := func(name string, f func()) { ms = append(ms, mm{name, f}) }
	add("nil-subject", func() { t.Subject = nil })
	add("nil-subject", func() { t.Subject = nil }) // twice: the documented "absent optional sub-message"
	add("empty-oneof", func() { t.Subject = &rts.Subject{} })
	add("empty-subject-set", func() { t.Subject = &rts.Subject{Ref: &rts.Subject_Set{Set: &rts.SubjectSet{}}} })
	add("nil-subject-set", func() { t.Subject = &rts.Subject{Ref: &rts.Subject_Set{}} })
	add("empty-subject-id", func() { t.Subject = rts.NewSubjectID("") })
	add("huge-subject-id", func() { t.Subject = rts.NewSubjectID(hugeString(hugeBody)) })
	add("adv-subject-id", func() { t.Subject = rts.NewSubjectID(c13Adv(r)) })
	add("unknown-subject-set-namespace", func() { t.Subject = rts.NewSubjectSet("Nope", "g0", "members") })
	add("unknown-namespace", func() { t.Namespace = pickS(r, []string{"Nope", "doc", "Doc ", "Группа"}) })
	for _, f := range []string{"namespace", "object", "relation"} {
		f := f
		set := func(v string) {
			switch f {
			case "namespace":
				t.Namespace = v
			case "object":
				t.Object = v
			default:
				t.Relation = v
			}
		}
		add("empty-"+f, func() { set("") })
		add("huge-"+f, func() { set(hugeString(hugeBody)) })
		add("adv-"+f, func() { set(c13Adv(r)) })
	}
	add("empty-tuple", func() { t.Namespace, t.Object, t.Relation, t.Subject = "", "", "", nil })
	x := ms[r.IntN(len(ms))]
	x.f()
	return x.name
}

var depthVariants32 = []struct {
	name string
	v    int32
}{{"max-depth-negative", -3}, {"max-depth-negative", -1}, {"max-depth-maxint", 2147483647}, {"max-depth-negative", -2147483648}, {"max-depth-maxint", 100000}}

func protoQuery(r *rand.Rand, bt c13Tuple) *rts.RelationQuery {
	q := &rts.RelationQuery{Namespace: sp(bt.NS)}
	switch r.IntN(4) {
	case 0:
	case 1:
		q.Object = sp(bt.Obj)
	case 2:
		q.Object, q.Relation, q.Subject = sp(bt.Obj), sp(bt.Rel), bt.protoSubject()
	default:
		q.Relation = sp(bt.Rel)
	}
	return q
}

func mutProtoQuery(r *rand.Rand, q *rts.RelationQuery) string {
	type mm struct {
		name string
		f    func()
	}
	var ms []mm
	add := func(name string, f func()) { ms = append(ms, mm{name, f}) }
	add("query-all-nil", func() { q.Namespace, q.Object, q.Relation, q.Subject = nil, nil, nil, nil })
	add("unknown-namespace", func() { q.Namespace = sp("Nope") })
	add("empty-namespace", func() { q.Namespace = sp("") })
	add("nil-namespace", func() { q.Namespace = nil; q.Object = sp("d0") })
	add("huge-object", func() { q.Object = sp(hugeString(hugeBody)) })
	add("adv-object", func() { q.Object = sp(c13Adv(r)) })
	add("empty-object", func() { q.Object = sp("") })
	add("empty-relation", func() { q.Relation = sp("") })
	add("adv-relation", func() { q.Relation = sp(c13Adv(r)) })
	add("empty-oneof", func() { q.Subject = &rts.Subject{} })
	add("nil-subject-set", func() { q.Subject = &rts.Subject{Ref: &rts.Subject_Set{}} })
	add("empty-subject-set", func() { q.Subject = &rts.Subject{Ref: &rts.Subject_Set{Set: &rts.SubjectSet{}}} })
	add("unknown-subject-set-namespace", func() { q.Subject = rts.NewSubjectSet("Nope", "g0", "members") })
	add("empty-subject-id", func() { q.Subject = rts.NewSubjectID("") })
	add("huge-subject-id", func() { q.Subject = rts.NewSubjectID(hugeString(hugeBody)) })
	x := ms[r.IntN(len(ms))]
	x.f()
	return x.name
}

func genC13GRPC(r *rand.Rand, st *c13State, fam string) *c13Req {
	bt := baseTuple(r, st)
	q := &c13Req{Kind: "grpc", readOnly: true}
	switch fam {
	case "grpc-check":
		q.Route = "Check"
		req := &rts.CheckRequest{Tuple: bt.proto()}
		if r.IntN(3) == 0 {
			req.MaxDepth = int32(1 + r.IntN(6))
		}
		q.baseMsg = proto.Clone(req)
		switch k := r.IntN(12); k {
		case 0:
			q.Mut = "none"
		case 1:
			req = &rts.CheckRequest{Namespace: bt.NS, Object: bt.Obj, Relation: bt.Rel, Subject: bt.protoSubject()}
			q.Mut = "deprecated-flat-form"
		case 2:
			req = &rts.CheckRequest{}
			q.Mut = "empty-request"
		case 3:
			req = &rts.CheckRequest{Namespace: bt.NS, Object: bt.Obj, Relation: bt.Rel}
			q.Mut = "flat-form-nil-subject"
		case 4:
			d := depthVariants32[r.IntN(len(depthVariants32))]
			req.MaxDepth = d.v
			q.Mut = d.name
		case 5:
			req.Snaptoken = pickS(r, []string{"garbage", hugeString(1 << 16), "\x00"})
			req.Latest = true
			q.Mut = "snaptoken-garbage"
		case 6:
			req.Namespace, req.Object, req.Relation, req.Subject = "Nope", "x", "y", rts.NewSubjectID("z")
			q.Mut = "both-forms"
		default:
			q.Mut = mutProtoTuple(r, req.Tuple)
		}
		q.msg = req
	case "grpc-batch":
		q.Route = "BatchCheck"
		req := &rts.BatchCheckRequest{}
		n := 1 + r.IntN(4)
		for i := 0; i < n; i++ {
			req.Tuples = append(req.Tuples, baseTuple(r, st).proto())
		}
		q.Fatal = true
		q.baseMsg = proto.Clone(req)
		switch k := r.IntN(12); k {
		case 0:
			q.Mut = "none"
		case 1:
			req.Tuples = nil
			q.Mut, q.Fatal = "tuples-empty", false
		case 2:
			for len(req.Tuples) < 11 {
				req.Tuples = append(req.Tuples, baseTuple(r, st).proto())
			}
			q.Mut, q.Fatal = "tuples-too-many", false
		case 3:
			d := depthVariants32[r.IntN(len(depthVariants32))]
			req.MaxDepth = d.v
			q.Mut = d.name
		case 4:
			req.Tuples[r.IntN(len(req.Tuples))] = nil // marshalled as an empty message
			q.Mut = "empty-tuple"
		case 5:
			req.Tuples = append(req.Tuples, req.Tuples[0], req.Tuples[0])
			q.Mut = "element-duplicate"
		default:
			q.Mut = mutProtoTuple(r, req.Tuples[r.IntN(len(req.Tuples))])
		}
		q.msg = req
	case "grpc-expand":
		q.Route = "Expand"
		req := &rts.ExpandRequest{Subject: rts.NewSubjectSet(bt.NS, bt.Obj, bt.Rel)}
		if r.IntN(3) == 0 {
			req.MaxDepth = int32(1 + r.IntN(6))
		}
		ms := []struct {
			name string
			f    func()
		}{
			{"none", func() {}},
			{"nil-subject", func() { req.Subject = nil }},
			{"nil-subject", func() { req.Subject = nil }},
			{"empty-oneof", func() { req.Subject = &rts.Subject{} }},
			{"nil-subject-set", func() { req.Subject = &rts.Subject{Ref: &rts.Subject_Set{}} }},
			{"empty-subject-set", func() { req.Subject = &rts.Subject{Ref: &rts.Subject_Set{Set: &rts.SubjectSet{}}} }},
			{"subject-id", func() { req.Subject = rts.NewSubjectID("u0") }},
			{"empty-subject-id", func() { req.Subject = rts.NewSubjectID("") }},
			{"huge-subject-id", func() { req.Subject = rts.NewSubjectID(hugeString(hugeBody)) }},
			{"unknown-namespace", func() { req.Subject = rts.NewSubjectSet("Nope", bt.Obj, bt.Rel) }},
			{"empty-namespace", func() { req.Subject = rts.NewSubjectSet("", bt.Obj, bt.Rel) }},
			{"empty-object", func() { req.Subject = rts.NewSubjectSet(bt.NS, "", bt.Rel) }},
			{"empty-relation", func() { req.Subject = rts.NewSubjectSet(bt.NS, bt.Obj, "") }},
			{"unknown-object", func() { req.Subject = rts.NewSubjectSet(bt.NS, "nothing-here", bt.Rel) }},
			{"unknown-relation", func() { req.Subject = rts.NewSubjectSet(bt.NS, bt.Obj, "nope") }},
			{"huge-object", func() { req.Subject = rts.NewSubjectSet(bt.NS, hugeString(hugeBody), bt.Rel) }},
			{"adv-object", func() { req.Subject = rts.NewSubjectSet(bt.NS, c13Adv(r), bt.Rel) }},
			{"adv-relation", func() { req.Subject = rts.NewSubjectSet(bt.NS, bt.Obj, c13Adv(r)) }},
			{"max-depth-negative", func() { req.MaxDepth = -3 }},
			{"max-depth-maxint", func() { req.MaxDepth = 2147483647 }},
			{"max-depth-negative", func() { req.MaxDepth = -2147483648 }},
			{"snaptoken-garbage", func() { req.Snaptoken = "garbage" }},
		}
		q.baseMsg = proto.Clone(req)
		x := ms[r.IntN(len(ms))]
		x.f()
		q.Mut = x.name
		q.msg = req
	case "grpc-list":
		q.Route = "ListRelationTuples"
		req := &rts.ListRelationTuplesRequest{RelationQuery: protoQuery(r, bt)}
		if r.IntN(2) == 0 {
			req.PageSize = int32(1 + r.IntN(4))
		}
		ms := []struct {
			name string
			f    func()
		}{
			{"none", func() {}},
			{"deprecated-query-form", func() {
				req.RelationQuery = nil
				req.Query = &rts.ListRelationTuplesRequest_Query{Namespace: bt.NS, Object: bt.Obj} //nolint:staticcheck
			}},
			{"deprecated-query-empty", func() { req.RelationQuery = nil; req.Query = &rts.ListRelationTuplesRequest_Query{} }}, //nolint:staticcheck
			{"deprecated-query-empty-oneof", func() {
				req.RelationQuery = nil
				req.Query = &rts.ListRelationTuplesRequest_Query{Namespace: bt.NS, Subject: &rts.Subject{}} //nolint:staticcheck
			}},
			{"no-query", func() { req.RelationQuery = nil }},
			{"both-query-forms", func() { req.Query = &rts.ListRelationTuplesRequest_Query{Namespace: "Nope"} }}, //nolint:staticcheck
			{"empty-relation-query", func() { req.RelationQuery = &rts.RelationQuery{} }},
			{"page_size-negative", func() { req.PageSize = -3 }},
			{"page_size-negative", func() { req.PageSize = -1 }},
			{"page_size-negative", func() { req.PageSize = -2147483648 }},
			{"page_size-maxint", func() { req.PageSize = 2147483647 }},
			{"malformed-page-token", func() {
				req.PageToken = pickS(r, []string{"garbage", "123", "' OR 1=1 --", "\x00", "00000000-0000-0000-0000-00000000000"})
			}},
			{"malformed-page-token", func() { req.PageToken = hugeString(hugeBody) }},
			{"wellformed-unknown-page-token", func() {
				req.PageToken = pickS(r, []string{"6ba7b810-9dad-11d1-80b4-00c04fd430c8", "00000000-0000-0000-0000-000000000000", "{6ba7b810-9dad-11d1-80b4-00c04fd430c8}", "FFFFFFFF-FFFF-FFFF-FFFF-FFFFFFFFFFFF"})
			}},
			{"expand-mask-junk", func() {
				req.ExpandMask = &fieldmaskpb.FieldMask{Paths: []string{"", "a.b.c", "\x00", hugeString(1 << 16)}}
			}},
			{"snaptoken-garbage", func() { req.Snaptoken = "garbage" }},
		}
		q.baseMsg = proto.Clone(req)
		k := r.IntN(len(ms) + 8)
		if k < len(ms) {
			ms[k].f()
			q.Mut = ms[k].name
		} else {
			q.Mut = mutProtoQuery(r, req.RelationQuery)
		}
		q.msg = req
	case "grpc-namespaces":
		q.Route, q.Mut, q.msg = "ListNamespaces", "none", &rts.ListNamespacesRequest{}
	case "grpc-transact":
		q.Route, q.readOnly = "TransactRelationTuples", false
		req := &rts.TransactRelationTuplesRequest{}
		n := 1 + r.IntN(3)
		for i := 0; i < n; i++ {
			nt := baseTuple(r, st)
			act := rts.RelationTupleDelta_ACTION_INSERT
			if r.IntN(3) == 0 {
				act = rts.RelationTupleDelta_ACTION_DELETE
			} else if r.IntN(2) == 0 {
				nt.Obj = fmt.Sprintf("gnew%d", r.IntN(5))
			}
			req.RelationTupleDeltas = append(req.RelationTupleDeltas, &rts.RelationTupleDelta{Action: act, RelationTuple: nt.proto()})
		}
		q.baseMsg = proto.Clone(req)
		i := r.IntN(len(req.RelationTupleDeltas))
		d := req.RelationTupleDeltas[i]
		switch k := r.IntN(14); k {
		case 0:
			q.Mut = "none"
		case 1:
			req.RelationTupleDeltas = nil
			q.Mut = "deltas-empty"
		case 2:
			req.RelationTupleDeltas[i] = nil
			q.Mut = "delta-nil"
		case 3:
			d.RelationTuple = nil
			q.Mut = "delta-nil-relation-tuple"
		case 4:
			d.Action = rts.RelationTupleDelta_ACTION_UNSPECIFIED
			q.Mut = "delta-action-unspecified"
		case 5:
			d.Action = rts.RelationTupleDelta_Action(pickAny(r, 7, -1, 2147483647).(int))
			q.Mut = "delta-action-out-of-range"
		case 6:
			req.RelationTupleDeltas = append(req.RelationTupleDeltas, &rts.RelationTupleDelta{Action: rts.RelationTupleDelta_ACTION_DELETE, RelationTuple: d.RelationTuple})
			q.Mut = "delta-insert-and-delete-same"
		case 7:
			req.RelationTupleDeltas = append([]*rts.RelationTupleDelta{{Action: rts.RelationTupleDelta_ACTION_INSERT, RelationTuple: c13Tuple{NS: "Doc", Obj: "gatomic", Rel: "owners", SID: sp("u0")}.proto()}}, req.RelationTupleDeltas...)
			req.RelationTupleDeltas = append(req.RelationTupleDeltas, &rts.RelationTupleDelta{Action: rts.RelationTupleDelta_ACTION_INSERT, RelationTuple: c13Tuple{NS: "Nope", Obj: "x", Rel: "y", SID: sp("u0")}.proto()})
			q.Mut = "delta-valid-then-unknown-namespace"
		default:
			q.Mut = "delta-" + mutProtoTuple(r, d.RelationTuple)
		}
		q.msg = req
	case "grpc-delete":
		q.Route, q.readOnly = "DeleteRelationTuples", false
		req := &rts.DeleteRelationTuplesRequest{RelationQuery: protoQuery(r, bt)}
		ms := []struct {
			name string
			f    func()
		}{
			{"none", func() {}},
			{"deprecated-query-form", func() {
				req.RelationQuery = nil
				req.Query = &rts.DeleteRelationTuplesRequest_Query{Namespace: bt.NS, Object: bt.Obj, Relation: bt.Rel} //nolint:staticcheck
			}},
			{"deprecated-query-empty-oneof", func() {
				req.RelationQuery = nil
				req.Query = &rts.DeleteRelationTuplesRequest_Query{Namespace: bt.NS, Object: "nothing", Subject: &rts.Subject{}} //nolint:staticcheck
			}},
			{"no-query", func() { req.RelationQuery = nil }},
		}
		q.baseMsg = proto.Clone(req)
		k := r.IntN(len(ms) + 6)
		if k < len(ms) {
			ms[k].f()
			q.Mut = ms[k].name
		} else {
			q.Mut = mutProtoQuery(r, req.RelationQuery)
			if q.Mut == "query-all-nil" || q.Mut == "nil-namespace" {
				// would (legitimately) delete everything / a whole object: keep some state for later requests
				req.RelationQuery.Object = sp("nothing-here")
			}
		}
		q.msg = req
	case "grpc-syntax":
		q.Route = "Syntax.Check"
		bodies := []kv{
			{"none", (&renderStyle{}).render(c13Cfg())}, {"content-empty", ""}, {"opl-garbage", "class class {{{"},
			{"opl-binary", "\x00\x01\xff\xfe"}, {"opl-huge", strings.Repeat("class A implements Namespace {}\n", hugeBody/32)},
			{"opl-many-errors", strings.Repeat("} ", 2000)}, {"opl-deep-parens", "class A implements Namespace { permits = { p: (ctx) => " + strings.Repeat("(", 5000) + "} }"},
			// `content` is a bytes field: string literals with bytes that are not UTF-8,
			// in positions that end up inside error messages
			{"opl-non-utf8-literal-unexpected", "class A implements Namespace { related: \"\xff\xfe\" }"},
			{"opl-non-utf8-literal-undeclared-type", "class A implements Namespace { related: { r: \"N\xc3\x28\"[] } }"},
			{"opl-non-utf8-literal-undeclared-relation", "class A implements Namespace { related: { r: A[] } permits = { p: (ctx) => this.related[\"\xe2\x82\"].includes(ctx.subject) } }"},
			{"opl-non-utf8-literal-subjectset", "class A implements Namespace { related: { r: SubjectSet<A, \"m\xf0\x28\x8c\x28\">[] } }"},
			{"opl-non-utf8-unterminated-string", "class A implements Namespace { related: { \"r\xff"},
			{"opl-non-utf8-identifier", "class A\xff implements Namespace {}"},
		}
		x := bodies[r.IntN(len(bodies))]
		q.Mut = x.K
		req := &opl.CheckRequest{Content: []byte(x.V)}
		if x.K == "content-empty" && r.IntN(2) == 0 {
			req.Content = nil
		}
		q.msg = req
	default:
		panic("unknown family " + fam)
	}
	return q
}

var c13Families = []struct {
	name string
	w    int
}{
	{"rest-list", 8}, {"rest-check-get", 8}, {"rest-check-post", 8}, {"rest-batch", 9}, {"rest-expand", 6}, {"rest-namespaces", 2},
	{"rest-put", 8}, {"rest-delete", 6}, {"rest-patch", 9}, {"rest-syntax", 4}, {"rest-misc", 3},
	{"grpc-check", 6}, {"grpc-batch", 7}, {"grpc-expand", 6}, {"grpc-list", 7}, {"grpc-namespaces", 1}, {"grpc-transact", 7}, {"grpc-delete", 4}, {"grpc-syntax", 3},
}

func genC13Req(r *rand.Rand, st *c13State) *c13Req {
	tot := 0
	for _, f := range c13Families {
		tot += f.w
	}
	k := r.IntN(tot)
	fam := ""
	for _, f := range c13Families {
		if k < f.w {
			fam = f.name
			break
		}
		k -= f.w
	}
	var q *c13Req
	if strings.HasPrefix(fam, "rest-") {
		q = genC13REST(r, st, fam)
	} else {
		q = genC13GRPC(r, st, fam)
	}
	return q.finish()
}

// ---------------------------------------------------------------------------
// execution

// c13HTTP drives a router the way net/http's server would: the request is
// parsed by http.ReadRequest from its wire form (so Body is never nil, the
// target is validated, Content-Length is set). rejected != "" means net/http
// itself refuses the request before any handler runs.
func c13HTTP(h http.Handler, method, target, body string, hasBody bool, timeout time.Duration) (status int, respBody string, panicText string, rejected string) {
	var sb strings.Builder
	sb.Grow(len(target) + len(body) + 128)
	sb.WriteString(method)
	sb.WriteString(" ")
	sb.WriteString(target)
	sb.WriteString(" HTTP/1.1\r\nHost: keto.test\r\n")
	if hasBody || body != "" {
		fmt.Fprintf(&sb, "Content-Type: application/json\r\nContent-Length: %d\r\n", len(body))
	}
	sb.WriteString("\r\n")
	sb.WriteString(body)
	req, err := http.ReadRequest(bufio.NewReaderSize(strings.NewReader(sb.String()), 1<<16))
	if err != nil {
		return 0, "", "", err.Error()
	}
	if strings.ContainsAny(target, " \r\n") {
		return 0, "", "", "whitespace in request target"
	}
	ctx, cancel := context.WithTimeout(context.Background(), timeout)
	defer cancel()
	req = req.WithContext(ctx)
	req.RemoteAddr = "192.0.2.1:1234"
	rec := httptest.NewRecorder()
	panicText = guard(func() { h.ServeHTTP(rec, req) })
	if panicText != "" {
		return 0, "", panicText, ""
	}
	return rec.Code, rec.Body.String(), "", ""
}

type c13Exec struct {
	run   *runner
	env   *Env
	g     *grpcClients
	read  http.Handler
	write http.Handler
	synt  http.Handler
	// directly callable handlers (panic attribution)
	hCheck  rts.CheckServiceServer
	hExpand rts.ExpandServiceServer
	hRead   rts.ReadServiceServer
	hWrite  rts.WriteServiceServer
	hNS     rts.NamespacesServiceServer
	hSyntax opl.SyntaxServiceServer
	dump    []string
	sigSeen map[string]int
}

// one refuting observation
type c13Viol struct {
	class   string // http-panic, http-5xx, bad-2xx-body, grpc-internal, grpc-unknown, grpc-handler-panic, bad-grpc-response, state-changed
	disc    string // discriminator derived from the observation itself ("" = the request's mutation)
	summary string
	detail  any
}

type c13Obs struct {
	answer     string // 2xx / 4xx / panic / gRPC code
	failed     bool   // answered with an error
	dispatched bool   // reached a keto handler
	rejected   bool   // refused by net/http itself
	viols      []c13Viol
}

func isLockErr(s string) bool {
	return strings.Contains(s, "database is locked") || strings.Contains(s, "table is locked") || strings.Contains(s, "Unable to serialize access")
}

func shapeSlug(problem string) string {
	switch {
	case strings.Contains(problem, "error object"):
		return "error-object-under-2xx"
	case strings.Contains(problem, "not JSON"):
		return "not-json"
	case strings.Contains(problem, "204 with a body"):
		return "body-under-204"
	}
	return "schema-mismatch"
}

// roundTrip returns the message as a server would receive it from the wire.
func roundTrip(m proto.Message) (proto.Message, error) {
	b, err := proto.Marshal(m)
	if err != nil {
		return nil, err
	}
	out := m.ProtoReflect().New().Interface()
	if err := proto.Unmarshal(b, out); err != nil {
		return nil, err
	}
	return out, nil
}

func (x *c13Exec) grpcCall(ctx context.Context, q *c13Req, direct bool) (proto.Message, error) {
	m := q.msg
	if direct {
		var err error
		if m, err = roundTrip(q.msg); err != nil {
			return nil, status.Error(codes.Aborted, "harness: "+err.Error())
		}
	}
	switch req := m.(type) {
	case *rts.CheckRequest:
		if direct {
			return x.hCheck.Check(ctx, req)
		}
		return x.g.Check.Check(ctx, req)
	case *rts.BatchCheckRequest:
		if direct {
			return x.hCheck.BatchCheck(ctx, req)
		}
		return x.g.Check.BatchCheck(ctx, req)
	case *rts.ExpandRequest:
		if direct {
			return x.hExpand.Expand(ctx, req)
		}
		return x.g.Expand.Expand(ctx, req)
	case *rts.ListRelationTuplesRequest:
		if direct {
			return x.hRead.ListRelationTuples(ctx, req)
		}
		return x.g.Read.ListRelationTuples(ctx, req)
	case *rts.ListNamespacesRequest:
		if direct {
			return x.hNS.ListNamespaces(ctx, req)
		}
		return x.g.Namespaces.ListNamespaces(ctx, req)
	case *rts.TransactRelationTuplesRequest:
		if direct {
			return x.hWrite.TransactRelationTuples(ctx, req)
		}
		return x.g.Write.TransactRelationTuples(ctx, req)
	case *rts.DeleteRelationTuplesRequest:
		if direct {
			return x.hWrite.DeleteRelationTuples(ctx, req)
		}
		return x.g.Write.DeleteRelationTuples(ctx, req)
	case *opl.CheckRequest:
		if direct {
			return x.hSyntax.Check(ctx, req)
		}
		return x.g.Syntax.Check(ctx, req)
	}
	return nil, status.Error(codes.Aborted, "harness: unknown message type")
}

func grpcShape(q *c13Req, resp proto.Message) string {
	switch req := q.msg.(type) {
	case *rts.BatchCheckRequest:
		if r, ok := resp.(*rts.BatchCheckResponse); ok && len(r.Results) != len(req.Tuples) {
			return fmt.Sprintf("%d results for %d tuples", len(r.Results), len(req.Tuples))
		}
	case *rts.ListRelationTuplesRequest:
		if r, ok := resp.(*rts.ListRelationTuplesResponse); ok {
			for _, t := range r.RelationTuples {
				if t == nil || t.Subject == nil || t.Subject.Ref == nil {
					return "listed relationship without subject"
				}
			}
		}
	case *rts.TransactRelationTuplesRequest:
		if r, ok := resp.(*rts.TransactRelationTuplesResponse); ok {
			ins := 0
			for _, d := range req.RelationTupleDeltas {
				if d != nil && d.Action == rts.RelationTupleDelta_ACTION_INSERT {
					ins++
				}
			}
			if len(r.Snaptokens) != ins {
				return fmt.Sprintf("%d snaptokens for %d inserts", len(r.Snaptokens), ins)
			}
		}
	}
	return ""
}

// observe sends one request and classifies the answer (no state check).
func (x *c13Exec) observe(q *c13Req, count bool) c13Obs {
	run := x.run
	o := c13Obs{dispatched: true}
	cnt := func(k string) {
		if count {
			run.count(k, 1)
		}
	}
	cnt("requests_" + q.Kind)
	if q.Kind == "rest" {
		h := x.read
		switch q.Router {
		case "write":
			h = x.write
		case "syntax":
			h = x.synt
		}
		st, body, pt, rejected := c13HTTP(h, q.Method, q.target, q.body, q.hasBody, 30*time.Second)
		switch {
		case rejected != "":
			cnt("rejected_by_net_http")
			o.rejected, o.dispatched, o.answer = true, false, "rejected"
		case pt != "":
			o.answer, o.failed = "panic", true
			o.viols = append(o.viols, c13Viol{class: "http-panic",
				summary: fmt.Sprintf("%s %s (mutation %s): panic out of ServeHTTP: %s; frames: %s", q.Method, q.Target, q.Mut, strings.SplitN(pt, "\n", 2)[0], topFrames(pt, 4)),
				detail:  map[string]any{"panic": pt[:minInt(len(pt), 3000)], "frames": topFrames(pt, 5)}})
		default:
			o.answer = fmt.Sprintf("%dxx", st/100)
			cnt("http_" + o.answer)
			if st == 404 || st == 405 || st/100 == 3 {
				// answered by httprouter itself (no keto handler matched) unless the body is a keto error object
				if !strings.Contains(body, `"error"`) {
					o.dispatched = false
				}
			}
			if q.Method == "OPTIONS" || q.envelope {
				// httprouter answers OPTIONS itself; for path/method-level mutations the
				// documented route (and so its response schema) no longer applies
				if q.Method == "OPTIONS" {
					o.dispatched = false
				}
			}
			o.failed = st >= 400
			if st >= 500 {
				if isLockErr(body) {
					cnt("storage_lock_error_skipped")
					break
				}
				o.viols = append(o.viols, c13Viol{class: "http-5xx",
					summary: fmt.Sprintf("%s %s (mutation %s) answered HTTP %d with no storage fault injected: %s", q.Method, q.Target, q.Mut, st, abbrev(body)),
					detail:  map[string]any{"status": st, "body": abbrev(body)}})
			}
			if st >= 200 && st < 300 && q.shape != nil && o.dispatched && !q.envelope {
				cnt("shape_checks")
				if e := q.shape(st, body); e != "" {
					o.viols = append(o.viols, c13Viol{class: "bad-2xx-body", disc: shapeSlug(e),
						summary: fmt.Sprintf("%s %s (mutation %s) answered HTTP %d with a body that is not the documented shape: %s; body: %s", q.Method, q.Target, q.Mut, st, e, abbrev(body)),
						detail:  map[string]any{"status": st, "body": abbrev(body), "problem": e}})
				}
			}
		}
		return o
	}
	ctx, cancel := context.WithTimeout(context.Background(), 30*time.Second)
	resp, err := x.grpcCall(ctx, q, false)
	cancel()
	code := status.Code(err)
	o.answer = code.String()
	cnt("grpc_" + o.answer)
	o.failed = err != nil
	switch code {
	case codes.Internal, codes.Unknown:
		if isLockErr(err.Error()) {
			cnt("storage_lock_error_skipped")
			break
		}
		cl := "grpc-internal"
		if code == codes.Unknown {
			cl = "grpc-unknown"
		}
		o.viols = append(o.viols, c13Viol{class: cl,
			summary: fmt.Sprintf("gRPC %s(%s) (mutation %s) answered %s with no storage fault injected: %s", q.Route, q.Msg, q.Mut, code, abbrev(err.Error())),
			detail:  map[string]any{"code": code.String(), "message": abbrev(err.Error())}})
	case codes.DeadlineExceeded, codes.Canceled, codes.Unavailable, codes.Aborted:
		run.inconclusive(fmt.Sprintf("gRPC %s: %v", q.Route, err))
		x.env.dirty = true
	case codes.OK:
		if e := grpcShape(q, resp); e != "" {
			o.viols = append(o.viols, c13Viol{class: "bad-grpc-response", summary: fmt.Sprintf("gRPC %s (mutation %s): %s", q.Route, q.Mut, e)})
		}
	}
	// second exercise: the handler method called directly with the message as
	// decoded from the wire; a panic propagates to us (attribution). Write
	// methods are only re-run when the server answered Internal (a recovered
	// panic), otherwise a successful write would be applied twice.
	if q.readOnly || code == codes.Internal {
		var derr error
		pt := guard(func() {
			dctx, dcancel := context.WithTimeout(context.Background(), 30*time.Second)
			defer dcancel()
			_, derr = x.grpcCall(dctx, q, true)
		})
		cnt("grpc_direct_calls")
		if pt != "" {
			o.viols = append(o.viols, c13Viol{class: "grpc-handler-panic",
				summary: fmt.Sprintf("gRPC handler %s called directly with %s (mutation %s) panicked: %s; frames: %s", q.Route, q.Msg, q.Mut, strings.SplitN(pt, "\n", 2)[0], topFrames(pt, 4)),
				detail:  map[string]any{"panic": pt[:minInt(len(pt), 3000)], "frames": topFrames(pt, 5)}})
		} else if (derr == nil) != (err == nil) && code != codes.ResourceExhausted {
			cnt("direct_vs_server_disagree")
		}
	}
	return o
}

// stateCheck compares the full dump with the last known state.
func (x *c13Exec) stateCheck(q *c13Req, o *c13Obs, count bool) {
	d, err := x.env.Dump()
	if err != nil {
		x.run.inconclusive(fmt.Sprintf("dump: %v", err))
		return
	}
	if count {
		x.run.count("state_checks", 1)
	}
	if diff := diffDumps(x.dump, d); diff != "" {
		if q.readOnly || o.failed {
			why := "a read/syntax request"
			if !q.readOnly {
				why = "a write request that was answered with an error"
			}
			o.viols = append(o.viols, c13Viol{class: "state-changed",
				summary: fmt.Sprintf("%s %s (mutation %s, answer %s) is %s but the stored state changed: %s", q.Route, q.Target+q.Msg, q.Mut, o.answer, why, abbrev(diff)),
				detail:  map[string]any{"diff": abbrev(diff)}})
		} else if count {
			x.run.count("writes_applied", 1)
		}
		x.dump = d
	}
}

// exec sends one request, runs the oracle and reports. A violation is
// attributed to the request's mutation only if the un-mutated request it was
// derived from does not fail in the same way (then the mutation is "none").
func (x *c13Exec) exec(idx int64, sub string, q *c13Req) string {
	run := x.run
	o := x.observe(q, true)
	if o.rejected {
		return "rejected-by-net/http"
	}
	x.stateCheck(q, &o, true)
	run.eval(1)
	if o.dispatched {
		run.nontrivial(q.Route + "|" + q.Mut + "|" + o.answer)
		run.count("dispatched_to_handler", 1)
	}
	if q.Mut != "none" {
		run.count("mutated_requests", 1)
	}
	if len(o.viols) == 0 {
		return "ok"
	}
	var bo *c13Obs
	if q.Mut != "none" {
		if b := q.baseReq(); b != nil {
			t := x.observe(b, false)
			x.stateCheck(b, &t, false)
			bo = &t
			run.count("base_request_reruns", 1)
		}
	}
	for _, v := range o.viols {
		mut := q.Mut
		if bo != nil {
			for _, bv := range bo.viols {
				if bv.class == v.class && bv.disc == v.disc {
					mut = "none"
				}
			}
		}
		disc := v.disc
		if disc == "" {
			disc = mut
		}
		sig := fmt.Sprintf("C13:%s:%s:%s", v.class, q.Route, disc)
		x.sigSeen[sig]++
		if x.sigSeen[sig] > 2 {
			run.count("violations_repeated_not_listed", 1)
			continue
		}
		run.violate(violation{Index: idx, Sub: sub, Sig: sig, Summary: v.summary, Case: q, Detail: v.detail})
	}
	return "violation"
}

func c13Batches(p *runParams) (n int64, perBatch int) {
	if p.Mode == "fatal" {
		// fatal candidates: a bounded exploration, deliberately small per child
		return int64(p.pick(192, 384)), 48
	}
	return int64(p.pick(1200, 26000)), 48
}

func TestC13(t *testing.T) {
	run := newRunner(t, "C13")
	defer run.finish()
	p := run.p
	fatalMode := p.Mode == "fatal"
	nBatches, perBatch := c13Batches(p)
	cfg := c13Cfg()
	sigSeen := map[string]int{} // at most two witnesses per signature and shard

	for idx := int64(0); idx < nBatches; idx++ {
		if !p.mine(idx) {
			continue
		}
		st := genC13State(p.rng(idx, "state"))
		reqs := make([]*c13Req, perBatch)
		have := false
		for k := range reqs {
			reqs[k] = genC13Req(p.rng(idx, fmt.Sprintf("req-%d", k)), st)
			if reqs[k].Fatal == fatalMode {
				have = true
			}
		}
		if !have {
			continue
		}
		// every fifth batch serves the same namespaces from a legacy namespace
		// directory (one JSON/YAML file per namespace) that also contains a file
		// that never parsed: another namespace manager behind the same handlers
		opts := EnvOpts{Namespaces: cfg.toKeto()}
		if idx%5 == 2 && cfgIsOPLRenderable(cfg) {
			// every fifth batch: the same namespaces as an OPL document in strict mode
			// (another namespace manager, and the engine's strict-mode branches)
			text := (&renderStyle{FullParens: true}).render(cfg)
			if _, errs := parseOPL(text); len(errs) == 0 {
				opts = EnvOpts{OPL: text, Strict: true}
				run.count("batches_on_opl_strict_mode", 1)
			}
		}
		if idx%5 == 4 {
			dir, derr := os.MkdirTemp(scratchDir(), "c13ns")
			if derr == nil {
				for i, n := range cfg.NS {
					ext, content := ".json", fmt.Sprintf("{\"id\": %d, \"name\": %q}\n", i+1, n.Name)
					if i%2 == 1 {
						ext, content = ".yml", fmt.Sprintf("id: %d\nname: %s\n", i+1, n.Name)
					}
					_ = os.WriteFile(filepath.Join(dir, fmt.Sprintf("ns%d%s", i, ext)), []byte(content), 0o644)
				}
				_ = os.WriteFile(filepath.Join(dir, "broken.json"), []byte("{\"id\": 99, \"name\": "), 0o644)
				_ = os.WriteFile(filepath.Join(dir, "broken2.yaml"), []byte("name: [unclosed\n"), 0o644)
				opts = EnvOpts{NamespacesValue: "file://" + dir}
				defer os.RemoveAll(dir)
				run.count("batches_on_legacy_namespace_directory", 1)
			}
		}
		env, err := newEnv(t, opts)
		if err != nil {
			run.inconclusive(fmt.Sprintf("idx %d: env: %v", idx, err))
			continue
		}
		if err := env.Write(st.tuples...); err != nil {
			run.inconclusive(fmt.Sprintf("idx %d: seed tuples: %v", idx, err))
			env.Close()
			continue
		}
		g, err := newGRPC(env)
		if err != nil {
			run.inconclusive(fmt.Sprintf("idx %d: grpc: %v", idx, err))
			env.Close()
			continue
		}
		x := &c13Exec{run: run, env: env, g: g, sigSeen: sigSeen,
			read: env.Reg.ReadRouter(env.Ctx), write: env.Reg.WriteRouter(env.Ctx), synt: env.Reg.OPLSyntaxRouter(env.Ctx),
			hCheck: check.NewHandler(env.Reg), hExpand: expand.NewHandler(env.Reg), hRead: relationtuple.NewHandler(env.Reg), hWrite: relationtuple.NewHandler(env.Reg),
			hNS: namespacehandler.New(env.Reg), hSyntax: schema.NewHandler(env.Reg)}
		x.dump, err = env.Dump()
		if err != nil {
			run.inconclusive(fmt.Sprintf("idx %d: dump: %v", idx, err))
		} else {
			for k, q := range reqs {
				if q.Fatal != fatalMode {
					continue
				}
				sub := fmt.Sprintf("r%d", k)
				if p.ReplayIdx >= 0 && p.ReplaySub != "" {
					// replay: requests before the replayed one only to rebuild the state
					var rk int
					if _, err := fmt.Sscanf(p.ReplaySub, "r%d", &rk); err == nil && k > rk {
						break
					}
				}
				run.begin(idx, sub, q)
				v := x.exec(idx, sub, q)
				run.end(idx, sub, v)
				if k < 3 && idx < 40 {
					run.sample(map[string]any{"state": st.Tuples, "request": q, "verdict": v})
				}
			}
		}
		if fatalMode && len(st.tuples) > 0 {
			// clients that hang up: check requests abandoned after 20 us .. 3 ms. Nothing
			// is judged but survival: a goroutine that outlives its request must not
			// take the process down (the supervisor sees a death on this journalled case).
			run.begin(idx, "abandoned-checks", map[string]any{"requests": 24, "state": st.Tuples})
			ar := p.rng(idx, "abandon")
			for k := 0; k < 24; k++ {
				tq := st.tuples[ar.IntN(len(st.tuples))]
				d := time.Duration(20+ar.IntN(3000)) * time.Microsecond
				switch k % 3 {
				case 0:
					httpDoCtx(env.Ctx, d, x.read, "GET", "/relation-tuples/check?"+tq.ToURLQuery().Encode(), "", nil)
				case 1:
					b, _ := json.Marshal(map[string]any{"tuples": []*Tup{tq, tq}})
					httpDoCtx(env.Ctx, d, x.read, "POST", "/relation-tuples/batch/check", string(b), nil)
				default:
					cctx, cancel := context.WithTimeout(env.Ctx, d)
					_, _ = g.Check.Check(cctx, &rts.CheckRequest{Tuple: tq.ToProto()})
					cancel()
				}
			}
			quiesce(2 * time.Second)
			run.eval(24)
			run.count("abandoned_check_requests", 24)
			run.end(idx, "abandoned-checks", "ok")
		}
		g.Close()
		env.Close()
	}
}
