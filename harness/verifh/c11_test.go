package verifh

import (
	"context"
	"encoding/base64"
	stderrors "errors"
	"fmt"
	"github.com/ory/keto/internal/driver/config"
	"math/rand/v2"
	"regexp"
	"sort"
	"strings"
	"testing"
	"time"
	"unicode/utf8"

	"github.com/ory/keto/internal/check"
	"github.com/ory/keto/internal/check/checkgroup"
	"github.com/ory/keto/internal/schema"
	"github.com/ory/keto/ketoapi"
)

// cfgTypeErrors applies the documented OPL type rules (spec, "Type checking")
// to a harness configuration, independently of keto's type checker:
//   - a type name must be a declared namespace;
//   - SubjectSet<T, R>: R must be a relation declared for T;
//   - this.related.R.includes / this.permits.R: R declared in the current namespace;
//   - this.related.R.traverse(x => x.related.S.includes | x.permits.S): R declared in
//     the current namespace and S declared for all types referenced by R, where a
//     SubjectSet<T, R'> type stands for the element types of T.R' (its TypeScript
//     definition in the spec: A["related"][R] extends Array<infer T> ? T : never).
//
// A nil result means "well typed".
func cfgTypeErrors(c *Cfg) []string {
	var errs []string
	for _, n := range c.NS {
		for _, rd := range n.Rels {
			for _, t := range rd.Types {
				tn := c.ns(t.NS)
				if tn == nil {
					errs = append(errs, n.Name+"."+rd.Name+": type "+t.NS+" is not declared")
					continue
				}
				if t.Rel != "" && tn.rel(t.Rel) == nil {
					errs = append(errs, n.Name+"."+rd.Name+": SubjectSet<"+t.NS+","+t.Rel+">: relation not declared")
				}
			}
			if rd.Rewrite != nil {
				exprTypeErrors(c, n, rd, rd.Rewrite, &errs)
			}
		}
	}
	return errs
}

// resolveTypes returns the namespaces an element of ns.rel can be, following
// SubjectSet types; ok=false when the resolution does not terminate within the
// depth keto documents (tupleToSubjectSetTypeCheckMaxDepth = 10) or hits an
// undeclared name.
func resolveTypes(c *Cfg, ns, rel string, depth int, out map[string]bool) bool {
	if depth < 0 {
		return false
	}
	n := c.ns(ns)
	if n == nil {
		return false
	}
	rd := n.rel(rel)
	if rd == nil {
		return false
	}
	for _, t := range rd.Types {
		if t.Rel == "" {
			out[t.NS] = true
		} else {
			// A traverse evaluates the computed relation on the subject set's OWN
			// namespace and object (that is what the engine looks up), and the
			// documented rule speaks of the element types of T.R: a well-typed
			// traverse needs the relation on both (keto checks both since the
			// F-C11-subjectset-traverse fix; before, only the element types).
			out[t.NS] = true
			if !resolveTypes(c, t.NS, t.Rel, depth-1, out) {
				return false
			}
		}
	}
	return true
}

func exprTypeErrors(c *Cfg, n *NSDef, self *RelDef, e *Expr, errs *[]string) {
	switch e.Op {
	case "csr":
		if n.rel(e.Rel) == nil {
			*errs = append(*errs, n.Name+"."+self.Name+": relation "+e.Rel+" is not declared in "+n.Name)
		}
	case "ttu":
		if n.rel(e.Rel) == nil {
			*errs = append(*errs, n.Name+"."+self.Name+": relation "+e.Rel+" is not declared in "+n.Name)
			return
		}
		ts := map[string]bool{}
		if !resolveTypes(c, n.Name, e.Rel, 10, ts) {
			*errs = append(*errs, n.Name+"."+self.Name+": types of "+e.Rel+" cannot be resolved")
			return
		}
		for t := range ts {
			tn := c.ns(t)
			if tn == nil || tn.rel(e.Comp) == nil {
				*errs = append(*errs, n.Name+"."+self.Name+": "+e.Comp+" is not declared for type "+t+" of "+e.Rel)
			}
		}
	default:
		for _, k := range e.Kids {
			exprTypeErrors(c, n, self, k, errs)
		}
	}
}

// ---------------------------------------------------------------------------
// C11 — a configuration that type-checks cannot fail at check time.
//
// Part A: well-typed programs (by the documented rules above) with emphasis on
// SubjectSet<T,R>-typed relations used as traverse targets are rendered and
// given to the real parser/type checker; tuples conforming to the declared
// types are written; every declared (namespace, relation) is checked for a few
// subjects in default and strict mode on the real engine. A result whose error
// is a schema error (relation does not exist / not implemented / any
// bad-request from the relation lookup) is a violation.
// Part B: one reference at a time is replaced by an undeclared name; Parse
// must report an error whose span covers the replaced token.

type c11Case struct {
	Variant string   `json:"variant"`
	Cfg     *Cfg     `json:"cfg"`
	Text    string   `json:"text"`
	Tuples  []string `json:"tuples"`
	tuples  []*Tup
	w       *world
}

// c11TTUCandidates: (relation, computed, viaPermits) triples that are well
// typed by the documented rules.
func c11TTUCandidates(c *Cfg, n *NSDef, self *RelDef) [][3]string {
	var out [][3]string
	for _, rd := range n.Rels {
		if rd.Rewrite != nil || len(rd.Types) == 0 {
			continue
		}
		ts := map[string]bool{}
		if !resolveTypes(c, n.Name, rd.Name, 10, ts) || len(ts) == 0 {
			continue
		}
		var names []string
		for t := range ts {
			names = append(names, t)
		}
		sort.Strings(names)
		// names declared (with the same kind) in every resolved type
		first := c.ns(names[0])
		for _, cand := range first.Rels {
			kind := cand.Rewrite != nil
			ok := true
			for _, t := range names[1:] {
				x := c.ns(t).rel(cand.Name)
				if x == nil || (x.Rewrite != nil) != kind {
					ok = false
				}
			}
			if ok {
				via := "related"
				if kind {
					via = "permits"
				}
				out = append(out, [3]string{rd.Name, cand.Name, via})
			}
		}
		// (recursion into the permission being defined is C15's subject, not generated here)
		_ = self
	}
	sort.Slice(out, func(i, j int) bool { return out[i][0]+"\x00"+out[i][1] < out[j][0]+"\x00"+out[j][1] })
	return out
}

func usesSubjectSet(c *Cfg, n *NSDef, rel string) bool {
	rd := n.rel(rel)
	if rd == nil {
		return false
	}
	for _, t := range rd.Types {
		if t.Rel != "" {
			return true
		}
	}
	return false
}

func genC11Case(r *rand.Rand, idx int64) *c11Case {
	cc := &c11Case{}
	var cfg *Cfg
	switch idx % 4 {
	case 0:
		cc.Variant = "focus"
		// the shape of the design probe, names drawn at random:
		//   U { related: { f: U[] } }  G { related: { m: (U | ...)[] } }
		//   D { related: { ps: SubjectSet<G,"m">[] }  permits = { v: ps.traverse(p => p.related.f.includes) [op ...] } }
		perm := r.Perm(len(oplNSNames))
		rp := r.Perm(len(relNames))
		U, G, D := oplNSNames[perm[0]], oplNSNames[perm[1]], oplNSNames[perm[2]]
		f, m, ps, other := relNames[rp[0]], relNames[rp[1]], relNames[rp[2]], relNames[rp[3]]
		u := &NSDef{Name: U, Rels: []*RelDef{{Name: f, Types: []TypeRef{{NS: U}}}}}
		g := &NSDef{Name: G, Rels: []*RelDef{{Name: m, Types: []TypeRef{{NS: U}}}}}
		if r.IntN(2) == 0 {
			// G also declares the traversed name: then the engine finds it and no error is possible
			g.Rels = append(g.Rels, &RelDef{Name: f, Types: []TypeRef{{NS: U}}})
		}
		d := &NSDef{Name: D, Rels: []*RelDef{{Name: ps, Types: []TypeRef{{NS: G, Rel: m}}}, {Name: other, Types: []TypeRef{{NS: U}, {NS: G, Rel: m}}}}}
		if r.IntN(3) == 0 {
			d.Rels[0].Types = append(d.Rels[0].Types, TypeRef{NS: U})
		}
		e := &Expr{Op: "ttu", Rel: ps, Comp: f}
		var rw *Expr = e
		switch r.IntN(4) {
		case 0:
			rw = &Expr{Op: "or", Kids: []*Expr{{Op: "csr", Rel: other}, e}}
		case 1:
			rw = &Expr{Op: "and", Kids: []*Expr{e, {Op: "csr", Rel: other}}}
		case 2:
			rw = &Expr{Op: "not", Kids: []*Expr{e}}
		}
		d.Rels = append(d.Rels, &RelDef{Name: permNames[r.IntN(len(permNames))], Perm: true, Rewrite: rw})
		cfg = &Cfg{NS: []*NSDef{u, g, d}}
		r.Shuffle(len(cfg.NS), func(i, j int) { cfg.NS[i], cfg.NS[j] = cfg.NS[j], cfg.NS[i] })
	default:
		cc.Variant = "generated"
		o := genOpts{AllowAnd: true, AllowNot: r.IntN(2) == 0, MaxExprDepth: 1 + r.IntN(3)}
		cfg = genCfg(r, o)
		// replace leaves by well-typed traversals, preferring SubjectSet-typed relations
		for _, n := range cfg.NS {
			for _, rd := range n.Rels {
				if rd.Rewrite == nil {
					continue
				}
				cands := c11TTUCandidates(cfg, n, rd)
				if len(cands) == 0 {
					continue
				}
				var pref [][3]string
				for _, x := range cands {
					if usesSubjectSet(cfg, n, x[0]) {
						pref = append(pref, x)
					}
				}
				var walk func(e *Expr)
				walk = func(e *Expr) {
					for i, k := range e.Kids {
						if k.Op == "csr" && r.IntN(2) == 0 {
							pool := cands
							if len(pref) > 0 && r.IntN(3) > 0 {
								pool = pref
							}
							x := pool[r.IntN(len(pool))]
							e.Kids[i] = &Expr{Op: "ttu", Rel: x[0], Comp: x[1], ViaPermits: x[2] == "permits"}
						} else {
							walk(k)
						}
					}
				}
				if rd.Rewrite.Op == "csr" {
					if r.IntN(2) == 0 {
						x := cands[r.IntN(len(cands))]
						rd.Rewrite = &Expr{Op: "ttu", Rel: x[0], Comp: x[1], ViaPermits: x[2] == "permits"}
					}
				} else {
					walk(rd.Rewrite)
				}
			}
		}
	}
	// namespace names are case sensitive (two TypeScript classes `Group` and `group`
	// are different namespaces): a sixth of the documents has such a pair
	if idx%6 == 5 && len(cfg.NS) >= 2 {
		a, b := cfg.NS[r.IntN(len(cfg.NS))], cfg.NS[r.IntN(len(cfg.NS))]
		if a != b {
			nw := strings.ToLower(a.Name)
			if nw == a.Name {
				nw = strings.ToUpper(a.Name)
			}
			if nw != a.Name && cfg.ns(nw) == nil && isIdent(nw) {
				old := b.Name
				b.Name = nw
				for _, n := range cfg.NS {
					for _, rd := range n.Rels {
						for i := range rd.Types {
							if rd.Types[i].NS == old {
								rd.Types[i].NS = nw
							}
						}
					}
				}
				cc.Variant += "+case-twin"
			}
		}
	}
	cc.Cfg = cfg
	cc.Text = (&renderStyle{FullParens: true}).render(cfg)
	// conforming tuples, generated from the declared types
	w := genWorld(r, cfg, false)
	cc.w = w
	var ts []*Tup
	for _, n := range cfg.NS {
		for _, rd := range n.Rels {
			if rd.Rewrite != nil || len(rd.Types) == 0 {
				continue
			}
			for _, obj := range w.Objs[n.Name] {
				for _, t := range rd.Types {
					if r.IntN(10) < 6 {
						id, set := genSubjectFor(r, cfg, w, t)
						ts = append(ts, mkTup(n.Name, obj, rd.Name, id, set))
					}
				}
			}
		}
	}
	ts = append(ts, genTuples(r, cfg, w, 6+r.IntN(10), false)...)
	cc.tuples = ts
	cc.Tuples = tupStrings(ts)
	return cc
}

// conforms reports whether tuple t conforms to the declared types of its relation.
func conforms(c *Cfg, t *Tup) bool {
	n := c.ns(t.Namespace)
	if n == nil {
		return false
	}
	rd := n.rel(t.Relation)
	if rd == nil || rd.Rewrite != nil {
		return false
	}
	for _, ty := range rd.Types {
		switch {
		case t.SubjectSet != nil && t.SubjectSet.Namespace == ty.NS && t.SubjectSet.Relation == ty.Rel:
			return true
		case t.SubjectID != nil && ty.Rel == "":
			if tn := c.ns(ty.NS); tn != nil && len(tn.Rels) == 0 {
				return true
			}
		}
	}
	return false
}

type c11Decision struct {
	Allowed  bool
	Err      error
	Calls    int64
	TimedOut bool
}

func c11Check(env *Env, st *instrStore, eng *check.Engine, q *Tup, timeout time.Duration) c11Decision {
	ctx, cancel := context.WithTimeout(env.Ctx, timeout)
	defer cancel()
	its, err := env.Reg.ReadOnlyMapper().FromTuple(ctx, q)
	if err != nil {
		return c11Decision{Err: fmt.Errorf("map: %w", err)}
	}
	st.reset(nil)
	res := eng.CheckRelationTuple(ctx, its[0], 0)
	d := c11Decision{Calls: st.calls(), Err: res.Err, Allowed: res.Membership == checkgroup.IsMember}
	if ctx.Err() != nil {
		env.dirty = true
		d.TimedOut = true
	}
	return d
}

var reRelMissing = regexp.MustCompile(`relation "([^"]*)" does not exist`)

// schemaErrorClass: "" when err is not a schema error.
func schemaErrorClass(err error) (class, reason string) {
	if err == nil {
		return "", ""
	}
	var rs interface{ Reason() string }
	if stderrors.As(err, &rs) {
		reason = rs.Reason()
	}
	text := err.Error() + " " + reason
	var sc interface{ StatusCode() int }
	switch {
	case strings.Contains(text, "does not exist"):
		return "relation-does-not-exist", reason
	case strings.Contains(text, "not implemented"):
		return "not-implemented", reason
	case stderrors.As(err, &sc) && sc.StatusCode() == 400:
		return "bad-request", reason
	}
	return "", reason
}

// c11Explain names the configuration pattern behind a missing relation.
func c11Explain(c *Cfg, missing string) string {
	found := "unexplained"
	var walk func(n *NSDef, e *Expr)
	walk = func(n *NSDef, e *Expr) {
		if e.Op == "ttu" && e.Comp == missing {
			if rd := n.rel(e.Rel); rd != nil {
				for _, t := range rd.Types {
					if tn := c.ns(t.NS); t.Rel != "" && tn != nil && len(tn.Rels) > 0 && tn.rel(missing) == nil {
						found = "traverse-over-subjectset-typed-relation"
					}
				}
			}
		}
		for _, k := range e.Kids {
			walk(n, k)
		}
	}
	for _, n := range c.NS {
		for _, rd := range n.Rels {
			if rd.Rewrite != nil {
				walk(n, rd.Rewrite)
			}
		}
	}
	return found
}

// ---------------------------------------------------------------------------
// Part B: reference mutations

type refSite struct {
	Kind string                    `json:"kind"`
	NS   string                    `json:"ns"`
	Rel  string                    `json:"rel"`
	Pos  string                    `json:"pos"`
	set  func(c *Cfg, name string) // applies the mutation on a clone
	old  string
}

func exprAt(e *Expr, path []int) *Expr {
	for _, i := range path {
		e = e.Kids[i]
	}
	return e
}

func c11Sites(c *Cfg) []refSite {
	var out []refSite
	for ni, n := range c.NS {
		for ri, rd := range n.Rels {
			ni, ri := ni, ri
			for ti, t := range rd.Types {
				ti := ti
				if t.Rel == "" {
					out = append(out, refSite{Kind: "namespace-in-type", NS: n.Name, Rel: rd.Name, Pos: fmt.Sprint(ti), old: t.NS,
						set: func(c *Cfg, name string) { c.NS[ni].Rels[ri].Types[ti].NS = name }})
				} else {
					out = append(out, refSite{Kind: "namespace-in-subjectset", NS: n.Name, Rel: rd.Name, Pos: fmt.Sprint(ti), old: t.NS,
						set: func(c *Cfg, name string) { c.NS[ni].Rels[ri].Types[ti].NS = name }})
					out = append(out, refSite{Kind: "relation-in-subjectset", NS: n.Name, Rel: rd.Name, Pos: fmt.Sprint(ti), old: t.Rel,
						set: func(c *Cfg, name string) { c.NS[ni].Rels[ri].Types[ti].Rel = name }})
				}
			}
			if rd.Rewrite == nil {
				continue
			}
			var walk func(e *Expr, path []int)
			walk = func(e *Expr, path []int) {
				pth := append([]int(nil), path...)
				switch e.Op {
				case "csr":
					kind := "relation-in-includes"
					if e.ViaPermits {
						kind = "relation-in-permits"
					}
					out = append(out, refSite{Kind: kind, NS: n.Name, Rel: rd.Name, Pos: fmt.Sprint(pth), old: e.Rel,
						set: func(c *Cfg, name string) { exprAt(c.NS[ni].Rels[ri].Rewrite, pth).Rel = name }})
				case "ttu":
					out = append(out, refSite{Kind: "relation-in-traverse", NS: n.Name, Rel: rd.Name, Pos: fmt.Sprint(pth), old: e.Rel,
						set: func(c *Cfg, name string) { exprAt(c.NS[ni].Rels[ri].Rewrite, pth).Rel = name }})
					out = append(out, refSite{Kind: "computed-relation-in-traverse", NS: n.Name, Rel: rd.Name, Pos: fmt.Sprint(pth), old: e.Comp,
						set: func(c *Cfg, name string) { exprAt(c.NS[ni].Rels[ri].Rewrite, pth).Comp = name }})
				}
				for i, k := range e.Kids {
					walk(k, append(path, i))
				}
			}
			walk(rd.Rewrite, nil)
		}
	}
	return out
}

// runeOffsets maps keto's (line, column) to a rune offset: keto counts one
// column per rune and does not reset the column at the start of a line before
// the first rune of that line is consumed, so line start + column is the
// offset of the rune (see ParseError.toSrcPos).
type lineIndex struct{ starts []int }

func newLineIndex(s string) *lineIndex {
	li := &lineIndex{starts: []int{0}}
	n := 0
	for _, c := range s {
		n++
		if c == '\n' {
			li.starts = append(li.starts, n)
		}
	}
	return li
}

func (li *lineIndex) offset(p ketoapi.SourcePosition) int {
	if p.Line < 1 || p.Line > len(li.starts) {
		return -1
	}
	return li.starts[p.Line-1] + p.Col
}

type mutationResult struct {
	Errors  int
	Covered bool
	Spans   []string
	Token   [2]int
	Text    string
}

// c11Mutate renders the original and the mutated configuration with the same
// style, locates the replaced token by comparing the two texts, parses the
// mutated text and checks the error spans.
func c11Mutate(c *Cfg, site refSite, name string, mkStyle func() *renderStyle, prefix string) (mutationResult, bool) {
	orig := prefix + mkStyle().render(c)
	mc := cloneCfg(c)
	// cloneCfg drops nothing we need; rendering hints (ViaPermits) are copied by cloneExpr
	site.set(mc, name)
	mut := prefix + mkStyle().render(mc)
	// common prefix / suffix
	i := 0
	for i < len(orig) && i < len(mut) && orig[i] == mut[i] {
		i++
	}
	j := 0
	for j < len(orig)-i && j < len(mut)-i && orig[len(orig)-1-j] == mut[len(mut)-1-j] {
		j++
	}
	if i+len(name) > len(mut) || mut[i:i+len(name)] != name || len(mut)-j != i+len(name) {
		return mutationResult{}, false // the mutation changed more than one token: not a usable case
	}
	if _, oerrs := schema.Parse(orig); len(oerrs) > 0 {
		return mutationResult{}, false // P must be accepted in this spelling (rejected spellings are C10's subject)
	}
	res := mutationResult{Text: mut}
	ts := utf8.RuneCountInString(mut[:i])
	te := ts + utf8.RuneCountInString(name)
	res.Token = [2]int{ts, te}
	_, errs := schema.Parse(mut)
	res.Errors = len(errs)
	li := newLineIndex(mut)
	for k, e := range errs {
		api := e.ToAPI()
		s, en := li.offset(api.Start), li.offset(api.End)
		if k < 6 {
			res.Spans = append(res.Spans, fmt.Sprintf("%d:%d-%d:%d=[%d,%d) %s", api.Start.Line, api.Start.Col, api.End.Line, api.End.Col, s, en, clip(api.Message, 100)))
		}
		if s >= 0 && s <= ts && te <= en {
			res.Covered = true
		}
	}
	return res, true
}

func undeclaredName(c *Cfg, upper bool) string {
	for i := 0; ; i++ {
		name := fmt.Sprintf("zq%d", i)
		if upper {
			name = fmt.Sprintf("Zq%d", i)
		}
		clash := c.ns(name) != nil
		for _, n := range c.NS {
			if n.rel(name) != nil {
				clash = true
			}
		}
		if !clash {
			return name
		}
	}
}

// ---------------------------------------------------------------------------

func TestC11(t *testing.T) {
	run := newRunner(t, "C11")
	defer run.finish()
	p := run.p
	nCases := int64(p.pick(2000, 40000))
	shrunk := map[string]int{}
	lim := newSigLimiter()

	for idx := int64(0); idx < nCases; idx++ {
		if !p.mine(idx) {
			continue
		}
		r := p.rng(idx, "case")
		cc := genC11Case(r, idx)
		run.begin(idx, "", cc)
		verdict := "ok"
		if te := cfgTypeErrors(cc.Cfg); te != nil {
			if cc.Variant == "focus" {
				// The focus shape without the traversed name on the subject set's own
				// namespace: the engine cannot evaluate it ("relation does not exist"
				// at check time), so an accepted document of this shape is the
				// F-C11-subjectset-traverse defect. Judge it by running the checks
				// below when keto accepts it; a rejection is the required behaviour.
				if _, errs, _, _, pt := c12Parse(cc.Text, 20_000_000); pt == "" && len(errs) > 0 {
					run.eval(1)
					run.count("focus_engine_ill_typed_rejected", 1)
					run.nontrivial(fmt.Sprintf("%d/focus-rejected", idx))
					run.end(idx, "", "ok")
					continue
				}
				run.count("focus_engine_ill_typed_accepted", 1)
			} else {
				run.inconclusive(fmt.Sprintf("C11 idx %d: generator produced an ill-typed configuration: %v", idx, te))
				run.end(idx, "", "generator-error")
				continue
			}
		}
		for _, tp := range cc.tuples {
			if !conforms(cc.Cfg, tp) {
				run.inconclusive(fmt.Sprintf("C11 idx %d: generator produced a non-conforming tuple %s", idx, tp))
			}
		}
		if cc.Cfg.hasOp("ttu") {
			run.count("cases_with_traverse", 1)
		}
		// the real type checker, under C12's step budget (a runaway type check is C12's finding)
		_, errs, _, aborted, pt := c12Parse(cc.Text, 20_000_000)
		switch {
		case pt != "":
			lim.violate(run, violation{Index: idx, Sig: "C11:panic:parse:" + topFrames(pt, 3), Summary: "schema.Parse panicked on a well-typed program: " + firstLine(pt), Case: cc})
			run.end(idx, "", "violation")
			continue
		case aborted:
			run.count("skipped_typecheck_budget", 1)
			run.end(idx, "", "skipped")
			continue
		case len(errs) > 0:
			run.eval(1)
			m := errs[0].ToAPI().Message
			lim.violate(run, violation{Index: idx, Sig: "C11:welltyped-rejected:" + msgTemplate(m),
				Summary: fmt.Sprintf("a program that is well typed by the documented rules is rejected: %s", clip(m, 300)), Case: cc,
				Detail: map[string]any{"errors": len(errs), "first": clip(errs[0].Error(), 600)}})
			run.end(idx, "", "violation")
			continue
		}
		run.count("programs_accepted", 1)

		// Part A
		if v := runC11Checks(run, lim, idx, cc, shrunk); v != "ok" {
			verdict = v
		}
		// Part B
		if v := runC11Mutations(run, lim, idx, cc, p.rng(idx, "mut")); v != "ok" {
			verdict = v
		}
		if idx%200 == 3 {
			run.sample(map[string]any{"variant": cc.Variant, "text": cc.Text, "tuples": cc.Tuples})
		}
		run.end(idx, "", verdict)
	}
}

func c11Queries(r *rand.Rand, cc *c11Case) []*Tup {
	var qs []*Tup
	for _, n := range cc.Cfg.NS {
		for _, rd := range n.Rels {
			objs := cc.w.Objs[n.Name]
			for k := 0; k < 2 && k < len(objs); k++ {
				obj := objs[(k+int(r.IntN(len(objs))))%len(objs)]
				qs = append(qs, tupID(n.Name, obj, rd.Name, cc.w.Users[r.IntN(len(cc.w.Users))]))
				if len(cc.tuples) > 0 && r.IntN(2) == 0 {
					q := cloneTup(cc.tuples[r.IntN(len(cc.tuples))])
					q.Namespace, q.Object, q.Relation = n.Name, obj, rd.Name
					qs = append(qs, q)
				}
			}
		}
	}
	return qs
}

func runC11Checks(run *runner, lim *sigLimiter, idx int64, cc *c11Case, shrunk map[string]int) string {
	p := run.p
	verdict := "ok"
	qs := c11Queries(p.rng(idx, "queries"), cc)
	for _, strict := range []bool{false, true} {
		mode := "default"
		if strict {
			mode = "strict"
		}
		// every fifth case is delivered through an http:// location (same host and
		// path for all documents of the process, the document chosen by the query)
		viaHTTP := idx%5 == 3
		env, err := newEnv(run.t, EnvOpts{OPL: cc.Text, Strict: strict, MaxDepth: 5, MaxWidth: 1000, OPLViaHTTP: viaHTTP})
		if err != nil {
			run.inconclusive(fmt.Sprintf("C11 idx %d (%s): env: %v", idx, mode, err))
			continue
		}
		if viaHTTP {
			run.count("documents_loaded_from_an_http_location", 1)
		}
		if err := env.Write(cc.tuples...); err != nil {
			run.inconclusive(fmt.Sprintf("C11 idx %d (%s): write: %v", idx, mode, err))
			env.Close()
			continue
		}
		st, eng, _ := env.instrumented()
		seen := map[string]bool{}
		for qi, q := range qs {
			d := c11Check(env, st, eng, q, 3*time.Second)
			run.eval(1)
			run.count("checks", 1)
			if d.Calls >= 2 {
				run.nontrivial(fmt.Sprintf("%d/%s/%d", idx, mode, qi))
			}
			if d.TimedOut {
				run.count("check_timeouts_no_decision", 1)
				continue
			}
			if d.Err == nil {
				if d.Allowed {
					run.count("allowed", 1)
				} else {
					run.count("denied", 1)
				}
				continue
			}
			class, reason := schemaErrorClass(d.Err)
			if class == "" {
				run.count("other_errors", 1)
				continue
			}
			run.count("schema_errors", 1)
			why := "unexplained"
			if m := reRelMissing.FindStringSubmatch(reason + " " + d.Err.Error()); m != nil {
				why = c11Explain(cc.Cfg, m[1])
			}
			sig := "C11:schema-error-at-check:" + class + ":" + why
			if seen[sig] {
				continue // one report per (case, mode, signature)
			}
			seen[sig] = true
			detail := map[string]any{"mode": mode, "query": q.String(), "error": d.Err.Error(), "reason": reason}
			if shrunk[sig] < 2 {
				shrunk[sig]++
				mt := c11ShrinkTuples(env, st, eng, cc.tuples, q, class)
				detail["minimal_tuples"] = tupStrings(mt)
			}
			lim.violate(run, violation{Index: idx, Sub: fmt.Sprintf("%s/q%d", mode, qi), Sig: sig,
				Summary: fmt.Sprintf("accepted configuration + conforming tuples: check %s (%s mode) fails with a schema error: %s (%s)", q, mode, reason, d.Err.Error()),
				Case:    cc, Detail: detail})
			verdict = "violation"
		}
		// The same property on a LIVE server whose configuration is replaced by
		// another accepted document: the engine instance that already served
		// checks must evaluate the new document (same registry, same engine).
		if !strict && idx%2 == 0 {
			if v := runC11Reload(run, lim, idx, env, st, eng); v != "ok" {
				verdict = v
			}
		}
		env.Close()
	}
	return verdict
}

func runC11Reload(run *runner, lim *sigLimiter, idx int64, env *Env, st *instrStore, eng *check.Engine) string {
	p := run.p
	cc2 := genC11Case(p.rng(idx, "reload"), idx*4+1+int64(p.rng(idx, "reload-variant").IntN(3)))
	if cfgTypeErrors(cc2.Cfg) != nil {
		return "ok"
	}
	if _, errs, _, aborted, pt := c12Parse(cc2.Text, 20_000_000); pt != "" || aborted || len(errs) > 0 {
		return "ok"
	}
	if err := env.Reg.Config(env.Ctx).Set(config.KeyNamespaces, map[string]any{
		"location":                 "base64://" + base64.StdEncoding.EncodeToString([]byte(cc2.Text)),
		"experimental_strict_mode": false,
	}); err != nil {
		run.inconclusive(fmt.Sprintf("C11 idx %d reload: %v", idx, err))
		return "ok"
	}
	if err := env.wipe(); err != nil {
		return "ok"
	}
	if err := env.Write(cc2.tuples...); err != nil {
		run.inconclusive(fmt.Sprintf("C11 idx %d reload: write: %v", idx, err))
		return "ok"
	}
	verdict := "ok"
	seen := map[string]bool{}
	for qi, q := range c11Queries(p.rng(idx, "reload-queries"), cc2) {
		d := c11Check(env, st, eng, q, 3*time.Second)
		run.eval(1)
		run.count("checks_after_reload", 1)
		if d.TimedOut || d.Err == nil {
			continue
		}
		class, reason := schemaErrorClass(d.Err)
		if class == "" {
			continue
		}
		sig := "C11:schema-error-after-reload:" + class
		if seen[sig] {
			continue
		}
		seen[sig] = true
		lim.violate(run, violation{Index: idx, Sub: fmt.Sprintf("reload/q%d", qi), Sig: sig,
			Summary: fmt.Sprintf("after the namespace configuration of a live server was replaced by another accepted document, check %s on a relation the new document declares fails with a schema error: %s (%s)", q, reason, d.Err.Error()),
			Case:    cc2, Detail: map[string]any{"query": q.String(), "error": d.Err.Error()}})
		verdict = "violation"
	}
	return verdict
}

// c11ShrinkTuples greedily drops tuples while the query still fails with the same class.
func c11ShrinkTuples(env *Env, st *instrStore, eng *check.Engine, ts []*Tup, q *Tup, class string) []*Tup {
	cur := append([]*Tup(nil), ts...)
	still := func(cand []*Tup) bool {
		if env.wipe() != nil || env.Write(cand...) != nil {
			return false
		}
		d := c11Check(env, st, eng, q, 5*time.Second)
		c, _ := schemaErrorClass(d.Err)
		return c == class
	}
	budget := 80
	for i := 0; i < len(cur) && budget > 0; {
		cand := append(append([]*Tup(nil), cur[:i]...), cur[i+1:]...)
		budget--
		if still(cand) {
			cur = cand
		} else {
			i++
		}
	}
	_ = env.wipe()
	_ = env.Write(ts...)
	return cur
}

func runC11Mutations(run *runner, lim *sigLimiter, idx int64, cc *c11Case, r *rand.Rand) string {
	verdict := "ok"
	sites := c11Sites(cc.Cfg)
	r.Shuffle(len(sites), func(i, j int) { sites[i], sites[j] = sites[j], sites[i] })
	// every kind of site at least once, then up to 10
	var pick []refSite
	kinds := map[string]bool{}
	for _, s := range sites {
		if !kinds[s.Kind] {
			kinds[s.Kind] = true
			pick = append(pick, s)
		}
	}
	for _, s := range sites {
		if len(pick) >= 10 {
			break
		}
		dup := false
		for _, x := range pick {
			if x.Kind == s.Kind && x.NS == s.NS && x.Rel == s.Rel && x.Pos == s.Pos {
				dup = true
			}
		}
		if !dup {
			pick = append(pick, s)
		}
	}
	seed := r.Uint64()
	for si, site := range pick {
		name := undeclaredName(cc.Cfg, strings.HasPrefix(site.Kind, "namespace"))
		styleKind := "canonical"
		mk := func() *renderStyle { return &renderStyle{FullParens: true} }
		if r.IntN(2) == 0 {
			styleKind = "variants"
			mk = func() *renderStyle { return &renderStyle{FullParens: true, seeded: true, seed: seed + uint64(si)} }
		}
		res, ok := c11Mutate(cc.Cfg, site, name, mk, "")
		if !ok && styleKind == "variants" {
			styleKind = "canonical"
			mk = func() *renderStyle { return &renderStyle{FullParens: true} }
			res, ok = c11Mutate(cc.Cfg, site, name, mk, "")
		}
		if !ok {
			run.count("mutation_unusable", 1)
			continue
		}
		run.count("mutation_style_"+styleKind, 1)
		run.eval(1)
		run.count("mutations", 1)
		run.count("mutation_"+site.Kind, 1)
		run.nontrivial(fmt.Sprintf("%d/mut/%d", idx, si))
		detail := map[string]any{"site": site, "replaced": site.old, "by": name, "style": styleKind, "token_runes": res.Token, "error_spans": res.Spans, "mutated_text": res.Text}
		switch {
		case res.Errors == 0:
			lim.violate(run, violation{Index: idx, Sub: fmt.Sprintf("mut%d", si), Sig: "C11:mutation-accepted:" + site.Kind,
				Summary: fmt.Sprintf("%s %q of %s.%s replaced by the undeclared name %q: Parse reports no error", site.Kind, site.old, site.NS, site.Rel, name), Case: cc, Detail: detail})
			verdict = "violation"
			continue
		case !res.Covered:
			lim.violate(run, violation{Index: idx, Sub: fmt.Sprintf("mut%d", si), Sig: "C11:span-misses-token:" + site.Kind,
				Summary: fmt.Sprintf("%s %q of %s.%s replaced by the undeclared name %q: %d error(s), none of their spans covers the replaced token (runes %v): %v", site.Kind, site.old, site.NS, site.Rel, name, res.Errors, res.Token, res.Spans), Case: cc, Detail: detail})
			verdict = "violation"
			continue
		}
		// the same text after a comment with non-ASCII characters (the configuration is UTF-8)
		if si%3 == 0 {
			prefix := pickS(r, []string{"// конфигурация\n", "/* 日本語 */\n", "// é\n", "/* 🙂 */ "})
			res2, ok := c11Mutate(cc.Cfg, site, name, mk, prefix)
			if !ok {
				continue
			}
			run.eval(1)
			run.count("mutations_after_multibyte", 1)
			if res2.Errors > 0 && !res2.Covered {
				detail2 := map[string]any{"site": site, "by": name, "prefix": prefix, "token_runes": res2.Token, "error_spans": res2.Spans, "mutated_text": res2.Text}
				lim.violate(run, violation{Index: idx, Sub: fmt.Sprintf("mut%d-mb", si), Sig: "C11:span-misses-token:after-multibyte-text",
					Summary: fmt.Sprintf("the error span covers the replaced token in the ASCII text but not when a comment with non-ASCII characters precedes it (token runes %v): %v", res2.Token, res2.Spans), Case: cc, Detail: detail2})
				verdict = "violation"
			} else if res2.Errors == 0 {
				lim.violate(run, violation{Index: idx, Sub: fmt.Sprintf("mut%d-mb", si), Sig: "C11:mutation-accepted:" + site.Kind, Summary: "mutation accepted after a multibyte prefix", Case: cc})
				verdict = "violation"
			}
		}
	}
	// Partially declared targets: the traversed relation gets ONE MORE member type, a
	// namespace that does not declare the relation the traverse asks for (as first,
	// middle or last member of the union). The reference is undeclared for that
	// member, so the document must be rejected - whatever the other members declare.
	var ttus []refSite
	for _, s := range sites {
		if s.Kind == "computed-relation-in-traverse" {
			ttus = append(ttus, s)
		}
	}
	for k := 0; k < 2 && k < len(ttus); k++ {
		site := ttus[k]
		mc := cloneCfg(cc.Cfg)
		var hostNS *NSDef
		var hostRel *RelDef
		var ttu *Expr
		for _, n := range mc.NS {
			if n.Name == site.NS {
				hostNS, hostRel = n, n.rel(site.Rel)
			}
		}
		if hostRel == nil || hostRel.Rewrite == nil {
			continue
		}
		var path []int
		if _, err := fmt.Sscanf(strings.NewReplacer("[", "", "]", "").Replace(site.Pos), "%d", new(int)); err == nil || site.Pos == "[]" {
			for _, f := range strings.Fields(strings.NewReplacer("[", "", "]", "").Replace(site.Pos)) {
				var x int
				fmt.Sscan(f, &x)
				path = append(path, x)
			}
		}
		ttu = exprAt(hostRel.Rewrite, path)
		if ttu == nil || ttu.Op != "ttu" {
			continue
		}
		trav := hostNS.rel(ttu.Rel)
		if trav == nil || len(trav.Types) == 0 {
			continue
		}
		extra := undeclaredName(mc, true)
		mc.NS = append(mc.NS, &NSDef{Name: extra, Rels: []*RelDef{{Name: "unrelated_" + strings.ToLower(extra), Types: []TypeRef{{NS: mc.NS[0].Name}}}}})
		pos := []int{len(trav.Types), 0, len(trav.Types) / 2}[(int(idx)+k)%3]
		tt := append([]TypeRef(nil), trav.Types[:pos]...)
		tt = append(tt, TypeRef{NS: extra})
		trav.Types = append(tt, trav.Types[pos:]...)
		where := []string{"last", "first", "middle"}[(int(idx)+k)%3]
		text := (&renderStyle{FullParens: true}).render(mc)
		if _, oerrs := schema.Parse((&renderStyle{FullParens: true}).render(cc.Cfg)); len(oerrs) > 0 {
			continue
		}
		_, errs := schema.Parse(text)
		run.eval(1)
		run.count("mutations", 1)
		run.count("mutation_traverse-target-missing-on-one-union-member", 1)
		if len(errs) == 0 {
			lim.violate(run, violation{Index: idx, Sub: fmt.Sprintf("partial%d", k), Sig: "C11:mutation-accepted:traverse-target-missing-on-one-union-member:" + where,
				Summary: fmt.Sprintf("%s.%s traverses %s and asks for %q; the union type of %s got the additional %s member %s, which does not declare %q: Parse reports no error", site.NS, site.Rel, ttu.Rel, ttu.Comp, ttu.Rel, where, extra, ttu.Comp),
				Case:    cc, Detail: map[string]any{"mutated_text": text, "added_member": extra, "position": where}})
			verdict = "violation"
		}
	}

	return verdict
}
