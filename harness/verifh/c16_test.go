package verifh

// C16 — names survive the string-to-UUID mapping unchanged and unaliased.
//
// Every case is a batch of 1..350 API tuples over a pool of adversarial names
// (sizes crossing the internal lookup pages of 100/200 distinct ids, heavy
// repetition, the same string used as object and as subject, subject ids and
// subject sets mixed, empty / very long / NUL / Unicode / invalid UTF-8).
//
// Phase "mapper" (real Mapper + SQLite persister, every byte string):
//   M1 FromTuple(b) has the namespaces/relations/subject kinds of b and, position
//      by position, the ids Map(object) / Map(subject) where Map is the registry's
//      MappingManager; read-only and writing mapper agree.
//   M2 Map(s) = Map(s') iff s = s' over the batch's strings; Map is the same
//      function on every call (batched, single, shuffled, read-only or writing).
//   M3 ToTuple(FromTuple(b)) = b position-wise; also for a shuffled batch with
//      repeats; MapUUIDsToStrings(Map(s...)) = s... position-wise.
//   M4 ToQuery(FromQuery(q)) = q for queries over the batch's names; FromSubjectSet
//      and ToTree agree with Map.
// Phase "transport" (fresh database; tuples whose strings are valid UTF-8, the
// only ones JSON / proto3 can carry): written through REST PUT, REST PATCH and
// gRPC Transact, then
//   T1 list-all via REST and gRPC (paged) returns exactly the written multiset;
//   T2 list by object / by subject id / by subject set returns exactly the
//      written tuples carrying that string in that field;
//   T3 expand (REST, gRPC; depth 2) of a written (namespace, object, relation)
//      has that subject set at the root and exactly the written subjects below;
//   T4 a written tuple checks as allowed (REST, gRPC).
//
// UUIDv5 collisions (2^-122) are out of reach.

import (
	"context"
	"encoding/hex"
	"encoding/json"
	"fmt"
	"math/rand/v2"
	"net/http"
	"net/url"
	"sort"
	"strings"
	"sync"
	"testing"
	"time"
	"unicode/utf8"

	"github.com/gofrs/uuid"
	"google.golang.org/grpc/status"

	"github.com/ory/keto/internal/namespace"
	"github.com/ory/keto/internal/relationtuple"
	"github.com/ory/keto/ketoapi"
	rts "github.com/ory/keto/proto/ory/keto/relation_tuples/v1alpha2"
)

type c16Case struct {
	Mode        string   `json:"mode"`
	N           int      `json:"n_tuples"`
	PoolSize    int      `json:"pool_size"`
	Distinct    int      `json:"distinct_strings_in_batch"`
	InvalidUTF8 int      `json:"invalid_utf8_names"`
	Namespaces  []string `json:"namespaces"`
	PoolHead    []string `json:"pool_head"`
	TuplesHead  []string `json:"tuples_head"`
	PageSize    int      `json:"list_page_size"`

	pool   []string
	tuples []*Tup
}

var c16NSNames = []string{"User", "Doc", "a-b", "n s", "Группа", "Org", "x"}
var c16Rels = []string{"view", "members", "owners", "", "r r", "b-c", "rel#1", "a:b", "@", "🙂", "parents", "R", "r"}
var c16Sizes = []int{1, 1, 2, 3, 7, 10, 25, 49, 50, 51, 75, 99, 100, 101, 120, 150, 199, 200, 201, 250, 300, 349, 350}
var c16InvalidUTF8 = []string{"\xff", "\xfe", "a\xffb", "\xc3\x28", "\xed\xa0\x80", "\xf0\x28\x8c\xbc", "\xc0\xaf", "ok\x80", "\x80ok"}

// descStr: printable, bounded description of a name for journals / summaries.
func descStr(s string) string {
	if !utf8.ValidString(s) {
		return "hex:" + hex.EncodeToString([]byte(trunc(s, 64)))
	}
	if len(s) > 120 {
		return fmt.Sprintf("%s...(%d bytes)", s[:utf8Cut(s, 60)], len(s))
	}
	return s
}

func utf8Cut(s string, n int) int {
	if n >= len(s) {
		return len(s)
	}
	for n > 0 && !utf8.RuneStart(s[n]) {
		n--
	}
	return n
}

func descTup(t *Tup) string {
	if t.SubjectID != nil {
		return fmt.Sprintf("%s:%s#%s@%s", descStr(t.Namespace), descStr(t.Object), descStr(t.Relation), descStr(*t.SubjectID))
	}
	return fmt.Sprintf("%s:%s#%s@(%s:%s#%s)", descStr(t.Namespace), descStr(t.Object), descStr(t.Relation), descStr(t.SubjectSet.Namespace), descStr(t.SubjectSet.Object), descStr(t.SubjectSet.Relation))
}

func c16Name(r *rand.Rand, i int, pool []string, allowInvalid bool) string {
	switch k := r.IntN(100); {
	case k < 30:
		return fmt.Sprintf("name-%d", i)
	case k < 55:
		return pickS(r, advPool)
	case k < 65:
		return advString(r)
	case k < 77 && len(pool) > 0:
		e := pool[r.IntN(len(pool))]
		switch r.IntN(8) {
		case 0:
			return e + " "
		case 1:
			return e + "\x00"
		case 2:
			return strings.ToUpper(e)
		case 3:
			return e + "́"
		case 4:
			return " " + e
		case 5:
			return e + e
		case 6:
			return strings.ToLower(e)
		}
		return e + "​"
	case k < 83 && allowInvalid:
		return pickS(r, c16InvalidUTF8) + pickS(r, []string{"", "", "x", fmt.Sprint(i)})
	case k < 92:
		return c18Soup(r, 8)
	}
	return fmt.Sprintf("%08x-0000-4000-8000-%012x", r.Uint32(), r.Uint64()&0xffffffffffff)
}

func c16Pool(r *rand.Rand, size int, allowInvalid bool) []string {
	seen := map[string]bool{}
	pool := make([]string, 0, size)
	for len(pool) < size {
		s := c16Name(r, len(pool), pool, allowInvalid)
		for try := 0; seen[s]; try++ {
			s = fmt.Sprintf("%s~%d", s, len(pool)+try)
		}
		seen[s] = true
		pool = append(pool, s)
	}
	return pool
}

func genC16Case(r *rand.Rand, idx int64) *c16Case {
	c := &c16Case{}
	nss := shuffled(r, c16NSNames)[:3+r.IntN(3)]
	c.Namespaces = nss
	modes := []string{"distinct", "repeat-heavy", "obj-eq-subj", "mixed", "page-edge", "adversarial-small"}
	c.Mode = modes[int(idx)%len(modes)]
	n := c16Sizes[r.IntN(len(c16Sizes))]
	c.PageSize = []int{0, 0, 7, 100, 1000, 33}[r.IntN(6)]
	allowInvalid := r.IntN(3) == 0

	var objIdx, subIdx func(i int) int
	switch c.Mode {
	case "distinct":
		c.pool = c16Pool(r, 2*n, allowInvalid)
		objIdx = func(i int) int { return 2 * i }
		subIdx = func(i int) int { return 2*i + 1 }
	case "repeat-heavy":
		c.pool = c16Pool(r, 1+r.IntN(3), allowInvalid)
		objIdx = func(int) int { return r.IntN(len(c.pool)) }
		subIdx = objIdx
	case "obj-eq-subj":
		c.pool = c16Pool(r, 1+r.IntN(n), allowInvalid)
		last := 0
		objIdx = func(i int) int { last = r.IntN(len(c.pool)); return last }
		subIdx = func(i int) int { return last }
	case "mixed":
		c.pool = c16Pool(r, 1+r.IntN(2*n), allowInvalid)
		objIdx = func(int) int {
			if r.IntN(3) == 0 {
				return r.IntN(1 + len(c.pool)/10)
			}
			return r.IntN(len(c.pool))
		}
		subIdx = objIdx
	case "page-edge":
		target := []int{99, 100, 101, 199, 200, 201, 299, 300, 301, 400}[r.IntN(10)]
		if n < (target+1)/2 {
			n = (target+1)/2 + r.IntN(350-(target+1)/2+1)
		}
		c.pool = c16Pool(r, target, allowInvalid)
		// every pool entry is used at least once, the remaining slots repeat
		slots := make([]int, 2*n)
		for i := range slots {
			if i < target {
				slots[i] = i
			} else {
				slots[i] = r.IntN(target)
			}
		}
		r.Shuffle(len(slots), func(i, j int) { slots[i], slots[j] = slots[j], slots[i] })
		objIdx = func(i int) int { return slots[2*i] }
		subIdx = func(i int) int { return slots[2*i+1] }
	default: // adversarial-small
		n = 1 + r.IntN(12)
		seen := map[string]bool{}
		for len(c.pool) < 2*n {
			var s string
			switch r.IntN(6) {
			case 0:
				s = ""
			case 1:
				s = advString(r)
			case 2:
				s = pickS(r, c16InvalidUTF8)
			case 3:
				s = strings.Repeat(pickS(r, []string{"a", "é", "\x00", "🙂"}), 1<<(10+r.IntN(8)))
			default:
				s = pickS(r, advPool)
			}
			if seen[s] {
				s += fmt.Sprint(len(c.pool))
			}
			seen[s] = true
			c.pool = append(c.pool, s)
		}
		if idx%24 == 5 {
			c.pool[0] = strings.Repeat("M", 1<<20) // 1 MiB name
		}
		objIdx = func(int) int { return r.IntN(len(c.pool)) }
		subIdx = objIdx
	}
	c.N = n
	for i := 0; i < n; i++ {
		t := &Tup{Namespace: nss[r.IntN(len(nss))], Object: c.pool[objIdx(i)], Relation: pickS(r, c16Rels)}
		s := c.pool[subIdx(i)]
		if r.IntN(2) == 0 {
			t.SubjectID = sp(s)
		} else {
			t.SubjectSet = &ketoapi.SubjectSet{Namespace: nss[r.IntN(len(nss))], Object: s, Relation: pickS(r, c16Rels)}
		}
		c.tuples = append(c.tuples, t)
		if c.Mode != "distinct" && c.Mode != "page-edge" && r.IntN(15) == 0 {
			c.tuples = append(c.tuples, cloneTup(c.tuples[r.IntN(len(c.tuples))])) // exact duplicate in the same request
			i++
		}
	}
	// look-alikes in ONE request: different relationships whose printed forms
	// coincide - the subject id "ns:obj#rel" next to the subject set ns:obj#rel, and
	// the object "a#b" with relation "c" next to the object "a" with relation "b#c"
	if idx%4 == 2 && c.Mode != "page-edge" && c.Mode != "distinct" {
		var twins []*Tup
		for _, t := range c.tuples {
			if len(twins) >= 4 {
				break
			}
			if t.SubjectSet != nil && len(t.SubjectSet.Object) < 200 && utf8.ValidString(t.SubjectSet.Object) {
				tw := cloneTup(t)
				tw.SubjectSet = nil
				tw.SubjectID = sp(t.SubjectSet.Namespace + ":" + t.SubjectSet.Object + "#" + t.SubjectSet.Relation)
				if t.SubjectSet.Relation == "" {
					tw.SubjectID = sp(t.SubjectSet.Namespace + ":" + t.SubjectSet.Object)
				}
				twins = append(twins, tw)
			} else if t.SubjectID != nil && len(t.Object) < 200 && t.Relation != "" {
				tw := cloneTup(t)
				tw.Object, tw.Relation = t.Object+"#"+t.Relation, "c"
				t2 := cloneTup(t)
				t2.Relation = t.Relation + "#c"
				twins = append(twins, tw, t2)
			}
		}
		c.tuples = append(c.tuples, twins...)
	}
	if len(c.tuples) > 350 {
		c.tuples = c.tuples[:350]
	}
	c.N = len(c.tuples)
	c.PoolSize = len(c.pool)
	distinct := map[string]bool{}
	for _, t := range c.tuples {
		distinct[t.Object] = true
		distinct[c16SubjectName(t)] = true
	}
	c.Distinct = len(distinct)
	for _, s := range c.pool {
		if !utf8.ValidString(s) {
			c.InvalidUTF8++
		}
	}
	for i := 0; i < len(c.pool) && i < 12; i++ {
		c.PoolHead = append(c.PoolHead, descStr(c.pool[i]))
	}
	for i := 0; i < len(c.tuples) && i < 6; i++ {
		c.TuplesHead = append(c.TuplesHead, descTup(c.tuples[i]))
	}
	return c
}

func c16SubjectName(t *Tup) string {
	if t.SubjectID != nil {
		return *t.SubjectID
	}
	return t.SubjectSet.Object
}

func c16NSConfig(names []string) []*namespace.Namespace {
	var out []*namespace.Namespace
	for _, n := range names {
		out = append(out, &namespace.Namespace{Name: n})
	}
	return out
}

func pageClass(distinct int) string {
	switch {
	case distinct <= 100:
		return "distinct<=100"
	case distinct <= 200:
		return "distinct<=200"
	}
	return "distinct>200"
}

type c16Mon struct {
	run  *runner
	idx  int64
	c    *c16Case
	fail bool
	seen map[string]int
}

func (m *c16Mon) violate(sub, sig, summary string, detail any) {
	m.fail = true
	m.seen[sig]++
	if m.seen[sig] > 3 {
		m.run.count("violations_beyond_3_per_signature", 1)
		return
	}
	m.run.violate(violation{Index: m.idx, Sub: sub, Sig: sig, Summary: trunc(summary, 900), Case: m.c, Detail: detail})
}

// apiErr: an operation on well-formed input failed.
func (m *c16Mon) apiErr(op string, err error) {
	m.violate(op, "C16:error:"+op+":"+errClass(err.Error()), fmt.Sprintf("%s failed on a well-formed batch (%d tuples, %d distinct strings): %v", op, m.c.N, m.c.Distinct, trunc(err.Error(), 300)), nil)
}

func describeSubject(s relationtuple.Subject) string {
	switch x := s.(type) {
	case *relationtuple.SubjectID:
		return "id:" + x.ID.String()
	case *relationtuple.SubjectSet:
		return fmt.Sprintf("set:%q:%s#%q", x.Namespace, x.Object, x.Relation)
	}
	return "nil"
}

func internalKey(t *relationtuple.RelationTuple) string {
	if t == nil {
		return "<nil>"
	}
	return fmt.Sprintf("%q:%s#%q@%s", t.Namespace, t.Object, t.Relation, describeSubject(t.Subject))
}

// firstTupDiff compares position-wise; returns the first differing position.
func firstTupDiff(want, got []*Tup) (pos int, fields []string) {
	if len(want) != len(got) {
		return -1, []string{fmt.Sprintf("length-%d-vs-%d", len(want), len(got))}
	}
	for i := range want {
		if d := tupDiff(want[i], got[i]); d != nil {
			return i, d
		}
	}
	return -1, nil
}

func (m *c16Mon) mapperPhase(env *Env) {
	run, c := m.run, m.c
	ctx := env.Ctx
	reg := env.Reg
	mm := reg.MappingManager()
	pc := pageClass(c.Distinct)
	r := run.p.rng(m.idx, "mapper")

	// distinct strings of the batch, in first-occurrence order
	var names []string
	pos := map[string]int{}
	for _, t := range c.tuples {
		for _, s := range []string{t.Object, c16SubjectName(t)} {
			if _, ok := pos[s]; !ok {
				pos[s] = len(names)
				names = append(names, s)
			}
		}
	}

	// read-only mapper first: the database has seen nothing yet
	var itsRO []*relationtuple.RelationTuple
	var err error
	if pt := guard(func() { itsRO, err = reg.ReadOnlyMapper().FromTuple(ctx, c.tuples...) }); pt != "" {
		m.violate("mapper", "C16:panic:ReadOnlyMapper.FromTuple:"+topFrames(pt, 2), "ReadOnlyMapper.FromTuple panicked: "+trunc(pt, 300), nil)
		return
	}
	if err != nil {
		m.apiErr("ReadOnlyMapper.FromTuple", err)
		return
	}
	// M2: Map is a function, injective on the batch's names
	uRO, err := mm.MapStringsToUUIDsReadOnly(ctx, names...)
	if err != nil {
		m.apiErr("MapStringsToUUIDsReadOnly", err)
		return
	}
	var its []*relationtuple.RelationTuple
	if pt := guard(func() { its, err = reg.Mapper().FromTuple(ctx, c.tuples...) }); pt != "" {
		m.violate("mapper", "C16:panic:Mapper.FromTuple:"+topFrames(pt, 2), "Mapper.FromTuple panicked: "+trunc(pt, 300), nil)
		return
	}
	if err != nil {
		m.apiErr("Mapper.FromTuple", err)
		return
	}
	uRW, err := mm.MapStringsToUUIDs(ctx, names...)
	if err != nil {
		m.apiErr("MapStringsToUUIDs", err)
		return
	}
	run.eval(1)
	if len(uRO) != len(names) || len(uRW) != len(names) {
		m.violate("map", "C16:map:result-length", fmt.Sprintf("MapStringsToUUIDs returned %d / %d ids for %d strings", len(uRO), len(uRW), len(names)), nil)
		return
	}
	byID := map[uuid.UUID]int{}
	for i := range names {
		if uRO[i] != uRW[i] {
			m.violate("map", "C16:map:readonly-differs", fmt.Sprintf("read-only and writing mapping disagree on %q: %s vs %s", descStr(names[i]), uRO[i], uRW[i]), nil)
		}
		if uRW[i] == uuid.Nil {
			m.violate("map", "C16:map:nil-uuid", fmt.Sprintf("Map(%q) = nil UUID", descStr(names[i])), nil)
		}
		if j, dup := byID[uRW[i]]; dup {
			m.violate("map", "C16:map:alias", fmt.Sprintf("two different strings map to the same id %s: %q and %q", uRW[i], descStr(names[j]), descStr(names[i])), map[string]any{"a_hex": hex.EncodeToString([]byte(trunc(names[j], 200))), "b_hex": hex.EncodeToString([]byte(trunc(names[i], 200)))})
		}
		byID[uRW[i]] = i
	}
	// determinism: shuffled order with repeats, single calls
	{
		k := minInt(len(names)*2, 400)
		perm := make([]int, k)
		arg := make([]string, k)
		for i := range perm {
			perm[i] = r.IntN(len(names))
			arg[i] = names[perm[i]]
		}
		var again []uuid.UUID
		if r.IntN(2) == 0 {
			again, err = mm.MapStringsToUUIDs(ctx, arg...)
		} else {
			again, err = mm.MapStringsToUUIDsReadOnly(ctx, arg...)
		}
		run.eval(1)
		if err != nil {
			m.apiErr("MapStringsToUUIDs(shuffled)", err)
		} else if len(again) != k {
			m.violate("map", "C16:map:result-length", fmt.Sprintf("MapStringsToUUIDs returned %d ids for %d strings", len(again), k), nil)
		} else {
			for i := range perm {
				if again[i] != uRW[perm[i]] {
					m.violate("map", "C16:map:nondeterministic-or-misplaced:"+pc, fmt.Sprintf("Map(%q) = %s in a batch, %s at position %d of a shuffled batch with repeats", descStr(arg[i]), uRW[perm[i]], again[i], i), nil)
					break
				}
			}
		}
		one := names[r.IntN(len(names))]
		single, err := mm.MapStringsToUUIDs(ctx, one)
		if err != nil || len(single) != 1 || single[0] != uRW[pos[one]] {
			m.violate("map", "C16:map:single-differs", fmt.Sprintf("Map(%q) alone = %v (err %v), in the batch %s", descStr(one), single, err, uRW[pos[one]]), nil)
		}
	}

	// M1: FromTuple position by position
	expect := func(i int) *relationtuple.RelationTuple {
		t := c.tuples[i]
		e := &relationtuple.RelationTuple{Namespace: t.Namespace, Object: uRW[pos[t.Object]], Relation: t.Relation}
		if t.SubjectID != nil {
			e.Subject = &relationtuple.SubjectID{ID: uRW[pos[*t.SubjectID]]}
		} else {
			e.Subject = &relationtuple.SubjectSet{Namespace: t.SubjectSet.Namespace, Object: uRW[pos[t.SubjectSet.Object]], Relation: t.SubjectSet.Relation}
		}
		return e
	}
	for vi, got := range [][]*relationtuple.RelationTuple{its, itsRO} {
		name := []string{"Mapper.FromTuple", "ReadOnlyMapper.FromTuple"}[vi]
		run.eval(1)
		if len(got) != len(c.tuples) {
			m.violate("mapper", "C16:FromTuple:length", fmt.Sprintf("%s returned %d tuples for %d", name, len(got), len(c.tuples)), nil)
			return
		}
		for i := range got {
			e := expect(i)
			if internalKey(e) != internalKey(got[i]) {
				field := "subject"
				if got[i] != nil && got[i].Object != e.Object {
					field = "object"
				}
				if got[i] != nil && (got[i].Namespace != e.Namespace || got[i].Relation != e.Relation) {
					field = "namespace-or-relation"
				}
				m.violate("mapper", "C16:FromTuple:position-mismatch:"+field+":"+pc, fmt.Sprintf("%s position %d of %d: got %s, expected %s for %s", name, i, len(got), internalKey(got[i]), internalKey(e), descTup(c.tuples[i])), nil)
				break
			}
		}
	}

	// M3: ToTuple(FromTuple(b)) = b
	var back []*Tup
	if pt := guard(func() { back, err = reg.Mapper().ToTuple(ctx, its...) }); pt != "" {
		m.violate("mapper", "C16:panic:Mapper.ToTuple:"+topFrames(pt, 2), "Mapper.ToTuple panicked: "+trunc(pt, 300), nil)
		return
	}
	run.eval(1)
	if err != nil {
		m.apiErr("Mapper.ToTuple", err)
	} else if p, d := firstTupDiff(c.tuples, back); d != nil {
		det := map[string]any{}
		if p >= 0 {
			det["want"], det["got"] = descTup(c.tuples[p]), descTup(back[p])
		}
		m.violate("mapper", "C16:ToTuple:roundtrip-mismatch:"+strings.Join(d, "+")+":"+pc, fmt.Sprintf("ToTuple(FromTuple(b)) differs from b at position %d of %d in %v: %v", p, len(c.tuples), d, det), det)
	}
	// shuffled with repeats, through the read-only mapper (the read path)
	{
		k := minInt(2*len(its), 500)
		perm := make([]int, k)
		arg := make([]*relationtuple.RelationTuple, k)
		want := make([]*Tup, k)
		for i := range perm {
			perm[i] = r.IntN(len(its))
			arg[i] = its[perm[i]]
			want[i] = c.tuples[perm[i]]
		}
		var got []*Tup
		if pt := guard(func() { got, err = reg.ReadOnlyMapper().ToTuple(ctx, arg...) }); pt != "" {
			m.violate("mapper", "C16:panic:ReadOnlyMapper.ToTuple:"+topFrames(pt, 2), "ReadOnlyMapper.ToTuple panicked: "+trunc(pt, 300), nil)
		} else {
			run.eval(1)
			if err != nil {
				m.apiErr("ReadOnlyMapper.ToTuple", err)
			} else if p, d := firstTupDiff(want, got); d != nil {
				m.violate("mapper", "C16:ToTuple:shuffled-mismatch:"+strings.Join(d, "+")+":"+pc, fmt.Sprintf("ToTuple of a shuffled batch with repeats differs at position %d of %d in %v", p, k, d), nil)
			}
		}
		// MapUUIDsToStrings directly
		ids := make([]uuid.UUID, k)
		wantS := make([]string, k)
		for i := range ids {
			j := r.IntN(len(names))
			ids[i], wantS[i] = uRW[j], names[j]
		}
		gotS, err := mm.MapUUIDsToStrings(ctx, ids...)
		run.eval(1)
		if err != nil {
			m.apiErr("MapUUIDsToStrings", err)
		} else if len(gotS) != k {
			m.violate("map", "C16:unmap:result-length", fmt.Sprintf("MapUUIDsToStrings returned %d strings for %d ids", len(gotS), k), nil)
		} else {
			for i := range gotS {
				if gotS[i] != wantS[i] {
					cls := "wrong-string"
					if gotS[i] == "" {
						cls = "missing"
					}
					m.violate("map", "C16:unmap:"+cls+":"+pc, fmt.Sprintf("MapUUIDsToStrings position %d of %d: got %q, want %q", i, k, descStr(gotS[i]), descStr(wantS[i])), map[string]any{"got_hex": hex.EncodeToString([]byte(trunc(gotS[i], 200))), "want_hex": hex.EncodeToString([]byte(trunc(wantS[i], 200)))})
					break
				}
			}
		}
	}

	// M4: queries, subject sets, trees
	for qi := 0; qi < 8; qi++ {
		t := c.tuples[r.IntN(len(c.tuples))]
		q := &ketoapi.RelationQuery{}
		shape := r.IntN(16)
		if shape&1 != 0 {
			q.Namespace = sp(t.Namespace)
		}
		if shape&2 != 0 {
			q.Object = sp(t.Object)
		}
		if shape&4 != 0 {
			q.Relation = sp(t.Relation)
		}
		if shape&8 != 0 {
			if t.SubjectID != nil {
				q.SubjectID = sp(*t.SubjectID)
			} else {
				ss := *t.SubjectSet
				q.SubjectSet = &ss
			}
		}
		mp := reg.Mapper()
		if qi%2 == 1 {
			mp = reg.ReadOnlyMapper()
		}
		var iq *relationtuple.RelationQuery
		var bq *ketoapi.RelationQuery
		if pt := guard(func() {
			iq, err = mp.FromQuery(ctx, q)
			if err == nil {
				bq, err = mp.ToQuery(ctx, iq)
			}
		}); pt != "" {
			m.violate("mapper", "C16:panic:FromQuery/ToQuery:"+topFrames(pt, 2), "FromQuery/ToQuery panicked: "+trunc(pt, 300), map[string]any{"query": jsonStr(q)})
			continue
		}
		run.eval(1)
		if err != nil {
			m.apiErr("FromQuery/ToQuery", err)
			continue
		}
		okIDs := (q.Object == nil) == (iq.Object == nil)
		if q.Object != nil && iq.Object != nil && *iq.Object != uRW[pos[*q.Object]] {
			okIDs = false
		}
		switch s := iq.Subject.(type) {
		case nil:
			okIDs = okIDs && q.SubjectID == nil && q.SubjectSet == nil
		case *relationtuple.SubjectID:
			okIDs = okIDs && q.SubjectID != nil && s.ID == uRW[pos[*q.SubjectID]]
		case *relationtuple.SubjectSet:
			okIDs = okIDs && q.SubjectSet != nil && s.Object == uRW[pos[q.SubjectSet.Object]] && s.Namespace == q.SubjectSet.Namespace && s.Relation == q.SubjectSet.Relation
		}
		if !okIDs {
			m.violate("mapper", fmt.Sprintf("C16:FromQuery:wrong-ids:shape=%d", shape), fmt.Sprintf("FromQuery(%s) carries ids that are not Map(object)/Map(subject)", trunc(jsonStr(q), 300)), nil)
		}
		if d := queryDiff(q, bq); d != nil {
			m.violate("mapper", fmt.Sprintf("C16:ToQuery:roundtrip-mismatch:%s:shape=%d", strings.Join(d, "+"), shape), fmt.Sprintf("ToQuery(FromQuery(q)) differs in %v: q=%s back=%s", d, trunc(jsonStr(q), 300), trunc(jsonStr(bq), 300)), nil)
		}
	}
	var sets []*ketoapi.SubjectSet
	for _, t := range c.tuples {
		if t.SubjectSet != nil && len(sets) < 4 {
			sets = append(sets, t.SubjectSet)
		}
	}
	sets = append(sets, &ketoapi.SubjectSet{Namespace: c.tuples[0].Namespace, Object: c.tuples[0].Object, Relation: c.tuples[0].Relation})
	for _, ss := range sets {
		is, err := reg.ReadOnlyMapper().FromSubjectSet(ctx, ss)
		run.eval(1)
		if err != nil {
			m.apiErr("FromSubjectSet", err)
			continue
		}
		if is.Namespace != ss.Namespace || is.Relation != ss.Relation || is.Object != uRW[pos[ss.Object]] {
			m.violate("mapper", "C16:FromSubjectSet:mismatch", fmt.Sprintf("FromSubjectSet(%s) = %s", jsonStr(ss), describeSubject(is)), nil)
		}
	}
	// ToTree: root = a subject set, children = subjects of up to 150 tuples (nested two levels)
	{
		root := &relationtuple.Tree{Type: ketoapi.TreeNodeUnion, Subject: &relationtuple.SubjectSet{Namespace: c.tuples[0].Namespace, Object: its[0].Object, Relation: c.tuples[0].Relation}}
		var wantKids []string
		for i := 0; i < len(its) && i < 150; i++ {
			kid := &relationtuple.Tree{Type: ketoapi.TreeNodeLeaf, Subject: its[i].Subject}
			if i%5 == 0 && i+1 < len(its) {
				kid.Type = ketoapi.TreeNodeUnion
				kid.Children = []*relationtuple.Tree{{Type: ketoapi.TreeNodeLeaf, Subject: its[i+1].Subject}}
			}
			root.Children = append(root.Children, kid)
			wantKids = append(wantKids, subjKey(c.tuples[i]))
		}
		var tree *ketoapi.Tree[*ketoapi.RelationTuple]
		if pt := guard(func() { tree, err = reg.ReadOnlyMapper().ToTree(ctx, root) }); pt != "" {
			m.violate("mapper", "C16:panic:ToTree:"+topFrames(pt, 2), "ToTree panicked: "+trunc(pt, 300), nil)
		} else {
			run.eval(1)
			if err != nil {
				m.apiErr("ToTree", err)
			} else {
				ok := tree.Tuple != nil && tree.Tuple.SubjectSet != nil && tree.Tuple.SubjectSet.Object == c.tuples[0].Object && tree.Tuple.SubjectSet.Namespace == c.tuples[0].Namespace && tree.Tuple.SubjectSet.Relation == c.tuples[0].Relation && len(tree.Children) == len(wantKids)
				for i := 0; ok && i < len(wantKids); i++ {
					ch := tree.Children[i]
					if ch.Tuple == nil || subjKey(ch.Tuple) != wantKids[i] {
						ok = false
					}
					if i%5 == 0 && i+1 < len(its) {
						if len(ch.Children) != 1 || ch.Children[0].Tuple == nil || subjKey(ch.Children[0].Tuple) != subjKey(c.tuples[i+1]) {
							ok = false
						}
					}
				}
				if !ok {
					m.violate("mapper", "C16:ToTree:mismatch:"+pc, "ToTree returned a tree whose subjects are not the strings of the mapped subjects (position-wise)", nil)
				}
			}
		}
	}
}

// ---------------------------------------------------------------------------
// transport phase

type c16Transport struct {
	env   *Env
	ctx   context.Context // every request of the case; cancelled when the case ends
	read  http.Handler
	write http.Handler
	g     *grpcClients
}

func (tr *c16Transport) listREST(q url.Values, pageSize int) ([]*Tup, string) {
	var out []*Tup
	token := ""
	for page := 0; page < 2000; page++ {
		v := url.Values{}
		for k, x := range q {
			v[k] = x
		}
		if pageSize > 0 {
			v.Set("page_size", fmt.Sprint(pageSize))
		}
		if token != "" {
			v.Set("page_token", token)
		}
		st, body, pt := serveHTTP(tr.ctx, tr.read, "GET", "/relation-tuples?"+v.Encode(), "")
		if pt != "" {
			return nil, "panic: " + trunc(pt, 300)
		}
		if st != 200 {
			return nil, fmt.Sprintf("status %d: %s", st, trunc(body, 300))
		}
		var resp ketoapi.GetResponse
		if err := json.Unmarshal([]byte(body), &resp); err != nil {
			return nil, "undecodable response: " + err.Error()
		}
		out = append(out, resp.RelationTuples...)
		if resp.NextPageToken == "" {
			return out, ""
		}
		token = resp.NextPageToken
	}
	return nil, "pagination did not end after 2000 pages"
}

func (tr *c16Transport) listGRPC(q *ketoapi.RelationQuery, pageSize int) ([]*Tup, string) {
	var out []*Tup
	token := ""
	for page := 0; page < 2000; page++ {
		ctx, cancel := context.WithTimeout(tr.ctx, 30*time.Second)
		resp, err := tr.g.Read.ListRelationTuples(ctx, &rts.ListRelationTuplesRequest{RelationQuery: q.ToProto(), PageSize: int32(pageSize), PageToken: token})
		cancel()
		if err != nil {
			return nil, err.Error()
		}
		for _, pt := range resp.RelationTuples {
			t, err := (&Tup{}).FromDataProvider(pt)
			if err != nil {
				return nil, "response tuple without subject"
			}
			out = append(out, t)
		}
		if resp.NextPageToken == "" {
			return out, ""
		}
		token = resp.NextPageToken
	}
	return nil, "pagination did not end after 2000 pages"
}

// multisetDiff classifies the difference of two tuple multisets.
func multisetDiff(want, got []*Tup) (class string, detail map[string]any) {
	cnt := map[string]int{}
	byKey := map[string]*Tup{}
	for _, t := range want {
		cnt[tupKey(t)]++
		byKey[tupKey(t)] = t
	}
	for _, t := range got {
		cnt[tupKey(t)]--
		byKey[tupKey(t)] = t
	}
	var missing, extra []string
	for k, v := range cnt {
		if v > 0 {
			missing = append(missing, k)
		} else if v < 0 {
			extra = append(extra, k)
		}
	}
	if len(missing)+len(extra) == 0 {
		return "", nil
	}
	sort.Strings(missing)
	sort.Strings(extra)
	detail = map[string]any{"missing": len(missing), "extra": len(extra)}
	if len(missing) > 0 {
		detail["first_missing"] = descTup(byKey[missing[0]])
	}
	if len(extra) > 0 {
		detail["first_extra"] = descTup(byKey[extra[0]])
	}
	switch {
	case len(extra) == 0:
		return "missing", detail
	case len(missing) == 0:
		return "extra", detail
	}
	// a returned tuple that is a written one with some fields changed?
	best := []string(nil)
	for _, mk := range missing[:minInt(len(missing), 20)] {
		for _, ek := range extra[:minInt(len(extra), 20)] {
			d := tupDiff(byKey[mk], byKey[ek])
			if best == nil || len(d) < len(best) {
				best = d
			}
		}
	}
	return "changed:" + strings.Join(best, "+"), detail
}

func matchesQuery(t *Tup, q *ketoapi.RelationQuery) bool {
	if q.Namespace != nil && t.Namespace != *q.Namespace {
		return false
	}
	if q.Object != nil && t.Object != *q.Object {
		return false
	}
	if q.Relation != nil && t.Relation != *q.Relation {
		return false
	}
	if q.SubjectID != nil && (t.SubjectID == nil || *t.SubjectID != *q.SubjectID) {
		return false
	}
	if q.SubjectSet != nil && (t.SubjectSet == nil || *t.SubjectSet != *q.SubjectSet) {
		return false
	}
	return true
}

func (m *c16Mon) transportPhase(tr *c16Transport, written []*Tup) {
	run, c := m.run, m.c
	r := run.p.rng(m.idx, "transport")
	pc := pageClass(c.Distinct)

	// --- write: a few through PUT, then PATCH and gRPC Transact in request-sized batches
	nPut := minInt(len(written), 1+r.IntN(3))
	for _, t := range written[:nPut] {
		st, body, pt := serveHTTP(tr.ctx, tr.write, "PUT", "/admin/relation-tuples", jsonStr(t))
		if pt != "" || st != 201 {
			m.violate("write", fmt.Sprintf("C16:write-rest-put:status-%d", st), fmt.Sprintf("PUT of %s: status %d %s %s", descTup(t), st, trunc(body, 200), trunc(pt, 200)), nil)
			return
		}
		var echoed Tup
		if err := json.Unmarshal([]byte(body), &echoed); err != nil || tupDiff(t, &echoed) != nil {
			m.violate("write", "C16:write-rest-put:echo-differs", fmt.Sprintf("PUT of %s echoed %s", descTup(t), trunc(body, 300)), nil)
		}
	}
	rest := written[nPut:]
	cut := 0
	if len(rest) > 0 {
		cut = r.IntN(len(rest) + 1)
	}
	if patch := rest[:cut]; len(patch) > 0 {
		deltas := make([]*ketoapi.PatchDelta, len(patch))
		for i, t := range patch {
			deltas[i] = &ketoapi.PatchDelta{Action: ketoapi.ActionInsert, RelationTuple: t}
		}
		st, body, pt := serveHTTP(tr.ctx, tr.write, "PATCH", "/admin/relation-tuples", jsonStr(deltas))
		if pt != "" || st != 204 {
			m.violate("write", fmt.Sprintf("C16:write-rest-patch:status-%d", st), fmt.Sprintf("PATCH inserting %d tuples: status %d %s %s", len(patch), st, trunc(body, 200), trunc(pt, 200)), nil)
			return
		}
	}
	// gRPC Transact, in requests below the server's default 4 MiB receive limit (a
	// transport setting, not a naming matter): flush before a request would exceed 3 MiB
	if tx := rest[cut:]; len(tx) > 0 {
		var pts []*rts.RelationTuple
		size := 0
		flush := func() bool {
			if len(pts) == 0 {
				return true
			}
			ctx, cancel := context.WithTimeout(tr.ctx, 60*time.Second)
			_, err := tr.g.Write.TransactRelationTuples(ctx, &rts.TransactRelationTuplesRequest{RelationTupleDeltas: rts.RelationTupleToDeltas(pts, rts.RelationTupleDelta_ACTION_INSERT)})
			cancel()
			if err != nil {
				m.violate("write", "C16:write-grpc-transact:error:"+status.Code(err).String(), fmt.Sprintf("gRPC Transact inserting %d tuples (%d bytes of names): %v", len(pts), size, trunc(err.Error(), 300)), nil)
				return false
			}
			run.count("grpc_transact_requests", 1)
			pts, size = nil, 0
			return true
		}
		for _, t := range tx {
			sz := len(t.Namespace) + len(t.Object) + len(t.Relation) + len(c16SubjectName(t)) + 64
			if size+sz > 3<<20 && !flush() {
				return
			}
			pts = append(pts, t.ToProto())
			size += sz
		}
		if !flush() {
			return
		}
	}
	run.count("tuples_written_through_transports", int64(len(written)))

	// --- T1: list everything
	gotR, e := tr.listREST(url.Values{}, c.PageSize)
	run.eval(1)
	if e != "" {
		m.violate("list", "C16:list-rest:error", "REST list of all tuples failed: "+e, nil)
	} else if cls, det := multisetDiff(written, gotR); cls != "" {
		m.violate("list", "C16:list-rest:all:"+cls+":"+pc, fmt.Sprintf("REST list after write differs from the %d written tuples: %s %v", len(written), cls, det), det)
	}
	gotG, e := tr.listGRPC(&ketoapi.RelationQuery{}, c.PageSize)
	run.eval(1)
	if e != "" {
		m.violate("list", "C16:list-grpc:error", "gRPC list of all tuples failed: "+e, nil)
	} else if cls, det := multisetDiff(written, gotG); cls != "" {
		m.violate("list", "C16:list-grpc:all:"+cls+":"+pc, fmt.Sprintf("gRPC list after write differs from the %d written tuples: %s %v", len(written), cls, det), det)
	}

	// --- T2: list by a name in one field
	for k := 0; k < 6; k++ {
		t := written[r.IntN(len(written))]
		q := &ketoapi.RelationQuery{}
		field := ""
		switch r.IntN(4) {
		case 0:
			q.Object, field = sp(t.Object), "object"
		case 1:
			// the subject's string, asked for as an object (same string in another role)
			q.Object, field = sp(c16SubjectName(t)), "object-named-like-subject"
		case 2:
			if t.SubjectID != nil {
				q.SubjectID, field = sp(*t.SubjectID), "subject_id"
			} else {
				ss := *t.SubjectSet
				q.SubjectSet, field = &ss, "subject_set"
			}
		default:
			// the object's string, asked for as a subject id
			q.SubjectID, field = sp(t.Object), "subject_id-named-like-object"
		}
		if r.IntN(2) == 0 {
			q.Namespace = sp(t.Namespace)
		}
		var want []*Tup
		for _, w := range written {
			if matchesQuery(w, q) {
				want = append(want, w)
			}
		}
		var got []*Tup
		via := "rest"
		if k%2 == 0 {
			got, e = tr.listREST(q.ToURLQuery(), c.PageSize)
		} else {
			via = "grpc"
			got, e = tr.listGRPC(q, c.PageSize)
		}
		run.eval(1)
		if e != "" {
			m.violate("list", "C16:list-"+via+":error", fmt.Sprintf("%s list by %s failed: %s", via, field, e), map[string]any{"query": trunc(jsonStr(q), 400)})
		} else if cls, det := multisetDiff(want, got); cls != "" {
			m.violate("list", "C16:list-"+via+":by-"+field+":"+cls, fmt.Sprintf("%s list by %s (%s) returned %d tuples, %d were written with it: %s %v", via, field, trunc(jsonStr(q), 200), len(got), len(want), cls, det), det)
		}
	}

	// --- T3: expand
	for k := 0; k < 4; k++ {
		t := written[r.IntN(len(written))]
		var want []string
		for _, w := range written {
			if w.Namespace == t.Namespace && w.Object == t.Object && w.Relation == t.Relation {
				want = append(want, subjKey(w))
			}
		}
		sort.Strings(want)
		rootKey := subjKey(&Tup{SubjectSet: &ketoapi.SubjectSet{Namespace: t.Namespace, Object: t.Object, Relation: t.Relation}})
		var gotRoot string
		var got []string
		via := "rest"
		if k%2 == 0 {
			v := url.Values{"namespace": {t.Namespace}, "object": {t.Object}, "relation": {t.Relation}, "max-depth": {"2"}}
			st, body, pt := serveHTTP(tr.ctx, tr.read, "GET", "/relation-tuples/expand?"+v.Encode(), "")
			if pt != "" || st != 200 {
				m.violate("expand", fmt.Sprintf("C16:expand-rest:status-%d", st), fmt.Sprintf("REST expand of written %s:%s#%s: status %d %s %s", descStr(t.Namespace), descStr(t.Object), descStr(t.Relation), st, trunc(body, 200), trunc(pt, 200)), nil)
				continue
			}
			var tree ketoapi.Tree[*ketoapi.RelationTuple]
			if err := json.Unmarshal([]byte(body), &tree); err != nil || tree.Tuple == nil {
				m.violate("expand", "C16:expand-rest:undecodable", fmt.Sprintf("REST expand response undecodable: %v %s", err, trunc(body, 200)), nil)
				continue
			}
			gotRoot = subjKey(tree.Tuple)
			for _, ch := range tree.Children {
				if ch.Tuple != nil {
					got = append(got, subjKey(ch.Tuple))
				} else {
					got = append(got, "nil")
				}
			}
		} else {
			via = "grpc"
			ctx, cancel := context.WithTimeout(tr.ctx, 30*time.Second)
			resp, err := tr.g.Expand.Expand(ctx, &rts.ExpandRequest{Subject: rts.NewSubjectSet(t.Namespace, t.Object, t.Relation), MaxDepth: 2})
			cancel()
			if err != nil || resp.Tree == nil || resp.Tree.Tuple == nil {
				m.violate("expand", "C16:expand-grpc:error", fmt.Sprintf("gRPC expand of written %s:%s#%s: %v / empty tree", descStr(t.Namespace), descStr(t.Object), descStr(t.Relation), err), nil)
				continue
			}
			rt, err := (&Tup{}).FromDataProvider(resp.Tree.Tuple)
			if err != nil {
				m.violate("expand", "C16:expand-grpc:root-without-subject", "gRPC expand root carries no subject", nil)
				continue
			}
			gotRoot = subjKey(rt)
			for _, ch := range resp.Tree.Children {
				ct, err := (&Tup{}).FromDataProvider(ch.Tuple)
				if ch.Tuple == nil || err != nil {
					got = append(got, "nil")
				} else {
					got = append(got, subjKey(ct))
				}
			}
		}
		sort.Strings(got)
		run.eval(1)
		if gotRoot != rootKey {
			m.violate("expand", "C16:expand-"+via+":root-differs", fmt.Sprintf("%s expand root is %s, asked for %s", via, trunc(gotRoot, 200), trunc(rootKey, 200)), nil)
		}
		if strings.Join(got, "\x01") != strings.Join(want, "\x01") {
			cls := "children-differ"
			if len(got) != len(want) {
				cls = "children-count"
			}
			m.violate("expand", "C16:expand-"+via+":"+cls, fmt.Sprintf("%s expand of %s:%s#%s returned %d children, %d subjects were written; first got %s, first want %s", via, descStr(t.Namespace), descStr(t.Object), descStr(t.Relation), len(got), len(want), trunc(strings.Join(got[:minInt(len(got), 2)], " "), 200), trunc(strings.Join(want[:minInt(len(want), 2)], " "), 200)), nil)
		}
	}

	// --- T4: a written tuple is allowed
	for k := 0; k < 3; k++ {
		t := written[r.IntN(len(written))]
		run.eval(1)
		if k%2 == 0 {
			st, body, pt := serveHTTP(tr.ctx, tr.read, "GET", "/relation-tuples/check?"+t.ToURLQuery().Encode(), "")
			if pt != "" || st != 200 {
				m.violate("check", fmt.Sprintf("C16:check-rest:written-tuple-status-%d", st), fmt.Sprintf("REST check of the written tuple %s: status %d %s %s", descTup(t), st, trunc(body, 200), trunc(pt, 200)), nil)
			}
		} else {
			ctx, cancel := context.WithTimeout(tr.ctx, 30*time.Second)
			resp, err := tr.g.Check.Check(ctx, &rts.CheckRequest{Tuple: t.ToProto()})
			cancel()
			if err != nil || !resp.Allowed {
				m.violate("check", "C16:check-grpc:written-tuple-not-allowed", fmt.Sprintf("gRPC check of the written tuple %s: %v %v", descTup(t), resp.GetAllowed(), err), nil)
			}
		}
	}
}

// concurrentReadPhase (T5): several clients list at the same time (both
// transports, the whole store and single namespaces); each must read exactly the
// written strings, as it does alone.
func (m *c16Mon) concurrentReadPhase(tr *c16Transport, written []*Tup) {
	run, c := m.run, m.c
	type job struct {
		via  string
		ns   string // "" = everything
		want []*Tup
		got  []*Tup
		err  string
	}
	nss := map[string]bool{}
	for _, t := range written {
		nss[t.Namespace] = true
	}
	var names []string
	for n := range nss {
		names = append(names, n)
	}
	sort.Strings(names)
	for round := 0; round < 2; round++ {
		var jobs []*job
		for k := 0; k < 6; k++ {
			j := &job{via: []string{"rest", "grpc"}[(k+round)%2]}
			if k >= 2 {
				j.ns = names[(k+round)%len(names)]
			}
			for _, w := range written {
				if j.ns == "" || w.Namespace == j.ns {
					j.want = append(j.want, w)
				}
			}
			jobs = append(jobs, j)
		}
		var wg sync.WaitGroup
		start := make(chan struct{})
		for _, j := range jobs {
			wg.Add(1)
			go func(j *job) {
				defer wg.Done()
				<-start
				q := &ketoapi.RelationQuery{}
				if j.ns != "" {
					q.Namespace = sp(j.ns)
				}
				if j.via == "rest" {
					j.got, j.err = tr.listREST(q.ToURLQuery(), c.PageSize)
				} else {
					j.got, j.err = tr.listGRPC(q, c.PageSize)
				}
			}(j)
		}
		close(start)
		wg.Wait()
		for _, j := range jobs {
			run.eval(1)
			run.count("concurrent_lists", 1)
			if j.err != "" {
				m.violate("concurrent-list", "C16:list-"+j.via+":concurrent:error", fmt.Sprintf("%s list next to %d other list requests failed: %s", j.via, len(jobs)-1, j.err), nil)
			} else if cls, det := multisetDiff(j.want, j.got); cls != "" {
				m.violate("concurrent-list", "C16:list-"+j.via+":concurrent:"+cls, fmt.Sprintf("%s list (namespace filter %q) issued together with %d other list requests returned %d tuples that differ from the %d written ones: %s %v", j.via, j.ns, len(jobs)-1, len(j.got), len(j.want), cls, det), det)
			}
		}
	}
}

// deletePhase (T6): part of the written relationships is deleted by exact tuple
// (PATCH delete / gRPC Transact delete); the names of the REMAINING relationships
// - many of them shared with deleted ones, also across roles (object of one,
// subject of another) - must still be read back unchanged.
func (m *c16Mon) deletePhase(tr *c16Transport, written []*Tup) {
	run, c := m.run, m.c
	r := run.p.rng(m.idx, "delete")
	if len(written) < 2 {
		return
	}
	delKeys := map[string]bool{}
	var dels []*Tup
	for _, t := range written {
		if r.IntN(3) == 0 && !delKeys[tupKey(t)] {
			delKeys[tupKey(t)] = true
			dels = append(dels, t)
		}
	}
	if len(dels) == 0 {
		delKeys[tupKey(written[0])] = true
		dels = append(dels, written[0])
	}
	var remaining []*Tup
	for _, t := range written {
		if !delKeys[tupKey(t)] {
			remaining = append(remaining, t)
		}
	}
	for from := 0; from < len(dels); {
		to, size := from, 0
		for to < len(dels) && to-from < 400 && size < 2<<20 {
			t := dels[to]
			size += len(t.Namespace) + len(t.Object) + len(t.Relation) + len(c16SubjectName(t)) + 64
			to++
		}
		chunk := dels[from:to]
		from = to
		if r.IntN(2) == 0 {
			deltas := make([]*ketoapi.PatchDelta, len(chunk))
			for i, t := range chunk {
				deltas[i] = &ketoapi.PatchDelta{Action: ketoapi.ActionDelete, RelationTuple: t}
			}
			st, body, pt := serveHTTP(tr.ctx, tr.write, "PATCH", "/admin/relation-tuples", jsonStr(deltas))
			if pt != "" || st != 204 {
				m.violate("delete", fmt.Sprintf("C16:delete-rest-patch:status-%d", st), fmt.Sprintf("PATCH deleting %d written tuples: status %d %s %s", len(chunk), st, trunc(body, 200), trunc(pt, 200)), nil)
				return
			}
		} else {
			var pts []*rts.RelationTuple
			for _, t := range chunk {
				pts = append(pts, t.ToProto())
			}
			ctx, cancel := context.WithTimeout(tr.ctx, 60*time.Second)
			_, err := tr.g.Write.TransactRelationTuples(ctx, &rts.TransactRelationTuplesRequest{RelationTupleDeltas: rts.RelationTupleToDeltas(pts, rts.RelationTupleDelta_ACTION_DELETE)})
			cancel()
			if err != nil {
				m.violate("delete", "C16:delete-grpc-transact:error:"+status.Code(err).String(), fmt.Sprintf("gRPC Transact deleting %d written tuples: %v", len(pts), trunc(err.Error(), 300)), nil)
				return
			}
		}
	}
	run.count("tuples_deleted_by_exact_tuple", int64(len(dels)))
	shared := 0
	names := map[string]bool{}
	for _, t := range dels {
		names[t.Object] = true
		names[c16SubjectName(t)] = true
	}
	for _, t := range remaining {
		if names[t.Object] || names[c16SubjectName(t)] {
			shared++
		}
	}
	run.count("remaining_tuples_sharing_a_name_with_a_deleted_one", int64(shared))
	for k, via := range []string{"rest", "grpc"} {
		var got []*Tup
		var e string
		if k == 0 {
			got, e = tr.listREST(url.Values{}, c.PageSize)
		} else {
			got, e = tr.listGRPC(&ketoapi.RelationQuery{}, c.PageSize)
		}
		run.eval(1)
		if e != "" {
			m.violate("delete", "C16:list-"+via+":after-delete:error", via+" list after the delete failed: "+e, nil)
		} else if cls, det := multisetDiff(remaining, got); cls != "" {
			m.violate("delete", "C16:list-"+via+":after-delete:"+cls, fmt.Sprintf("after %d of %d written tuples were deleted by exact tuple, %s list differs from the %d remaining ones (%d of them share a name with a deleted tuple): %s %v", len(dels), len(written), via, len(remaining), shared, cls, det), det)
		}
	}
}

// mixedTransactPhase (T7): ONE request that deletes and inserts relationships
// which share names the server has never seen (an idempotent "move": delete the
// old grant if it exists, insert the new one). The delete is a no-op; the
// inserted relationships must read back with their strings.
func (m *c16Mon) mixedTransactPhase(tr *c16Transport, written []*Tup) {
	run := m.run
	r := run.p.rng(m.idx, "mixed")
	base := written[r.IntN(len(written))]
	if len(base.Object)+len(c16SubjectName(base)) > 256<<10 {
		// the request would exceed the transports' message limits (a transport
		// setting, not a naming matter)
		run.count("mixed_request_skipped_names_too_long_for_one_message", 1)
		return
	}
	ns := base.Namespace
	n1, n2, n3 := base.Object+"~moved", c16SubjectName(base)+"~mover", base.Object+"~other"
	gone := tupID(ns, n1, "viewer", n2)
	ins := []*Tup{tupID(ns, n1, "editor", n2), tupSet(ns, n3, "editor", ns, n1, "viewer"), tupID(ns, n3, "viewer", n1)}
	for _, t := range append([]*Tup{gone}, ins...) {
		if !tupTransportable(t) {
			return
		}
	}
	via := "rest"
	if r.IntN(2) == 0 {
		deltas := []*ketoapi.PatchDelta{{Action: ketoapi.ActionDelete, RelationTuple: gone}}
		for _, t := range ins {
			deltas = append(deltas, &ketoapi.PatchDelta{Action: ketoapi.ActionInsert, RelationTuple: t})
		}
		if r.IntN(2) == 0 { // inserts first
			deltas = append(deltas[1:], deltas[0])
		}
		st, body, pt := serveHTTP(tr.ctx, tr.write, "PATCH", "/admin/relation-tuples", jsonStr(deltas))
		if pt != "" || st != 204 {
			m.violate("mixed", fmt.Sprintf("C16:mixed-patch:status-%d", st), fmt.Sprintf("PATCH with one delete and %d inserts on new names: status %d %s %s", len(ins), st, trunc(body, 200), trunc(pt, 200)), nil)
			return
		}
	} else {
		via = "grpc"
		var ds []*rts.RelationTupleDelta
		ds = append(ds, &rts.RelationTupleDelta{Action: rts.RelationTupleDelta_ACTION_DELETE, RelationTuple: gone.ToProto()})
		for _, t := range ins {
			ds = append(ds, &rts.RelationTupleDelta{Action: rts.RelationTupleDelta_ACTION_INSERT, RelationTuple: t.ToProto()})
		}
		ctx, cancel := context.WithTimeout(tr.ctx, 60*time.Second)
		_, err := tr.g.Write.TransactRelationTuples(ctx, &rts.TransactRelationTuplesRequest{RelationTupleDeltas: ds})
		cancel()
		if err != nil {
			m.violate("mixed", "C16:mixed-transact:error:"+status.Code(err).String(), "gRPC Transact with one delete and inserts on new names: "+trunc(err.Error(), 300), nil)
			return
		}
	}
	run.count("mixed_insert_delete_requests_on_new_names", 1)
	for k, lv := range []string{"rest", "grpc"} {
		var got []*Tup
		var e string
		q := &ketoapi.RelationQuery{Namespace: sp(ns), Relation: sp("editor")}
		if k == 0 {
			got, e = tr.listREST(q.ToURLQuery(), 100)
		} else {
			got, e = tr.listGRPC(q, 100)
		}
		var want []*Tup
		for _, t := range ins {
			if t.Relation == "editor" {
				want = append(want, t)
			}
		}
		for _, w := range written {
			if matchesQuery(w, q) {
				want = append(want, w)
			}
		}
		run.eval(1)
		if e != "" {
			m.violate("mixed", "C16:list-"+lv+":after-mixed-request:error", lv+" list failed: "+e, nil)
		} else if cls, det := multisetDiff(want, got); cls != "" {
			m.violate("mixed", "C16:list-"+lv+":after-mixed-request:"+cls, fmt.Sprintf("after one %s request that deletes %s (not stored) and inserts %d relationships sharing its never-seen names, %s list differs from what was written: %s %v", via, descTup(gone), len(ins), lv, cls, det), det)
		}
	}
	// leave the store as it was found
	var deltas []*ketoapi.PatchDelta
	for _, t := range ins {
		deltas = append(deltas, &ketoapi.PatchDelta{Action: ketoapi.ActionDelete, RelationTuple: t})
	}
	_, _, _ = serveHTTP(tr.ctx, tr.write, "PATCH", "/admin/relation-tuples", jsonStr(deltas))
}

func tupTransportable(t *Tup) bool {
	ok := utf8.ValidString(t.Namespace) && utf8.ValidString(t.Object) && utf8.ValidString(t.Relation)
	if t.SubjectID != nil {
		return ok && utf8.ValidString(*t.SubjectID)
	}
	return ok && utf8.ValidString(t.SubjectSet.Namespace) && utf8.ValidString(t.SubjectSet.Object) && utf8.ValidString(t.SubjectSet.Relation)
}

func TestC16(t *testing.T) {
	run := newRunner(t, "C16")
	defer run.finish()
	p := run.p
	nCases := int64(p.pick(2400, 30000))
	seen := map[string]int{}

	for idx := int64(0); idx < nCases; idx++ {
		if !p.mine(idx) {
			continue
		}
		r := p.rng(idx, "case")
		c := genC16Case(r, idx)
		run.begin(idx, "", c)
		m := &c16Mon{run: run, idx: idx, c: c, seen: seen}

		env, err := newEnv(run.t, EnvOpts{Namespaces: c16NSConfig(c.Namespaces)})
		if err != nil {
			run.inconclusive(fmt.Sprintf("idx %d: env: %v", idx, err))
			run.end(idx, "", "inconclusive")
			continue
		}
		m.mapperPhase(env)
		env.Close()

		var written []*Tup
		for _, x := range c.tuples {
			if tupTransportable(x) {
				written = append(written, x)
			}
		}
		if len(written) > 0 {
			env2, err := newEnv(run.t, EnvOpts{Namespaces: c16NSConfig(c.Namespaces)})
			if err != nil {
				run.inconclusive(fmt.Sprintf("idx %d: env2: %v", idx, err))
			} else {
				g, err := newGRPC(env2)
				if err != nil {
					run.inconclusive(fmt.Sprintf("idx %d: grpc: %v", idx, err))
				} else {
					reqCtx, cancelReqs := context.WithCancel(env2.Ctx)
					tr := &c16Transport{env: env2, ctx: reqCtx, read: env2.Reg.ReadRouter(env2.Ctx), write: env2.Reg.WriteRouter(env2.Ctx), g: g}
					if idx%4 == 0 {
						m.rollbackRetryPhase(tr, written)
					}
					m.transportPhase(tr, written)
					if !m.fail {
						m.concurrentReadPhase(tr, written)
						m.mixedTransactPhase(tr, written)
						m.deletePhase(tr, written)
					}
					cancelReqs()
					g.Close()
				}
				env2.Close()
			}
		}

		run.count("tuples_mapped", int64(c.N))
		run.count("cases_"+c.Mode, 1)
		run.setAdd("distinct_strings_per_batch", fmt.Sprint(c.Distinct))
		if c.Distinct > 100 {
			run.count("batches_crossing_lookup_page_100", 1)
		}
		if c.Distinct > 200 {
			run.count("batches_crossing_lookup_page_200", 1)
		}
		if c.InvalidUTF8 > 0 {
			run.count("batches_with_invalid_utf8_names", 1)
		}
		// non-trivial: more than one tuple and (a repeated string or a page crossing)
		if c.N > 1 && (c.Distinct < 2*c.N || c.Distinct > 100) {
			run.nontrivial(fmt.Sprintf("case-%d", idx))
		}
		if idx < 4 {
			run.sample(c)
		}
		verdict := "ok"
		if m.fail {
			verdict = "violation"
		}
		run.end(idx, "", verdict)
	}
}

// rollbackRetryPhase: a write request whose transaction is rolled back AFTER
// its names were mapped (a SQLite trigger makes the relationship insert fail),
// followed by a successful retry of the same names on the same server: every
// read must return the written strings. Leaves the relationship table as it
// found it (the phase deletes what it wrote).
func (m *c16Mon) rollbackRetryPhase(tr *c16Transport, written []*Tup) {
	run := m.run
	conn, err := tr.env.Reg.PopConnection(tr.env.Ctx)
	if err != nil {
		return
	}
	sub := written
	if len(sub) > 24 {
		sub = sub[:24]
	}
	ns := sub[0].Namespace
	const poisonRel = "verif-poison-relation"
	if err := conn.RawQuery("CREATE TRIGGER verif_poison BEFORE INSERT ON keto_relation_tuples WHEN NEW.relation = '" + poisonRel + "' BEGIN SELECT RAISE(ABORT, 'verif: injected statement failure'); END").Exec(); err != nil {
		run.inconclusive("C16 rollback-retry: cannot create trigger: " + err.Error())
		return
	}
	patch := func(ts []*Tup, action string) (int, string) {
		var deltas []map[string]any
		for _, t := range ts {
			deltas = append(deltas, map[string]any{"action": action, "relation_tuple": t})
		}
		b, _ := json.Marshal(deltas)
		st, body, pt := serveHTTP(tr.ctx, tr.write, "PATCH", "/admin/relation-tuples", string(b))
		if pt != "" {
			return 0, pt
		}
		return st, body
	}
	poisoned := append(append([]*Tup(nil), sub...), tupID(ns, "verif-poison-object", poisonRel, "verif-poison-subject"))
	st, body := patch(poisoned, "insert")
	_ = conn.RawQuery("DROP TRIGGER verif_poison").Exec()
	run.eval(1)
	if st >= 200 && st < 300 {
		run.inconclusive("C16 rollback-retry: the poisoned write was not refused")
		_, _ = patch(poisoned, "delete")
		return
	}
	run.count("rollback_retry_poisoned_writes_refused", 1)
	if got, e := tr.listREST(url.Values{"namespace": {ns}}, 100); e == "" && len(got) != 0 {
		m.violate("rollback-retry", "C16:rollback-retry:failed-write-left-relationships",
			fmt.Sprintf("a refused PATCH (status %d) left %d relationships behind", st, len(got)), map[string]any{"body": trunc(body, 200)})
	}
	// retry the same names without the failing entry
	if st, body := patch(sub, "insert"); st != 204 {
		m.violate("rollback-retry", fmt.Sprintf("C16:rollback-retry:retry-refused:%d", st),
			"the retry of the same relationships after a rolled-back write was refused: "+trunc(body, 200), nil)
		return
	}
	nss := map[string]bool{}
	for _, t := range sub {
		nss[t.Namespace] = true
	}
	var got []*Tup
	for n := range nss {
		g, e := tr.listREST(url.Values{"namespace": {n}}, 50)
		if e != "" {
			m.violate("rollback-retry", "C16:rollback-retry:list-error", "list after the retry failed: "+e, nil)
			_, _ = patch(sub, "delete")
			return
		}
		got = append(got, g...)
	}
	run.eval(1)
	if class, detail := multisetDiff(sub, got); class != "" {
		m.violate("rollback-retry", "C16:rollback-retry:"+class,
			"after a write was rolled back and the same relationships were written again, list does not return the written strings", detail)
	} else {
		run.count("rollback_retry_roundtrips_ok", 1)
	}
	if st, body := patch(sub, "delete"); st != 204 {
		run.inconclusive("C16 rollback-retry: cleanup failed: " + trunc(body, 200))
	}
}
