package verifh

// Self-test of C10's trusted base against a real JavaScript engine (node, when
// installed): the permission expressions emitted by the renderer (all spelling
// variants, comments included) are evaluated by node for every assignment of
// their leaves and compared with the harness's own TypeScript-precedence
// evaluation (Expr.evalBool) of the generating AST. Not part of any check
// command; run manually: verifh.test -test.run TestC10RendererSelfTest -test.v

import (
	"encoding/json"
	"fmt"
	"os"
	"os/exec"
	"path/filepath"
	"strings"
	"testing"
)

func TestC10RendererSelfTest(t *testing.T) {
	node, err := exec.LookPath("node")
	if err != nil {
		t.Skip("node not installed")
	}
	p := &runParams{Prop: "C10-selftest", Seed: envInt("VERIF_SEED", 1)}
	var js strings.Builder
	js.WriteString("const ctx = {subject: 's'};\nfunction mk(a){ return { related: new Proxy({}, {get: (_, rel) => ({includes: (s, ...rest) => { if (s !== 's') throw new Error('bad subject'); return !!a[rel]; }})}) }; }\nconst cases = [];\n")
	n := 0
	for idx := int64(0); idx < 3000; idx++ {
		r := p.rng(idx, "case")
		leafN := 0
		leaf := func() *Expr { leafN++; return &Expr{Op: "csr", Rel: fmt.Sprintf("x%d", leafN)} }
		var e *Expr
		if idx%2 == 0 {
			e = c10DeepExpr(r, leaf, 1+r.IntN(8))
		} else {
			base := &Cfg{NS: []*NSDef{{Name: "User"}, {Name: "Doc", Rels: []*RelDef{{Name: "a"}, {Name: "b"}, {Name: "c"}, {Name: "d"}}}}}
			e = genExpr(r, base, base.NS[1], nil, genOpts{AllowAnd: true, AllowNot: true, MaxExprDepth: 4}, 1+r.IntN(4))
		}
		var leaves []string
		e.leaves(&leaves)
		if len(leaves) > 10 {
			continue
		}
		st := &renderStyle{R: r}
		if idx%5 == 0 {
			st = &renderStyle{}
		}
		text := st.expr(e, 0)
		var table []bool
		for bits := 0; bits < 1<<len(leaves); bits++ {
			env := map[string]bool{}
			for i, l := range leaves {
				env[l] = bits>>i&1 == 1
			}
			table = append(table, e.evalBool(env))
		}
		lj, _ := json.Marshal(leaves)
		tj, _ := json.Marshal(table)
		fmt.Fprintf(&js, "cases.push({idx: %d, leaves: %s, want: %s, f: function() { return (\n%s\n); }});\n", idx, lj, tj, text)
		n++
	}
	js.WriteString(`let bad = 0;
for (const c of cases) {
  for (let bits = 0; bits < (1 << c.leaves.length); bits++) {
    const a = {}; c.leaves.forEach((l, i) => a[l] = ((bits >> i) & 1) === 1);
    const got = c.f.call(mk(a));
    if (got !== c.want[bits]) { bad++; if (bad < 5) console.log('MISMATCH idx', c.idx, JSON.stringify(a), 'node', got, 'harness', c.want[bits], c.f.toString()); }
  }
}
console.log('cases', cases.length, 'mismatches', bad);
process.exit(bad ? 1 : 0);
`)
	dir := t.TempDir()
	f := filepath.Join(dir, "selftest.js")
	if err := os.WriteFile(f, []byte(js.String()), 0o644); err != nil {
		t.Fatal(err)
	}
	out, err := exec.Command(node, f).CombinedOutput()
	t.Logf("%d expressions\n%s", n, out)
	if err != nil {
		t.Fatalf("node disagrees with the harness (or rejected the rendered text): %v", err)
	}
}
