package verifh

// C03 — storage failures during a check never produce 'allowed'.

import (
	"context"
	"encoding/json"
	"errors"
	"fmt"
	"math/rand/v2"
	"net/http"
	"testing"
	"time"

	"github.com/julienschmidt/httprouter"
	"github.com/ory/herodot"
	"github.com/ory/x/sqlcon"

	"github.com/ory/keto/internal/check"
	"github.com/ory/keto/internal/check/checkgroup"
	"github.com/ory/keto/internal/driver"
	"github.com/ory/keto/internal/x"
	rts "github.com/ory/keto/proto/ory/keto/relation_tuples/v1alpha2"
)

var faultKinds = []struct {
	name string
	err  error
}{
	{"conn", errors.New("dial tcp 10.0.0.1:5432: connect: connection refused")},
	{"canceled", context.Canceled},
	{"deadline", context.DeadlineExceeded},
	{"sqlcon", sqlcon.ErrConcurrentUpdate},
	{"herodot500", herodot.ErrInternalServerError.WithReason("storage unavailable")},
}

// engineCheckPlan runs one check with a fault plan installed.
func engineCheckPlan(env *Env, st *instrStore, eng *check.Engine, q *Tup, depth int, plan *faultPlan, timeout time.Duration) (decision, checkgroup.Result) {
	ctx, cancel := context.WithTimeout(env.Ctx, timeout)
	defer cancel()
	its, err := env.Reg.ReadOnlyMapper().FromTuple(ctx, q)
	if err != nil {
		return decision{Err: "map: " + err.Error()}, checkgroup.Result{}
	}
	cuts0 := env.Hook.cuts()
	st.reset(plan)
	res := eng.CheckRelationTuple(ctx, its[0], depth)
	if ctx.Err() != nil {
		env.dirty = true
	}
	d := decision{Cuts: env.Hook.cuts() - cuts0, Calls: st.calls()}
	if res.Err != nil {
		d.Err = res.Err.Error()
		return d, res
	}
	d.Allowed = res.Membership == checkgroup.IsMember
	return d, res
}

// handler deps with the permission engine replaced by one on the faulty store
type faultyHandlerDeps struct {
	*driver.RegistryDefault
	eng *check.Engine
}

func (d *faultyHandlerDeps) PermissionEngine() *check.Engine { return d.eng }

func TestC03(t *testing.T) {
	run := newRunner(t, "C03")
	defer run.finish()
	p := run.p
	nCases := int64(p.pick(480, 6000))
	for idx := int64(0); idx < nCases; idx++ {
		if !p.mine(idx) {
			continue
		}
		r := p.rng(idx, "case")
		var cc *checkCase
		switch idx % 3 {
		case 0:
			cc = genDenseCase(r, idx*2) // even idx: negation allowed
		case 1:
			cc = genChainCase(r, idx)
		default:
			cc = genCheckCase(r, idx*3, nil)
		}
		if idx%24 == 7 {
			cc = genWideTraverseCase(r)
		}
		run.begin(idx, "", cc)
		verdict := runC03Case(run, idx, cc)
		run.end(idx, "", verdict)
	}
}

// genWideTraverseCase: a traversed relation with more rows than one listing page
// (100) on one object, below a negation: `view = viewer && !parent.traverse(p =>
// p.banned)`; the one or two parents that ban the subject sit anywhere in the
// listing, so the listing of the second page is a storage call of its own.
func genWideTraverseCase(r *rand.Rand) *checkCase {
	cc := &checkCase{Variant: "wide-traverse"}
	ut := []TypeRef{{NS: "User"}}
	cc.Cfg = &Cfg{NS: []*NSDef{{Name: "User"},
		{Name: "Folder", Rels: []*RelDef{{Name: "banned", Types: ut}}},
		{Name: "Doc", Rels: []*RelDef{{Name: "viewer", Types: ut}, {Name: "parent", Types: []TypeRef{{NS: "Folder"}}},
			{Name: "view", Perm: true, Rewrite: &Expr{Op: "and", Kids: []*Expr{{Op: "csr", Rel: "viewer"}, {Op: "not", Kids: []*Expr{{Op: "ttu", Rel: "parent", Comp: "banned"}}}}}}}}}}
	n := 101 + r.IntN(80)
	var ts []*Tup
	for i := 0; i < n; i++ {
		ts = append(ts, tupSet("Doc", "d", "parent", "Folder", fmt.Sprintf("f%d", i), ""))
	}
	for _, u := range []string{"alice", "bob", "carol"} {
		ts = append(ts, tupID("Doc", "d", "viewer", u))
	}
	ts = append(ts, tupID("Folder", fmt.Sprintf("f%d", r.IntN(n)), "banned", "alice"))
	ts = append(ts, tupID("Folder", fmt.Sprintf("f%d", r.IntN(n)), "banned", "carol"), tupID("Folder", fmt.Sprintf("f%d", r.IntN(n)), "banned", "carol"))
	cc.tuples = ts
	cc.queries = []*Tup{tupID("Doc", "d", "view", "alice"), tupID("Doc", "d", "view", "bob"), tupID("Doc", "d", "view", "carol")}
	cc.Tuples = tupStrings(ts[:20])
	cc.Queries = tupStrings(cc.queries)
	return cc
}

func runC03Case(run *runner, idx int64, cc *checkCase) string {
	verdict := "ok"
	strict := idx%4 == 3 && cfgIsOPLRenderable(cc.Cfg)
	opts := EnvOpts{MaxDepth: 8, MaxWidth: 100, Extra: map[string]any{"limit.max_batch_check_size": 64}}
	if cc.Variant == "wide-traverse" {
		opts.MaxWidth = 400
	}
	if idx%3 == 1 {
		// entries of a batch are then checked one after the other, in request order
		opts.Extra["limit.batch_check_max_parallelization"] = 1
	}
	modeName := "ast-default"
	if strict {
		text := (&renderStyle{FullParens: true}).render(cc.Cfg)
		if _, errs := parseOPL(text); len(errs) > 0 {
			run.count("opl_rejected_skipped", 1)
			return "skipped"
		}
		opts.OPL, opts.Strict = text, true
		cc.OPL = text
		modeName = "opl-strict"
	} else {
		opts.Namespaces = cc.Cfg.toKeto()
	}
	env, err := newEnv(run.t, opts)
	if err != nil {
		run.inconclusive(fmt.Sprintf("idx %d: env: %v", idx, err))
		return "inconclusive"
	}
	defer env.Close()
	if err := env.Write(shuffled(run.p.rng(idx, "order"), cc.tuples)...); err != nil {
		run.inconclusive(fmt.Sprintf("idx %d: write: %v", idx, err))
		return "inconclusive"
	}
	st, eng, _ := env.instrumented()
	reported := map[string]bool{}
	report := func(sig, summary string, sub string, detail any) {
		verdict = "violation"
		if reported[sig] {
			run.count("violations_same_sig_same_case", 1)
			return
		}
		reported[sig] = true
		run.violate(violation{Index: idx, Sub: sub, Sig: sig, Summary: summary, Case: cc, Detail: detail})
	}
	maxN := int64(run.p.pick(40, 80))
	for qi, q := range cc.queries {
		d0, _ := engineCheckPlan(env, st, eng, q, 0, nil, 10*time.Second)
		if d0.Err != "" {
			run.count("faultfree_error_skipped", 1)
			continue
		}
		// Answers under a BINDING depth / width limit are legitimately nondeterministic
		// (DESIGN §9.1): such a query has no single fault-free answer to compare with.
		// It is judged only when no cut is logged and three fault-free runs agree.
		binding := d0.Cuts > 0
		for rep := 0; rep < 2 && !binding; rep++ {
			dr, _ := engineCheckPlan(env, st, eng, q, 0, nil, 10*time.Second)
			if dr.Cuts > 0 || dr.String() != d0.String() {
				binding = true
			}
		}
		if binding {
			run.count("queries_under_binding_limit_not_judged", 1)
			continue
		}
		d0, _ = engineCheckPlan(env, st, eng, q, 0, nil, 10*time.Second)
		ops0 := st.opKinds()
		N := d0.Calls
		if N == 0 {
			run.count("no_storage_calls", 1)
			continue
		}
		if N > maxN {
			run.count("too_many_calls_capped", 1)
			N = maxN
		}
		judge := func(plan *faultPlan, k int64, opKind, fname, where string) {
			d, res := engineCheckPlan(env, st, eng, q, 0, plan, 2*time.Second)
			run.eval(1)
			if st.faulted == 0 {
				run.count("fault_position_not_reached", 1)
				return
			}
			run.count("fault_reached:"+opKind, 1)
			run.nontrivial(fmt.Sprintf("%d/%d/%s/%v", idx, qi, where, plan.Persistent))
			sub := fmt.Sprintf("%s/q%d/%s/%v/%s", modeName, qi, where, plan.Persistent, fname)
			detail := map[string]any{"query": q.String(), "position": where, "persistent": plan.Persistent, "fault": fname, "op": opKind, "fault_free": d0.String(), "result": d.String()}
			if isNoDecision(d) && fname != "canceled" && fname != "deadline" {
				run.count("timeout_no_decision", 1) // C15 decides non-termination
				return
			}
			if d.Cuts > 0 {
				run.count("faulted_runs_under_binding_limit_not_judged", 1)
				return
			}
			if res.Err != nil && res.Membership == checkgroup.IsMember {
				report(fmt.Sprintf("C03:error-and-allowed:%s", opKind),
					fmt.Sprintf("check %s with storage call %s (%s) failing returned BOTH an error and IsMember", q, where, opKind), sub, detail)
				return
			}
			if d.Err != "" {
				run.count("answered_error", 1)
				return
			}
			if d.Allowed == d0.Allowed {
				run.count("answered_same", 1)
				return
			}
			dir := "denied-instead-of-error"
			if d.Allowed {
				dir = "ALLOWED-on-fault"
			}
			report(fmt.Sprintf("C03:%s:%s:%s", dir, opKind, exprOpsInCfgShort(cc.Cfg, d.Allowed)),
				fmt.Sprintf("check %s: fault-free answer %s, with storage call %s (%s, %s, persistent=%v) failing the answer is %s (no error)", q, d0, where, opKind, fname, plan.Persistent, d), sub, detail)
		}
		for k := int64(1); k <= N; k++ {
			for _, persistent := range []bool{false, true} {
				fk := faultKinds[int(k+idx+int64(qi))%len(faultKinds)]
				if persistent {
					fk = faultKinds[int(k+idx+int64(qi)+2)%len(faultKinds)]
				}
				opKind := "?"
				if int(k) <= len(ops0) {
					opKind = ops0[k-1]
				}
				judge(&faultPlan{FailAt: k, Persistent: persistent, Err: fk.err}, k, opKind, fk.name, fmt.Sprintf("k%d", k))
			}
		}
		// every KIND of storage operation at its first, second and last occurrence -
		// also beyond the cap above (the second page of a listing comes after the
		// sub-checks of the first hundred rows)
		occ := map[string]int64{}
		for _, o := range ops0 {
			occ[o]++
		}
		for _, op := range []string{"Get", "TravExp", "TravRew", "Exists"} {
			n := occ[op]
			seenNth := map[int64]bool{}
			for _, nth := range []int64{1, 2, n} {
				if nth < 1 || nth > n || seenNth[nth] {
					continue
				}
				seenNth[nth] = true
				for _, persistent := range []bool{false, true} {
					fk := faultKinds[int(nth+idx+int64(qi))%len(faultKinds)]
					judge(&faultPlan{FailOp: op, FailOpNth: nth, Persistent: persistent, Err: fk.err}, 0, op, fk.name, fmt.Sprintf("%s#%d-of-%d", op, nth, n))
				}
			}
		}
	}
	// batch entries through the real handler on the faulty engine
	runC03Batch(run, idx, cc, env, st, eng, modeName, report)
	run.sample(map[string]any{"variant": cc.Variant, "config": cc.Cfg, "tuples": cc.Tuples, "queries": cc.Queries})
	return verdict
}

// exprOpsInCfgShort: for wrong-allow findings the discriminator is whether the
// configuration contains a negation at all (without one, a failure cannot turn
// a denial into an allow through inversion).
func exprOpsInCfgShort(c *Cfg, allowed bool) string {
	if !allowed {
		return "-"
	}
	if c.hasOp("not") {
		return "cfg-has-not"
	}
	return "cfg-without-not"
}

func runC03Batch(run *runner, idx int64, cc *checkCase, env *Env, st *instrStore, eng *check.Engine, modeName string, report func(sig, summary, sub string, detail any)) {
	deps := &faultyHandlerDeps{RegistryDefault: env.Reg, eng: eng}
	h := check.NewHandler(deps)
	rr := &x.ReadRouter{Router: httprouter.New()}
	h.RegisterReadRoutes(rr)
	// every query twice (and once more at the end in reverse order): entries of one
	// batch that need the SAME storage lookups, of which only the first meets the fault
	batch := append(append([]*Tup(nil), cc.queries...), cc.queries...)
	for i := len(cc.queries) - 1; i >= 0 && len(batch) < 60; i-- {
		batch = append(batch, cc.queries[i])
	}
	if len(batch) > 60 {
		batch = batch[:60]
	}
	body, _ := json.Marshal(map[string]any{"tuples": batch})
	var protoTuples []*rts.RelationTuple
	for _, q := range batch {
		protoTuples = append(protoTuples, q.ToProto())
	}
	type entry struct {
		Allowed bool   `json:"allowed"`
		Error   string `json:"error"`
	}
	// fault-free batch (three runs): number of calls, and per entry whether it was
	// ever answered allowed / ever answered with an error
	everAllowed := make([]bool, len(batch))
	everError := make([]bool, len(batch))
	var N int64
	cutsFF := env.Hook.cuts()
	for rep := 0; rep < 3; rep++ {
		st.reset(nil)
		code, respBody, pt := httpDo(rr, http.MethodPost, check.BatchRoute, string(body), nil)
		if pt != "" || code != 200 {
			run.count("batch_faultfree_not_200", 1)
			return
		}
		var resp struct {
			Results []entry `json:"results"`
		}
		if err := json.Unmarshal([]byte(respBody), &resp); err != nil || len(resp.Results) != len(batch) {
			run.count("batch_faultfree_undecodable", 1)
			return
		}
		for i, e := range resp.Results {
			everAllowed[i] = everAllowed[i] || e.Allowed
			everError[i] = everError[i] || e.Error != ""
		}
		if n := st.calls(); n > N {
			N = n
		}
	}
	if env.Hook.cuts() != cutsFF {
		// some entry of the fault-free batch runs under a binding limit: its answer may
		// vary from run to run, the batch has no fault-free reference
		run.count("batches_under_binding_limit_not_judged", 1)
		return
	}
	if N > int64(run.p.pick(30, 60)) {
		N = int64(run.p.pick(30, 60))
	}
	for k := int64(1); k <= N; k++ {
		fk := faultKinds[int(k+idx)%len(faultKinds)]
		for _, transport := range []string{"rest", "grpc"} {
			st.reset(&faultPlan{FailAt: k, Persistent: k%2 == 0, Err: fk.err})
			cutsRun := env.Hook.cuts()
			var entries []entry
			if transport == "rest" {
				code, respBody, pt := httpDoCtx(env.Ctx, 5*time.Second, rr, http.MethodPost, check.BatchRoute, string(body), nil)
				if pt != "" {
					report("C03:batch-panic:"+topFrames(pt, 2), "REST batch check panicked under a storage fault: "+firstLine(pt), fmt.Sprintf("batch/rest/k%d", k), pt)
					continue
				}
				if code != 200 {
					run.count("batch_rest_non200", 1)
					continue
				}
				var resp struct {
					Results []entry `json:"results"`
				}
				if err := json.Unmarshal([]byte(respBody), &resp); err != nil {
					continue
				}
				entries = resp.Results
			} else {
				var resp *rts.BatchCheckResponse
				var err error
				pt := guard(func() {
					ctx, cancel := context.WithTimeout(env.Ctx, 5*time.Second)
					defer cancel()
					resp, err = h.BatchCheck(ctx, &rts.BatchCheckRequest{Tuples: protoTuples})
				})
				if pt != "" {
					report("C03:batch-panic:"+topFrames(pt, 2), "gRPC batch check panicked under a storage fault: "+firstLine(pt), fmt.Sprintf("batch/grpc/k%d", k), pt)
					continue
				}
				if err != nil || resp == nil {
					run.count("batch_grpc_error", 1)
					continue
				}
				for _, r := range resp.Results {
					entries = append(entries, entry{Allowed: r.Allowed, Error: r.Error})
				}
			}
			run.eval(1)
			run.count("batch_runs", 1)
			for i, e := range entries {
				if e.Error != "" {
					run.count("batch_entries_with_error", 1)
				}
				if e.Allowed && e.Error != "" {
					report("C03:batch-entry-allowed-with-error:"+transport,
						fmt.Sprintf("%s batch check entry %d (%s) says allowed:true together with error %q (storage call #%d failing)", transport, i, batch[i], e.Error, k),
						fmt.Sprintf("batch/%s/k%d/e%d", transport, k, i), map[string]any{"k": k, "fault": fk.name, "entry": e})
				}
				if i < len(batch) && e.Allowed && e.Error == "" && !everAllowed[i] && !everError[i] && env.Hook.cuts() == cutsRun {
					run.count("batch_entries_compared_with_fault_free", 1)
					report("C03:batch-ALLOWED-on-fault:"+transport+":"+exprOpsInCfgShort(cc.Cfg, true),
						fmt.Sprintf("%s batch check entry %d (%s) is answered allowed:true without an error while storage call #%d of the request fails (%s); the same batch without a fault answers this entry denied (3 runs)", transport, i, batch[i], k, fk.name),
						fmt.Sprintf("batch/%s/k%d/e%d", transport, k, i), map[string]any{"k": k, "fault": fk.name, "entry_index": i, "entries": len(batch), "ops": st.opKinds()})
				}
			}
		}
	}
}
