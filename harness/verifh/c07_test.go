package verifh

// C07 — pagination returns every matching relationship exactly once.
//
// Families of cases (idx % 8):
//
//  iter (0..5)  a database holding a STABLE multiset whose matches for one query
//     Q (any of the 16 shapes) number m in {0,1,2,99,100,101,199,200,201,250},
//     plus non-matching rows and VOLATILE rows (matching and not). Q is listed
//     to the end for every page size in {0,1,2,3,50,100,101,1000, m-1,m,m+1}
//     through Manager.GetRelationTuples (x.WithSize / x.WithToken), REST and gRPC
//     (rotating). Oracles without writer (pagesOracle): concatenation = match
//     multiset, |page| <= effective size, token empty exactly when nothing
//     remains. Then selected sizes are listed again while a writer inserts and
//     deletes volatile rows between page fetches (random shard ids: both sides of
//     the cursor by volume): every stable row exactly once, volatile rows at most
//     as often as they existed, nothing else, |page| <= effective size.
//  token (6)    a small database listed with page size 1 (all tokens known), then
//     token mutations on all three transports: truncated / non-UUID (must be a
//     client error, never 5xx / Internal / Unknown / panic, never accepted),
//     upper case and other spellings of the same UUID (same page or client
//     error), the token of another position of the same iteration (exactly that
//     position's continuation), tokens of other queries / random UUIDs (client
//     error, or a page of matches only); negative and non-numeric page sizes
//     (client error); page sizes up to MaxInt64 (everything in one page, or a
//     client error).
//  internal (7) the internal consumers of pagination: expand engine and check
//     engine (tuple-to-subject-set traverse) over > 100 children through keto's
//     ManagerWrapper forcing page sizes 1..3, and through REST / gRPC with the
//     default size; the traverser's own 1000-row paging (subject-set expansion
//     over 999..2001 subject sets). Oracles: expandOracle / refsem.

import (
	"context"
	"fmt"
	"math"
	"math/rand/v2"
	"strings"
	"sync"
	"testing"

	"github.com/gofrs/uuid"

	"github.com/ory/keto/internal/check"
	"github.com/ory/keto/internal/expand"
	"github.com/ory/keto/ketoapi"
)

var c07MatchSizes = []int{0, 1, 2, 99, 100, 101, 199, 200, 201, 250}
var c07PageSizes = []int{0, 1, 2, 3, 50, 100, 101, 1000}

type c07Case struct {
	Family string `json:"family"`
	// iter
	Shape      int      `json:"shape,omitempty"`
	ShapeStr   string   `json:"shape_letters,omitempty"`
	M          int      `json:"matches,omitempty"`
	Key        *Tup     `json:"key,omitempty"`
	Namespaces []string `json:"namespaces,omitempty"`
	NStable    int      `json:"stable_rows,omitempty"`
	NVolatile  int      `json:"volatile_rows,omitempty"`
	PageSizes  []int    `json:"page_sizes,omitempty"`
	// token
	N int `json:"rows,omitempty"`
	// internal
	Kind     string `json:"kind,omitempty"`
	Children int    `json:"children,omitempty"`
	GrantAt  int    `json:"grant_at,omitempty"`

	query    *ketoapi.RelationQuery
	stable   []*Tup // all stable rows (matching and not)
	volatile []*Tup // initial volatile rows
	universe *storeUniverse
	rows     []*Tup
}

// --- iter family ------------------------------------------------------------

var c07StableObjs = []string{"o0", "o1", "o2", "o3"}
var c07StableRels = []string{"r0", "r1", "r2"}
var c07StableIDs = []string{"u0", "u1", "u2", "u3"}

type c07Gen struct {
	r     *rand.Rand
	ns    []string // ns[0], ns[1] stable pool, ns[2] volatile pool
	key   *Tup
	shape int
	wn    int
}

func (g *c07Gen) stableSubject(t *Tup) {
	t.SubjectID, t.SubjectSet = nil, nil
	if g.r.IntN(3) == 0 {
		t.SubjectSet = &ketoapi.SubjectSet{Namespace: g.ns[g.r.IntN(2)], Object: pickS(g.r, c07StableObjs), Relation: pickS(g.r, c07StableRels)}
	} else {
		t.SubjectID = sp(pickS(g.r, c07StableIDs))
	}
}

// matching returns a row that agrees with the key on the fixed fields; free
// fields come from the stable pools, or (volatile=true) at least one of them
// from the volatile pools, so that volatile keys never equal stable keys.
func (g *c07Gen) matching(volatile bool) *Tup {
	t := cloneTup(g.key)
	free := []int{}
	for b := 0; b < 4; b++ {
		if g.shape&(1<<b) == 0 {
			free = append(free, b)
		}
	}
	vol := -1
	if volatile && len(free) > 0 {
		vol = free[g.r.IntN(len(free))]
	}
	for _, b := range free {
		v := b == vol || (volatile && g.r.IntN(3) == 0)
		switch b {
		case 0:
			if v {
				t.Namespace = g.ns[2]
			} else {
				t.Namespace = g.ns[g.r.IntN(2)]
			}
		case 1:
			if v {
				g.wn++
				t.Object = fmt.Sprintf("w%d", g.wn)
			} else {
				t.Object = pickS(g.r, c07StableObjs)
			}
		case 2:
			if v {
				g.wn++
				t.Relation = fmt.Sprintf("wr%d", g.wn)
			} else {
				t.Relation = pickS(g.r, c07StableRels)
			}
		case 3:
			if v {
				g.wn++
				t.SubjectID, t.SubjectSet = sp(fmt.Sprintf("wu%d", g.wn)), nil
			} else {
				g.stableSubject(t)
			}
		}
	}
	return t
}

// nonMatching perturbs one fixed field of a matching row (shape != 0).
func (g *c07Gen) nonMatching(volatile bool) *Tup {
	t := g.matching(volatile)
	var fixed []int
	for b := 0; b < 4; b++ {
		if g.shape&(1<<b) != 0 {
			fixed = append(fixed, b)
		}
	}
	if len(fixed) == 0 {
		return nil
	}
	tag := "x"
	if volatile {
		g.wn++
		tag = fmt.Sprintf("w%d-", g.wn)
	}
	switch fixed[g.r.IntN(len(fixed))] {
	case 0:
		for _, n := range g.ns {
			if n != g.key.Namespace {
				t.Namespace = n
			}
		}
		if volatile {
			// a namespace cannot be made unique: make the row volatile through another field too
			g.wn++
			t.Object = fmt.Sprintf("w%d", g.wn)
			if g.shape&2 != 0 && t.Object == g.key.Object {
				t.Object += "'"
			}
		} else if g.shape&2 == 0 {
			t.Object = pickS(g.r, c07StableObjs)
		}
	case 1:
		t.Object = tag + "other-" + pickS(g.r, c07StableObjs)
	case 2:
		t.Relation = tag + "other-" + pickS(g.r, c07StableRels)
	case 3:
		t.SubjectID, t.SubjectSet = sp(tag+"other-"+pickS(g.r, c07StableIDs)), nil
	}
	return t
}

func genC07Iter(r *rand.Rand, idx int64) *c07Case {
	c := &c07Case{Family: "iter"}
	c.Shape = r.IntN(16)
	c.ShapeStr = shapeLetters(c.Shape)
	c.M = c07MatchSizes[r.IntN(len(c07MatchSizes))]
	large := idx%40 == 13
	if large {
		// more matches than any internal cap could be (page sizes above 1000 are legal)
		c.M = []int{1001, 1002, 1500, 2300}[(idx/40)%4]
	}
	c.Namespaces = shuffled(r, storeNSPool)[:3]
	g := &c07Gen{r: r, ns: c.Namespaces, shape: c.Shape}
	g.key = &Tup{Namespace: c.Namespaces[r.IntN(2)], Object: pickS(r, c07StableObjs), Relation: pickS(r, c07StableRels)}
	g.stableSubject(g.key)
	if r.IntN(4) == 0 {
		// adversarial strings in the key's fields
		g.key.Object = advShort(r, 80)
		if r.IntN(2) == 0 {
			g.key.Relation = advShort(r, 40)
		}
	}
	c.Key = g.key
	c.query = queryOfShape(c.Shape, g.key)
	// initial volatile matching rows count towards the matches of the static iterations
	nVolMatch := 0
	if c.Shape != 15 && c.M >= 2 {
		nVolMatch = r.IntN(minInt(c.M, 12))
	}
	for i := 0; i < c.M-nVolMatch; i++ {
		c.stable = append(c.stable, g.matching(false))
	}
	for i := 0; i < nVolMatch; i++ {
		c.volatile = append(c.volatile, g.matching(true))
	}
	if c.Shape != 0 {
		for i, n := 0, r.IntN(30); i < n; i++ {
			c.stable = append(c.stable, g.nonMatching(false))
		}
		for i, n := 0, r.IntN(10); i < n; i++ {
			c.volatile = append(c.volatile, g.nonMatching(true))
		}
	}
	c.stable = shuffled(r, c.stable)
	c.NStable, c.NVolatile = len(c.stable), len(c.volatile)
	seen := map[int]bool{}
	sizes := append([]int(nil), c07PageSizes...)
	if large {
		sizes = []int{100, 1000, 1001, 5000, 1 << 20}
	}
	for _, s := range append(sizes, c.M-1, c.M, c.M+1) {
		if s >= 0 && !seen[s] {
			seen[s] = true
			c.PageSizes = append(c.PageSizes, s)
		}
	}
	return c
}

type c07Mon struct {
	run  *runner
	idx  int64
	c    *c07Case
	fail bool
	seen map[string]int
}

func (m *c07Mon) violate(sub, sig, summary string, detail any) {
	m.fail = true
	m.seen[sig]++
	if m.seen[sig] > 3 {
		m.run.count("violations_beyond_3_per_signature", 1)
		return
	}
	m.run.violate(violation{Index: m.idx, Sub: sub, Sig: sig, Summary: trunc(summary, 900), Case: m.c, Detail: detail})
}

// iterate lists q to the end with one page size; between is called after every
// page that announced a successor.
func c07Iterate(d storeDriver, q *ketoapi.RelationQuery, size int, between func(page int)) (pages []pageObs, ans opAnswer) {
	token := ""
	for i := 0; i < 3000; i++ {
		pa := d.page(q, size, true, token)
		if pa.Class != "ok" {
			return pages, pa.opAnswer
		}
		pages = append(pages, pageObs{Rows: pa.Rows, Next: pa.Next})
		if pa.Next == "" {
			return pages, pa.opAnswer
		}
		if between != nil {
			between(i)
		}
		token = pa.Next
	}
	return pages, opAnswer{Class: "harness", Code: "no-end", Text: "pagination did not end after 3000 pages"}
}

func pageCountClass(pages int) string {
	switch {
	case pages <= 1:
		return "1"
	case pages == 2:
		return "2"
	case pages <= 10:
		return "3-10"
	}
	return ">10"
}

func sizeClass(size, m int) string {
	switch {
	case size == 0:
		return "default"
	case m > 0 && size == m:
		return "m"
	case m > 0 && size == m-1:
		return "m-1"
	case size == m+1:
		return "m+1"
	case size <= 3:
		return "small"
	}
	return "large"
}

func (m *c07Mon) runIter(env *Env, drivers []storeDriver) {
	c, run := m.c, m.run
	if err := env.Write(append(append([]*Tup(nil), c.stable...), c.volatile...)...); err != nil {
		run.inconclusive(fmt.Sprintf("idx %d: write: %v", m.idx, err))
		return
	}
	model := newRefStore()
	model.create("s", c.stable...)
	model.create("v", c.volatile...)
	want := append(model.match("s", c.query), model.match("v", c.query)...)
	if len(want) != c.M {
		m.violate("gen", "C07:harness:match-size", fmt.Sprintf("generated %d matches, wanted %d", len(want), c.M), nil)
		return
	}
	// --- static iterations
	for si, size := range c.PageSizes {
		d := drivers[(int(m.idx)+si)%len(drivers)]
		eff := effPageSize(size)
		pages, ans := c07Iterate(d, c.query, size, nil)
		run.eval(1)
		run.count("iterations_static", 1)
		run.count("pages_fetched", int64(len(pages)))
		run.setAdd("shape_x_m", fmt.Sprintf("%d/%d", c.Shape, c.M))
		run.setAdd("transport_x_sizeclass", d.name()+"/"+sizeClass(size, c.M))
		sub := fmt.Sprintf("static/%s/size%d", d.name(), size)
		if ans.Class != "ok" {
			m.violate(sub, fmt.Sprintf("C07:list-error:%s:%s", d.name(), ans.Code), fmt.Sprintf("listing %s with page size %d via %s failed after %d pages: %s %s", descQuery(c.query), size, d.name(), len(pages), ans.Code, ans.Text), nil)
			continue
		}
		if len(pages) >= 2 {
			run.nontrivial(fmt.Sprintf("%d/s/%d", m.idx, si))
		}
		if cls, det := pagesOracle(want, pages, eff); cls != "" {
			m.violate(sub, fmt.Sprintf("C07:static:%s:%s:size=%s:pages=%s", cls, d.name(), sizeClass(size, c.M), pageCountClass(len(pages))),
				fmt.Sprintf("listing %s (%d matches, shape %s) with page size %d via %s: %s %v", descQuery(c.query), c.M, c.ShapeStr, size, d.name(), cls, det),
				map[string]any{"page_size": size, "detail": det, "page_lengths": pageLens(pages)})
		}
	}
	// --- concurrent iterations: the same unchanged rows listed by several clients
	// at once, each with its own page size and transport; every client must get
	// exactly what it gets alone (state shared between requests would show here)
	if len(c.PageSizes) >= 2 {
		type conc struct {
			size  int
			d     storeDriver
			pages []pageObs
			ans   opAnswer
		}
		for round := 0; round < 2; round++ {
			var cs []*conc
			for si, size := range c.PageSizes {
				if len(cs) >= 8 {
					break
				}
				cs = append(cs, &conc{size: size, d: drivers[(int(m.idx)+si+round)%len(drivers)]})
			}
			var wg sync.WaitGroup
			start := make(chan struct{})
			for _, k := range cs {
				wg.Add(1)
				go func(k *conc) {
					defer wg.Done()
					<-start
					k.pages, k.ans = c07Iterate(k.d, c.query, k.size, nil)
				}(k)
			}
			close(start)
			wg.Wait()
			for _, k := range cs {
				run.eval(1)
				run.count("iterations_concurrent", 1)
				run.count("pages_fetched", int64(len(k.pages)))
				sub := fmt.Sprintf("concurrent%d/%s/size%d", round, k.d.name(), k.size)
				if k.ans.Class != "ok" {
					m.violate(sub, fmt.Sprintf("C07:list-error:concurrent:%s:%s", k.d.name(), k.ans.Code), fmt.Sprintf("listing %s with page size %d via %s next to %d other clients failed after %d pages: %s %s", descQuery(c.query), k.size, k.d.name(), len(cs)-1, len(k.pages), k.ans.Code, k.ans.Text), nil)
					continue
				}
				if cls, det := pagesOracle(want, k.pages, effPageSize(k.size)); cls != "" {
					m.violate(sub, fmt.Sprintf("C07:concurrent:%s:%s:size=%s", cls, k.d.name(), sizeClass(k.size, c.M)),
						fmt.Sprintf("listing %s (%d matches, unchanged rows) with page size %d via %s while %d other clients list the same rows with other page sizes: %s %v", descQuery(c.query), c.M, k.size, k.d.name(), len(cs)-1, cls, det),
						map[string]any{"page_size": k.size, "detail": det, "page_lengths": pageLens(k.pages), "other_page_sizes": c.PageSizes})
				}
			}
		}
	}
	// --- iterations under interleaved writes
	g := &c07Gen{r: run.p.rng(m.idx, "writer"), ns: c.Namespaces, key: c.Key, shape: c.Shape, wn: 1000000}
	wr := g.r
	var cand []int
	for _, s := range c.PageSizes {
		eff := effPageSize(s)
		if p := (c.M + eff - 1) / eff; p >= 2 && p <= 70 {
			cand = append(cand, s)
		}
	}
	cand = shuffled(wr, cand)
	if len(cand) > 4 {
		cand = cand[:4]
	}
	stableMatch := model.match("s", c.query)
	stableCnt := map[string]int{}
	for _, t := range stableMatch {
		stableCnt[tupKey(t)]++
	}
	for wi, size := range cand {
		d := drivers[(int(m.idx)+wi+1)%len(drivers)]
		wd := drivers[(int(m.idx)+wi)%len(drivers)] // the writer uses another transport
		eff := effPageSize(size)
		ever := map[string]int{}
		for _, t := range model.match("v", c.query) {
			ever[tupKey(t)]++
		}
		writes, writeFail := 0, ""
		between := func(page int) {
			op := &storeOp{Kind: "patch", Via: "mgr"}
			vol := model.rows("v")
			for k, n := 0, wr.IntN(4); k < n && len(vol) > 0; k++ {
				op.Deltas = append(op.Deltas, &ketoapi.PatchDelta{Action: ketoapi.ActionDelete, RelationTuple: vol[wr.IntN(len(vol))]})
			}
			for k, n := 0, 1+wr.IntN(8); k < n; k++ {
				var t *Tup
				if c.Shape != 0 && wr.IntN(3) == 0 {
					t = g.nonMatching(true)
				} else if c.Shape != 15 {
					t = g.matching(true)
				} else {
					t = g.nonMatching(true)
				}
				op.Deltas = append(op.Deltas, &ketoapi.PatchDelta{Action: ketoapi.ActionInsert, RelationTuple: t})
				if matchesQuery(t, c.query) {
					ever[tupKey(t)]++
				}
			}
			if ans := wd.apply(op); !ans.accepted() {
				writeFail = ans.Code + " " + ans.Text
				return
			}
			op.applyModel(model, "v")
			writes++
		}
		pages, ans := c07Iterate(d, c.query, size, between)
		run.eval(1)
		run.count("iterations_with_writer", 1)
		run.count("pages_fetched", int64(len(pages)))
		run.count("writer_transactions", int64(writes))
		sub := fmt.Sprintf("writer/%s/size%d", d.name(), size)
		if writeFail != "" {
			run.inconclusive(fmt.Sprintf("idx %d %s: writer failed: %s", m.idx, sub, writeFail))
			return
		}
		if ans.Class != "ok" {
			m.violate(sub, fmt.Sprintf("C07:list-error:%s:%s", d.name(), ans.Code), fmt.Sprintf("listing %s with page size %d via %s under writes failed after %d pages: %s %s", descQuery(c.query), size, d.name(), len(pages), ans.Code, ans.Text), nil)
			continue
		}
		if len(pages) >= 2 {
			run.nontrivial(fmt.Sprintf("%d/w/%d", m.idx, wi))
		}
		got := map[string]int{}
		byKey := map[string]*Tup{}
		for pi, p := range pages {
			if len(p.Rows) > eff {
				m.violate(sub, fmt.Sprintf("C07:writer:page-too-long:%s", d.name()), fmt.Sprintf("page %d holds %d rows, effective size %d", pi, len(p.Rows), eff), nil)
			}
			for _, t := range p.Rows {
				got[tupKey(t)]++
				byKey[tupKey(t)] = t
			}
		}
		for k, n := range stableCnt {
			if got[k] != n {
				cls := "stable-row-missing"
				if got[k] > n {
					cls = "stable-row-repeated"
				}
				m.violate(sub, fmt.Sprintf("C07:writer:%s:%s:size=%s", cls, d.name(), sizeClass(size, c.M)),
					fmt.Sprintf("listing %s (%d stable matches) with page size %d via %s while a writer committed %d transactions on other rows: a stable tuple present %d time(s) was returned %d time(s) over %d pages",
						descQuery(c.query), len(stableMatch), size, d.name(), writes, n, got[k], len(pages)), map[string]any{"page_size": size, "tuple": k, "page_lengths": pageLens(pages)})
				break
			}
		}
		for k, n := range got {
			if stableCnt[k] > 0 {
				continue
			}
			if n > ever[k] {
				cls := "volatile-row-repeated"
				if ever[k] == 0 {
					cls = "unknown-row"
				}
				m.violate(sub, fmt.Sprintf("C07:writer:%s:%s", cls, d.name()), fmt.Sprintf("tuple %s returned %d time(s), it existed %d time(s) during the iteration", descTup(byKey[k]), n, ever[k]), nil)
				break
			}
		}
	}
}

func pageLens(pages []pageObs) []int {
	out := make([]int, 0, minInt(len(pages), 40))
	for i, p := range pages {
		if i >= 40 {
			break
		}
		out = append(out, len(p.Rows))
	}
	return out
}

// --- token family -----------------------------------------------------------

func genC07Token(r *rand.Rand, idx int64) *c07Case {
	c := &c07Case{Family: "token", universe: genStoreUniverse(r)}
	c.Namespaces = c.universe.Namespaces
	c.N = 6 + r.IntN(30)
	for i := 0; i < c.N; i++ {
		c.rows = append(c.rows, c.universe.tuple(r))
	}
	return c
}

func samePage(a, b pageAnswer) bool {
	if a.Next != b.Next || len(a.Rows) != len(b.Rows) {
		return false
	}
	for i := range a.Rows {
		if tupKey(a.Rows[i]) != tupKey(b.Rows[i]) {
			return false
		}
	}
	return true
}

func (m *c07Mon) runToken(env *Env, drivers []storeDriver) {
	c, run := m.c, m.run
	r := run.p.rng(m.idx, "token")
	if err := env.Write(c.rows...); err != nil {
		run.inconclusive(fmt.Sprintf("idx %d: write: %v", m.idx, err))
		return
	}
	all := &ketoapi.RelationQuery{}
	// the whole table, one row per page: order[i] is the i-th row, tok[i] the token after it
	var order []*Tup
	var tok []string
	pages, ans := c07Iterate(drivers[0], all, 1, nil)
	if ans.Class != "ok" || len(pages) != c.N {
		m.violate("base", "C07:static:base-iteration", fmt.Sprintf("listing everything with page size 1 gave %d pages for %d rows (%s %s)", len(pages), c.N, ans.Code, ans.Text), nil)
		return
	}
	for _, p := range pages {
		if len(p.Rows) != 1 {
			m.violate("base", "C07:static:base-iteration", "a page of size 1 does not hold one row", nil)
			return
		}
		order = append(order, p.Rows[0])
		tok = append(tok, p.Next)
	}
	// expected continuation after position i for query q and page size s
	cont := func(i int, q *ketoapi.RelationQuery, s int) pageAnswer {
		eff := effPageSize(s)
		var pa pageAnswer
		last := -1
		for j := i + 1; j < len(order); j++ {
			if !matchesQuery(order[j], q) {
				continue
			}
			if len(pa.Rows) == eff {
				pa.Next = tok[last]
				return pa
			}
			pa.Rows = append(pa.Rows, order[j])
			last = j
		}
		return pa
	}
	type probe struct {
		name   string
		token  string
		expect string // malformed | same-token (another spelling of canon) | refetch (token of position pos) | any-page
		canon  string
		pos    int
	}
	for round := 0; round < 3; round++ {
		i := r.IntN(c.N - 1)
		T := tok[i]
		j := r.IntN(c.N - 1)
		probes := []probe{
			{"truncated-1", T[:len(T)-1], "malformed", "", 0},
			{"truncated-8", T[:8], "malformed", "", 0},
			{"suffix-x", T + "x", "malformed", "", 0},
			{"garbage", pickS(r, []string{"garbage", "x", "-1", "0", "null", "1e9", "%00", "'", "\"", "../x", "0x10", "ffffffff", "00000000-0000-0000-0000-00000000000g"}), "malformed", "", 0},
			{"adversarial", advShort(r, 60), "malformed", "", 0},
			{"leading-space", " " + T, "malformed", "", 0},
			{"uppercase", strings.ToUpper(T), "same-token", T, i},
			{"urn", "urn:uuid:" + T, "same-token", T, i},
			{"braces", "{" + T + "}", "same-token", T, i},
			{"no-dashes", strings.ReplaceAll(T, "-", ""), "same-token", T, i},
			{"other-position", tok[j], "refetch", "", j},
			{"random-uuid", randUUID(r).String(), "any-page", "", 0},
			{"nil-uuid", uuid.Nil.String(), "any-page", "", 0},
			{"max-uuid", "ffffffff-ffff-ffff-ffff-ffffffffffff", "any-page", "", 0},
		}
		q := queryOfShape(r.IntN(16), order[r.IntN(len(order))])
		size := []int{1, 2, 3, 0}[r.IntN(4)]
		for pi, pr := range probes {
			if pr.expect == "malformed" {
				if _, err := uuid.FromString(pr.token); err == nil || pr.token == "" {
					continue // happens to be a UUID (or the empty token = first page): not a malformed token
				}
			}
			d := drivers[(pi+round+int(m.idx))%len(drivers)]
			qq, sz := q, size
			if pr.expect == "refetch" {
				// literally the request of the base iteration at another position
				qq, sz = all, 1
			}
			pa := d.page(qq, sz, true, pr.token)
			run.eval(1)
			run.count("token_probes", 1)
			run.count("token_probe_"+pr.name+"_"+pa.Class, 1)
			run.setAdd("token_probe_kinds", pr.name+"/"+d.name())
			run.nontrivial(fmt.Sprintf("%d/t/%d/%d", m.idx, round, pi))
			sub := fmt.Sprintf("token/%s/%s", pr.name, d.name())
			switch pa.Class {
			case "server", "panic", "timeout", "harness":
				m.violate(sub, fmt.Sprintf("C07:malformed-token:%s:%s:%s", pa.Class, pr.name, d.name()), fmt.Sprintf("page token %q (%s) via %s answered %s %s", trunc(pr.token, 80), pr.name, d.name(), pa.Code, pa.Text), map[string]any{"token": pr.token})
				continue
			}
			switch pr.expect {
			case "malformed":
				if pa.Class == "ok" {
					m.violate(sub, fmt.Sprintf("C07:malformed-token:accepted:%s:%s", pr.name, d.name()), fmt.Sprintf("malformed page token %q (%s) via %s was accepted: %d rows, next %q", trunc(pr.token, 80), pr.name, d.name(), len(pa.Rows), pa.Next), map[string]any{"token": pr.token})
				}
			case "same-token":
				// another spelling of the same UUID: a client error, or the answer to the canonical spelling
				if pa.Class == "ok" {
					if want := d.page(qq, sz, true, pr.canon); want.Class != "ok" || !samePage(want, pa) {
						m.violate(sub, fmt.Sprintf("C07:token:%s:differs-from-canonical-spelling:%s", pr.name, d.name()),
							fmt.Sprintf("token %q (%s of %q) with %s size %d via %s: got %d rows next %q, the canonical spelling gives %s %d rows next %q", trunc(pr.token, 80), pr.name, pr.canon, descQuery(qq), sz, d.name(), len(pa.Rows), pa.Next, want.Class, len(want.Rows), want.Next), nil)
					}
				}
			case "refetch":
				if want := cont(pr.pos, qq, sz); pa.Class != "ok" || !samePage(want, pa) {
					m.violate(sub, fmt.Sprintf("C07:token:refetch-differs:%s", d.name()),
						fmt.Sprintf("the token issued after row %d of %d, sent again with the same query and size via %s: %s, %d rows next %q; the iteration had %d rows next %q there", pr.pos, c.N, d.name(), pa.Class, len(pa.Rows), pa.Next, len(want.Rows), want.Next), nil)
				}
			case "any-page":
				if pa.Class == "ok" {
					if len(pa.Rows) > effPageSize(sz) {
						m.violate(sub, "C07:token:page-too-long:"+d.name(), "page longer than the effective size", nil)
					}
					have := map[string]int{}
					for _, t := range order {
						if matchesQuery(t, qq) {
							have[tupKey(t)]++
						}
					}
					for _, t := range pa.Rows {
						have[tupKey(t)]--
						if have[tupKey(t)] < 0 {
							m.violate(sub, "C07:token:non-matching-row:"+d.name(), fmt.Sprintf("token %q: row %s is not a (remaining) match of %s", pr.token, descTup(t), descQuery(qq)), nil)
							break
						}
					}
				}
			}
		}
	}
	// page sizes that are not sizes
	for pi, sz := range []int{-1, -2, -100, math.MinInt32} {
		for di, d := range drivers {
			if (pi+di+int(m.idx))%2 == 0 && sz != -1 {
				continue
			}
			pa := d.page(all, sz, true, "")
			run.eval(1)
			run.count("negative_size_probes", 1)
			run.count("negative_size_"+pa.Class, 1)
			if pa.Class != "client" && pa.Class != "notfound" {
				m.violate(fmt.Sprintf("size/%d/%s", sz, d.name()), fmt.Sprintf("C07:negative-page-size:%s:%s", pa.Class, d.name()), fmt.Sprintf("page size %d via %s answered %s %s (%d rows)", sz, d.name(), pa.Code, pa.Text, len(pa.Rows)), nil)
			}
		}
	}
	// very large page sizes: one page with everything (or a client error)
	for pi, sz := range []int{math.MaxInt32, 1 << 40, math.MaxInt64 - 1, math.MaxInt64} {
		d := drivers[(pi+int(m.idx))%2] // Manager and REST: the gRPC field is an int32
		pa := d.page(all, sz, true, "")
		run.eval(1)
		run.count("huge_size_probes", 1)
		run.count("huge_size_"+pa.Class, 1)
		switch {
		case pa.Class == "client" || pa.Class == "notfound":
		case pa.Class != "ok":
			m.violate(fmt.Sprintf("size/%d/%s", sz, d.name()), fmt.Sprintf("C07:huge-page-size:%s:%s", pa.Class, d.name()), fmt.Sprintf("page size %d via %s answered %s %s", sz, d.name(), pa.Code, pa.Text), nil)
		default:
			if cls, det := pagesOracle(order, []pageObs{{Rows: pa.Rows, Next: pa.Next}}, sz); cls != "" {
				m.violate(fmt.Sprintf("size/%d/%s", sz, d.name()), fmt.Sprintf("C07:huge-page-size:%s:%s", cls, d.name()), fmt.Sprintf("page size %d via %s: %s %v", sz, d.name(), cls, det), nil)
			}
		}
	}
	if rd, ok := drivers[1].(*restDriver); ok {
		for _, bad := range []string{"abc", "1.5", "", "99999999999999999999", "1e2"} {
			if bad == "" {
				continue // an empty page_size parameter means "not given"
			}
			a, _ := rd.do(rd.read, "GET", "/relation-tuples?page_size="+bad, "")
			run.eval(1)
			run.count("non_numeric_size_probes", 1)
			if a.Class != "client" && a.Class != "notfound" {
				m.violate("size/"+bad, "C07:non-numeric-page-size:"+a.Class, fmt.Sprintf("page_size=%s answered %s %s", bad, a.Code, a.Text), nil)
			}
		}
	}
}

// --- internal consumers -----------------------------------------------------

func genC07Internal(r *rand.Rand, idx int64) *c07Case {
	c := &c07Case{Family: "internal"}
	switch k := (idx / 8) % 8; {
	case k < 4:
		c.Kind = "expand"
		c.Children = []int{0, 1, 2, 3, 5, 99, 100, 101, 150, 201, 250}[r.IntN(11)]
	case k < 7:
		c.Kind = "check-ttu"
		c.Children = []int{1, 3, 99, 100, 101, 150, 201}[r.IntN(7)]
	default:
		c.Kind = "check-expand-1000"
		c.Children = []int{999, 1000, 1001, 2001}[r.IntN(4)]
	}
	if c.Children > 0 {
		c.GrantAt = r.IntN(c.Children)
	}
	return c
}

func (m *c07Mon) runInternal(r *rand.Rand) {
	c, run := m.c, m.run
	var cfg *Cfg
	var rows []*Tup
	opts := EnvOpts{MaxDepth: 10, MaxWidth: 5000}
	switch c.Kind {
	case "expand":
		cfg = &Cfg{NS: []*NSDef{{Name: "Doc"}, {Name: "Group"}}}
		for i := 0; i < c.Children; i++ {
			switch r.IntN(4) {
			case 0:
				rows = append(rows, tupSet("Doc", "root", "r", "Group", fmt.Sprintf("g%d", i%7), "m"))
			default:
				rows = append(rows, tupID("Doc", "root", "r", fmt.Sprintf("s%d", i)))
			}
			if i > 0 && r.IntN(20) == 0 {
				rows = append(rows, cloneTup(rows[r.IntN(len(rows))]))
			}
		}
		// second level: one group with many members, the others with a few
		for gi := 0; gi < 7; gi++ {
			n := r.IntN(4)
			if gi == 0 {
				n = []int{0, 3, 101, 120}[r.IntN(4)]
			}
			for i := 0; i < n; i++ {
				rows = append(rows, tupID("Group", fmt.Sprintf("g%d", gi), "m", fmt.Sprintf("m%d-%d", gi, i)))
			}
		}
		// noise under other keys
		for i := 0; i < 20; i++ {
			rows = append(rows, tupID("Doc", "root", "other", fmt.Sprintf("s%d", i)))
		}
	case "check-ttu":
		cfg = &Cfg{NS: []*NSDef{
			{Name: "User"},
			{Name: "Folder", Rels: []*RelDef{{Name: "viewers", Types: []TypeRef{{NS: "User"}}}}},
			{Name: "Doc", Rels: []*RelDef{{Name: "parents", Types: []TypeRef{{NS: "Folder"}}}, {Name: "view", Perm: true, Rewrite: &Expr{Op: "ttu", Rel: "parents", Comp: "viewers"}}}},
		}}
		for i := 0; i < c.Children; i++ {
			rows = append(rows, tupSet("Doc", "d", "parents", "Folder", fmt.Sprintf("f%d", i), ""))
		}
		rows = append(rows, tupID("Folder", fmt.Sprintf("f%d", c.GrantAt), "viewers", "alice"))
		rows = append(rows, tupID("Folder", "unrelated", "viewers", "bob"))
	default:
		cfg = &Cfg{NS: []*NSDef{{Name: "Doc"}, {Name: "Group"}}}
		for i := 0; i < c.Children; i++ {
			rows = append(rows, tupSet("Doc", "d", "viewers", "Group", fmt.Sprintf("g%d", i), "members"))
		}
		rows = append(rows, tupSet("Group", fmt.Sprintf("g%d", c.GrantAt), "members", "Group", "h", "members"))
		rows = append(rows, tupID("Group", "h", "members", "alice"))
		rows = append(rows, tupID("Group", "unrelated", "members", "bob"))
	}
	opts.Namespaces = cfg.toKeto()
	env, err := newEnv(run.t, opts)
	if err != nil {
		run.inconclusive(fmt.Sprintf("idx %d: env: %v", m.idx, err))
		return
	}
	caseCtx, cancelCase := context.WithCancel(env.Ctx)
	g, err := newGRPC(env)
	if err != nil {
		cancelCase()
		env.Close()
		run.inconclusive(fmt.Sprintf("idx %d: grpc: %v", m.idx, err))
		return
	}
	defer func() {
		cancelCase()
		g.Close()
		env.Close()
	}()
	if err := env.Write(shuffled(r, rows)...); err != nil {
		run.inconclusive(fmt.Sprintf("idx %d: write: %v", m.idx, err))
		return
	}
	rest := &restDriver{ctx: caseCtx, read: env.Reg.ReadRouter(env.Ctx), write: env.Reg.WriteRouter(env.Ctx)}
	drivers := []storeDriver{rest, newGRPCDriver(caseCtx, g, nil)}
	for _, ps := range []int{1, 2, 3} {
		pd := newPagedDeps(env.Reg, ps)
		drivers = append(drivers, &mgrDriver{label: fmt.Sprintf("engine-page%d", ps), ctx: caseCtx, mp: env.Reg.Mapper(), ro: env.Reg.ReadOnlyMapper(), mgr: pd.w, tx: env.Reg.Transactor(),
			ce: check.NewEngine(pd), ee: expand.NewEngine(pd)})
	}
	drivers = wrapFaults(drivers, nil)
	run.count("internal_"+c.Kind, 1)
	switch c.Kind {
	case "expand":
		root := &ketoapi.SubjectSet{Namespace: "Doc", Object: "root", Relation: "r"}
		for _, d := range drivers {
			for _, depth := range []int{2, 3} {
				ea := d.expand(root, depth)
				run.eval(1)
				run.count("internal_expands", 1)
				sub := fmt.Sprintf("expand/%s/depth%d", d.name(), depth)
				if ea.Class == "notfound" {
					ea.Class, ea.Tree = "ok", nil
				}
				if ea.Class != "ok" {
					m.violate(sub, fmt.Sprintf("C07:internal:expand-error:%s:%s", d.name(), ea.Code), fmt.Sprintf("expand over %d children via %s failed: %s %s", c.Children, d.name(), ea.Code, ea.Text), nil)
					continue
				}
				if c.Children > 3 || strings.HasPrefix(d.name(), "engine-page") && c.Children > 1 {
					run.nontrivial(fmt.Sprintf("%d/e/%s/%d", m.idx, d.name(), depth))
				}
				if cls, det := expandOracle(rows, root, depth, ea.Tree); cls != "" {
					m.violate(sub, fmt.Sprintf("C07:internal:expand:%s:%s", cls, strings.TrimRight(d.name(), "123")), fmt.Sprintf("expand of a subject set with %d direct subjects (depth %d) via %s: %s: %s", c.Children, depth, d.name(), cls, det), nil)
				}
			}
		}
	default:
		ref := newRefSem(cfg, false, rows)
		obj, rel := "d", "view"
		if c.Kind == "check-expand-1000" {
			rel = "viewers"
		}
		ds := drivers
		if c.Kind == "check-expand-1000" {
			ds = drivers[:3] // the traverser pages by itself; one wrapped engine is enough
		}
		for _, d := range ds {
			for _, who := range []string{"alice", "bob"} {
				q := tupID("Doc", obj, rel, who)
				rr := ref.Check(q)
				cuts0 := env.Hook.cuts()
				ca := d.check(q, 0)
				cut := env.Hook.cuts() - cuts0
				run.eval(1)
				run.count("internal_checks", 1)
				sub := fmt.Sprintf("%s/%s/%s", c.Kind, d.name(), who)
				if ca.Class != "ok" {
					m.violate(sub, fmt.Sprintf("C07:internal:check-error:%s:%s", d.name(), ca.Code), fmt.Sprintf("%s over %d children via %s failed: %s %s", c.Kind, c.Children, d.name(), ca.Code, ca.Text), nil)
					continue
				}
				if cut > 0 {
					run.count("internal_checks_skipped_limit_cut", 1)
					continue
				}
				run.nontrivial(fmt.Sprintf("%d/c/%s/%s", m.idx, d.name(), who))
				if ca.Allowed != rr.Member {
					m.violate(sub, fmt.Sprintf("C07:internal:%s:impl-%v/ref-%v:%s", c.Kind, ca.Allowed, rr.Member, strings.TrimRight(d.name(), "123")),
						fmt.Sprintf("%s: check Doc:%s#%s@%s over %d children (granting child at insertion position %d) via %s answered %v, reference %v", c.Kind, obj, rel, who, c.Children, c.GrantAt, d.name(), ca.Allowed, rr.Member), nil)
				}
			}
		}
	}
}

// ---------------------------------------------------------------------------

func genC07Case(r *rand.Rand, idx int64) *c07Case {
	switch idx % 8 {
	case 6:
		return genC07Token(r, idx)
	case 7:
		return genC07Internal(r, idx)
	}
	return genC07Iter(r, idx)
}

func TestC07(t *testing.T) {
	run := newRunner(t, "C07")
	defer run.finish()
	p := run.p
	nCases := int64(p.pick(560, 14000))
	seen := map[string]int{}
	for idx := int64(0); idx < nCases; idx++ {
		if !p.mine(idx) {
			continue
		}
		r := p.rng(idx, "case")
		c := genC07Case(r, idx)
		run.begin(idx, "", c)
		m := &c07Mon{run: run, idx: idx, c: c, seen: seen}
		run.count("cases_"+c.Family, 1)
		if c.Family == "internal" {
			m.runInternal(r)
		} else {
			m.runStore()
		}
		if idx < 8 && (idx == 0 || idx == 6 || idx == 7) {
			run.sample(c)
		}
		verdict := "ok"
		if m.fail {
			verdict = "violation"
		}
		run.end(idx, "", verdict)
	}
}

// runStore builds the registry and the three transports for the iter / token families.
func (m *c07Mon) runStore() {
	run, c := m.run, m.c
	env, err := newEnv(run.t, EnvOpts{Namespaces: c16NSConfig(c.Namespaces)})
	if err != nil {
		run.inconclusive(fmt.Sprintf("idx %d: env: %v", m.idx, err))
		return
	}
	caseCtx, cancelCase := context.WithCancel(env.Ctx)
	g, err := newGRPC(env)
	if err != nil {
		cancelCase()
		env.Close()
		run.inconclusive(fmt.Sprintf("idx %d: grpc: %v", m.idx, err))
		return
	}
	defer func() {
		cancelCase()
		g.Close()
		env.Close()
	}()
	drivers := []storeDriver{
		newRegistryMgrDriver(caseCtx, env.Reg),
		&restDriver{ctx: caseCtx, read: env.Reg.ReadRouter(env.Ctx), write: env.Reg.WriteRouter(env.Ctx)},
		newGRPCDriver(caseCtx, g, nil),
	}
	drivers = wrapFaults(drivers, nil)
	if c.Family == "token" {
		m.runToken(env, drivers)
	} else {
		m.runIter(env, drivers)
	}
}
