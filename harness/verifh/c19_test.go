package verifh

// C19 — Namespace configuration reloads are keep-last-good and never partial.
//
// Runtime monitor over edit histories of watched namespace files. A history is a
// pure function of (seed, idx): a configuration kind (OPL single file, OPL
// directory of 2-3 files, legacy directory of JSON/YAML/TOML files, legacy
// single file), a write discipline (atomic = write a temp file + rename, so only
// intended contents ever exist; inplace = O_TRUNC + write, where the empty
// intermediate content is itself a version), and 3-12 steps mixing valid,
// syntactically invalid, type-invalid (OPL), empty and removed-and-recreated
// versions. The real registry (driver.NewDefaultRegistry) watches the files
// through keto's own watchers (ory/x watcherx + fsnotify). While the writer
// goroutine applies the steps, 2-4 sampler goroutines poll continuously through
// Config.NamespaceManager().Namespaces() / GetNamespaceByName, REST
// GET /namespaces and gRPC ListNamespaces. Every write and every sample gets a
// begin and an end stamp from ONE logical clock (atomic counter); no wall-clock
// value takes part in a verdict.
//
// Oracle, per sample [t0,t1] and per watched file f: the namespaces of f that
// the sample shows must be exactly ns(v) of ONE valid version v of f whose write
// began before t1 and which is not older than the version attributed to any
// sample that completed before t0 (no going backwards). Versions that do not
// parse / type-check are never admissible; an empty set is admissible only
// through a version that has no namespaces (removed file, empty OPL file).
// Bounded progress: after the last step AND once the watcher's own
// "A change to a namespace file was detected" log line for that step was seen
// and the watcher went quiet, the visible set must equal ns(last valid version)
// of every file; if the log line never appears the event was not delivered and
// the history is inconclusive.

import (
	"context"
	"encoding/json"
	"errors"
	"fmt"
	"github.com/ghodss/yaml"
	"github.com/pelletier/go-toml"
	"math/rand/v2"
	"net/http"
	"os"
	"path/filepath"
	"regexp"
	"runtime"
	"sort"
	"strconv"
	"strings"
	"sync"
	"sync/atomic"
	"testing"
	"time"

	"github.com/ory/herodot"

	"github.com/ory/keto/internal/namespace"
	"github.com/ory/keto/internal/schema"
	rts "github.com/ory/keto/proto/ory/keto/relation_tuples/v1alpha2"
)

// ---------------------------------------------------------------------------
// case description

type c19Step struct {
	File    int    `json:"file"`
	Kind    string `json:"kind"` // valid | valid-same-names | syntax-invalid | type-invalid | empty | remove
	Content string `json:"content"`
	Pause   string `json:"pause"` // none | yield | short | event
}

type c19Case struct {
	Kind    string    `json:"kind"`  // opl-file | opl-dir | legacy-dir | legacy-file
	Write   string    `json:"write"` // atomic | inplace
	Files   []string  `json:"files"` // base names
	Initial []string  `json:"initial"`
	Steps   []c19Step `json:"steps"`
	Sampler []string  `json:"samplers"`
	// ConfigReloadAfter: step indices after which the server's main configuration
	// file is hot-reloaded with a change of an UNRELATED key (limit.max_read_depth).
	// The namespace location is the same before and after, so no version of any
	// watched file may be forgotten.
	ConfigReloadAfter []int `json:"config_reload_after_steps,omitempty"`
	// Relative: the target is spelled file://./watched (keto's default spelling),
	// relative to the working directory
	Relative bool `json:"relative_target,omitempty"`
}

func c19OPL(names []string, rel string) string {
	var sb strings.Builder
	sb.WriteString("import { Namespace, Context } from \"@ory/keto-namespace-types\"\n\n")
	for _, n := range names {
		fmt.Fprintf(&sb, "class %s implements Namespace {\n  related: {\n    %s: %s[]\n  }\n  permits = {\n    view: (ctx: Context): boolean => this.related.%s.includes(ctx.subject),\n  }\n}\n", n, rel, n, rel)
	}
	return sb.String()
}

func c19Legacy(ext, name string, id int) string {
	switch ext {
	case ".json":
		return fmt.Sprintf("{\"id\": %d, \"name\": %q}\n", id, name)
	case ".toml":
		return fmt.Sprintf("id = %d\nname = %q\n", id, name)
	}
	return fmt.Sprintf("id: %d\nname: %s\n", id, name)
}

func c19LegacyInvalid(r *rand.Rand, ext string) (string, string) {
	switch ext {
	case ".json":
		if r.IntN(3) == 0 {
			// a complete object followed by something: invalid as a document, but a
			// decoder that stops after the first value would load it
			name := fmt.Sprintf("trailing%d", r.IntN(1000))
			return "syntax-invalid", fmt.Sprintf("{\"id\": %d, \"name\": %q}", 50+r.IntN(50), name) + pickS(r, []string{"}", "\n{\"id\": 9, \"name\": ", " garbage", "]", "\n}\n"})
		}
		return pickS(r, []string{"syntax-invalid", "type-invalid"}), pickS(r, []string{"{\"id\": 3, \"name\": ", "{\"id\": \"x\", \"name\": 5}", "not json", "[1,2"})
	case ".toml":
		return "syntax-invalid", pickS(r, []string{"name = ", "id = = 3\n", "[[[\n", "name = \"unterminated\n"})
	}
	return "syntax-invalid", pickS(r, []string{"name: [unclosed\n", "id: 1\n\tname: tab\n", "name: \"unterminated\n", ": : :\n- x\n"})
}

func genC19Case(r *rand.Rand, idx int64) *c19Case {
	kinds := []string{"opl-file", "opl-dir", "legacy-dir", "legacy-file"}
	c := &c19Case{Kind: kinds[int(idx)%len(kinds)], Write: "atomic"}
	if (idx/int64(len(kinds)))%3 == 2 {
		c.Write = "inplace"
	}
	exts := []string{".json", ".yaml", ".toml", ".yml"}
	switch c.Kind {
	case "opl-file":
		c.Files = []string{"namespaces.ts"}
	case "opl-dir":
		c.Files = []string{"a.ts", "b.ts", "c.ts"}[:2+r.IntN(2)]
	case "legacy-file":
		c.Files = []string{"ns" + exts[r.IntN(len(exts))]}
	case "legacy-dir":
		n := 2 + r.IntN(2)
		nonJSON := 0
		for i := 0; i < n; i++ {
			e := exts[r.IntN(len(exts))]
			if c.Write == "inplace" && e != ".json" {
				// an empty YAML/TOML file is a VALID namespace named ""; keep that
				// name attributable to one file
				if nonJSON > 0 {
					e = ".json"
				}
				nonJSON++
			}
			c.Files = append(c.Files, fmt.Sprintf("f%d%s", i, e))
		}
	}
	opl := strings.HasPrefix(c.Kind, "opl")
	names := func(f, k int) []string {
		base := fmt.Sprintf("F%dV%d", f, k)
		if opl && r.IntN(2) == 0 {
			return []string{base + "a", base + "b"}
		}
		return []string{base + "a"}
	}
	lastNames := make([][]string, len(c.Files))
	lastContent := make([]string, len(c.Files)) // the most recent valid content of each file
	verNo := make([]int, len(c.Files))
	valid := func(f int, same bool) (string, string) {
		verNo[f]++
		k := verNo[f]
		kind := "valid"
		nn := names(f, k)
		if same && lastNames[f] != nil {
			nn, kind = lastNames[f], "valid-same-names"
		}
		lastNames[f] = nn
		if opl {
			lastContent[f] = c19OPL(nn, fmt.Sprintf("r%d", k))
			if r.IntN(6) == 0 && c.Write == "atomic" {
				// (atomic writes only: a reader of an in-place write may see any prefix)
				// a LARGE valid version (70-200 KiB): a comment block of that size before
				// the last class, so that every prefix shorter than the file is another
				// (smaller or class-less) valid document
				pad := strings.Repeat("// generated padding line, nothing to see here\n", (70<<10)/48+r.IntN((130<<10)/48))
				if i := strings.LastIndex(lastContent[f], "class "); i >= 0 {
					lastContent[f] = lastContent[f][:i] + pad + lastContent[f][i:]
				}
			}
		} else {
			lastContent[f] = c19Legacy(filepath.Ext(c.Files[f]), nn[0], k)
		}
		return kind, lastContent[f]
	}
	for f := range c.Files {
		_, content := valid(f, false)
		c.Initial = append(c.Initial, content)
	}
	nSteps := 3 + r.IntN(10)
	removed := make([]bool, len(c.Files))
	for i := 0; i < nSteps; i++ {
		f := r.IntN(len(c.Files))
		st := c19Step{File: f, Pause: pickS(r, []string{"none", "yield", "short", "event", "event"})}
		k := r.IntN(10)
		switch {
		case removed[f]:
			// removed-and-recreated: with new content, or with exactly the bytes the
			// file had when it was last valid (a restore from backup / git checkout)
			if lastContent[f] != "" && r.IntN(2) == 0 {
				st.Kind, st.Content = "valid", lastContent[f]
			} else {
				st.Kind, st.Content = valid(f, false)
			}
			removed[f] = false
		case k < 4 || i == nSteps-1 && k < 7:
			st.Kind, st.Content = valid(f, r.IntN(4) == 0 && opl)
		case k < 6:
			if opl {
				st.Kind = "syntax-invalid"
				st.Content = pickS(r, []string{"class X implements Namespace { related: { ", "class class {{{", "}}}} garbage", "class F9V9a implements Namespace {\n  related: {\n    r: F9V9a[]\n", "\x00\x01\x02"})
			} else {
				st.Kind, st.Content = c19LegacyInvalid(r, filepath.Ext(c.Files[f]))
			}
		case k < 7 && opl:
			st.Kind = "type-invalid"
			verNo[f]++
			n := fmt.Sprintf("F%dV%da", f, verNo[f])
			st.Content = pickS(r, []string{
				fmt.Sprintf("class %s implements Namespace {\n  related: {\n    r: Undeclared[]\n  }\n}\n", n),
				fmt.Sprintf("class %s implements Namespace {\n  related: {\n    r: %s[]\n  }\n  permits = {\n    view: (ctx: Context): boolean => this.related.nope.includes(ctx.subject),\n  }\n}\n", n, n),
				fmt.Sprintf("class %s implements Namespace {\n  related: {\n    r: %s[]\n  }\n  permits = {\n    view: (ctx: Context): boolean => this.related.r.traverse((p) => p.permits.missing(ctx)),\n  }\n}\n", n, n),
			})
		case k < 8:
			ext := filepath.Ext(c.Files[f])
			if !opl && ext != ".json" && !(c.Write == "inplace") {
				// explicit empty YAML/TOML = a valid namespace named ""; not generated in
				// atomic mode (would not be attributable to a file)
				st.Kind, st.Content = valid(f, false)
			} else if opl && r.IntN(2) == 0 {
				// a VALID version without any class (all classes moved elsewhere, only
				// comments or the import line left): its namespaces must go away
				st.Kind = "valid-no-classes"
				st.Content = pickS(r, []string{"// nothing left in this file\n", "import { Namespace, Context } from \"@ory/keto-namespace-types\"\n", "/* moved to another file */\n\n"})
				lastNames[f], lastContent[f] = nil, st.Content
			} else {
				st.Kind, st.Content = "empty", ""
			}
		default:
			st.Kind = "remove"
			removed[f] = true
		}
		c.Steps = append(c.Steps, st)
	}
	// A valid version that is the last write to its file, or whose successor on the
	// same file is not a valid version, is given the time to be loaded ("settle":
	// the writer obtains a proof that the watcher read it before going on). A valid
	// version that is overwritten before any watcher could read it cannot be
	// required to take effect.
	isValid := func(k string) bool { return k == "valid" || k == "valid-same-names" || k == "valid-no-classes" }
	for i := range c.Steps {
		if !isValid(c.Steps[i].Kind) {
			continue
		}
		next := -1
		for j := i + 1; j < len(c.Steps); j++ {
			if c.Steps[j].File == c.Steps[i].File {
				next = j
				break
			}
		}
		if next < 0 || !isValid(c.Steps[next].Kind) || r.IntN(4) == 0 {
			c.Steps[i].Pause = "settle"
		}
	}
	pool := []string{"mgr-list", "mgr-get", "rest", "grpc"}
	nS := 2 + r.IntN(3)
	c.Sampler = append(c.Sampler, "mgr-list")
	for len(c.Sampler) < nS {
		c.Sampler = append(c.Sampler, pool[r.IntN(len(pool))])
	}
	// config hot reloads: mostly while an invalid version is the current content of
	// a file (the last valid one is being served from memory only)
	if (idx/4)%2 == 1 {
		for i, st := range c.Steps {
			invalid := !isValid(st.Kind) && st.Kind != "remove"
			if invalid && r.IntN(2) == 0 || r.IntN(8) == 0 {
				c.ConfigReloadAfter = append(c.ConfigReloadAfter, i)
			}
		}
		c.Relative = (idx/8)%2 == 1
	}
	return c
}

// ---------------------------------------------------------------------------
// reference: what a content means (keto's own parsers, no watcher code)

type c19Version struct {
	File         int               `json:"file"`
	Seq          int               `json:"seq"`  // position in the file's version list
	Kind         string            `json:"kind"` // initial | valid | ... | remove | truncated (inplace intermediate) | prefix
	Content      string            `json:"content"`
	TB           int64             `json:"tb"` // logical time the write began
	TE           int64             `json:"te"`
	Valid        bool              `json:"valid"`
	Names        []string          `json:"names"` // sorted
	Digest       map[string]string `json:"-"`
	RawNames     []string          `json:"raw_names,omitempty"`   // names an invalid version would contribute if it were loaded
	Proven       bool              `json:"proven_read,omitempty"` // the watcher demonstrably read this content (see settle)
	order        int
	prefixes     []*c19Version
	prefixesDone bool
}

func c19Meaning(opl bool, fileName, content string, removed bool) (valid bool, names []string, digest map[string]string, raw []string) {
	digest = map[string]string{}
	if removed {
		return true, nil, digest, nil
	}
	if opl {
		nn, errs := schema.Parse(content)
		for _, n := range nn {
			raw = append(raw, n.Name)
		}
		sort.Strings(raw)
		if len(errs) > 0 {
			return false, nil, digest, raw
		}
		for _, n := range nn {
			names = append(names, n.Name)
			digest[n.Name] = jsonStr(n.Relations)
		}
		sort.Strings(names)
		return true, names, digest, nil
	}
	// The meaning of a legacy file is decided with the decoding libraries
	// directly, NOT with keto's config.GetParser (the oracle must not move with
	// the code under observation).
	n := namespace.Namespace{}
	var err error
	switch strings.ToLower(filepath.Ext(fileName)) {
	case ".json":
		err = json.Unmarshal([]byte(content), &n)
		if err != nil {
			// what a lenient decoder (first JSON value only) would load
			var first namespace.Namespace
			if json.NewDecoder(strings.NewReader(strings.TrimPrefix(content, "\ufeff"))).Decode(&first) == nil && first.Name != "" {
				raw = []string{first.Name}
			}
		}
	case ".yaml", ".yml":
		err = yaml.Unmarshal([]byte(content), &n)
	case ".toml":
		err = toml.Unmarshal([]byte(content), &n)
	default:
		return false, nil, digest, nil
	}
	if err != nil {
		return false, nil, digest, raw
	}
	digest[n.Name] = fmt.Sprintf("id=%d", n.ID) //nolint:staticcheck
	return true, []string{n.Name}, digest, nil
}

// ---------------------------------------------------------------------------
// event log

type c19Sample struct {
	By     string            `json:"by"`
	T0     int64             `json:"t0"`
	T1     int64             `json:"t1"`
	Names  []string          `json:"names,omitempty"` // list samples: sorted, duplicates kept
	Digest map[string]string `json:"-"`
	Get    string            `json:"get,omitempty"` // get samples: the name asked for
	Found  bool              `json:"found,omitempty"`
	Err    string            `json:"err,omitempty"`
}

type c19Run struct {
	run        *runner
	idx        int64
	c          *c19Case
	opl        bool
	dir        string // watched directory (or directory of the watched file)
	stage      string // staging directory for atomic writes into watched directories
	clk        atomic.Int64
	mu         sync.Mutex
	vers       [][]*c19Version // per file, in write order
	samp       []*c19Sample
	env        *Env
	router     http.Handler // built once, before the samplers start (as the daemon does)
	emptyOwner int          // file that owns the namespace named "" (legacy YAML/TOML), -1 if none
	cfgFile    string       // the server's main configuration file (hot-reloaded by some steps)
	cfgDepth   int
}

// reloadConfig rewrites the main configuration file with another value of an
// unrelated key and waits (bounded) until the server serves the new value.
func (h *c19Run) reloadConfig() {
	h.cfgDepth = 11 - h.cfgDepth // 5 <-> 6
	tmp := h.cfgFile + ".tmp"
	if err := os.WriteFile(tmp, []byte(fmt.Sprintf("limit:\n  max_read_depth: %d\n", h.cfgDepth)), 0o644); err != nil {
		h.run.count("config_reload_write_failed", 1)
		return
	}
	if err := os.Rename(tmp, h.cfgFile); err != nil {
		h.run.count("config_reload_write_failed", 1)
		return
	}
	dl := time.Now().Add(3 * time.Second)
	for h.env.Reg.Config(h.env.Ctx).MaxReadDepth() != h.cfgDepth && time.Now().Before(dl) {
		time.Sleep(time.Millisecond)
	}
	if h.env.Reg.Config(h.env.Ctx).MaxReadDepth() == h.cfgDepth {
		h.run.count("config_hot_reloads_observed", 1)
		// the namespace manager is consulted by the config watcher right after the values changed
		time.Sleep(2 * time.Millisecond)
	} else {
		h.run.count("config_hot_reload_wait_expired", 1)
	}
}

func (h *c19Run) path(f int) string { return filepath.Join(h.dir, h.c.Files[f]) }

func (h *c19Run) addVersion(f int, kind, content string, removed bool, tb int64) *c19Version {
	v := &c19Version{File: f, Kind: kind, Content: content, TB: tb}
	v.Valid, v.Names, v.Digest, v.RawNames = c19Meaning(h.opl, h.c.Files[f], content, removed)
	h.mu.Lock()
	v.Seq = len(h.vers[f])
	v.order = 3 * v.Seq
	h.vers[f] = append(h.vers[f], v)
	h.mu.Unlock()
	return v
}

// apply performs one step on disk and logs the versions it creates.
func (h *c19Run) apply(f int, kind, content string) error {
	p := h.path(f)
	if kind == "remove" {
		v := h.addVersion(f, kind, "", true, h.clk.Add(1))
		err := os.Remove(p)
		v.TE = h.clk.Add(1)
		if os.IsNotExist(err) {
			return nil
		}
		return err
	}
	if h.c.Write == "atomic" {
		// temp file + rename; for watched directories the temp file lives in a
		// sibling directory on the same filesystem (a temp file inside the watched
		// directory would itself be a watched file with its own history)
		tmpDir := h.dir
		if strings.HasSuffix(h.c.Kind, "-dir") {
			tmpDir = h.stage
		}
		tmp := filepath.Join(tmpDir, fmt.Sprintf(".tmp-%d-%s", h.clk.Load(), h.c.Files[f]))
		if err := os.WriteFile(tmp, []byte(content), 0o644); err != nil {
			return err
		}
		v := h.addVersion(f, kind, content, false, h.clk.Add(1))
		err := os.Rename(tmp, p)
		v.TE = h.clk.Add(1)
		return err
	}
	// in place: truncate (an intermediate empty version), then write
	tv := h.addVersion(f, "truncated", "", false, h.clk.Add(1))
	fh, err := os.OpenFile(p, os.O_WRONLY|os.O_CREATE|os.O_TRUNC, 0o644)
	tv.TE = h.clk.Add(1)
	if err != nil {
		return err
	}
	if content == "" {
		tv.Kind = kind
		return fh.Close()
	}
	if h.clk.Load()%3 == 0 {
		runtime.Gosched()
	}
	v := h.addVersion(f, kind, content, false, h.clk.Add(1))
	_, err = fh.Write([]byte(content))
	cerr := fh.Close()
	v.TE = h.clk.Add(1)
	if err != nil {
		return err
	}
	return cerr
}

// neverDetected rewrites the current content of every existing file three more
// times and reports whether the watcher's change count still has not moved.
func (h *c19Run) neverDetected(initial int) bool {
	for try := 0; try < 3; try++ {
		wrote := 0
		for f := range h.c.Files {
			h.mu.Lock()
			vs := h.vers[f]
			cur := vs[len(vs)-1]
			h.mu.Unlock()
			if cur.Kind == "remove" {
				continue
			}
			v := h.addVersion(f, "rewrite", cur.Content, false, h.clk.Add(1))
			if os.WriteFile(h.path(f), []byte(cur.Content), 0o644) == nil {
				wrote++
			}
			v.TE = h.clk.Add(1)
		}
		if wrote == 0 {
			return false // every file is removed: nothing to be detected
		}
		dl := time.Now().Add(2 * time.Second)
		for h.env.Hook.changes() == initial && time.Now().Before(dl) {
			time.Sleep(time.Millisecond)
		}
		if h.env.Hook.changes() != initial {
			return false
		}
	}
	return true
}

// eventsFor counts the watcher's "change detected" log lines for file f.
func (h *c19Run) eventsFor(f int) int {
	p := h.path(f)
	h.env.Hook.mu.Lock()
	defer h.env.Hook.mu.Unlock()
	n := 0
	rel := "./" + filepath.Join(filepath.Base(h.dir), h.c.Files[f]) // relative target: sources are relative too
	for _, src := range h.env.Hook.changeLog {
		if src == p || h.c.Relative && (src == rel || src == rel[2:]) {
			n++
		}
	}
	return n
}

// settle obtains a proof that the watcher READ the current content of file f.
// The watcher's pipeline reads a file when it takes an fsnotify event and then
// blocks handing the event to the handler, which logs "change detected" when
// it receives it; so at most one already-read event is in flight, and the read
// belonging to a log line happens after the previous log line. The writer
// therefore rewrites the same bytes in place (no truncation: the content never
// differs) until it has seen TWO log lines for f that both came after the
// version was completely written: the second one's read saw exactly this content.
// Purely event-ordered; the deadlines only bound the waiting (no proof = the
// version is simply not used as a lower bound).
func (h *c19Run) settle(f int) bool {
	h.mu.Lock()
	vs := h.vers[f]
	cur := vs[len(vs)-1]
	h.mu.Unlock()
	if cur.Kind == "remove" || cur.Content == "" {
		return false
	}
	c1 := h.eventsFor(f)
	from := len(vs) - 1
	last := c1
	for try := 0; try < 5 && last < c1+2; try++ {
		v := h.addVersion(f, "rewrite", cur.Content, false, h.clk.Add(1))
		fh, err := os.OpenFile(h.path(f), os.O_WRONLY, 0)
		if err == nil {
			_, err = fh.Write([]byte(cur.Content))
			_ = fh.Close()
		}
		v.TE = h.clk.Add(1)
		if err != nil {
			return false
		}
		dl := time.Now().Add(700 * time.Millisecond)
		for h.eventsFor(f) <= last && time.Now().Before(dl) {
			time.Sleep(200 * time.Microsecond)
		}
		n := h.eventsFor(f)
		if n <= last {
			break
		}
		last = n
	}
	if last < c1+2 {
		return false
	}
	h.mu.Lock()
	for _, v := range h.vers[f][from:] {
		v.Proven = true
	}
	h.mu.Unlock()
	return true
}

func (h *c19Run) record(s *c19Sample) {
	h.mu.Lock()
	h.samp = append(h.samp, s)
	h.mu.Unlock()
}

func nsDigest(n *namespace.Namespace, opl bool) string {
	if opl {
		return jsonStr(n.Relations)
	}
	return fmt.Sprintf("id=%d", n.ID) //nolint:staticcheck
}

// sampler loops until stop is closed.
func (h *c19Run) sampler(by string, seed uint64, g *grpcClients, stop <-chan struct{}, wg *sync.WaitGroup) {
	defer wg.Done()
	r := rand.New(rand.NewPCG(seed, 19))
	router := h.router
	ctx := h.env.Ctx
	for i := 0; ; i++ {
		select {
		case <-stop:
			return
		default:
		}
		s := &c19Sample{By: by}
		switch by {
		case "mgr-list":
			s.T0 = h.clk.Add(1)
			nm, err := h.env.Reg.Config(ctx).NamespaceManager()
			var nn []*namespace.Namespace
			if err == nil {
				nn, err = nm.Namespaces(ctx)
			}
			s.T1 = h.clk.Add(1)
			if err != nil {
				s.Err = err.Error()
				break
			}
			s.Digest = map[string]string{}
			for _, n := range nn {
				s.Names = append(s.Names, n.Name)
				s.Digest[n.Name] = nsDigest(n, h.opl)
			}
		case "mgr-get":
			// ask for a name of some version written so far (or the next one)
			h.mu.Lock()
			f := r.IntN(len(h.vers))
			vs := h.vers[f]
			var cand []string
			for k := len(vs) - 1; k >= 0 && len(cand) < 3; k-- {
				for _, n := range append(append([]string(nil), vs[k].Names...), vs[k].RawNames...) {
					if n != "" {
						cand = append(cand, n)
					}
				}
			}
			h.mu.Unlock()
			if len(cand) == 0 {
				time.Sleep(300 * time.Microsecond)
				continue
			}
			s.Get = cand[r.IntN(len(cand))]
			s.T0 = h.clk.Add(1)
			nm, err := h.env.Reg.Config(ctx).NamespaceManager()
			var n *namespace.Namespace
			if err == nil {
				n, err = nm.GetNamespaceByName(ctx, s.Get)
			}
			s.T1 = h.clk.Add(1)
			if err == nil && n != nil {
				s.Found = true
				s.Digest = map[string]string{n.Name: nsDigest(n, h.opl)}
				if n.Name != s.Get {
					s.Err = fmt.Sprintf("asked for %q, got %q", s.Get, n.Name)
				}
			} else if err != nil && !isNotFound(err) {
				s.Err = err.Error()
			}
		case "rest":
			s.T0 = h.clk.Add(1)
			st, body, pt, rej := c13HTTP(router, "GET", "/namespaces", "", false, 20*time.Second)
			s.T1 = h.clk.Add(1)
			if pt != "" || rej != "" || st != 200 {
				s.Err = fmt.Sprintf("GET /namespaces: status %d %s %s %s", st, abbrev(body), rej, strings.SplitN(pt, "\n", 2)[0])
				break
			}
			var resp struct {
				Namespaces []struct {
					Name string `json:"name"`
				} `json:"namespaces"`
			}
			if err := json.Unmarshal([]byte(body), &resp); err != nil {
				s.Err = "GET /namespaces: " + err.Error()
				break
			}
			for _, n := range resp.Namespaces {
				s.Names = append(s.Names, n.Name)
			}
		case "grpc":
			s.T0 = h.clk.Add(1)
			cctx, cancel := context.WithTimeout(context.Background(), 20*time.Second)
			resp, err := g.Namespaces.ListNamespaces(cctx, &rts.ListNamespacesRequest{})
			cancel()
			s.T1 = h.clk.Add(1)
			if err != nil {
				s.Err = "ListNamespaces: " + err.Error()
				break
			}
			for _, n := range resp.Namespaces {
				s.Names = append(s.Names, n.Name)
			}
		}
		sort.Strings(s.Names)
		h.record(s)
		// do not spin: 16 shards share the machine
		time.Sleep(time.Duration(60+r.IntN(400)) * time.Microsecond)
	}
}

// isNotFound: keto's managers answer an unknown name with a herodot 404 error
// (the legacy watcher changes the message, so errors.Is(err, herodot.ErrNotFound)
// does not hold for it).
func isNotFound(err error) bool {
	var c herodot.StatusCodeCarrier
	return errors.As(err, &c) && c.StatusCode() == 404
}

// ---------------------------------------------------------------------------
// oracle

var c19NameRe = regexp.MustCompile(`^F(\d+)V\d+[a-z]?$`)

func (h *c19Run) fileOf(name string) int {
	if m := c19NameRe.FindStringSubmatch(name); m != nil {
		f, _ := strconv.Atoi(m[1])
		if f < len(h.c.Files) {
			return f
		}
	}
	if name == "" {
		return h.emptyOwner
	}
	if h.c.Write == "inplace" && !h.opl {
		// a YAML/TOML file read while it is being written in place may yield a
		// prefix of the name
		for f, fn := range h.c.Files {
			if filepath.Ext(fn) == ".json" {
				continue
			}
			for _, v := range h.vers[f] {
				for _, n := range v.Names {
					if strings.HasPrefix(n, name) {
						return f
					}
				}
			}
		}
	}
	return -1
}

func eqStrings(a, b []string) bool {
	if len(a) != len(b) {
		return false
	}
	for i := range a {
		if a[i] != b[i] {
			return false
		}
	}
	return true
}

type c19Finding struct {
	class   string
	summary string
	sample  *c19Sample
	file    int
}

// prefixVersions: for in-place writes, a reader may (in principle) observe a
// prefix of the content being written; such a prefix that parses is a version.
func (h *c19Run) prefixMatches(f int, v *c19Version, pred func(*c19Version) bool) bool {
	if h.c.Write != "inplace" || v.Kind == "truncated" || v.Kind == "remove" || v.Kind == "initial" {
		return false
	}
	if !v.prefixesDone {
		v.prefixesDone = true
		seen := map[string]bool{}
		for cut := 1; cut < len(v.Content); cut++ {
			pv := &c19Version{File: f, Kind: "prefix", Content: v.Content[:cut]}
			pv.Valid, pv.Names, pv.Digest, _ = c19Meaning(h.opl, h.c.Files[f], pv.Content, false)
			// (a prefix without namespaces says nothing the preceding "truncated"
			// version does not already say)
			if !pv.Valid || len(pv.Names) == 0 {
				continue
			}
			key := jsonStr(pv.Names) + jsonStr(pv.Digest)
			if !seen[key] {
				seen[key] = true
				v.prefixes = append(v.prefixes, pv)
			}
		}
	}
	for _, pv := range v.prefixes {
		if pred(pv) {
			return true
		}
	}
	return false
}

// judge runs the per-file oracle over all samples; returns findings and the
// number of (sample, file) decisions.
func (h *c19Run) judge() (finds []c19Finding, decisions int64, observed map[string]bool, overlapping int64, finalFloor []int) {
	observed = map[string]bool{}
	seenClass := map[string]int{}
	failures := 0
	samples := append([]*c19Sample(nil), h.samp...)
	sort.SliceStable(samples, func(i, j int) bool { return samples[i].T1 < samples[j].T1 })
	nF := len(h.c.Files)
	// assigned[f]: (t1, order) of judged samples, to derive floors
	type asg struct {
		t1    int64
		order int
	}
	assigned := make([][]asg, nF)
	maxBefore := make([][]int, nF) // prefix maxima of order by t1
	posBefore := make([][]int, nF) // same, counting only samples that positively SHOWED something of the file
	floorsFor := func(f int, t0 int64) (floor, positive int) {
		a := assigned[f]
		// samples are appended in t1 order: binary search the last with t1 < t0
		k := sort.Search(len(a), func(i int) bool { return a[i].t1 >= t0 })
		if k == 0 {
			return 0, 0
		}
		return maxBefore[f][k-1], posBefore[f][k-1]
	}
	push := func(f int, t1 int64, order int, positive bool) {
		assigned[f] = append(assigned[f], asg{t1, order})
		m, pm := order, 0
		if positive {
			pm = order
		}
		if n := len(maxBefore[f]); n > 0 {
			if maxBefore[f][n-1] > m {
				m = maxBefore[f][n-1]
			}
			if posBefore[f][n-1] > pm {
				pm = posBefore[f][n-1]
			}
		}
		maxBefore[f] = append(maxBefore[f], m)
		posBefore[f] = append(posBefore[f], pm)
	}
	// writes, for the "sample overlapped a write" counter
	type iv struct{ tb, te int64 }
	var writes []iv
	for f := range h.vers {
		for _, v := range h.vers[f] {
			if v.Kind != "initial" {
				writes = append(writes, iv{v.TB, v.TE})
			}
		}
	}
	for _, s := range samples {
		for _, w := range writes {
			if s.T0 < w.te && s.T1 > w.tb {
				overlapping++
				break
			}
		}
		if s.Err != "" {
			finds = append(finds, c19Finding{class: "sampler-error:" + s.By, summary: fmt.Sprintf("sampler %s failed at [%d,%d]: %s", s.By, s.T0, s.T1, s.Err), sample: s, file: -1})
			continue
		}
		type filePred struct {
			f    int
			pred func(v *c19Version) bool
			part []string
		}
		var preds []filePred
		if s.Get != "" {
			f := h.fileOf(s.Get)
			if f < 0 {
				continue
			}
			get, found, dg := s.Get, s.Found, s.Digest
			preds = append(preds, filePred{f: f, part: []string{fmt.Sprintf("get(%s)=%v", get, found)}, pred: func(v *c19Version) bool {
				has := false
				for _, n := range v.Names {
					if n == get {
						has = true
					}
				}
				if has != found {
					return false
				}
				return !found || v.Digest[get] == dg[get]
			}})
		} else {
			parts := make([][]string, nF)
			foreign := false
			for _, n := range s.Names {
				f := h.fileOf(n)
				if f < 0 {
					foreign = true
					finds = append(finds, c19Finding{class: "foreign-namespace", summary: fmt.Sprintf("sample %s [%d,%d] shows namespace %q which no version of any watched file defines", s.By, s.T0, s.T1, n), sample: s, file: -1})
					continue
				}
				parts[f] = append(parts[f], n)
			}
			if foreign {
				continue
			}
			for f := 0; f < nF; f++ {
				f, part, dg := f, parts[f], s.Digest
				preds = append(preds, filePred{f: f, part: part, pred: func(v *c19Version) bool {
					if !eqStrings(v.Names, part) {
						return false
					}
					if dg != nil {
						for _, n := range part {
							if v.Digest[n] != dg[n] {
								return false
							}
						}
					}
					return true
				}})
			}
		}
		for _, fp := range preds {
			decisions++
			f := fp.f
			floor, posFloor := floorsFor(f, s.T0)
			best, below := -1, -1
			var bestV *c19Version
			for _, v := range h.vers[f] {
				if !v.Valid || v.TB >= s.T1 || !fp.pred(v) {
					continue
				}
				if v.order >= floor {
					if best < 0 || v.order < best {
						best, bestV = v.order, v
					}
				} else if v.order > below {
					below = v.order
				}
			}
			if best < 0 && h.c.Write == "inplace" {
				for _, v := range h.vers[f] {
					if v.TB < s.T1 && v.order-1 >= floor && h.prefixMatches(f, v, fp.pred) {
						best, bestV = v.order-1, v
						h.run.count("partial_prefix_admitted_"+h.c.Kind, 1)
						break
					}
				}
			}
			if best >= 0 {
				// "Nothing of this file" is ambiguous once the file was removed before:
				// it may be the newest admissible class-less version (best) or an EARLIER
				// removal whose event is applied late, after a newer content had already
				// been read by an older change event (see below). The observation is
				// admitted either way, but it must not raise the floor: the next sample may
				// legitimately show the content again that was read before that removal.
				if empty := (s.Get == "" && len(fp.part) == 0) || (s.Get != "" && !s.Found); empty && best > floor {
					for _, v := range h.vers[f] {
						if v.Kind == "remove" && v.TB < s.T1 && v.order < best {
							h.run.count("ambiguous_empty_observation_floor_not_raised", 1)
							best, bestV = floor, nil
							break
						}
					}
				}
				push(f, s.T1, best, (s.Get == "" && len(fp.part) > 0) || (s.Get != "" && s.Found))
				if bestV != nil && bestV.Seq > 0 {
					observed[fmt.Sprintf("%d/%d/%d", h.idx, f, bestV.Seq)] = true
				}
				continue
			}
			// A REMOVE event is applied at its position in the watcher's queue, while
			// the content of a change event is read when the event is handled: a
			// lagging watcher can therefore show a NEWER content first (read late by
			// an old change event) and the file's removal afterwards, before the
			// re-creation events arrive. "Nothing of this file" is then the removed
			// version of the file - one valid version loaded so far, as the property
			// demands - although a newer one had been observed. Admitted (and counted);
			// the floor is not raised by it.
			if (s.Get == "" && len(fp.part) == 0) || (s.Get != "" && !s.Found) {
				removedBefore := false
				for _, v := range h.vers[f] {
					if v.Kind == "remove" && v.TB < s.T1 {
						removedBefore = true
					}
				}
				if removedBefore {
					h.run.count("removal_applied_after_newer_content_was_read", 1)
					continue
				}
			}
			// no admissible version: classify
			if os.Getenv("VERIF_DEBUG") != "" && failures == 0 {
				fmt.Printf("DEBUG C19 file %d floor=%d posFloor=%d sample %s [%d,%d] part=%v\n", f, floor, posFloor, s.By, s.T0, s.T1, fp.part)
				for _, s2 := range samples {
					if s2.T1 > s.T1+2 || s2.T1 < s.T1-60 || s2.Get != "" {
						continue
					}
					var part []string
					for _, n := range s2.Names {
						if h.fileOf(n) == f {
							part = append(part, n)
						}
					}
					fmt.Printf("DEBUG   %s [%d,%d] file-part=%v err=%q\n", s2.By, s2.T0, s2.T1, part, s2.Err)
				}
				for _, v := range h.vers[f] {
					fmt.Printf("DEBUG   version seq=%d order=%d kind=%s names=%v valid=%v [%d,%d] proven=%v\n", v.Seq, v.order, v.Kind, v.Names, v.Valid, v.TB, v.TE, v.Proven)
				}
				for i, a := range assigned[f] {
					if a.t1 >= s.T1-60 {
						fmt.Printf("DEBUG   assigned[%d] t1=%d order=%d\n", i, a.t1, a.order)
					}
				}
			}
			failures++
			class := "unexplained-set"
			what := fmt.Sprintf("%v", fp.part)
			switch {
			case (s.Get == "" && len(fp.part) == 0) || (s.Get != "" && !s.Found):
				// nothing of this file is visible although every admissible version defines something
				class = "namespaces-lost"
				if nF > 1 {
					class = "other-file-namespaces-lost"
				}
			case below >= 0:
				class = "went-backwards"
				// The floor may have been raised only by samples that saw NOTHING of this
				// file (empty part / name not found) and were explained by a newer version
				// whose write had merely begun. If the version shown now is not older than
				// what any sample positively showed, the unexplained part is that earlier
				// absence: the namespaces vanished and came back.
				if below >= posFloor {
					class = "namespaces-lost"
					if nF > 1 {
						class = "other-file-namespaces-lost"
					}
				}
			default:
				for _, v := range h.vers[f] {
					if v.TB >= s.T1 {
						continue
					}
					if !v.Valid && len(v.RawNames) > 0 && s.Get == "" && eqStrings(v.RawNames, fp.part) {
						class = "invalid-version-visible"
					}
					if !v.Valid && s.Get != "" && s.Found {
						for _, n := range v.RawNames {
							if n == s.Get {
								class = "invalid-version-visible"
							}
						}
					}
				}
				if class == "unexplained-set" && s.Get == "" {
					// subset of one version / names of several versions
					srcs := map[int]bool{}
					for _, n := range fp.part {
						for _, v := range h.vers[f] {
							for _, vn := range v.Names {
								if vn == n {
									srcs[v.Seq] = true
								}
							}
						}
					}
					switch {
					case len(srcs) > 1:
						class = "mixed-versions"
					case len(srcs) == 1:
						class = "partial-or-future-version"
					}
				}
			}
			if seenClass[class] > 0 {
				seenClass[class]++
				finds = append(finds, c19Finding{class: class, file: f})
				continue
			}
			seenClass[class]++
			var hist []string
			for _, v := range h.vers[f] {
				hist = append(hist, fmt.Sprintf("#%d %s valid=%v names=%v [%d,%d]", v.Seq, v.Kind, v.Valid, v.Names, v.TB, v.TE))
			}
			finds = append(finds, c19Finding{class: class, file: f, sample: s,
				summary: fmt.Sprintf("%s/%s: sample %s at logical [%d,%d] shows %s for file %s (floor version order %d); no valid version of that file written before t1 explains it. File history: %s",
					h.c.Kind, h.c.Write, s.By, s.T0, s.T1, what, h.c.Files[f], floor, strings.Join(hist, "; "))})
		}
	}
	h.run.count("sample_file_decisions_refuted", int64(failures))
	finalFloor = make([]int, nF)
	for f := 0; f < nF; f++ {
		if n := len(maxBefore[f]); n > 0 {
			finalFloor[f] = maxBefore[f][n-1]
		}
	}
	return
}

// ---------------------------------------------------------------------------
// one history

func c19Visible(env *Env, opl bool) ([]string, map[string]string, error) {
	nm, err := env.Reg.Config(env.Ctx).NamespaceManager()
	if err != nil {
		return nil, nil, err
	}
	nn, err := nm.Namespaces(env.Ctx)
	if err != nil {
		return nil, nil, err
	}
	var names []string
	dg := map[string]string{}
	for _, n := range nn {
		names = append(names, n.Name)
		dg[n.Name] = nsDigest(n, opl)
	}
	sort.Strings(names)
	return names, dg, nil
}

// quiet waits until the watcher logged at least one change after `since` and
// then stayed silent for `calm`. Returns (eventSeen, quiet).
func c19Quiet(env *Env, since int, calm, budget time.Duration) (bool, bool) {
	deadline := time.Now().Add(budget)
	last := env.Hook.changes()
	lastChange := time.Now()
	for {
		time.Sleep(10 * time.Millisecond)
		n := env.Hook.changes()
		if n != last {
			last, lastChange = n, time.Now()
		}
		if n > since && time.Since(lastChange) >= calm {
			return true, true
		}
		if time.Now().After(deadline) {
			return n > since, false
		}
	}
}

func runC19Case(run *runner, idx int64, c *c19Case, raceMode bool) string {
	root, err := os.MkdirTemp(scratchDir(), "c19-")
	if err != nil {
		run.inconclusive("scratch: " + err.Error())
		return "inconclusive"
	}
	defer os.RemoveAll(root)
	h := &c19Run{run: run, idx: idx, c: c, opl: strings.HasPrefix(c.Kind, "opl"), dir: filepath.Join(root, "watched"), stage: filepath.Join(root, "stage"), emptyOwner: -1}
	_ = os.MkdirAll(h.dir, 0o755)
	_ = os.MkdirAll(h.stage, 0o755)
	h.vers = make([][]*c19Version, len(c.Files))
	for f, name := range c.Files {
		if !h.opl && filepath.Ext(name) != ".json" && h.emptyOwner < 0 {
			h.emptyOwner = f
		}
		if err := os.WriteFile(h.path(f), []byte(c.Initial[f]), 0o644); err != nil {
			run.inconclusive("write initial: " + err.Error())
			return "inconclusive"
		}
		v := h.addVersion(f, "initial", c.Initial[f], false, 0)
		if !v.Valid {
			run.inconclusive(fmt.Sprintf("idx %d: generated initial version of %s is not valid", idx, name))
			return "inconclusive"
		}
	}
	target := "file://" + h.dir
	if strings.HasSuffix(c.Kind, "-file") {
		target = "file://" + h.path(0)
	}
	if c.Relative {
		// the spelling of keto's default (file://./keto_namespaces): relative to the
		// working directory, which is the case's scratch root for the duration of the case
		if old, err := os.Getwd(); err == nil && os.Chdir(root) == nil {
			defer func() { _ = os.Chdir(old) }()
			target = "file://./watched"
			if strings.HasSuffix(c.Kind, "-file") {
				target = "file://./watched/" + c.Files[0]
			}
			run.count("cases_with_relative_target", 1)
		}
	}
	h.cfgFile, h.cfgDepth = filepath.Join(root, "keto.yaml"), 5
	if err := os.WriteFile(h.cfgFile, []byte("limit:\n  max_read_depth: 5\n"), 0o644); err != nil {
		run.inconclusive("write config file: " + err.Error())
		return "inconclusive"
	}
	opts := EnvOpts{ConfigFile: h.cfgFile}
	if h.opl {
		opts.OPLLocation = target
	} else {
		opts.NamespacesValue = target
	}
	env, err := newEnv(run.t, opts)
	if err != nil {
		run.inconclusive(fmt.Sprintf("idx %d: env: %v", idx, err))
		return "inconclusive"
	}
	defer env.Close()
	h.env = env
	if _, err := env.Reg.Config(env.Ctx).NamespaceManager(); err != nil {
		run.inconclusive(fmt.Sprintf("idx %d: namespace manager: %v", idx, err))
		return "inconclusive"
	}
	g, err := newGRPC(env)
	if err != nil {
		run.inconclusive(fmt.Sprintf("idx %d: grpc: %v", idx, err))
		return "inconclusive"
	}
	defer g.Close()
	h.router = env.Reg.ReadRouter(env.Ctx)
	// instantiate the lazily created registry members the samplers share, from one goroutine
	_, _, _, _ = c13HTTP(h.router, "GET", "/namespaces", "", false, 20*time.Second)

	stop := make(chan struct{})
	var wg sync.WaitGroup
	for i, by := range c.Sampler {
		wg.Add(1)
		go h.sampler(by, uint64(idx)*31+uint64(i), g, stop, &wg)
	}
	// let every sampler see the initial state
	time.Sleep(5 * time.Millisecond)

	verdict := "ok"
	var lastSince int
	initialChanges := env.Hook.changes()
	for si, st := range c.Steps {
		since := env.Hook.changes()
		lastSince = since
		if err := h.apply(st.File, st.Kind, st.Content); err != nil {
			run.inconclusive(fmt.Sprintf("idx %d step %d: %v", idx, si, err))
			verdict = "inconclusive"
			break
		}
		run.count("versions_written", 1)
		switch st.Pause {
		case "settle":
			if h.settle(st.File) {
				run.count("versions_proven_read", 1)
			} else {
				run.count("settle_without_proof", 1)
			}
		case "yield":
			runtime.Gosched()
		case "short":
			time.Sleep(2 * time.Millisecond)
		case "event":
			// give the watcher the chance to load this version before the next one
			dl := time.Now().Add(1500 * time.Millisecond)
			for env.Hook.changes() == since && time.Now().Before(dl) {
				time.Sleep(500 * time.Microsecond)
			}
			if env.Hook.changes() == since {
				run.count("event_wait_expired", 1)
			}
			time.Sleep(3 * time.Millisecond)
		}
		for _, k := range c.ConfigReloadAfter {
			if k == si {
				h.reloadConfig()
			}
		}
	}
	// bounded progress
	seen, quiet := c19Quiet(env, lastSince, 400*time.Millisecond, 6*time.Second)
	time.Sleep(5 * time.Millisecond)
	close(stop)
	wg.Wait()
	run.count("change_events_logged", int64(env.Hook.changes()))

	finds, decisions, observed, overlapping, finalFloor := h.judge()
	run.eval(decisions)
	run.count("samples", int64(len(h.samp)))
	run.count("samples_overlapping_a_write", overlapping)
	for _, s := range h.samp {
		run.count("samples_"+s.By, 1)
	}
	for k := range observed {
		run.nontrivial(k)
	}
	run.count("reloaded_versions_observed", int64(len(observed)))

	if verdict == "ok" {
		switch {
		case !seen && env.Hook.changes() == initialChanges && len(c.Steps) >= 3 && h.neverDetected(initialChanges):
			// state based: not ONE change event in the whole case (all steps plus three
			// more rewrites of the current content, each given a second): the watcher
			// loaded the target once and does not follow it
			verdict = "violation"
			run.violate(violation{Index: idx, Sig: fmt.Sprintf("C19:%s:changes-never-detected", c.Kind),
				Summary: fmt.Sprintf("%d writes to the watched target %s (plus 3 rewrites of the final content) and the watcher logged no change at all; the initial version stays in effect", len(c.Steps), map[bool]string{true: "(relative spelling file://./...)", false: "(absolute)"}[c.Relative]),
				Case:    c, Detail: map[string]any{"steps": len(c.Steps), "relative_target": c.Relative}})
		case !seen && env.Hook.changes() > initialChanges && h.neverDetected(env.Hook.changes()):
			// state based: the watcher followed the target earlier in this case, but
			// neither the last step nor three more rewrites of the current content
			// (two seconds each) produced another change event: it stopped following
			verdict = "violation"
			run.violate(violation{Index: idx, Sig: fmt.Sprintf("C19:%s:stopped-following", c.Kind),
				Summary: fmt.Sprintf("the watcher logged %d change events during the history, but none for the last step nor for three further rewrites of the current content of every file: later versions never take effect", env.Hook.changes()-initialChanges),
				Case:    c, Detail: map[string]any{"steps": len(c.Steps), "changes_logged": env.Hook.changes() - initialChanges}})
		case !seen:
			run.inconclusive(fmt.Sprintf("idx %d (%s/%s): the watcher never logged a change after the last step: file event not delivered", idx, c.Kind, c.Write))
			run.count("progress_inconclusive", 1)
		case !quiet:
			run.inconclusive(fmt.Sprintf("idx %d (%s/%s): the watcher did not become quiet within the budget", idx, c.Kind, c.Write))
			run.count("progress_inconclusive", 1)
		default:
			// Final state, the watcher being quiet: every file must show a valid
			// version that is not older than (a) the newest version any sample saw and
			// (b) the newest valid version the watcher demonstrably read (settle). For
			// a file whose last write is valid and proven this means: exactly that one.
			finalCheck := func(first bool) (out []c19Finding) {
				names, dg, err := c19Visible(env, h.opl)
				if err != nil {
					out = append(out, c19Finding{class: "sampler-error:final", summary: err.Error(), file: -1})
				} else {
					parts := make([][]string, len(c.Files))
					for _, n := range names {
						if f := h.fileOf(n); f >= 0 {
							parts[f] = append(parts[f], n)
						}
					}
					for f := range c.Files {
						if first {
							run.count("progress_checks", 1)
						}
						lower := finalFloor[f]
						var proven, lastValid *c19Version
						for _, v := range h.vers[f] {
							if v.Valid {
								lastValid = v
								if v.Proven || v.Kind == "initial" {
									proven = v
								}
							}
						}
						if proven != nil && proven.order > lower {
							lower = proven.order
						}
						if first && proven != nil && proven.Seq == lastValid.Seq {
							run.count("progress_checks_exact", 1)
						}
						ok := false
						older := false
						for _, v := range h.vers[f] {
							if !v.Valid || !eqStrings(v.Names, parts[f]) {
								continue
							}
							match := true
							for _, n := range v.Names {
								if dg[n] != v.Digest[n] {
									match = false
								}
							}
							if !match {
								continue
							}
							if v.order >= lower {
								ok = true
							} else {
								older = true
							}
						}
						if ok {
							continue
						}
						class := "not-converged"
						switch {
						case len(parts[f]) == 0 && len(c.Files) > 1:
							class = "other-file-namespaces-lost"
						case len(parts[f]) == 0:
							class = "namespaces-lost"
						case older:
							class = "stuck-on-older-version"
							// a sibling file whose current content is invalid: the watcher refuses the
							// whole directory instead of keeping that file's last good version
							for g := range c.Files {
								if vs := h.vers[g]; g != f && !vs[len(vs)-1].Valid {
									class = "update-blocked-by-invalid-sibling"
								}
							}
						default:
							for _, v := range h.vers[f] {
								if !v.Valid && len(v.RawNames) > 0 && eqStrings(v.RawNames, parts[f]) {
									class = "invalid-version-visible"
								}
							}
						}
						var hist []string
						for _, v := range h.vers[f] {
							hist = append(hist, fmt.Sprintf("#%d %s valid=%v proven-read=%v names=%v", v.Seq, v.Kind, v.Valid, v.Proven, v.Names))
						}
						out = append(out, c19Finding{class: class, file: f,
							summary: fmt.Sprintf("%s/%s: after the last step, the watcher's change log line and %v of silence, file %s shows %v; the newest version a sample saw / the watcher demonstrably read has order %d, and no valid version at or after it defines that set. File history: %s",
								c.Kind, c.Write, 400*time.Millisecond, c.Files[f], parts[f], lower/3, strings.Join(hist, "; "))})
					}
				}
				return out
			}
			ff := finalCheck(true)
			if len(ff) > 0 {
				// be generous: give the watcher a much longer silence and look again
				c19Quiet(env, lastSince, 1500*time.Millisecond, 8*time.Second)
				run.count("progress_rechecks", 1)
				ff = finalCheck(false)
			}
			finds = append(finds, ff...)
		}
	}

	// report: one violation per signature and history
	bySig := map[string][]c19Finding{}
	var order []string
	for _, f := range finds {
		sig := fmt.Sprintf("C19:%s:%s", c.Kind, f.class)
		if _, ok := bySig[sig]; !ok {
			order = append(order, sig)
		}
		bySig[sig] = append(bySig[sig], f)
	}
	for _, sig := range order {
		fs := bySig[sig]
		f := fs[0]
		var vers []any
		for fi := range h.vers {
			for _, v := range h.vers[fi] {
				vers = append(vers, map[string]any{"file": c.Files[fi], "seq": v.Seq, "kind": v.Kind, "valid": v.Valid, "names": v.Names, "tb": v.TB, "te": v.TE})
			}
		}
		run.violate(violation{Index: idx, Sub: fmt.Sprintf("file%d", f.file), Sig: sig,
			Summary: fmt.Sprintf("%s (%d such observations in this history)", f.summary, len(fs)),
			Case:    c, Detail: map[string]any{"first_sample": f.sample, "versions": vers, "observations": len(fs)}})
		verdict = "violation"
	}
	return verdict
}

func TestC19(t *testing.T) {
	run := newRunner(t, "C19")
	defer run.finish()
	p := run.p
	race := p.Mode == "race"
	n := int64(p.pick(480, 12000))
	if race {
		n = int64(p.pick(64, 2400))
	}
	for idx := int64(0); idx < n; idx++ {
		if !p.mine(idx) {
			continue
		}
		c := genC19Case(p.rng(idx, "case"), idx)
		run.begin(idx, "", c)
		v := runC19Case(run, idx, c, race)
		run.end(idx, "", v)
		if idx < 8 {
			run.sample(map[string]any{"kind": c.Kind, "write": c.Write, "files": c.Files, "steps": len(c.Steps), "samplers": c.Sampler, "verdict": v})
		}
	}
}
