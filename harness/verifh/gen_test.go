package verifh

// Seeded generators: namespace configurations, relationship multisets, queries,
// adversarial strings.

import (
	"fmt"
	"math/rand/v2"
	"strings"
)

type genOpts struct {
	ASTNames     bool // names that are not OPL identifiers (AST-loaded configs only)
	AllowNot     bool
	AllowAnd     bool
	AllowTTU     bool
	MaxExprDepth int
	// RecursiveTTU allows `view = parents.traverse(p => p.permits.view)`
	RecursiveTTU bool
	// SubjectSetTTU allows TTU over relations with SubjectSet types (C11's subject)
	SubjectSetTTU bool
	// SelfPermits allows same-object recursion through permits (C15 only)
	SelfPermits bool
}

var oplNSNames = []string{"User", "Group", "Doc", "Folder", "Org"}
var astNSNames = []string{"a", "a-b", "n s", "Doc", "Группа"}
var relNames = []string{"owners", "editors", "viewers", "parents", "members", "admins"}
var astRelNames = []string{"c", "b-c", "r r", "parents", "members", "x"}
var permNames = []string{"view", "edit", "del", "share"}

func pickS(r *rand.Rand, xs []string) string { return xs[r.IntN(len(xs))] }

// genCfg generates a configuration that keto's type checker accepts (by
// construction): every referenced namespace / relation is declared, and every
// traverse target is declared on all (plain) types of the traversed relation.
func genCfg(r *rand.Rand, o genOpts) *Cfg {
	nsPool, relPool := oplNSNames, relNames
	if o.ASTNames {
		nsPool, relPool = astNSNames, astRelNames
	}
	c := &Cfg{}
	nNS := 2 + r.IntN(3)
	perm := r.Perm(len(nsPool))
	// first namespace: subject-like, unconfigured (no relations)
	c.NS = append(c.NS, &NSDef{Name: nsPool[perm[0]]})
	for i := 1; i < nNS; i++ {
		c.NS = append(c.NS, &NSDef{Name: nsPool[perm[i]]})
	}
	// plain relations
	for i := 1; i < nNS; i++ {
		n := c.NS[i]
		nRel := 1 + r.IntN(4)
		rp := r.Perm(len(relPool))
		for j := 0; j < nRel; j++ {
			n.Rels = append(n.Rels, &RelDef{Name: relPool[rp[j]]})
		}
	}
	// relation types (need all relations declared first)
	type nsrel struct{ ns, rel string }
	var allRels []nsrel
	for _, n := range c.NS {
		for _, rd := range n.Rels {
			allRels = append(allRels, nsrel{n.Name, rd.Name})
		}
	}
	for _, n := range c.NS[1:] {
		for _, rd := range n.Rels {
			nT := 1 + r.IntN(3)
			seen := map[TypeRef]bool{}
			for k := 0; k < nT; k++ {
				var t TypeRef
				if r.IntN(3) == 0 && len(allRels) > 0 {
					x := allRels[r.IntN(len(allRels))]
					t = TypeRef{NS: x.ns, Rel: x.rel}
				} else {
					t = TypeRef{NS: c.NS[r.IntN(len(c.NS))].Name}
				}
				if !seen[t] {
					seen[t] = true
					rd.Types = append(rd.Types, t)
				}
			}
		}
	}
	// permissions
	for _, n := range c.NS[1:] {
		nP := r.IntN(4)
		if nP > len(permNames) {
			nP = len(permNames)
		}
		names := permNames
		if o.ASTNames && r.IntN(2) == 0 {
			names = []string{"p", "p-q", "view", "e d"}
		}
		for j := 0; j < nP; j++ {
			name := names[j]
			if n.rel(name) != nil {
				continue
			}
			pd := &RelDef{Name: name, Perm: true}
			// the expression may reference earlier permissions of this namespace
			pd.Rewrite = genExpr(r, c, n, pd, o, maxI(o.MaxExprDepth, 1))
			n.Rels = append(n.Rels, pd)
		}
	}
	return c
}

func maxI(a, b int) int {
	if a > b {
		return a
	}
	return b
}

// ttuCandidates: (relation, computed) pairs acceptable to the type checker.
func ttuCandidates(c *Cfg, n *NSDef, self *RelDef, o genOpts) [][2]string {
	var out [][2]string
	for _, rd := range n.Rels {
		if rd.Rewrite != nil || len(rd.Types) == 0 {
			continue
		}
		ok := true
		for _, t := range rd.Types {
			if t.Rel != "" && !o.SubjectSetTTU {
				ok = false
			}
		}
		if !ok {
			continue
		}
		// candidates: names declared in every type's namespace
		var cands map[string]int
		for i, t := range rd.Types {
			tn := c.ns(t.NS)
			m := map[string]int{}
			if tn != nil {
				for _, x := range tn.Rels {
					m[x.Name] = 1
				}
				if tn == n && self != nil && o.RecursiveTTU {
					m[self.Name] = 1
				}
			}
			if i == 0 {
				cands = m
			} else {
				for k := range cands {
					if m[k] == 0 {
						delete(cands, k)
					}
				}
			}
		}
		for k := range cands {
			out = append(out, [2]string{rd.Name, k})
		}
	}
	// deterministic order
	for i := 0; i < len(out); i++ {
		for j := i + 1; j < len(out); j++ {
			if out[j][0]+"\x00"+out[j][1] < out[i][0]+"\x00"+out[i][1] {
				out[i], out[j] = out[j], out[i]
			}
		}
	}
	return out
}

func genLeaf(r *rand.Rand, c *Cfg, n *NSDef, self *RelDef, o genOpts) *Expr {
	if o.AllowTTU && r.IntN(3) == 0 {
		if cs := ttuCandidates(c, n, self, o); len(cs) > 0 {
			x := cs[r.IntN(len(cs))]
			e := &Expr{Op: "ttu", Rel: x[0], Comp: x[1]}
			// via permits if the target is a permission in (one of) the target namespaces
			for _, t := range n.rel(x[0]).Types {
				if tn := c.ns(t.NS); tn != nil {
					if tr := tn.rel(x[1]); (tr != nil && tr.Rewrite != nil) || (tn == n && self != nil && x[1] == self.Name) {
						e.ViaPermits = true
					}
				}
			}
			return e
		}
	}
	// computed subject set: a plain relation or an earlier permission
	var cands []*RelDef
	for _, rd := range n.Rels {
		cands = append(cands, rd)
	}
	if o.SelfPermits && self != nil && r.IntN(3) == 0 {
		return &Expr{Op: "csr", Rel: self.Name, ViaPermits: true}
	}
	if len(cands) == 0 {
		// no relation to refer to: cannot happen for configured namespaces (>=1 relation)
		return &Expr{Op: "csr", Rel: "members"}
	}
	rd := cands[r.IntN(len(cands))]
	return &Expr{Op: "csr", Rel: rd.Name, ViaPermits: rd.Rewrite != nil}
}

func genExpr(r *rand.Rand, c *Cfg, n *NSDef, self *RelDef, o genOpts, depth int) *Expr {
	if depth <= 0 || r.IntN(4) == 0 {
		return genLeaf(r, c, n, self, o)
	}
	switch k := r.IntN(10); {
	case k < 4:
		return genNary(r, c, n, self, o, depth, "or")
	case k < 7 && o.AllowAnd:
		return genNary(r, c, n, self, o, depth, "and")
	case k < 9 && o.AllowNot:
		return &Expr{Op: "not", Kids: []*Expr{genExpr(r, c, n, self, o, depth-1)}}
	}
	return genNary(r, c, n, self, o, depth, "or")
}

func genNary(r *rand.Rand, c *Cfg, n *NSDef, self *RelDef, o genOpts, depth int, op string) *Expr {
	e := &Expr{Op: op}
	k := 2 + r.IntN(2)
	for i := 0; i < k; i++ {
		e.Kids = append(e.Kids, genExpr(r, c, n, self, o, depth-1))
	}
	return e
}

// ---------------------------------------------------------------------------
// tuples

type world struct {
	Objs  map[string][]string // per namespace
	Users []string            // subject ids
}

func genWorld(r *rand.Rand, c *Cfg, adversarial bool) *world {
	w := &world{Objs: map[string][]string{}}
	// object names are not namespaced inside keto (the UUID of an object is derived
	// from its name alone): half of the worlds use the SAME object names in every
	// namespace, so that Doc:x0 and Folder:x0 are different objects with one UUID
	shared := r.IntN(2) == 0
	for _, n := range c.NS {
		k := 2 + r.IntN(3)
		for i := 0; i < k; i++ {
			name := fmt.Sprintf("%s%d", strings.ToLower(n.Name[:1]), i)
			if shared {
				name = fmt.Sprintf("x%d", i)
			}
			if adversarial && r.IntN(4) == 0 {
				name = advString(r)
			}
			w.Objs[n.Name] = append(w.Objs[n.Name], name)
		}
	}
	k := 2 + r.IntN(3)
	for i := 0; i < k; i++ {
		w.Users = append(w.Users, fmt.Sprintf("u%d", i))
	}
	return w
}

func (w *world) obj(r *rand.Rand, ns string) string {
	os := w.Objs[ns]
	if len(os) == 0 {
		return "o0"
	}
	return os[r.IntN(len(os))]
}

// genSubjectFor returns a subject conforming to type t.
func genSubjectFor(r *rand.Rand, c *Cfg, w *world, t TypeRef) (id *string, set *[3]string) {
	if t.Rel != "" {
		return nil, &[3]string{t.NS, w.obj(r, t.NS), t.Rel}
	}
	// plain type: entity reference (subject set with empty relation) or, for
	// relation-less namespaces, also a bare subject id
	if tn := c.ns(t.NS); tn != nil && len(tn.Rels) == 0 && r.IntN(2) == 0 {
		return sp(w.Users[r.IntN(len(w.Users))]), nil
	}
	return nil, &[3]string{t.NS, w.obj(r, t.NS), ""}
}

func mkTup(ns, obj, rel string, id *string, set *[3]string) *Tup {
	if id != nil {
		return tupID(ns, obj, rel, *id)
	}
	return tupSet(ns, obj, rel, set[0], set[1], set[2])
}

// genTuples: mostly type-conforming relationships, plus noise that never names
// an undeclared relation of a configured namespace (that is C11's subject).
func genTuples(r *rand.Rand, c *Cfg, w *world, n int, noise bool) []*Tup {
	type slot struct {
		ns string
		rd *RelDef
	}
	var slots []slot
	for _, nd := range c.NS {
		for _, rd := range nd.Rels {
			slots = append(slots, slot{nd.Name, rd})
		}
	}
	var out []*Tup
	if len(slots) == 0 {
		return out
	}
	for i := 0; i < n; i++ {
		s := slots[r.IntN(len(slots))]
		obj := w.obj(r, s.ns)
		switch {
		case s.rd.Rewrite != nil:
			// relationship written directly on a permission (counts in default mode only)
			if !noise || r.IntN(3) != 0 {
				continue
			}
			out = append(out, tupID(s.ns, obj, s.rd.Name, w.Users[r.IntN(len(w.Users))]))
		case noise && r.IntN(8) == 0:
			// non-conforming subject: any declared subject set or a user id
			if r.IntN(2) == 0 {
				out = append(out, tupID(s.ns, obj, s.rd.Name, w.Users[r.IntN(len(w.Users))]))
			} else {
				s2 := slots[r.IntN(len(slots))]
				out = append(out, tupSet(s.ns, obj, s.rd.Name, s2.ns, w.obj(r, s2.ns), s2.rd.Name))
			}
		case len(s.rd.Types) > 0:
			t := s.rd.Types[r.IntN(len(s.rd.Types))]
			id, set := genSubjectFor(r, c, w, t)
			out = append(out, mkTup(s.ns, obj, s.rd.Name, id, set))
		default:
			out = append(out, tupID(s.ns, obj, s.rd.Name, w.Users[r.IntN(len(w.Users))]))
		}
		if r.IntN(12) == 0 && len(out) > 0 {
			out = append(out, cloneTup(out[r.IntN(len(out))])) // duplicate
		}
	}
	return out
}

// genQueries: checks on declared (namespace, relation) pairs with subjects
// drawn from the world (ids, entity references, subject sets).
func genQueries(r *rand.Rand, c *Cfg, w *world, ts []*Tup, n int) []*Tup {
	type slot struct {
		ns string
		rd *RelDef
	}
	var slots []slot
	for _, nd := range c.NS {
		for _, rd := range nd.Rels {
			slots = append(slots, slot{nd.Name, rd})
		}
	}
	var out []*Tup
	if len(slots) == 0 {
		return out
	}
	for i := 0; i < n; i++ {
		s := slots[r.IntN(len(slots))]
		// bias towards permissions
		for k := 0; k < 2 && s.rd.Rewrite == nil; k++ {
			s = slots[r.IntN(len(slots))]
		}
		obj := w.obj(r, s.ns)
		switch r.IntN(6) {
		case 0, 1, 2:
			out = append(out, tupID(s.ns, obj, s.rd.Name, w.Users[r.IntN(len(w.Users))]))
		case 3:
			// a subject that occurs in the data
			if len(ts) > 0 {
				t := ts[r.IntN(len(ts))]
				q := cloneTup(t)
				q.Namespace, q.Object, q.Relation = s.ns, obj, s.rd.Name
				out = append(out, q)
				continue
			}
			fallthrough
		case 4:
			un := c.NS[0].Name
			out = append(out, tupSet(s.ns, obj, s.rd.Name, un, w.obj(r, un), ""))
		default:
			s2 := slots[r.IntN(len(slots))]
			out = append(out, tupSet(s.ns, obj, s.rd.Name, s2.ns, w.obj(r, s2.ns), s2.rd.Name))
		}
	}
	return out
}

// ---------------------------------------------------------------------------
// adversarial strings

var advPool = []string{
	"", " ", "a", "A", "a b", "a:b", "a#b", "a@b", "(a)", "a)", "(a", ":", "#", "@", "()", "...", "a-b", "a--b",
	"\x00", "a\x00b", "\n", "a\nb", "\t", "'", "\"", "`", "\\", "\\\\", "%", "%00", "%s", "_", "*", "?", "a%b", "a_b",
	"é", "é", "ß", "ẞ", "İ", "ı", "\u202eRTL", "\u200b", "\ufeff", "日本語", "🙂", "👩‍👩‍👧", "퟿", "", "￿",
	"null", "NULL", "undefined", "0", "-1", "1e9", "true", "{}", "[]", "<script>", "a/b", "a\\b", "../x", "a;b", "a,b", "a|b", "a&b", "a=b", "a+b",
	"00000000-0000-0000-0000-000000000000", "ffffffff-ffff-ffff-ffff-ffffffffffff",
	"SELECT 1", "'; DROP TABLE keto_relation_tuples; --", "a' OR '1'='1",
	"x", "X", "ｘ", "х", // latin, fullwidth, cyrillic
	"trailing ", " leading", "double  space",
}

func advString(r *rand.Rand) string {
	switch r.IntN(12) {
	case 0:
		return strings.Repeat(pickS(r, []string{"a", "é", "🙂", ":", "x y"}), 1+r.IntN(2000))
	case 1:
		// random unicode soup (valid UTF-8)
		n := 1 + r.IntN(12)
		var sb strings.Builder
		for i := 0; i < n; i++ {
			cp := rune(r.IntN(0x2fff))
			if cp >= 0xd800 && cp <= 0xdfff {
				cp = 'x'
			}
			sb.WriteRune(cp)
		}
		return sb.String()
	case 2:
		return pickS(r, advPool) + pickS(r, advPool)
	case 3:
		return fmt.Sprintf("n%d", r.IntN(1000))
	}
	return pickS(r, advPool)
}
