package verifh

// refstore — executable model of the relationship store (C04, C06, C07):
//
//   * per-network multiset of API tuples (a slice per network: duplicates are
//     separate rows, exactly like the table, which has no uniqueness on content);
//   * create appends; delete(t) removes ALL rows equal to t; delete-by-query
//     removes all matching rows; patch / transact = all inserts, then all
//     deletes, all-or-nothing (the caller applies it only when the real request
//     was accepted);
//   * the query matcher over the 2^4 query shapes (matchesQuery, c16_test.go);
//   * the pagination oracle (pages partition the match multiset, page length,
//     token emptiness);
//   * graph reachability with depth, and the expand-tree oracle.
//
// Nothing here calls keto code beyond the ketoapi data types.

import (
	"fmt"
	"sort"
	"strings"

	"github.com/ory/keto/ketoapi"
)

type refStore struct {
	nets map[string][]*Tup
}

func newRefStore() *refStore { return &refStore{nets: map[string][]*Tup{}} }

func (s *refStore) rows(net string) []*Tup { return s.nets[net] }

func (s *refStore) size(net string) int { return len(s.nets[net]) }

func (s *refStore) create(net string, ts ...*Tup) {
	for _, t := range ts {
		s.nets[net] = append(s.nets[net], cloneTup(t))
	}
}

// deleteEqual removes every row equal to one of ts; returns the number removed.
func (s *refStore) deleteEqual(net string, ts ...*Tup) int {
	if len(ts) == 0 {
		return 0
	}
	kill := map[string]bool{}
	for _, t := range ts {
		kill[tupKey(t)] = true
	}
	var keep []*Tup
	n := 0
	for _, r := range s.nets[net] {
		if kill[tupKey(r)] {
			n++
			continue
		}
		keep = append(keep, r)
	}
	s.nets[net] = keep
	return n
}

func (s *refStore) deleteQuery(net string, q *ketoapi.RelationQuery) int {
	var keep []*Tup
	n := 0
	for _, r := range s.nets[net] {
		if matchesQuery(r, q) {
			n++
			continue
		}
		keep = append(keep, r)
	}
	s.nets[net] = keep
	return n
}

// transact: inserts first, then deletes (a tuple inserted and deleted by the
// same request is gone afterwards, together with all equal rows).
func (s *refStore) transact(net string, ins, del []*Tup) {
	s.create(net, ins...)
	s.deleteEqual(net, del...)
}

func (s *refStore) match(net string, q *ketoapi.RelationQuery) []*Tup {
	var out []*Tup
	for _, r := range s.nets[net] {
		if matchesQuery(r, q) {
			out = append(out, r)
		}
	}
	return out
}

func (s *refStore) count(net string, t *Tup) int {
	k := tupKey(t)
	n := 0
	for _, r := range s.nets[net] {
		if tupKey(r) == k {
			n++
		}
	}
	return n
}

// ---------------------------------------------------------------------------
// query shapes: bit 0 namespace, bit 1 object, bit 2 relation, bit 3 subject

func queryOfShape(shape int, t *Tup) *ketoapi.RelationQuery {
	q := &ketoapi.RelationQuery{}
	if shape&1 != 0 {
		q.Namespace = sp(t.Namespace)
	}
	if shape&2 != 0 {
		q.Object = sp(t.Object)
	}
	if shape&4 != 0 {
		q.Relation = sp(t.Relation)
	}
	if shape&8 != 0 {
		if t.SubjectID != nil {
			q.SubjectID = sp(*t.SubjectID)
		} else if t.SubjectSet != nil {
			ss := *t.SubjectSet
			q.SubjectSet = &ss
		}
	}
	return q
}

func shapeOfQuery(q *ketoapi.RelationQuery) int {
	s := 0
	if q.Namespace != nil {
		s |= 1
	}
	if q.Object != nil {
		s |= 2
	}
	if q.Relation != nil {
		s |= 4
	}
	if q.SubjectID != nil || q.SubjectSet != nil {
		s |= 8
	}
	return s
}

func descQuery(q *ketoapi.RelationQuery) string {
	var parts []string
	if q.Namespace != nil {
		parts = append(parts, "ns="+descStr(*q.Namespace))
	}
	if q.Object != nil {
		parts = append(parts, "obj="+descStr(*q.Object))
	}
	if q.Relation != nil {
		parts = append(parts, "rel="+descStr(*q.Relation))
	}
	if q.SubjectID != nil {
		parts = append(parts, "sid="+descStr(*q.SubjectID))
	}
	if q.SubjectSet != nil {
		parts = append(parts, fmt.Sprintf("sset=%s:%s#%s", descStr(q.SubjectSet.Namespace), descStr(q.SubjectSet.Object), descStr(q.SubjectSet.Relation)))
	}
	return "{" + strings.Join(parts, " ") + "}"
}

// queryNamespaces returns the namespace names a query mentions (an unknown one
// makes keto answer "not found" instead of an empty list).
func queryNamespaces(q *ketoapi.RelationQuery) []string {
	var out []string
	if q.Namespace != nil {
		out = append(out, *q.Namespace)
	}
	if q.SubjectSet != nil {
		out = append(out, q.SubjectSet.Namespace)
	}
	return out
}

func tupleNamespaces(t *Tup) []string {
	out := []string{t.Namespace}
	if t.SubjectSet != nil {
		out = append(out, t.SubjectSet.Namespace)
	}
	return out
}

// ---------------------------------------------------------------------------
// pagination oracle

// effPageSize: the effective page size of a requested size (0 = default 100).
func effPageSize(s int) int {
	if s == 0 {
		return 100
	}
	return s
}

type pageObs struct {
	Rows []*Tup
	Next string
}

// pagesOracle judges one complete iteration over a store that did not change:
// class "" when pages partition want, every page is at most eff long and the
// token is empty exactly on the page after which nothing remains.
func pagesOracle(want []*Tup, pages []pageObs, eff int) (class string, detail map[string]any) {
	var all []*Tup
	for i, p := range pages {
		if len(p.Rows) > eff {
			return "page-too-long", map[string]any{"page": i, "len": len(p.Rows), "effective_size": eff}
		}
		all = append(all, p.Rows...)
		last := i == len(pages)-1
		if !last && p.Next == "" {
			return "harness-bug-continued-after-empty-token", nil
		}
		if last && p.Next != "" {
			return "iteration-not-finished", map[string]any{"pages": len(pages)}
		}
		if !last && len(all) >= len(want) {
			// everything has been delivered, yet the token said "more"
			if cls, _ := multisetDiff(want, all); cls == "" {
				return "token-nonempty-on-last-page", map[string]any{"page": i, "pages": len(pages), "matches": len(want)}
			}
		}
	}
	if cls, det := multisetDiff(want, all); cls != "" {
		if det == nil {
			det = map[string]any{}
		}
		det["pages"] = len(pages)
		det["matches"] = len(want)
		det["returned"] = len(all)
		// "missing" with an early empty token is the token clause; keep both visible
		return "concat-" + cls, det
	}
	return "", nil
}

// ---------------------------------------------------------------------------
// reachability / expand oracle

type xnode struct {
	Type string              `json:"type"`
	ID   *string             `json:"id,omitempty"`
	Set  *ketoapi.SubjectSet `json:"set,omitempty"`
	Kids []*xnode            `json:"kids,omitempty"`
}

func (n *xnode) key() string {
	if n == nil {
		return "nil"
	}
	if n.ID != nil {
		return "id:" + *n.ID
	}
	if n.Set != nil {
		return fmt.Sprintf("set:%q:%q#%q", n.Set.Namespace, n.Set.Object, n.Set.Relation)
	}
	return "nil"
}

func xnodeFromAPI(t *ketoapi.Tree[*ketoapi.RelationTuple]) *xnode {
	if t == nil {
		return nil
	}
	n := &xnode{Type: string(t.Type)}
	if t.Tuple != nil {
		if t.Tuple.SubjectID != nil {
			n.ID = sp(*t.Tuple.SubjectID)
		} else if t.Tuple.SubjectSet != nil {
			ss := *t.Tuple.SubjectSet
			n.Set = &ss
		}
	}
	for _, c := range t.Children {
		n.Kids = append(n.Kids, xnodeFromAPI(c))
	}
	return n
}

type graphModel struct {
	by map[string][]*Tup // key of (ns,obj,rel) as a subject set -> rows
}

func setKey(ns, obj, rel string) string { return fmt.Sprintf("set:%q:%q#%q", ns, obj, rel) }

func newGraphModel(rows []*Tup) *graphModel {
	g := &graphModel{by: map[string][]*Tup{}}
	for _, r := range rows {
		k := setKey(r.Namespace, r.Object, r.Relation)
		g.by[k] = append(g.by[k], r)
	}
	return g
}

// reachable: subject keys reachable from root within depth levels (depth 1 =
// the root only, depth 2 = its direct subjects, ...).
func (g *graphModel) reachable(root *ketoapi.SubjectSet, depth int) map[string]bool {
	out := map[string]bool{}
	type item struct {
		k string
		d int
	}
	rk := setKey(root.Namespace, root.Object, root.Relation)
	best := map[string]int{rk: depth}
	queue := []item{{rk, depth}}
	out[rk] = true
	for len(queue) > 0 {
		it := queue[0]
		queue = queue[1:]
		if it.d <= 1 {
			continue
		}
		for _, r := range g.by[it.k] {
			sk := subjKey(r)
			out[sk] = true
			if r.SubjectSet != nil {
				if b, ok := best[sk]; !ok || b < it.d-1 {
					best[sk] = it.d - 1
					queue = append(queue, item{sk, it.d - 1})
				}
			}
		}
	}
	return out
}

// expandOracle judges an expand answer for root at the given depth (>= 1)
// against the rows of the model. It encodes what every answer of a correct
// expand must satisfy whatever the storage order:
//   - no rows for the root <=> empty answer;
//   - the root node carries the requested subject set;
//   - an expanded (union) node's children are exactly the subjects of the
//     model's rows for that node's subject set, as a multiset;
//   - a subject-set node that is NOT expanded needs a reason: it sits at the
//     depth limit, has no rows, or the same subject set occurs elsewhere in the
//     tree (keto expands a subject set once per request);
//   - nothing outside the depth-bounded reachable set appears.
func expandOracle(rows []*Tup, root *ketoapi.SubjectSet, depth int, tree *xnode) (class string, detail string) {
	g := newGraphModel(rows)
	rk := setKey(root.Namespace, root.Object, root.Relation)
	if len(g.by[rk]) == 0 {
		if tree != nil {
			return "tree-for-empty-set", "model has no rows for the root, answer has a tree with root " + tree.key()
		}
		return "", ""
	}
	if tree == nil {
		return "empty-for-nonempty-set", fmt.Sprintf("model has %d rows for the root, answer is empty", len(g.by[rk]))
	}
	if tree.key() != rk {
		return "root-differs", fmt.Sprintf("root is %s, asked for %s", trunc(tree.key(), 200), trunc(rk, 200))
	}
	occ := map[string]int{}
	handled := map[string]bool{} // expanded somewhere, or seen at the depth limit somewhere
	var walk func(n *xnode, level int)
	walk = func(n *xnode, level int) {
		occ[n.key()]++
		if len(n.Kids) > 0 || level >= depth {
			handled[n.key()] = true
		}
		for _, k := range n.Kids {
			if k != nil {
				walk(k, level+1)
			}
		}
	}
	walk(tree, 1)
	reach := g.reachable(root, depth)
	var judge func(n *xnode, level int) (string, string)
	judge = func(n *xnode, level int) (string, string) {
		if n == nil {
			return "nil-node", "a child of the tree is null"
		}
		if !reach[n.key()] {
			return "unreachable-subject", fmt.Sprintf("%s is not reachable from the root within depth %d in the model", trunc(n.key(), 200), depth)
		}
		if n.Set == nil {
			if len(n.Kids) > 0 {
				return "subject-id-with-children", n.key()
			}
			return "", ""
		}
		want := g.by[n.key()]
		expanded := len(n.Kids) > 0 || n.Type == string(ketoapi.TreeNodeUnion)
		if !expanded {
			switch {
			case level >= depth: // depth limit
			case len(want) == 0: // nothing to expand
			case occ[n.key()] > 1 && handled[n.key()]: // expanded (or cut) elsewhere in this request
			default:
				return "not-expanded", fmt.Sprintf("%s has %d rows in the model, is above the depth limit (level %d of %d) and occurs once in the tree, but is a leaf", trunc(n.key(), 200), len(want), level, depth)
			}
			return "", ""
		}
		if level >= depth {
			return "expanded-below-depth-limit", fmt.Sprintf("%s at level %d of %d has children", trunc(n.key(), 200), level, depth)
		}
		var wk, gk []string
		for _, r := range want {
			wk = append(wk, subjKey(r))
		}
		for _, k := range n.Kids {
			gk = append(gk, k.key())
		}
		sort.Strings(wk)
		sort.Strings(gk)
		if strings.Join(wk, "\x01") != strings.Join(gk, "\x01") {
			cls := "children-differ"
			if len(wk) != len(gk) {
				cls = "children-count"
			}
			return cls, fmt.Sprintf("%s: answer has %d children, model has %d subjects; got %s want %s", trunc(n.key(), 120), len(gk), len(wk),
				trunc(strings.Join(gk[:minInt(len(gk), 4)], " "), 300), trunc(strings.Join(wk[:minInt(len(wk), 4)], " "), 300))
		}
		for _, k := range n.Kids {
			if c, d := judge(k, level+1); c != "" {
				return c, d
			}
		}
		return "", ""
	}
	return judge(tree, 1)
}
