package verifh

// In-process gRPC: the registry's real servers (all interceptors, including the
// recovery interceptor) served over bufconn.

import (
	"context"
	"io"
	"net"
	"net/http"
	"net/http/httptest"
	"strings"
	"sync"
	"time"

	"google.golang.org/grpc"
	"google.golang.org/grpc/credentials/insecure"
	"google.golang.org/grpc/test/bufconn"

	opl "github.com/ory/keto/proto/ory/keto/opl/v1alpha1"
	rts "github.com/ory/keto/proto/ory/keto/relation_tuples/v1alpha2"
)

type grpcClients struct {
	Check      rts.CheckServiceClient
	Expand     rts.ExpandServiceClient
	Read       rts.ReadServiceClient
	Namespaces rts.NamespacesServiceClient
	Write      rts.WriteServiceClient
	Syntax     opl.SyntaxServiceClient
	stop       []func()
}

func (g *grpcClients) Close() {
	for _, f := range g.stop {
		f()
	}
}

func serveBuf(s *grpc.Server) (*grpc.ClientConn, func(), error) {
	lis := bufconn.Listen(1 << 20)
	go func() { _ = s.Serve(lis) }()
	conn, err := grpc.NewClient("passthrough:///bufnet",
		grpc.WithContextDialer(func(ctx context.Context, _ string) (net.Conn, error) { return lis.DialContext(ctx) }),
		grpc.WithTransportCredentials(insecure.NewCredentials()),
		grpc.WithDefaultCallOptions(grpc.MaxCallRecvMsgSize(64<<20), grpc.MaxCallSendMsgSize(64<<20)))
	if err != nil {
		s.Stop()
		return nil, nil, err
	}
	return conn, func() { _ = conn.Close(); s.Stop() }, nil
}

var grpcInitMu sync.Mutex

// newGRPC starts the read, write and OPL syntax gRPC servers of env's registry.
func newGRPC(env *Env) (*grpcClients, error) {
	grpcInitMu.Lock()
	defer grpcInitMu.Unlock()
	g := &grpcClients{}
	env.Reg.PrometheusManager() // the interceptor chain dereferences it
	rc, stop, err := serveBuf(env.Reg.ReadGRPCServer(env.Ctx))
	if err != nil {
		return nil, err
	}
	g.stop = append(g.stop, stop)
	wc, stop, err := serveBuf(env.Reg.WriteGRPCServer(env.Ctx))
	if err != nil {
		g.Close()
		return nil, err
	}
	g.stop = append(g.stop, stop)
	oc, stop, err := serveBuf(env.Reg.OplGRPCServer(env.Ctx))
	if err != nil {
		g.Close()
		return nil, err
	}
	g.stop = append(g.stop, stop)
	g.Check = rts.NewCheckServiceClient(rc)
	g.Expand = rts.NewExpandServiceClient(rc)
	g.Read = rts.NewReadServiceClient(rc)
	g.Namespaces = rts.NewNamespacesServiceClient(rc)
	g.Write = rts.NewWriteServiceClient(wc)
	g.Syntax = opl.NewSyntaxServiceClient(oc)
	return g, nil
}

// httpDo drives an http.Handler in-process with a server-style request (Body is
// never nil, like for a real server) whose context has a generous deadline and
// is cancelled when the handler has returned (keto's check goroutines only
// stop when the request context ends). A panic escaping ServeHTTP is returned
// as panicText (status 0).
func httpDo(h http.Handler, method, target, body string, hdr map[string]string) (status int, respBody string, panicText string) {
	return httpDoCtx(context.Background(), 60*time.Second, h, method, target, body, hdr)
}

func httpDoCtx(parent context.Context, timeout time.Duration, h http.Handler, method, target, body string, hdr map[string]string) (status int, respBody string, panicText string) {
	var rd io.Reader = http.NoBody
	if body != "" {
		rd = strings.NewReader(body)
	}
	ctx, cancel := context.WithTimeout(parent, timeout)
	defer cancel()
	req, err := http.NewRequestWithContext(ctx, method, "http://keto.test"+target, rd)
	if err != nil {
		return -1, "", ""
	}
	req.RequestURI = target
	if body == "" {
		req.Body = http.NoBody
	}
	for k, v := range hdr {
		req.Header.Set(k, v)
	}
	rec := httptest.NewRecorder()
	panicText = guard(func() { h.ServeHTTP(rec, req) })
	if panicText != "" {
		return 0, "", panicText
	}
	return rec.Code, rec.Body.String(), ""
}
