package verifh

// C18 — relationship encodings are faithful on their documented domains.
//
// Pure functions of package ketoapi (and the `relation-tuple parse` command of
// cmd/relationtuple) are run on generated adversarial values:
//
//  (1) decode_f(encode_f(x)) = x for f in {JSON, URL query, protobuf} for API
//      tuples and API queries with ANY field contents (valid UTF-8: neither JSON
//      nor proto3 can carry other byte strings); the subject-id / subject-set
//      distinction is part of equality. The encodings go through their wire form
//      (JSON bytes, the percent-encoded query string, proto wire bytes).
//  (2) FromString(String(x)) = x for every tuple x in Dom_string (below).
//  (3) for ARBITRARY strings s: FromString(s) errors, or
//      t := FromString(s) satisfies FromString(String(t)) = t  (malformed text is
//      rejected rather than silently mis-parsed into something that prints
//      differently).
//  (4) no input makes any of these functions panic.
//  (5) `keto relation-tuple parse` (cobra command, driven in-process through
//      NewParseCmd with stdin) yields exactly FromString(line) per line, where a
//      line is a "\n"-separated row with surrounding white space removed, and
//      blank rows and rows starting with "//" are skipped (the command's
//      documented behaviour); it fails iff one of the rows is rejected by
//      FromString.
//
// Dom_string — the documented domain of the human readable form
// `namespace:object#relation@subject`. The four separators are significant in
// these positions only, and a tuple is in the domain iff
//   * namespace contains no ':'
//   * object contains no '#'
//   * relation contains no '@'
//   * a subject id contains no ':' (it would read as a subject set) and neither
//     starts nor ends with '(' or ')' (optional brackets around the subject are
//     stripped by the parser)
//   * a subject set's namespace contains no ':' and its object no '#'; the
//     printed subject text as a whole neither starts nor ends with '(' / ')':
//     i.e. its namespace does not start with a parenthesis (or, when the namespace
//     is empty ... it starts with ':' and is fine) and its last printed field (the
//     relation, or the object when the relation is empty) does not end with one.
//     (The bracket rule is the same rule as for subject ids: the brackets are
//     significant at both ends of the subject text, whatever the subject kind.)
// Everything else is allowed in every field: '#', '@', brackets in a namespace,
// ':' and '@' in an object, ':' and '#' in a relation, empty fields, white space,
// NUL, any Unicode.

import (
	"bytes"
	"encoding/json"
	"fmt"
	"math/rand/v2"
	"net/url"
	"strings"
	"testing"
	"unicode/utf8"

	"google.golang.org/protobuf/proto"

	cmdrt "github.com/ory/keto/cmd/relationtuple"
	"github.com/ory/keto/ketoapi"
	rts "github.com/ory/keto/proto/ory/keto/relation_tuples/v1alpha2"
)

type c18Case struct {
	Tuples  int    `json:"tuples"`
	Queries int    `json:"queries"`
	Strings int    `json:"strings"`
	Lines   int    `json:"parse_file_lines"`
	Note    string `json:"note"`
}

const c18SepAlphabet = ":#@()ab n/"

// c18Soup: short strings over the separator-rich alphabet.
func c18Soup(r *rand.Rand, maxLen int) string {
	n := r.IntN(maxLen + 1)
	var sb strings.Builder
	for i := 0; i < n; i++ {
		if r.IntN(12) == 0 {
			sb.WriteString(pickS(r, []string{"é", "日", "\x00", "\t", "))", "((", "::", "##", "@@", "//"}))
			continue
		}
		sb.WriteByte(c18SepAlphabet[r.IntN(len(c18SepAlphabet))])
	}
	return sb.String()
}

// c18Field: one field value (always valid UTF-8).
func c18Field(r *rand.Rand) string {
	switch k := r.IntN(100); {
	case k < 45:
		return c18Soup(r, 6)
	case k < 70:
		return pickS(r, advPool)
	case k < 80:
		return pickS(r, advPool) + pickS(r, advPool)
	case k < 90:
		return fmt.Sprintf("n%d", r.IntN(100))
	case k < 94:
		return advString(r)
	}
	return pickS(r, []string{"a", "b", "ab", "User", "Doc", "view"})
}

func c18Tuple(r *rand.Rand) *Tup {
	t := &Tup{Namespace: c18Field(r), Object: c18Field(r), Relation: c18Field(r)}
	if r.IntN(2) == 0 {
		t.SubjectID = sp(c18Field(r))
	} else {
		t.SubjectSet = &ketoapi.SubjectSet{Namespace: c18Field(r), Object: c18Field(r), Relation: c18Field(r)}
		if r.IntN(3) == 0 {
			t.SubjectSet.Relation = ""
		}
	}
	return t
}

func stripChars(s, chars string) string {
	return strings.Map(func(c rune) rune {
		if strings.ContainsRune(chars, c) {
			return -1
		}
		return c
	}, s)
}

// c18IntoDomain projects a tuple into Dom_string by deleting the significant
// separators from the positions where they are significant (and nothing else).
func c18IntoDomain(t *Tup) *Tup {
	o := cloneTup(t)
	o.Namespace = stripChars(o.Namespace, ":")
	o.Object = stripChars(o.Object, "#")
	o.Relation = stripChars(o.Relation, "@")
	if o.SubjectID != nil {
		s := stripChars(*o.SubjectID, ":")
		s = strings.Trim(s, "()")
		o.SubjectID = &s
	} else {
		ss := o.SubjectSet
		ss.Namespace = strings.TrimLeft(stripChars(ss.Namespace, ":"), "()")
		ss.Object = stripChars(ss.Object, "#")
		if ss.Relation != "" {
			ss.Relation = strings.TrimRight(ss.Relation, "()")
		}
		if ss.Relation == "" {
			ss.Object = strings.TrimRight(ss.Object, "()")
		}
	}
	return o
}

func hasParenEnd(s string) bool {
	return strings.HasPrefix(s, "(") || strings.HasPrefix(s, ")") || strings.HasSuffix(s, "(") || strings.HasSuffix(s, ")")
}

// c18DomainClause returns "" when t is in Dom_string, else the first clause it violates.
func c18DomainClause(t *Tup) string {
	switch {
	case strings.Contains(t.Namespace, ":"):
		return "namespace-colon"
	case strings.Contains(t.Object, "#"):
		return "object-hash"
	case strings.Contains(t.Relation, "@"):
		return "relation-at"
	}
	switch {
	case t.SubjectID != nil && t.SubjectSet != nil:
		return "two-subjects"
	case t.SubjectID != nil:
		if strings.Contains(*t.SubjectID, ":") {
			return "subject-id-colon"
		}
		if hasParenEnd(*t.SubjectID) {
			return "subject-id-paren"
		}
	case t.SubjectSet != nil:
		ss := t.SubjectSet
		if strings.Contains(ss.Namespace, ":") {
			return "subject-set-namespace-colon"
		}
		if strings.Contains(ss.Object, "#") {
			return "subject-set-object-hash"
		}
		text := ss.String()
		if strings.HasPrefix(text, "(") || strings.HasPrefix(text, ")") {
			return "subject-set-leading-paren"
		}
		if strings.HasSuffix(text, "(") || strings.HasSuffix(text, ")") {
			if ss.Relation == "" {
				return "subject-set-object-trailing-paren-empty-relation"
			}
			return "subject-set-relation-trailing-paren"
		}
	default:
		return "no-subject"
	}
	return ""
}

func strPtrEq(a, b *string) bool {
	if a == nil || b == nil {
		return a == b
	}
	return *a == *b
}

func subjectDiff(aID *string, aSet *ketoapi.SubjectSet, bID *string, bSet *ketoapi.SubjectSet) []string {
	var d []string
	if (aID == nil) != (bID == nil) || (aSet == nil) != (bSet == nil) {
		return []string{"subject-kind"}
	}
	if aID != nil && *aID != *bID {
		d = append(d, "subject_id")
	}
	if aSet != nil {
		if aSet.Namespace != bSet.Namespace {
			d = append(d, "subject_set.namespace")
		}
		if aSet.Object != bSet.Object {
			d = append(d, "subject_set.object")
		}
		if aSet.Relation != bSet.Relation {
			d = append(d, "subject_set.relation")
		}
	}
	return d
}

// tupDiff lists the fields in which two API tuples differ (nil = equal).
func tupDiff(a, b *Tup) []string {
	if a == nil || b == nil {
		if a == b {
			return nil
		}
		return []string{"nil"}
	}
	var d []string
	if a.Namespace != b.Namespace {
		d = append(d, "namespace")
	}
	if a.Object != b.Object {
		d = append(d, "object")
	}
	if a.Relation != b.Relation {
		d = append(d, "relation")
	}
	return append(d, subjectDiff(a.SubjectID, a.SubjectSet, b.SubjectID, b.SubjectSet)...)
}

func queryDiff(a, b *ketoapi.RelationQuery) []string {
	if a == nil || b == nil {
		if a == b {
			return nil
		}
		return []string{"nil"}
	}
	var d []string
	if !strPtrEq(a.Namespace, b.Namespace) {
		d = append(d, "namespace")
	}
	if !strPtrEq(a.Object, b.Object) {
		d = append(d, "object")
	}
	if !strPtrEq(a.Relation, b.Relation) {
		d = append(d, "relation")
	}
	return append(d, subjectDiff(a.SubjectID, a.SubjectSet, b.SubjectID, b.SubjectSet)...)
}

func c18Query(r *rand.Rand) *ketoapi.RelationQuery {
	q := &ketoapi.RelationQuery{}
	if r.IntN(3) != 0 {
		q.Namespace = sp(c18Field(r))
	}
	if r.IntN(3) != 0 {
		q.Object = sp(c18Field(r))
	}
	if r.IntN(3) != 0 {
		q.Relation = sp(c18Field(r))
	}
	switch r.IntN(3) {
	case 0:
		q.SubjectID = sp(c18Field(r))
	case 1:
		q.SubjectSet = &ketoapi.SubjectSet{Namespace: c18Field(r), Object: c18Field(r), Relation: c18Field(r)}
	}
	return q
}

// c18Arbitrary: arbitrary text for the string parser.
func c18Arbitrary(r *rand.Rand) string {
	switch k := r.IntN(10); {
	case k < 4:
		return c18Soup(r, 14)
	case k < 8:
		// roughly tuple shaped, every part a soup
		s := c18Soup(r, 3) + ":" + c18Soup(r, 3) + "#" + c18Soup(r, 3) + "@"
		switch r.IntN(4) {
		case 0:
			s += c18Soup(r, 4)
		case 1:
			s += "(" + c18Soup(r, 5) + ")"
		case 2:
			s += c18Soup(r, 2) + ":" + c18Soup(r, 3) + pickS(r, []string{"", "#", "#" + c18Soup(r, 2), ")#", "(#", "#)"})
		default:
			s += pickS(r, []string{"(", ")", "((", "()"}) + c18Soup(r, 2) + ":" + c18Soup(r, 3) + "#" + c18Soup(r, 3) + pickS(r, []string{"", ")", "))", "("})
		}
		return s
	case k < 9:
		return c18Tuple(r).String()
	}
	return pickS(r, advPool) + c18Soup(r, 5)
}

// queryProvider mirrors the handler-side adapter (relationtuple.queryWrapper,
// unexported) that feeds a proto RelationQuery to RelationQuery.FromDataProvider.
type queryProvider struct{ q *rts.RelationQuery }

func (p *queryProvider) GetSubject() *rts.Subject { return p.q.GetSubject() }
func (p *queryProvider) GetObject() *string       { return p.q.Object }
func (p *queryProvider) GetNamespace() *string    { return p.q.Namespace }
func (p *queryProvider) GetRelation() *string     { return p.q.Relation }

func trunc(s string, n int) string {
	if len(s) > n {
		return fmt.Sprintf("%s...(%d bytes)", s[:n], len(s))
	}
	return s
}

type c18Mon struct {
	run  *runner
	idx  int64
	fail bool
	seen map[string]int // per-shard witnesses already reported per signature
}

// violate reports at most three witnesses per signature and shard (the runner
// keeps 200 violations per shard: a frequent class must not crowd out a rare one).
func (m *c18Mon) violate(sub, sig, summary string, val any, detail any) {
	m.fail = true
	m.seen[sig]++
	if m.seen[sig] > 3 {
		m.run.count("violations_beyond_3_per_signature", 1)
		return
	}
	m.run.violate(violation{Index: m.idx, Sub: sub, Sig: sig, Summary: trunc(summary, 900), Case: val, Detail: detail})
}

// panicked reports (and returns true for) a panic inside op.
func (m *c18Mon) panicked(op string, val any, f func()) bool {
	if pt := guard(f); pt != "" {
		m.violate(op, "C18:panic:"+op+":"+topFrames(pt, 2), fmt.Sprintf("%s panicked on %s: %s", op, trunc(jsonStr(val), 300), trunc(pt, 300)), val, map[string]any{"panic": trunc(pt, 3000)})
		return true
	}
	return false
}

func (m *c18Mon) checkTuple(x *Tup) {
	run := m.run
	// --- JSON
	var back *Tup
	var err error
	if !m.panicked("json-tuple", x, func() {
		var b []byte
		b, err = json.Marshal(x)
		if err == nil {
			back = &Tup{}
			err = json.NewDecoder(bytes.NewReader(b)).Decode(back)
		}
	}) {
		run.eval(1)
		if err != nil {
			m.violate("json", "C18:json-roundtrip:tuple:error", fmt.Sprintf("JSON round trip of %s failed: %v", trunc(jsonStr(x), 300), err), x, nil)
		} else if d := tupDiff(x, back); d != nil {
			m.violate("json", "C18:json-roundtrip:tuple:"+strings.Join(d, "+"), fmt.Sprintf("JSON round trip changed %v: %s -> %s", d, trunc(jsonStr(x), 300), trunc(jsonStr(back), 300)), x, back)
		}
	}
	// --- URL query (through the percent-encoded wire form)
	back, err = nil, nil
	if !m.panicked("url-tuple", x, func() {
		wire := x.ToURLQuery().Encode()
		var vals url.Values
		vals, err = url.ParseQuery(wire)
		if err == nil {
			back, err = (&Tup{}).FromURLQuery(vals)
		}
	}) {
		run.eval(1)
		if err != nil {
			m.violate("url", "C18:url-roundtrip:tuple:error", fmt.Sprintf("URL query round trip of %s failed: %v", trunc(jsonStr(x), 300), err), x, nil)
		} else if d := tupDiff(x, back); d != nil {
			m.violate("url", "C18:url-roundtrip:tuple:"+strings.Join(d, "+"), fmt.Sprintf("URL query round trip changed %v: %s -> %s", d, trunc(jsonStr(x), 300), trunc(jsonStr(back), 300)), x, back)
		}
	}
	// --- proto, both decoders, through wire bytes
	var viaProvider, viaFromProto *Tup
	err = nil
	if !m.panicked("proto-tuple", x, func() {
		var b []byte
		b, err = proto.Marshal(x.ToProto())
		if err != nil {
			return
		}
		var msg rts.RelationTuple
		if err = proto.Unmarshal(b, &msg); err != nil {
			return
		}
		viaFromProto = (&Tup{}).FromProto(&msg)
		viaProvider, err = (&Tup{}).FromDataProvider(&msg)
	}) {
		run.eval(2)
		if err != nil {
			m.violate("proto", "C18:proto-roundtrip:tuple:error", fmt.Sprintf("proto round trip of %s failed: %v", trunc(jsonStr(x), 300), err), x, nil)
		} else {
			if d := tupDiff(x, viaFromProto); d != nil {
				m.violate("proto", "C18:proto-roundtrip:tuple:FromProto:"+strings.Join(d, "+"), fmt.Sprintf("proto round trip (FromProto) changed %v: %s -> %s", d, trunc(jsonStr(x), 300), trunc(jsonStr(viaFromProto), 300)), x, viaFromProto)
			}
			if d := tupDiff(x, viaProvider); d != nil {
				m.violate("proto", "C18:proto-roundtrip:tuple:FromDataProvider:"+strings.Join(d, "+"), fmt.Sprintf("proto round trip (FromDataProvider) changed %v: %s -> %s", d, trunc(jsonStr(x), 300), trunc(jsonStr(viaProvider), 300)), x, viaProvider)
			}
		}
	}
	// --- string form, on its domain
	clause := c18DomainClause(x)
	if clause == "" {
		back, err = nil, nil
		var text string
		if !m.panicked("string-tuple", x, func() {
			text = x.String()
			back, err = (&Tup{}).FromString(text)
		}) {
			run.eval(1)
			run.count("string_in_domain", 1)
			if strings.ContainsAny(x.Namespace+x.Object+x.Relation, ":#@()") || (x.SubjectID != nil && strings.ContainsAny(*x.SubjectID, "#@()")) || (x.SubjectSet != nil && strings.ContainsAny(x.SubjectSet.Object+x.SubjectSet.Relation+x.SubjectSet.Namespace, ":#@()")) {
				run.count("string_in_domain_with_insignificant_separators", 1)
			}
			if err != nil || tupDiff(x, back) != nil {
				class := "error"
				if err == nil {
					class = "diff=" + strings.Join(tupDiff(x, back), "+")
				}
				w := c18ShrinkInDomain(x, class)
				wt := w.String()
				wb, werr := (&Tup{}).FromString(wt)
				m.violate("string", "C18:string-roundtrip:"+class+":"+c18Features(w),
					fmt.Sprintf("in-domain tuple %s prints as %q; FromString gives %s / err=%v. Shrunk witness: %s prints as %q -> %s / err=%v", trunc(jsonStr(x), 300), trunc(text, 200), trunc(jsonStr(back), 300), err, jsonStr(w), wt, jsonStr(wb), werr),
					x, map[string]any{"text": text, "back": back, "witness": w, "witness_text": wt})
			}
		}
	} else {
		run.count("string_out_of_domain_skipped", 1)
	}
}

func (m *c18Mon) checkQuery(q *ketoapi.RelationQuery) {
	run := m.run
	var back *ketoapi.RelationQuery
	var err error
	if !m.panicked("json-query", q, func() {
		var b []byte
		b, err = json.Marshal(q)
		if err == nil {
			back = &ketoapi.RelationQuery{}
			err = json.NewDecoder(bytes.NewReader(b)).Decode(back)
		}
	}) {
		run.eval(1)
		if err != nil {
			m.violate("json", "C18:json-roundtrip:query:error", fmt.Sprintf("JSON round trip of query %s failed: %v", trunc(jsonStr(q), 300), err), q, nil)
		} else if d := queryDiff(q, back); d != nil {
			m.violate("json", "C18:json-roundtrip:query:"+strings.Join(d, "+"), fmt.Sprintf("JSON round trip changed %v: %s -> %s", d, trunc(jsonStr(q), 300), trunc(jsonStr(back), 300)), q, back)
		}
	}
	back, err = nil, nil
	if !m.panicked("url-query", q, func() {
		wire := q.ToURLQuery().Encode()
		var vals url.Values
		vals, err = url.ParseQuery(wire)
		if err == nil {
			// a decoder that is reused must not leak the previous subject
			back, err = (&ketoapi.RelationQuery{SubjectID: sp("stale"), SubjectSet: &ketoapi.SubjectSet{Namespace: "stale"}}).FromURLQuery(vals)
		}
	}) {
		run.eval(1)
		if err != nil {
			m.violate("url", "C18:url-roundtrip:query:error", fmt.Sprintf("URL query round trip of query %s failed: %v", trunc(jsonStr(q), 300), err), q, nil)
		} else if d := queryDiff(q, back); d != nil {
			m.violate("url", "C18:url-roundtrip:query:"+strings.Join(d, "+"), fmt.Sprintf("URL query round trip changed %v: %s -> %s", d, trunc(jsonStr(q), 300), trunc(jsonStr(back), 300)), q, back)
		}
	}
	back, err = nil, nil
	if !m.panicked("proto-query", q, func() {
		var b []byte
		b, err = proto.Marshal(q.ToProto())
		if err != nil {
			return
		}
		var msg rts.RelationQuery
		if err = proto.Unmarshal(b, &msg); err != nil {
			return
		}
		back = (&ketoapi.RelationQuery{SubjectID: sp("stale")}).FromDataProvider(&queryProvider{&msg})
	}) {
		run.eval(1)
		if err != nil {
			m.violate("proto", "C18:proto-roundtrip:query:error", fmt.Sprintf("proto round trip of query %s failed: %v", trunc(jsonStr(q), 300), err), q, nil)
		} else if d := queryDiff(q, back); d != nil {
			m.violate("proto", "C18:proto-roundtrip:query:"+strings.Join(d, "+"), fmt.Sprintf("proto round trip changed %v: %s -> %s", d, trunc(jsonStr(q), 300), trunc(jsonStr(back), 300)), q, back)
		}
	}
}

// c18StringClass classifies the in-domain string round trip of x: "" (faithful),
// "error" or "diff=<fields>".
func c18StringClass(x *Tup) (class string) {
	if pt := guard(func() {
		back, err := (&Tup{}).FromString(x.String())
		if err != nil {
			class = "error"
		} else if d := tupDiff(x, back); d != nil {
			class = "diff=" + strings.Join(d, "+")
		}
	}); pt != "" {
		return "panic"
	}
	return class
}

func c18FieldPtrs(t *Tup) (names []string, ptrs []*string) {
	names = []string{"namespace", "object", "relation"}
	ptrs = []*string{&t.Namespace, &t.Object, &t.Relation}
	if t.SubjectID != nil {
		names = append(names, "subject_id")
		ptrs = append(ptrs, t.SubjectID)
	} else if t.SubjectSet != nil {
		names = append(names, "subject_set.namespace", "subject_set.object", "subject_set.relation")
		ptrs = append(ptrs, &t.SubjectSet.Namespace, &t.SubjectSet.Object, &t.SubjectSet.Relation)
	}
	return
}

// c18ShrinkInDomain: deterministic bounded shrinker. Empties fields and deletes
// chunks of runes while the tuple stays in Dom_string and the round trip keeps
// failing in the same class.
func c18ShrinkInDomain(x *Tup, class string) *Tup {
	w := cloneTup(x)
	still := func() bool { return c18DomainClause(w) == "" && c18StringClass(w) == class }
	_, ptrs := c18FieldPtrs(w)
	budget := 4000
	for pass := 0; pass < 2; pass++ {
		for _, fp := range ptrs {
			old := *fp
			*fp = ""
			if budget--; budget > 0 && still() {
				continue
			}
			*fp = old
			rs := []rune(old)
			for chunk := (len(rs) + 1) / 2; chunk >= 1 && budget > 0; {
				removed := false
				for i := 0; i+chunk <= len(rs) && budget > 0; {
					cand := append(append([]rune(nil), rs[:i]...), rs[i+chunk:]...)
					*fp = string(cand)
					budget--
					if still() {
						rs = cand
						removed = true
					} else {
						i++
					}
				}
				*fp = string(rs)
				if chunk == 1 && !removed {
					break
				}
				if chunk > 1 {
					chunk /= 2
				} else if !removed {
					break
				}
			}
			// non-separator runes carry no meaning for the parser: canonicalise them
			canon := strings.Map(func(c rune) rune {
				if strings.ContainsRune(":#@()", c) {
					return c
				}
				return 'a'
			}, *fp)
			keep := *fp
			*fp = canon
			if budget--; budget <= 0 || !still() {
				*fp = keep
			}
		}
	}
	return w
}

// c18Features: which separators the (shrunk) witness carries in which field.
func c18Features(w *Tup) string {
	names, ptrs := c18FieldPtrs(w)
	var fs []string
	for i, fp := range ptrs {
		for _, c := range []string{":", "#", "@", "(", ")"} {
			if strings.Contains(*fp, c) {
				fs = append(fs, names[i]+"~"+c)
			}
		}
	}
	if len(fs) == 0 {
		return "witness=" + trunc(w.String(), 24)
	}
	return strings.Join(fs, ",")
}

// checkArbitrary: clause (3).
func (m *c18Mon) checkArbitrary(s string) (parsed bool) {
	run := m.run
	var t1, t2 *Tup
	var err1, err2 error
	var text string
	if m.panicked("string-arbitrary", s, func() {
		t1, err1 = (&Tup{}).FromString(s)
		if err1 == nil {
			text = t1.String()
			t2, err2 = (&Tup{}).FromString(text)
		}
	}) {
		return false
	}
	run.eval(1)
	if err1 != nil {
		run.count("arbitrary_rejected", 1)
		return false
	}
	run.count("arbitrary_parsed", 1)
	clause := c18DomainClause(t1)
	if clause == "" {
		clause = "none"
	} else {
		run.count("arbitrary_parsed_to_out_of_domain_value", 1)
	}
	if err2 != nil {
		m.violate("reparse", "C18:string-reparse:ood="+clause+":error", fmt.Sprintf("FromString(%q) = %s prints as %q, which FromString rejects: %v", trunc(s, 200), trunc(jsonStr(t1), 300), trunc(text, 200), err2), s, map[string]any{"parsed": t1, "printed": text})
		return true
	}
	if d := tupDiff(t1, t2); d != nil {
		m.violate("reparse", "C18:string-reparse:ood="+clause+":diff="+strings.Join(d, "+"),
			fmt.Sprintf("FromString(%q) succeeds with %s, which prints as %q and re-parses to the different value %s (changed %v): the input was mis-parsed silently instead of rejected", trunc(s, 200), trunc(jsonStr(t1), 300), trunc(text, 200), trunc(jsonStr(t2), 300), d),
			s, map[string]any{"parsed": t1, "printed": text, "reparsed": t2})
	}
	return true
}

// parseFileOracle: what `relation-tuple parse` must produce for content.
func parseFileOracle(content string) (want []*Tup, wantErr bool) {
	want = []*Tup{}
	for _, row := range strings.Split(content, "\n") {
		row = strings.TrimSpace(row)
		if row == "" || strings.HasPrefix(row, "//") {
			continue
		}
		t, err := (&Tup{}).FromString(row)
		if err != nil {
			return nil, true
		}
		want = append(want, t)
	}
	return want, false
}

func c18ParseFile(r *rand.Rand) string {
	n := 1 + r.IntN(12)
	if r.IntN(6) == 0 {
		n = 1
	}
	var rows []string
	for i := 0; i < n; i++ {
		var row string
		switch k := r.IntN(20); {
		case k < 9:
			row = c18IntoDomain(c18Tuple(r)).String()
		case k < 12:
			row = c18Tuple(r).String()
		case k < 14:
			row = c18Arbitrary(r) // mostly malformed
		case k < 15:
			row = "// " + c18Soup(r, 8)
		case k < 16:
			row = pickS(r, []string{"", " ", "\t", "\r"})
		case k < 17:
			row = "//" + c18IntoDomain(c18Tuple(r)).String()
		default:
			row = tupID("n", fmt.Sprintf("o%d", i), "r", "s").String()
		}
		if r.IntN(4) == 0 {
			row = pickS(r, []string{" ", "\t", "  ", "\r", " "}) + row + pickS(r, []string{" ", "\t", "\r", "", " "})
		}
		rows = append(rows, row)
	}
	return strings.Join(rows, "\n")
}

func (m *c18Mon) checkParseCmd(content string) {
	run := m.run
	var want []*Tup
	var wantErr bool
	if m.panicked("parse-oracle", content, func() { want, wantErr = parseFileOracle(content) }) {
		return
	}
	var stdout, stderr bytes.Buffer
	var execErr error
	if m.panicked("cmd-parse", content, func() {
		cmd := cmdrt.NewParseCmd()
		cmd.SetArgs([]string{"-", "--format", "json"})
		cmd.SetIn(strings.NewReader(content))
		cmd.SetOut(&stdout)
		cmd.SetErr(&stderr)
		execErr = cmd.Execute()
	}) {
		return
	}
	run.eval(1)
	run.count("parse_cmd_files", 1)
	detail := map[string]any{"stdout": trunc(stdout.String(), 1500), "stderr": trunc(stderr.String(), 800)}
	if wantErr {
		run.count("parse_cmd_files_malformed", 1)
		if execErr == nil {
			m.violate("cmd-parse", "C18:cmd-parse:accepted-malformed-row", fmt.Sprintf("relation-tuple parse accepted a file with a row FromString rejects; file %q", trunc(content, 400)), content, detail)
		}
		return
	}
	if execErr != nil {
		m.violate("cmd-parse", "C18:cmd-parse:rejected-wellformed-file", fmt.Sprintf("relation-tuple parse failed (%v) on a file whose rows FromString accepts; file %q", execErr, trunc(content, 400)), content, detail)
		return
	}
	// output: one JSON object for exactly one tuple, else a JSON array
	var got []*Tup
	out := bytes.TrimSpace(stdout.Bytes())
	var derr error
	if len(want) == 1 {
		one := &Tup{}
		derr = json.Unmarshal(out, one)
		got = []*Tup{one}
	} else {
		derr = json.Unmarshal(out, &got)
	}
	if derr != nil {
		m.violate("cmd-parse", "C18:cmd-parse:output-undecodable", fmt.Sprintf("relation-tuple parse --format json printed %q: %v", trunc(string(out), 300), derr), content, detail)
		return
	}
	if len(got) != len(want) {
		m.violate("cmd-parse", "C18:cmd-parse:row-count", fmt.Sprintf("relation-tuple parse returned %d tuples, FromString per row gives %d; file %q", len(got), len(want), trunc(content, 400)), content, detail)
		return
	}
	for i := range want {
		// the command's output travels as JSON: compare with the JSON image of the expectation
		exp := &Tup{}
		b, _ := json.Marshal(want[i])
		_ = json.Unmarshal(b, exp)
		if d := tupDiff(exp, got[i]); d != nil {
			m.violate("cmd-parse", "C18:cmd-parse:row-differs:"+strings.Join(d, "+"), fmt.Sprintf("relation-tuple parse row %d = %s, FromString gives %s; file %q", i, trunc(jsonStr(got[i]), 300), trunc(jsonStr(exp), 300), trunc(content, 400)), content, detail)
			return
		}
	}
	run.count("parse_cmd_rows_compared", int64(len(want)))
}

func TestC18(t *testing.T) {
	run := newRunner(t, "C18")
	defer run.finish()
	p := run.p
	nCases := int64(p.pick(25000, 300000))
	const nT, nQ, nS, nF = 192, 96, 256, 4
	seen := map[string]int{}

	for idx := int64(0); idx < nCases; idx++ {
		if !p.mine(idx) {
			continue
		}
		r := p.rng(idx, "case")
		// generate everything first: the case is a pure function of (seed, idx)
		tuples := make([]*Tup, 0, nT)
		for i := 0; i < nT; i++ {
			x := c18Tuple(r)
			if i%2 == 1 {
				x = c18IntoDomain(x)
			}
			tuples = append(tuples, x)
		}
		queries := make([]*ketoapi.RelationQuery, 0, nQ)
		for i := 0; i < nQ; i++ {
			queries = append(queries, c18Query(r))
		}
		texts := make([]string, 0, nS)
		for i := 0; i < nS; i++ {
			texts = append(texts, c18Arbitrary(r))
		}
		files := make([]string, 0, nF)
		lines := 0
		for i := 0; i < nF; i++ {
			f := c18ParseFile(r)
			lines += 1 + strings.Count(f, "\n")
			files = append(files, f)
		}
		c := &c18Case{Tuples: nT, Queries: nQ, Strings: nS, Lines: lines, Note: "values are regenerated from (seed, index); failing values are attached to the violation"}
		run.begin(idx, "", c)

		m := &c18Mon{run: run, idx: idx, seen: seen}
		inDomSep, parsedOK := false, false
		for _, x := range tuples {
			if !utf8.ValidString(x.String()) {
				run.count("generator_invalid_utf8", 1) // cannot happen: generators are UTF-8 only
				continue
			}
			m.checkTuple(x)
			// printed form of any tuple (in the domain or not) is also an arbitrary string
			m.checkArbitrary(x.String())
			if c18DomainClause(x) == "" && strings.ContainsAny(x.Namespace+x.Object+x.Relation, ":#@()") {
				inDomSep = true
			}
		}
		for _, q := range queries {
			m.checkQuery(q)
		}
		for _, s := range texts {
			if m.checkArbitrary(s) {
				parsedOK = true
			}
		}
		for _, f := range files {
			m.checkParseCmd(f)
		}
		run.count("values", int64(2*len(tuples)+len(queries)+len(texts)+len(files)))
		if inDomSep && parsedOK {
			run.nontrivial(fmt.Sprintf("case-%d", idx))
		}
		if idx < 3 {
			run.sample(map[string]any{"index": idx, "tuple": tuples[0], "in_domain_tuple": tuples[1], "query": queries[0], "arbitrary": texts[:4], "parse_file": files[0]})
		}
		verdict := "ok"
		if m.fail {
			verdict = "violation"
		}
		run.end(idx, "", verdict)
	}
}
