package verifh

// C15 — every check terminates, honours cancellation and releases its goroutines.

import (
	"context"
	"fmt"
	"math"
	"math/rand/v2"
	"regexp"
	"runtime"
	"sort"
	"strings"
	"testing"
	"time"

	"github.com/ory/keto/internal/check"
	"github.com/ory/keto/internal/check/checkgroup"
)

// genTermCase: C01's cases plus shapes that stress termination: cycles through
// subject sets, recursive traverse on cyclic parents, mutual recursion,
// same-object recursion through permits under && / !, very wide nodes.
func genTermCase(r *rand.Rand, idx int64) *checkCase {
	switch idx % 6 {
	case 0:
		return genCycleCase(r, idx)
	case 1:
		return genSelfPermitsCase(r, idx)
	case 2:
		return genVeryWideCase(r, idx)
	case 3:
		return genDenseCase(r, idx*2)
	case 4:
		o := genOpts{AllowTTU: true, RecursiveTTU: true, AllowAnd: true, MaxExprDepth: 2}
		cc := genCheckCase(r, idx*3, &o)
		cc.Variant = "rec-ttu"
		return cc
	}
	return genCheckCase(r, idx*3, nil)
}

func genCycleCase(r *rand.Rand, idx int64) *checkCase {
	cc := &checkCase{Variant: "cycle"}
	user := &NSDef{Name: "User"}
	group := &NSDef{Name: "Group", Rels: []*RelDef{{Name: "members", Types: []TypeRef{{NS: "User"}, {NS: "Group", Rel: "members"}}}}}
	doc := &NSDef{Name: "Doc", Rels: []*RelDef{
		{Name: "viewers", Types: []TypeRef{{NS: "User"}, {NS: "Group", Rel: "members"}}},
		{Name: "parents", Types: []TypeRef{{NS: "Doc"}}},
	}}
	views := []*Expr{
		{Op: "or", Kids: []*Expr{{Op: "csr", Rel: "viewers"}, {Op: "ttu", Rel: "parents", Comp: "view", ViaPermits: true}}},
		{Op: "and", Kids: []*Expr{{Op: "ttu", Rel: "parents", Comp: "view", ViaPermits: true}, {Op: "csr", Rel: "viewers"}}},
		{Op: "or", Kids: []*Expr{{Op: "not", Kids: []*Expr{{Op: "csr", Rel: "viewers"}}}, {Op: "ttu", Rel: "parents", Comp: "viewers"}}},
		{Op: "ttu", Rel: "parents", Comp: "view", ViaPermits: true},
	}
	doc.Rels = append(doc.Rels, &RelDef{Name: "view", Perm: true, Rewrite: views[r.IntN(len(views))]})
	cc.Cfg = &Cfg{NS: []*NSDef{user, group, doc}}
	var ts []*Tup
	n := 2 + r.IntN(4)
	for i := 0; i < n; i++ { // group cycle
		ts = append(ts, tupSet("Group", fmt.Sprintf("g%d", i), "members", "Group", fmt.Sprintf("g%d", (i+1)%n), "members"))
	}
	ts = append(ts, tupSet("Doc", "d0", "viewers", "Group", "g0", "members"))
	m := 2 + r.IntN(3)
	for i := 0; i < m; i++ { // parent cycle
		ts = append(ts, tupSet("Doc", fmt.Sprintf("d%d", i), "parents", "Doc", fmt.Sprintf("d%d", (i+1)%m), ""))
	}
	if r.IntN(2) == 0 {
		ts = append(ts, tupSet("Doc", "d0", "parents", "Doc", "d0", "")) // self loop
	}
	if r.IntN(2) == 0 {
		ts = append(ts, tupID("Group", fmt.Sprintf("g%d", r.IntN(n)), "members", "u"))
	}
	cc.tuples = ts
	cc.queries = []*Tup{tupID("Doc", "d0", "view", "u"), tupID("Doc", "d0", "viewers", "u"), tupID("Group", "g0", "members", "nobody")}
	cc.Tuples, cc.Queries = tupStrings(cc.tuples), tupStrings(cc.queries)
	return cc
}

// genSelfPermitsCase: same-object recursion through this.permits (accepted by
// the type checker): a = x.includes && this.permits.a(ctx), mutual recursion
// a -> b -> a, recursion under !.
func genSelfPermitsCase(r *rand.Rand, idx int64) *checkCase {
	cc := &checkCase{Variant: "self-permits"}
	user := &NSDef{Name: "User"}
	doc := &NSDef{Name: "Doc", Rels: []*RelDef{{Name: "x", Types: []TypeRef{{NS: "User"}}}}}
	x := &Expr{Op: "csr", Rel: "x"}
	selfA := &Expr{Op: "csr", Rel: "a", ViaPermits: true}
	selfB := &Expr{Op: "csr", Rel: "b", ViaPermits: true}
	selfC := &Expr{Op: "csr", Rel: "c", ViaPermits: true}
	var a, b, c3 *Expr
	switch r.IntN(8) {
	case 5:
		// mutual recursion where BOTH references sit below && (no depth is spent)
		a = &Expr{Op: "and", Kids: []*Expr{x, selfB}}
		b = &Expr{Op: "and", Kids: []*Expr{x, selfA}}
	case 6:
		a = &Expr{Op: "and", Kids: []*Expr{x, {Op: "not", Kids: []*Expr{selfB}}}}
		b = &Expr{Op: "and", Kids: []*Expr{{Op: "not", Kids: []*Expr{selfA}}, x}}
	case 7:
		a = &Expr{Op: "and", Kids: []*Expr{x, selfB}}
		b = &Expr{Op: "not", Kids: []*Expr{selfC}}
		c3 = &Expr{Op: "and", Kids: []*Expr{selfA, x}}
	case 0:
		a = &Expr{Op: "and", Kids: []*Expr{x, selfA}}
	case 1:
		a = &Expr{Op: "or", Kids: []*Expr{x, selfA}}
	case 2:
		a = &Expr{Op: "or", Kids: []*Expr{x, {Op: "not", Kids: []*Expr{selfA}}}}
	case 3:
		a = &Expr{Op: "and", Kids: []*Expr{x, selfB}}
		b = &Expr{Op: "or", Kids: []*Expr{x, selfA}}
	default:
		a = selfA
	}
	doc.Rels = append(doc.Rels, &RelDef{Name: "a", Perm: true, Rewrite: a})
	if b != nil {
		doc.Rels = append(doc.Rels, &RelDef{Name: "b", Perm: true, Rewrite: b})
	}
	if c3 != nil {
		doc.Rels = append(doc.Rels, &RelDef{Name: "c", Perm: true, Rewrite: c3})
	}
	cc.Cfg = &Cfg{NS: []*NSDef{user, doc}}
	cc.tuples = []*Tup{tupID("Doc", "d", "x", "u")}
	cc.queries = []*Tup{tupID("Doc", "d", "a", "u"), tupID("Doc", "d", "a", "nobody")}
	if b != nil {
		cc.queries = append(cc.queries, tupID("Doc", "d", "b", "u"))
	}
	cc.Tuples, cc.Queries = tupStrings(cc.tuples), tupStrings(cc.queries)
	return cc
}

func genVeryWideCase(r *rand.Rand, idx int64) *checkCase {
	cc := &checkCase{Variant: "very-wide"}
	user := &NSDef{Name: "User"}
	group := &NSDef{Name: "Group", Rels: []*RelDef{{Name: "members", Types: []TypeRef{{NS: "User"}, {NS: "Group", Rel: "members"}}}}}
	doc := &NSDef{Name: "Doc", Rels: []*RelDef{
		{Name: "viewers", Types: []TypeRef{{NS: "User"}, {NS: "Group", Rel: "members"}}},
		{Name: "parents", Types: []TypeRef{{NS: "Doc"}}},
		{Name: "view", Perm: true, Rewrite: &Expr{Op: "or", Kids: []*Expr{{Op: "csr", Rel: "viewers"}, {Op: "ttu", Rel: "parents", Comp: "viewers"}}}},
	}}
	cc.Cfg = &Cfg{NS: []*NSDef{user, group, doc}}
	var ts []*Tup
	w := 101 + r.IntN(150)
	for i := 0; i < w; i++ {
		if i%2 == 0 {
			ts = append(ts, tupSet("Doc", "d", "viewers", "Group", fmt.Sprintf("g%d", i), "members"))
		} else {
			ts = append(ts, tupSet("Doc", "d", "parents", "Doc", fmt.Sprintf("p%d", i), ""))
		}
	}
	ts = append(ts, tupID("Group", fmt.Sprintf("g%d", 2*r.IntN(w/2)), "members", "u"))
	cc.tuples = ts
	cc.queries = []*Tup{tupID("Doc", "d", "view", "u"), tupID("Doc", "d", "view", "nobody")}
	cc.Tuples, cc.Queries = tupStrings(cc.tuples), tupStrings(cc.queries)
	return cc
}

// ---------------------------------------------------------------------------

var goroutineHeader = regexp.MustCompile(`^goroutine \d+ (?:gp=\S+ m=\S+ (?:mp=\S+ )?)?\[([^\]]*)\]`)

// engineGoroutineStates returns, for every goroutine inside keto's check
// engine, "state@innermost keto frame".
func engineGoroutineStates() []string {
	buf := make([]byte, 1<<20)
	for {
		n := runtime.Stack(buf, true)
		if n < len(buf) {
			buf = buf[:n]
			break
		}
		buf = make([]byte, 2*len(buf))
	}
	var out []string
	for _, g := range strings.Split(string(buf), "\n\n") {
		if !strings.Contains(g, "github.com/ory/keto/internal/check") || strings.Contains(g, "verifh.engineGoroutineStates") {
			continue
		}
		lines := strings.Split(g, "\n")
		state := "?"
		if m := goroutineHeader.FindStringSubmatch(lines[0]); m != nil {
			state = m[1]
			if i := strings.IndexByte(state, ','); i >= 0 {
				state = state[:i] // drop ", N minutes"
			}
		}
		frame := "?"
		for _, l := range lines[1:] {
			l = strings.TrimSpace(l)
			if strings.HasPrefix(l, "github.com/ory/keto/internal/check") {
				frame = strings.TrimPrefix(l, "github.com/ory/keto/internal/")
				if i := strings.LastIndex(frame, "("); i > 0 {
					frame = frame[:i]
				}
				break
			}
		}
		out = append(out, state+"@"+frame)
	}
	sort.Strings(out)
	return out
}

type termRun struct {
	returned  bool
	res       checkgroup.Result
	calls     int64
	late      int64
	hangSig   string // quiescent deadlock witness
	leak      []string
	inconcl   string
	runaway   bool          // an engine goroutine computes without bound: the process is compromised
	wallAfter time.Duration // time between cancellation and return (evidence only)
}

// runTerm executes one check under the plan and applies the termination / leak monitors.
func runTerm(env *Env, st *instrStore, eng *check.Engine, q *Tup, plan *faultPlan, preCancel bool, useDeadline bool, bound float64) termRun {
	var tr termRun
	base, _ := engineGoroutines()
	var ctx context.Context
	var cancel context.CancelFunc
	if useDeadline {
		ctx, cancel = context.WithTimeout(env.Ctx, 50*time.Millisecond)
	} else {
		ctx, cancel = context.WithCancel(env.Ctx)
	}
	defer cancel()
	its, err := env.Reg.ReadOnlyMapper().FromTuple(env.Ctx, q)
	if err != nil {
		tr.inconcl = "map: " + err.Error()
		return tr
	}
	if plan != nil {
		plan.Cancel = cancel
	}
	st.reset(plan)
	if preCancel {
		cancel()
	}
	done := make(chan checkgroup.Result, 1)
	go func() {
		if c15BatchTuples != nil {
			// the batch entry point: one engine call that runs CheckRelationTuple per entry
			_, err := eng.BatchCheck(ctx, c15BatchTuples, 0)
			done <- checkgroup.Result{Err: err}
			return
		}
		done <- eng.CheckRelationTuple(ctx, its[0], 0)
	}()
	select {
	case tr.res = <-done:
		tr.returned = true
	case <-time.After(8 * time.Second):
		// wall-clock watchdog: only a state-based observation makes it a violation
		s1 := engineGoroutineStates()
		f1 := st.inFlight()
		time.Sleep(300 * time.Millisecond)
		s2 := engineGoroutineStates()
		f2 := st.inFlight()
		select {
		case tr.res = <-done:
			tr.returned = true
		default:
			if f1 == 0 && f2 == 0 && strings.Join(s1, "|") == strings.Join(s2, "|") && st.calls() > 0 || (f1 == 0 && f2 == 0 && strings.Join(s1, "|") == strings.Join(s2, "|")) {
				parked := map[string]bool{}
				for _, s := range s2 {
					parked[s] = true
				}
				var ks []string
				for k := range parked {
					ks = append(ks, k)
				}
				sort.Strings(ks)
				tr.hangSig = strings.Join(ks, ",")
			} else if deep := deepRecursion(); deep != "" {
				// an engine goroutine is more than 100 frames deep in check functions
				// (the configured max-depth is 5): recursion that does not consume depth
				tr.hangSig = "deep-recursion:" + deep
				tr.runaway = true
			} else if rep := waitForRepeats(st, done, &tr); tr.returned {
				// returned after all while we were watching the repeat counter
			} else if rep > sameQueryRepeatLimit {
				// still running and the very same storage query was issued more than
				// sameQueryRepeatLimit times by this one check (max-depth 5, a few dozen
				// tuples; the largest count seen on terminating checks is ~600): the
				// recursion does not consume depth
				tr.hangSig = "unbounded-storage-calls:same-query-repeated"
				tr.runaway = true
			} else if bound > 0 && float64(st.calls()) > bound {
				// still running and already beyond the analytic bound of storage calls
				tr.hangSig = "unbounded-storage-calls"
				tr.runaway = true
			} else if spin := spinning(st); spin != "" {
				// not returned, no storage call in flight or started during three
				// further observations one second apart: the engine computes without
				// ever reaching storage again (unbounded recursion / livelock)
				tr.hangSig = "spinning:" + spin
				tr.runaway = true
			} else {
				tr.inconcl = fmt.Sprintf("watchdog: check did not return within 8s, but goroutines are still moving (in flight %d/%d)", f1, f2)
			}
			env.dirty = true
			cancel()
			return tr
		}
	}
	tr.calls = st.calls()
	st.mu.Lock()
	tr.late = st.lateCalls
	st.mu.Unlock()
	// release the request context, then every goroutine started for it must go away
	cancel()
	deadline := time.Now().Add(3 * time.Second)
	var prev string
	stable := 0
	for i := 0; ; i++ {
		n, _ := engineGoroutines()
		if n <= base {
			break
		}
		states := engineGoroutineStates()
		cur := strings.Join(states, "|")
		if cur == prev && st.inFlight() == 0 {
			stable++
		} else {
			stable = 0
		}
		prev = cur
		if time.Now().After(deadline) {
			if stable >= 3 {
				tr.leak = states
			} else {
				tr.inconcl = "goroutines still changing after the release budget"
			}
			leakedBaseline.Store(int64(n))
			env.dirty = true
			break
		}
		if i < 10 {
			runtime.Gosched()
		} else {
			time.Sleep(time.Duration(minInt(i, 100)) * 100 * time.Microsecond)
		}
	}
	return tr
}

// c15BatchTuples: when set, runTerm drives Engine.BatchCheck with these entries
// (more entries than the parallelization limit) instead of one CheckRelationTuple.
var c15BatchTuples []*Tup

const sameQueryRepeatLimit = 8000

// waitForRepeats watches a check that did not return: up to 25 further
// seconds, until it returns or one identical storage query has been repeated
// more than sameQueryRepeatLimit times.
func waitForRepeats(st *instrStore, done chan checkgroup.Result, tr *termRun) int {
	for i := 0; i < 25; i++ {
		if rep := st.maxRepeated(); rep > sameQueryRepeatLimit {
			return rep
		}
		select {
		case tr.res = <-done:
			tr.returned = true
			return st.maxRepeated()
		case <-time.After(time.Second):
		}
	}
	return st.maxRepeated()
}

// deepRecursion reports an engine goroutine whose stack is so deep that the
// runtime elides frames (> 100) and consists of keto check functions.
func deepRecursion() string {
	buf := make([]byte, 4<<20)
	n := runtime.Stack(buf, true)
	for _, g := range strings.Split(string(buf[:n]), "\n\n") {
		if !strings.Contains(g, "frames elided") || !strings.Contains(g, "github.com/ory/keto/internal/check.") {
			continue
		}
		cnt := map[string]int{}
		for _, l := range strings.Split(g, "\n") {
			l = strings.TrimSpace(l)
			if strings.HasPrefix(l, "github.com/ory/keto/internal/check.") {
				f := strings.TrimPrefix(l, "github.com/ory/keto/internal/")
				if i := strings.LastIndex(f, "("); i > 0 {
					f = f[:i]
				}
				cnt[f]++
			}
		}
		var fs []string
		for f, c := range cnt {
			if c >= 5 {
				fs = append(fs, f)
			}
		}
		sort.Strings(fs)
		if len(fs) > 0 {
			return strings.Join(fs, "<")
		}
	}
	return ""
}

// spinning observes the store three times one second apart; if no call is in
// flight and the call counter does not move, it returns the innermost keto
// frames of a running (not parked) engine goroutine.
func spinning(st *instrStore) string {
	c0 := st.calls()
	for i := 0; i < 3; i++ {
		time.Sleep(time.Second)
		if st.inFlight() != 0 || st.calls() != c0 {
			return ""
		}
	}
	for _, s := range engineGoroutineStates() {
		if strings.HasPrefix(s, "running") || strings.HasPrefix(s, "runnable") {
			return s
		}
	}
	states := engineGoroutineStates()
	if len(states) > 0 {
		return states[0]
	}
	return ""
}

func callBound(cc *checkCase, depth, width int) float64 {
	// fan-out per level: at most `width` subject sets per expansion (or the node's
	// real fan-out if smaller), times the rewrite leaves, plus direct / traversal calls
	leaves := 1
	for _, n := range cc.Cfg.NS {
		for _, rd := range n.Rels {
			if s := rd.Rewrite.size(); s > leaves {
				leaves = s
			}
		}
	}
	fan := map[string]int{}
	maxFan := 1
	for _, t := range cc.tuples {
		k := t.Namespace + "\x00" + t.Object + "\x00" + t.Relation
		fan[k]++
		if fan[k] > maxFan {
			maxFan = fan[k]
		}
	}
	if maxFan > width {
		maxFan = width
	}
	per := float64(maxFan*(leaves+2) + leaves + 3 + maxFan/100)
	b := 0.0
	for l := 0; l <= depth+1; l++ {
		b += math.Pow(per, float64(l))
	}
	return b
}

func TestC15(t *testing.T) {
	run := newRunner(t, "C15")
	defer run.finish()
	p := run.p
	nCases := int64(p.pick(96, 1800))
	maxK := int64(p.pick(14, 40))
	for idx := int64(0); idx < nCases; idx++ {
		if !p.mine(idx) {
			continue
		}
		// same-object recursion through permits can make the engine recurse
		// without bound; such a goroutine cannot be stopped, so these cases run in
		// their own children (VERIF_MODE=selfperm) which stop at the first runaway
		selfperm := idx%6 == 1
		if p.ReplayIdx < 0 && selfperm != (p.Mode == "selfperm") {
			continue
		}
		r := p.rng(idx, "case")
		cc := genTermCase(r, idx)
		run.begin(idx, "", cc)
		verdict := runC15Case(run, idx, cc, maxK)
		run.end(idx, "", verdict)
		if verdict == "runaway" {
			run.count("stopped_after_runaway", 1)
			break
		}
	}
}

func runC15Case(run *runner, idx int64, cc *checkCase, maxK int64) string {
	verdict := "ok"
	depth, width := 5, 20
	if cc.Variant == "very-wide" {
		width = 300
	}
	env, err := newEnv(run.t, EnvOpts{Namespaces: cc.Cfg.toKeto(), MaxDepth: depth, MaxWidth: width})
	if err != nil {
		run.inconclusive(fmt.Sprintf("idx %d: env: %v", idx, err))
		return "inconclusive"
	}
	defer env.Close()
	if err := env.Write(shuffled(run.p.rng(idx, "order"), cc.tuples)...); err != nil {
		run.inconclusive(fmt.Sprintf("idx %d: write: %v", idx, err))
		return "inconclusive"
	}
	st, eng, _ := env.instrumented()
	pt := &perturber{seed: uint64(idx) * 7919, level: int(idx % 3)}
	st.perturb = pt.point
	un := pt.install()
	defer un()
	reported := map[string]bool{}
	judge := func(tr termRun, sub string, what string) bool {
		run.eval(1)
		switch {
		case tr.inconcl != "":
			run.inconclusive(fmt.Sprintf("idx %d %s: %s", idx, sub, tr.inconcl))
			return false
		case tr.hangSig != "":
			if tr.runaway {
				defer func() { verdict = "runaway" }()
			}
			sig := "C15:no-return:" + tr.hangSig
			if !reported[sig] {
				reported[sig] = true
				run.violate(violation{Index: idx, Sub: sub, Sig: sig,
					Summary: fmt.Sprintf("check (%s) did not return: no storage call in flight and all engine goroutines parked in two consecutive profiles: %s", what, tr.hangSig), Case: cc})
			}
			verdict = "violation"
			return false
		case len(tr.leak) > 0:
			uniq := map[string]bool{}
			for _, s := range tr.leak {
				uniq[s] = true
			}
			var ks []string
			for k := range uniq {
				ks = append(ks, k)
			}
			sort.Strings(ks)
			sig := "C15:goroutine-leak:" + strings.Join(ks, ",")
			if !reported[sig] {
				reported[sig] = true
				run.violate(violation{Index: idx, Sub: sub, Sig: sig,
					Summary: fmt.Sprintf("after the check (%s) returned and its context was released, %d engine goroutine(s) remain parked (same stacks in consecutive profiles, no storage call in flight): %v", what, len(tr.leak), ks), Case: cc})
			}
			verdict = "violation"
			return false
		}
		return true
	}
	for qi, q := range cc.queries {
		bound := callBound(cc, depth, width)
		tr0 := runTerm(env, st, eng, q, nil, false, false, bound)
		if !judge(tr0, fmt.Sprintf("q%d/plain", qi), "no fault") {
			if env.dirty {
				return verdict
			}
			continue
		}
		N := tr0.calls
		run.count("storage_calls", N)
		run.maxCounter("max_same_query_repeats_in_one_check", int64(st.maxRepeated()))
		run.nontrivial(fmt.Sprintf("%d/%d", idx, qi))
		if b := bound; float64(N) > b {
			run.violate(violation{Index: idx, Sub: fmt.Sprintf("q%d/plain", qi), Sig: "C15:call-bound-exceeded",
				Summary: fmt.Sprintf("check %s issued %d storage calls, analytic bound for depth %d / width %d is %.0f", q, N, depth, width, b), Case: cc})
			verdict = "violation"
		}
		// cancelled before start
		tr := runTerm(env, st, eng, q, nil, true, false, bound)
		if judge(tr, fmt.Sprintf("q%d/precancel", qi), "context cancelled before the call") {
			run.count("cancel_points", 1)
			if tr.res.Err == nil && N > 0 {
				run.count("precancelled_but_answered", 1)
			}
		}
		if env.dirty {
			return verdict
		}
		// deadline instead of cancel
		tr = runTerm(env, st, eng, q, nil, false, true, bound)
		if judge(tr, fmt.Sprintf("q%d/deadline", qi), "50ms deadline") {
			run.count("cancel_points", 1)
		}
		if env.dirty {
			return verdict
		}
		K := N
		if K > maxK {
			K = maxK
		}
		for k := int64(1); k <= K; k++ {
			for _, atReturn := range []bool{false, true} {
				plan := &faultPlan{}
				if atReturn {
					plan.CancelAtReturn = k
				} else {
					plan.CancelAtStart = k
				}
				tr := runTerm(env, st, eng, q, plan, false, false, bound)
				if judge(tr, fmt.Sprintf("q%d/cancel@%d/%v", qi, k, atReturn), fmt.Sprintf("context cancelled at storage call %d (atReturn=%v)", k, atReturn)) {
					run.count("cancel_points", 1)
					run.count("calls_started_after_cancel", tr.late)
					run.setAdd("cancel_positions", fmt.Sprintf("%d/%d/%d/%v", idx, qi, k, atReturn))
				}
				if env.dirty {
					return verdict
				}
			}
			for _, persistent := range []bool{false, true} {
				fk := faultKinds[int(k+idx)%len(faultKinds)]
				tr := runTerm(env, st, eng, q, &faultPlan{FailAt: k, Persistent: persistent, Err: fk.err}, false, false, bound)
				if judge(tr, fmt.Sprintf("q%d/fail@%d/%v", qi, k, persistent), fmt.Sprintf("storage call %d failing (%s, persistent=%v)", k, fk.name, persistent)) {
					run.count("fault_points", 1)
				}
				if env.dirty {
					return verdict
				}
			}
		}
	}
	// the same guarantees for the batch entry point (more entries than workers):
	// cancellation before the start, a deadline, cancellation at the first storage calls
	if len(cc.queries) > 0 && !env.dirty && cc.Variant != "self-permits" && idx%2 == 0 {
		var bt []*Tup
		for len(bt) < 12 {
			bt = append(bt, cc.queries...)
		}
		c15BatchTuples = bt[:12]
		defer func() { c15BatchTuples = nil }()
		q := cc.queries[0]
		tr0 := runTerm(env, st, eng, q, nil, false, false, 0)
		if judge(tr0, "batch/plain", "batch of 12 entries, no fault") && !env.dirty {
			run.count("batch_termination_runs", 1)
			N := tr0.calls
			for _, mode := range []string{"precancel", "deadline"} {
				tr := runTerm(env, st, eng, q, nil, mode == "precancel", mode == "deadline", 0)
				if judge(tr, "batch/"+mode, "batch of 12 entries, "+mode) {
					run.count("cancel_points", 1)
				}
				if env.dirty {
					return verdict
				}
			}
			K := N
			if K > 6 {
				K = 6
			}
			for k := int64(1); k <= K; k++ {
				tr := runTerm(env, st, eng, q, &faultPlan{CancelAtStart: k}, false, false, 0)
				if judge(tr, fmt.Sprintf("batch/cancel@%d", k), fmt.Sprintf("batch of 12 entries, context cancelled at storage call %d", k)) {
					run.count("cancel_points", 1)
				}
				if env.dirty {
					return verdict
				}
			}
		}
	}
	run.sample(map[string]any{"variant": cc.Variant, "config": cc.Cfg, "tuples": cc.Tuples[:minInt(len(cc.Tuples), 12)], "queries": cc.Queries})
	return verdict
}
