package verifh

// C05, mode "crash": kill points below keto.
//
// A child process (this test binary re-executed with -test.run ^TestC05Crasher$)
// performs ONE transact of 6001 inserts + 201 deletes on an on-disk SQLite database
// prepared by the parent (journal modes WAL and rollback journal), through
// Manager.TransactRelationTuples ("manager": mappings stored beforehand, the transact is
// the only write) or through REST PATCH served in-process ("rest-patch": uuid mappings are
// written in the same transaction). The parent runs it under
//   strace -f -o /dev/null -e trace=pwrite64,fsync,fdatasync -e inject=<syscall>:signal=SIGKILL:when=N
// (when=N counts per thread, so whether the kill happens is recorded, not assumed),
// reopens the database file and requires
//   canonical dump (every table; shard id / commit time left out) in {before, after}
// where `after` is taken from an unkilled reference run of the same child on a copy of the
// same prepared database and cross-checked against apply(I, D, before).
// A process kill is not a power loss: the page cache survives.

import (
	"context"
	"database/sql"
	"encoding/json"
	"fmt"
	"io"
	"os"
	"os/exec"
	"path/filepath"
	"sort"
	"strings"
	"syscall"
	"testing"
	"time"
)

type c05CrashSpec struct {
	DSN  string `json:"dsn"`
	Path string `json:"path"` // manager | rest-patch
	NIns int    `json:"n_insert"`
	NDel int    `json:"n_delete"`
}

type c05CrashCase struct {
	Journal string `json:"journal"` // wal | delete
	Path    string `json:"path"`
	Syscall string `json:"syscall"`
	When    int    `json:"when"`
	Only    string `json:"only_file,omitempty"` // "main-db": count only syscalls on the main database file (strace -P)
	NIns    int    `json:"n_insert"`
	NDel    int    `json:"n_delete"`
}

func c05CrashTuples(nIns, nDel int) (ins, del, by []*Tup) {
	c := &c05Case{NIns: nIns, NDel: nDel, Shape: "mixed"}
	return c05GenTuples(c)
}

// TestC05Crasher is the child entry point; without its environment it does nothing.
func TestC05Crasher(t *testing.T) {
	raw := os.Getenv("VERIF_C05_CRASHER")
	if raw == "" {
		t.Skip("child entry point of TestC05 (mode crash)")
	}
	var s c05CrashSpec
	if err := json.Unmarshal([]byte(raw), &s); err != nil {
		fmt.Println("C05CRASHER-ERROR spec:", err)
		os.Exit(3)
	}
	env, err := newEnv(t, EnvOpts{DSN: s.DSN, Namespaces: c05Namespaces()})
	if err != nil {
		fmt.Println("C05CRASHER-ERROR env:", err)
		os.Exit(3)
	}
	ins, del, _ := c05CrashTuples(s.NIns, s.NDel)
	cl, _ := newC05Client(env, false)
	var res c05Result
	switch s.Path {
	case "manager":
		iIns, err1 := env.Reg.ReadOnlyMapper().FromTuple(env.Ctx, ins...)
		iDel, err2 := env.Reg.ReadOnlyMapper().FromTuple(env.Ctx, del...)
		if err1 != nil || err2 != nil {
			fmt.Println("C05CRASHER-ERROR map:", err1, err2)
			os.Exit(3)
		}
		fmt.Println("C05CRASHER-START")
		res = cl.doWrite("mgr-transact", ins, del, iIns, iDel, 120*time.Second)
	default:
		fmt.Println("C05CRASHER-START")
		res = cl.doWrite("rest-patch", ins, del, nil, nil, 120*time.Second)
	}
	fmt.Printf("C05CRASHER-DONE failed=%v status=%s msg=%s\n", res.Failed, res.Status, trunc(res.Msg, 200))
	env.Close()
	fmt.Println("C05CRASHER-CLOSED")
}

// ---------------------------------------------------------------------------

type c05Canon struct {
	Rel, Map, Other []string
}

func (a *c05Canon) equal(b *c05Canon) bool {
	return strings.Join(a.Rel, "\n") == strings.Join(b.Rel, "\n") && strings.Join(a.Map, "\n") == strings.Join(b.Map, "\n") && strings.Join(a.Other, "\n") == strings.Join(b.Other, "\n")
}

func c05DSN(dir, journal string) string {
	return fmt.Sprintf("sqlite://file:%s?_fk=true&_journal_mode=%s&_busy_timeout=10000", filepath.Join(dir, "db.sqlite"), strings.ToUpper(journal))
}

// c05CanonDump opens the database file with a fresh handle (this is where SQLite
// recovers a hot journal / WAL) and returns the canonical content + integrity_check.
func c05CanonDump(dsn string) (*c05Canon, string, error) {
	db, err := sql.Open("sqlite3", strings.TrimPrefix(dsn, "sqlite://"))
	if err != nil {
		return nil, "", err
	}
	defer db.Close()
	db.SetMaxOpenConns(1)
	var integ string
	if err := db.QueryRow("PRAGMA integrity_check").Scan(&integ); err != nil {
		return nil, "", fmt.Errorf("integrity_check: %w", err)
	}
	lines, err := dumpVia(func(q string) (*sql.Rows, error) {
		if q == "SELECT * FROM keto_relation_tuples" {
			q = "SELECT nid, namespace, object, relation, subject_id, subject_set_namespace, subject_set_object, subject_set_relation FROM keto_relation_tuples"
		}
		return db.Query(q)
	})
	if err != nil {
		return nil, integ, err
	}
	c := &c05Canon{}
	c.Rel, c.Map, c.Other = c05SplitDump(lines)
	sort.Strings(c.Rel)
	return c, integ, nil
}

func c05CopyDB(from, to string) error {
	if err := os.MkdirAll(to, 0o755); err != nil {
		return err
	}
	for _, f := range []string{"db.sqlite", "db.sqlite-wal", "db.sqlite-shm", "db.sqlite-journal"} {
		in, err := os.Open(filepath.Join(from, f))
		if err != nil {
			if os.IsNotExist(err) {
				continue
			}
			return err
		}
		out, err := os.Create(filepath.Join(to, f))
		if err != nil {
			in.Close()
			return err
		}
		_, err = io.Copy(out, in)
		in.Close()
		out.Close()
		if err != nil {
			return err
		}
	}
	return nil
}

type c05ChildRun struct {
	Killed   bool   `json:"killed_by_sigkill"`
	ExitCode int    `json:"exit_code"`
	TimedOut bool   `json:"timed_out"`
	Started  bool   `json:"transact_started"`
	Done     bool   `json:"transact_returned"`
	Failed   bool   `json:"transact_failed"`
	Closed   bool   `json:"closed"`
	Output   string `json:"output"`
}

// c05RunChild runs the crasher on dsn, optionally under strace with a kill point.
func c05RunChild(spec c05CrashSpec, sysc string, when int, onlyPath string) (*c05ChildRun, error) {
	ctx, cancel := context.WithTimeout(context.Background(), 240*time.Second)
	defer cancel()
	self, err := os.Executable()
	if err != nil {
		self = os.Args[0]
	}
	args := []string{self, "-test.run", "^TestC05Crasher$", "-test.timeout", "0"}
	var cmd *exec.Cmd
	if sysc != "" {
		sargs := []string{"-f", "-o", "/dev/null", "-e", "trace=pwrite64,fsync,fdatasync", "-e", fmt.Sprintf("inject=%s:signal=SIGKILL:when=%d", sysc, when)}
		if onlyPath != "" {
			sargs = append(sargs, "-P", onlyPath)
		}
		sargs = append(sargs, args...)
		cmd = exec.CommandContext(ctx, "/usr/bin/strace", sargs...)
	} else {
		cmd = exec.CommandContext(ctx, args[0], args[1:]...)
	}
	cmd.Env = append(os.Environ(), "VERIF_C05_CRASHER="+jsonStr(spec), "VERIF_MODE=", "VERIF_REPLAY_INDEX=")
	cmd.Dir = scratchDir()
	var buf strings.Builder
	cmd.Stdout = &limitedWriter{w: &buf, n: 8192}
	cmd.Stderr = cmd.Stdout
	err = cmd.Run()
	r := &c05ChildRun{Output: trunc(buf.String(), 600)}
	out := buf.String()
	r.Started = strings.Contains(out, "C05CRASHER-START")
	r.Done = strings.Contains(out, "C05CRASHER-DONE")
	r.Failed = strings.Contains(out, "C05CRASHER-DONE failed=true")
	r.Closed = strings.Contains(out, "C05CRASHER-CLOSED")
	if ctx.Err() != nil {
		r.TimedOut = true
		return r, nil
	}
	if err != nil {
		ee, ok := err.(*exec.ExitError)
		if !ok {
			return r, err
		}
		if ws, ok := ee.Sys().(syscall.WaitStatus); ok {
			if ws.Signaled() && ws.Signal() == syscall.SIGKILL {
				r.Killed = true
			}
			r.ExitCode = ws.ExitStatus()
			// strace reports a tracee killed by a signal by killing itself with it; some
			// versions exit with 128+signal instead
			if ws.Exited() && ws.ExitStatus() == 128+int(syscall.SIGKILL) {
				r.Killed = true
			}
		}
	}
	return r, nil
}

type limitedWriter struct {
	w io.Writer
	n int
}

func (l *limitedWriter) Write(p []byte) (int, error) {
	if l.n > 0 {
		q := p
		if len(q) > l.n {
			q = q[:l.n]
		}
		l.n -= len(q)
		_, _ = l.w.Write(q)
	}
	return len(p), nil
}

type c05Template struct {
	dir           string
	before, after *c05Canon
	err           string
}

// c05PrepareTemplate builds the prepared database of one (journal, path) pair, takes
// `before`, and obtains `after` from an unkilled reference run on a copy.
func c05PrepareTemplate(run *runner, journal, path string, nIns, nDel int) *c05Template {
	t := &c05Template{}
	fail := func(what string, err error) *c05Template {
		t.err = fmt.Sprintf("%s: %v", what, err)
		return t
	}
	dir, err := os.MkdirTemp(scratchDir(), "c05tmpl")
	if err != nil {
		return fail("mkdir", err)
	}
	t.dir = dir
	dsn := c05DSN(dir, journal)
	env, err := newEnv(run.t, EnvOpts{DSN: dsn, Namespaces: c05Namespaces()})
	if err != nil {
		return fail("env", err)
	}
	ins, del, by := c05CrashTuples(nIns, nDel)
	if err := env.Write(append(append([]*Tup{}, del...), by...)...); err != nil {
		env.Close()
		return fail("seed", err)
	}
	if path == "manager" {
		if _, err := env.Reg.Mapper().FromTuple(env.Ctx, ins...); err != nil {
			env.Close()
			return fail("pre-map", err)
		}
	}
	iIns, err1 := env.Reg.ReadOnlyMapper().FromTuple(env.Ctx, ins...)
	iDel, err2 := env.Reg.ReadOnlyMapper().FromTuple(env.Ctx, del...)
	conn, err3 := env.Reg.PopConnection(env.Ctx)
	if err1 != nil || err2 != nil || err3 != nil {
		env.Close()
		return fail("map", fmt.Errorf("%v %v %v", err1, err2, err3))
	}
	countsBefore, err := c05RelCounts(func(q string) (*sql.Rows, error) { return conn.Store.SQLDB().Query(q) })
	env.Close()
	if err != nil {
		return fail("counts", err)
	}
	if t.before, _, err = c05CanonDump(dsn); err != nil {
		return fail("dump before", err)
	}
	// reference run
	ref := dir + "-ref"
	defer os.RemoveAll(ref)
	if err := c05CopyDB(dir, ref); err != nil {
		return fail("copy", err)
	}
	rr, err := c05RunChild(c05CrashSpec{DSN: c05DSN(ref, journal), Path: path, NIns: nIns, NDel: nDel}, "", 0, "")
	if err != nil || !rr.Closed || rr.Failed {
		return fail("reference run", fmt.Errorf("%v %+v", err, rr))
	}
	if t.after, _, err = c05CanonDump(c05DSN(ref, journal)); err != nil {
		return fail("dump after", err)
	}
	// cross-check the reference `after` against the model
	db, err := sql.Open("sqlite3", strings.TrimPrefix(c05DSN(ref, journal), "sqlite://"))
	if err != nil {
		return fail("open ref", err)
	}
	countsAfter, err := c05RelCounts(func(q string) (*sql.Rows, error) { return db.Query(q) })
	db.Close()
	if err != nil {
		return fail("counts after", err)
	}
	if d := c05CountsDiff(c05Apply(countsBefore, iIns, iDel), countsAfter); d != "" {
		t.err = "reference-run-not-apply: " + d
	}
	if t.before.equal(t.after) {
		t.err = "reference run left the database unchanged"
	}
	return t
}

func c05GenCrash(idx int64, r interface{ IntN(int) int }) *c05CrashCase {
	c := &c05CrashCase{NIns: 6001, NDel: 201}
	c.Journal = []string{"wal", "delete"}[idx%2]
	c.Path = []string{"manager", "rest-patch"}[(idx/2)%2]
	slot := []string{"pwrite64", "pwrite64/main-db", "pwrite64", "fsync", "pwrite64/main-db", "pwrite64", "fsync/main-db", "pwrite64",
		"pwrite64/main-db", "pwrite64", "fsync", "pwrite64/main-db", "pwrite64", "fsync/main-db", "pwrite64/main-db", "fdatasync"}[(idx/4)%16]
	c.Syscall, c.Only, _ = strings.Cut(slot, "/")
	// when=N counts per thread; the transact runs almost entirely on one thread. Calibrated
	// totals (6001/201): ~5000-5400 pwrite64 in WAL mode (~1200 of them on the main file, at
	// the checkpoint after the commit), ~3800-4200 with a rollback journal; 2 fsync.
	max := map[string]int{"wal": 5600, "delete": 4300, "wal/main-db": 1400, "delete/main-db": 3600}[strings.TrimSuffix(c.Journal+"/"+c.Only, "/")]
	switch c.Syscall {
	case "pwrite64":
		switch r.IntN(5) {
		case 0:
			c.When = 1 + r.IntN(16)
		case 1:
			c.When = 1 + r.IntN(300)
		case 4:
			c.When = max*80/100 + r.IntN(max*25/100) // around the last writes of the commit
		default:
			c.When = 1 + r.IntN(max)
		}
	case "fsync":
		c.When = 1 + r.IntN(3)
		if c.Only != "" {
			c.When = 1 + r.IntN(2)
		}
	default:
		c.When = 1 + r.IntN(2)
	}
	return c
}

func c05RunCrash(run *runner, mon *c05Mon) {
	p := run.p
	n := int64(p.pick(24, 320))
	if _, err := os.Stat("/usr/bin/strace"); err != nil {
		run.inconclusive("crash: /usr/bin/strace is not installed")
		return
	}
	templates := map[string]*c05Template{}
	defer func() {
		for _, t := range templates {
			if t.dir != "" {
				os.RemoveAll(t.dir)
			}
		}
	}()
	for idx := int64(0); idx < n; idx++ {
		if !p.mine(idx) || (p.ReplaySub != "" && p.ReplaySub != "crash") {
			continue
		}
		r := p.rng(idx, "crash")
		c := c05GenCrash(idx, r)
		if v := envInt("VERIF_C05_WHEN", 0); v > 0 { // calibration / replay aid
			c.When = int(v)
			if sc := os.Getenv("VERIF_C05_SYSCALL"); sc != "" {
				c.Syscall = sc
			}
			c.Only = os.Getenv("VERIF_C05_ONLY")
		}
		run.begin(idx, "crash", c)
		key := c.Journal + "/" + c.Path
		t := templates[key]
		if t == nil {
			t = c05PrepareTemplate(run, c.Journal, c.Path, c.NIns, c.NDel)
			templates[key] = t
			run.count("crash_templates_prepared", 1)
		}
		verdict := "inconclusive"
		if strings.HasPrefix(t.err, "reference-run-not-apply") {
			mon.violate(idx, "crash", "C05:incomplete-success:crasher-"+c.Path, "the unkilled reference transact (6001 inserts + 201 deletes) did not leave apply(I, D, before): "+t.err, c, nil)
			verdict = "violation"
		} else if t.err != "" {
			run.inconclusive(fmt.Sprintf("crash idx %d: template %s: %s", idx, key, trunc(t.err, 300)))
		} else {
			verdict = c05CrashCaseRun(run, mon, idx, c, t)
		}
		run.end(idx, "crash", verdict)
	}
}

func c05CrashCaseRun(run *runner, mon *c05Mon, idx int64, c *c05CrashCase, t *c05Template) string {
	dir, err := os.MkdirTemp(scratchDir(), "c05kill")
	if err != nil {
		run.inconclusive("crash: mkdir: " + err.Error())
		return "inconclusive"
	}
	defer os.RemoveAll(dir)
	if err := c05CopyDB(t.dir, dir); err != nil {
		run.inconclusive("crash: copy: " + err.Error())
		return "inconclusive"
	}
	dsn := c05DSN(dir, c.Journal)
	only := ""
	if c.Only == "main-db" {
		only = filepath.Join(dir, "db.sqlite")
	}
	cr, err := c05RunChild(c05CrashSpec{DSN: dsn, Path: c.Path, NIns: c.NIns, NDel: c.NDel}, c.Syscall, c.When, only)
	if err != nil {
		run.inconclusive(fmt.Sprintf("crash idx %d: child: %v", idx, err))
		return "inconclusive"
	}
	if cr.TimedOut {
		run.inconclusive(fmt.Sprintf("crash idx %d: child hit the 240s deadline (not a verdict)", idx))
		return "inconclusive"
	}
	// leftovers a killed SQLite process leaves behind (informational)
	for _, f := range []string{"db.sqlite-wal", "db.sqlite-journal"} {
		if fi, err := os.Stat(filepath.Join(dir, f)); err == nil && fi.Size() > 0 {
			run.count("crash_reopened_with_hot_"+strings.TrimPrefix(f, "db.sqlite-"), 1)
		}
	}
	got, integ, err := c05CanonDump(dsn)
	run.eval(1)
	tag := c.Journal + ":" + c.Path + ":" + c.Syscall
	if c.Only != "" {
		tag += "@" + c.Only
	}
	desc := fmt.Sprintf("child (%s, journal %s) under inject=%s:signal=SIGKILL:when=%d%s: killed=%v transact_started=%v transact_returned=%v", c.Path, c.Journal, c.Syscall, c.When, map[bool]string{true: " -P <main db file>"}[c.Only != ""], cr.Killed, cr.Started, cr.Done)
	switch {
	case cr.Killed && !cr.Started:
		run.count("crash_killed_before_transact", 1)
	case cr.Killed && !cr.Done:
		run.count("crash_killed_during_transact", 1)
		run.count("crash_killed_during_transact_"+c.Journal+"_"+c.Syscall+map[bool]string{true: "_main_db_file"}[c.Only != ""], 1)
		run.nontrivial(fmt.Sprintf("crash/%d", idx))
	case cr.Killed:
		run.count("crash_killed_after_transact_returned", 1)
		run.nontrivial(fmt.Sprintf("crash/%d", idx))
	case cr.Closed:
		run.count("crash_ran_to_completion", 1)
	default:
		run.inconclusive(fmt.Sprintf("crash idx %d: child neither killed nor complete: %+v", idx, cr))
		return "inconclusive"
	}
	if idx < 2 {
		run.sample(map[string]any{"case": c, "child": cr})
	}
	if err != nil {
		mon.violate(idx, "crash", "C05:crash:unreadable:"+tag, desc+"; the database cannot be reopened/read: "+err.Error(), c, cr)
		return "violation"
	}
	if integ != "ok" {
		mon.violate(idx, "crash", "C05:crash:corrupt:"+tag, desc+"; PRAGMA integrity_check: "+trunc(integ, 200), c, cr)
		return "violation"
	}
	isBefore, isAfter := got.equal(t.before), got.equal(t.after)
	switch {
	case isBefore:
		run.count("crash_state_before", 1)
		if cr.Killed {
			run.count("crash_killed_and_reopened_in_before_state", 1)
		}
	case isAfter:
		run.count("crash_state_after", 1)
		if cr.Killed {
			run.count("crash_killed_and_reopened_in_after_state", 1)
		}
	}
	// what the child reported constrains which of the two it must be
	if cr.Done && !cr.Failed && isBefore {
		mon.violate(idx, "crash", "C05:crash:acknowledged-write-lost:"+tag, desc+"; the transact returned success but the reopened database is in the before-state", c, cr)
		return "violation"
	}
	if cr.Done && cr.Failed && isAfter {
		mon.violate(idx, "crash", "C05:crash:failed-write-applied:"+tag, desc+"; the transact returned an error but the reopened database is in the after-state", c, cr)
		return "violation"
	}
	if isBefore || isAfter {
		return "ok"
	}
	relState := "neither"
	if strings.Join(got.Rel, "\n") == strings.Join(t.before.Rel, "\n") {
		relState = "before"
	} else if strings.Join(got.Rel, "\n") == strings.Join(t.after.Rel, "\n") {
		relState = "after"
	}
	if relState == "neither" {
		mon.violate(idx, "crash", "C05:crash:partial-relationships:"+tag,
			fmt.Sprintf("%s; the reopened database holds %d relationship rows, before-state %d, after-state %d: neither; vs before: %s", desc, len(got.Rel), len(t.before.Rel), len(t.after.Rel), trunc(diffDumps(t.before.Rel, got.Rel), 400)), c, cr)
		return "violation"
	}
	mapState := "neither"
	if strings.Join(got.Map, "\n") == strings.Join(t.before.Map, "\n") {
		mapState = "before"
	} else if strings.Join(got.Map, "\n") == strings.Join(t.after.Map, "\n") {
		mapState = "after"
	}
	if mapState != relState {
		run.count("uuid_mapping_leftover_rows", int64(len(got.Map)-len(t.before.Map)))
		mon.violate(idx, "crash", "C05:crash:uuid-mapping-mismatch:"+tag,
			fmt.Sprintf("%s; relationships are in the %s-state but keto_uuid_mappings is in the %s-state (%d rows; before %d, after %d)", desc, relState, mapState, len(got.Map), len(t.before.Map), len(t.after.Map)), c, cr)
		return "violation"
	}
	mon.violate(idx, "crash", "C05:crash:other-table-changed:"+tag, desc+"; a table other than relationships/mappings differs: "+trunc(diffDumps(t.before.Other, got.Other), 300), c, cr)
	return "violation"
}
