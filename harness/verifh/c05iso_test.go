package verifh

// C05, mode "isolation": concurrent histories on the on-disk WAL database (and,
// labelled separately, on the shared-cache memory DSN).
//
// W writer clients own disjoint marker sets. A set has four parts: B0, B1 (nB > 3000
// tuples each) and S0, S1 (nS > 100 tuples each); B1 and S1 are stored before the
// history starts. In round t (a = t%2) the writer issues
//   transact  ins = B[a] + S[a], del = S[1-a]   ONE keto transaction with >= 2 INSERT chunks
//                                               and >= 2 DELETE chunks
//   delete    every tuple of B[1-a] by query    ONE multi-row DELETE statement (skipped when the
//                                               transact did not succeed)
// (deleting > 3000 tuples one by one costs seconds on SQLite; the by-query delete keeps
// the table small). Sequentially, every state has exactly one of S0/S1 present together
// with the B part of the same phase, every part with ONE multiplicity for all its tuples.
// R reader clients are woken from the verif hook points between the SQL chunks of a
// running transact (that is where a partial state would be visible) and issue ONE
// single-statement read of a set: a list page that covers the whole set (Manager,
// REST, gRPC) or an exists / check of one marker tuple.
//
// Every call is recorded at the client boundary with call/return stamps from ONE
// atomic counter. Oracles:
//   direct    a successful list must show every part uniformly, exactly one S part, and the
//             B part of that phase (else: partial application);
//   porcupine the history must be linearizable against the sequential multiset model,
//             partitioned per marker set; a write that returned an error must not have
//             taken effect (strict); calls that hit the deadline stay open to the end of
//             the history and may or may not have taken effect. A history that is illegal
//             under the strict model is re-checked with failed writes left open, only to
//             name the violation class. Checker timeout => inconclusive.

import (
	"context"
	"encoding/json"
	"fmt"
	"math/rand/v2"
	"net/url"
	"os"
	"path/filepath"
	"sort"
	"strings"
	"sync"
	"sync/atomic"
	"time"

	"github.com/anishathalye/porcupine"
	"github.com/gofrs/uuid"

	"github.com/ory/keto/internal/relationtuple"
	"github.com/ory/keto/internal/x"
	"github.com/ory/keto/internal/x/verifhook"
	"github.com/ory/keto/ketoapi"
	rts "github.com/ory/keto/proto/ory/keto/relation_tuples/v1alpha2"
)

type c05IsoCase struct {
	DB           string   `json:"db"` // wal | memory-shared
	Writers      int      `json:"writers"`
	Readers      int      `json:"readers"`
	PartSize     int      `json:"big_part_size"`
	SmallSize    int      `json:"small_part_size"`
	Toggles      int      `json:"rounds_per_writer"`
	WriterVia    []string `json:"writer_via"`
	DeleteVia    []string `json:"delete_via"`
	ReadBudget   int      `json:"read_budget"`
	WakeEvery    int      `json:"wake_every"`
	WakePerPoint int      `json:"wake_per_point"`
	Seed         uint64   `json:"perturb_seed"`
}

const (
	c05StOK = iota
	c05StFailed
	c05StOpen
)

type c05In struct {
	Set     int
	Kind    string // transact | deleteall | list | exists
	InsPart int    // transact: phase a
	Part    int    // deleteall / exists: part index (0 B0, 1 B1, 2 S0, 3 S1)
}

type c05Out struct {
	Status  int
	C       [4]int
	Partial bool
	NoInfo  bool
	Present bool
}

type c05State [4]int

type c05Op struct {
	Client int    `json:"client"`
	Op     string `json:"op"`
	Set    int    `json:"set"`
	Args   string `json:"args"`
	Call   int64  `json:"call"`
	Ret    int64  `json:"return"` // -1: still open at the end of the history
	Status string `json:"status"`
	Result string `json:"result"`
	DurMS  int64  `json:"dur_ms"` // informational only
	in     c05In
	out    c05Out
}

func c05Model(strict bool) porcupine.Model {
	nm := porcupine.NondeterministicModel{
		Partition: func(h []porcupine.Operation) [][]porcupine.Operation {
			by := map[int][]porcupine.Operation{}
			var keys []int
			for _, o := range h {
				s := o.Input.(c05In).Set
				if _, ok := by[s]; !ok {
					keys = append(keys, s)
				}
				by[s] = append(by[s], o)
			}
			sort.Ints(keys)
			var out [][]porcupine.Operation
			for _, k := range keys {
				out = append(out, by[k])
			}
			return out
		},
		Init: func() []interface{} { return []interface{}{c05State{0, 1, 0, 1}} },
		Step: func(state, input, output interface{}) []interface{} {
			st := state.(c05State)
			in := input.(c05In)
			out := output.(c05Out)
			switch in.Kind {
			case "transact", "deleteall":
				applied := st
				if in.Kind == "transact" {
					a := in.InsPart
					applied[a]++
					applied[2+a]++
					applied[2+(1-a)] = 0
				} else {
					applied[in.Part] = 0
				}
				switch {
				case out.Status == c05StOK:
					return []interface{}{applied}
				case out.Status == c05StFailed && strict:
					return []interface{}{st}
				}
				if applied == st {
					return []interface{}{st}
				}
				return []interface{}{st, applied}
			case "list":
				if out.Status != c05StOK || out.NoInfo {
					return []interface{}{st}
				}
				if !out.Partial && out.C == [4]int(st) {
					return []interface{}{st}
				}
				return nil
			case "exists":
				if out.Status != c05StOK {
					return []interface{}{st}
				}
				if (st[in.Part] > 0) == out.Present {
					return []interface{}{st}
				}
				return nil
			}
			return nil
		},
		Equal: func(a, b interface{}) bool { return a.(c05State) == b.(c05State) },
	}
	return nm.ToModel()
}

func (o *c05Op) isWrite() bool { return o.in.Kind == "transact" || o.in.Kind == "deleteall" }

func c05ToPorcupine(ops []*c05Op, end int64, strict bool) []porcupine.Operation {
	out := make([]porcupine.Operation, 0, len(ops))
	for _, o := range ops {
		ret := o.Ret
		if ret < 0 || (!strict && o.isWrite() && o.out.Status == c05StFailed) {
			ret = end
		}
		out = append(out, porcupine.Operation{ClientId: o.Client, Input: o.in, Call: o.Call, Output: o.out, Return: ret})
	}
	return out
}

type c05Set struct {
	rel    string
	parts  [4][]*Tup
	iparts [4][]*relationtuple.RelationTuple
	off    [5]int // offset of each part in the per-set tuple numbering
	byObj  map[string]int32
	byUUID map[uuid.UUID]int32
}

func c05ErrClass(msg string) string {
	switch {
	case strings.Contains(msg, "table is locked"):
		return "table-locked"
	case strings.Contains(msg, "database is locked"):
		return "database-locked"
	case strings.Contains(msg, "serialize access"):
		return "serialize"
	case strings.Contains(msg, "deadline") || strings.Contains(msg, "canceled"):
		return "deadline"
	case strings.Contains(msg, "schema is locked"):
		return "schema-locked"
	}
	return "other"
}

func c05GenIso(r *rand.Rand, idx int64, thorough bool) *c05IsoCase {
	c := &c05IsoCase{DB: "wal"}
	if idx%5 == 4 {
		c.DB = "memory-shared"
	}
	c.Writers = []int{1, 2, 4}[r.IntN(3)]
	c.Readers = 4 + r.IntN(5)
	c.PartSize = []int{3001, 3001, 3050, 3100}[r.IntN(4)]
	c.SmallSize = []int{101, 101, 150, 201}[r.IntN(4)]
	c.Toggles = map[int]int{1: 6, 2: 4, 4: 3}[c.Writers]
	for w := 0; w < c.Writers; w++ {
		c.WriterVia = append(c.WriterVia, []string{"mgr-transact", "rest-patch", "grpc-transact"}[r.IntN(3)])
		c.DeleteVia = append(c.DeleteVia, []string{"mgr-delete-subject", "rest-delete-subject", "grpc-delete-subject"}[r.IntN(3)])
	}
	c.ReadBudget = 200 - 2*c.Writers*c.Toggles - c.Readers
	points := c.Writers * c.Toggles * (c05Chunks(c.PartSize+c.SmallSize, c05ChunkInsert) + 1 + c05Chunks(c.SmallSize, c05ChunkDelete))
	c.WakeEvery = maxI(1, points/c.ReadBudget)
	c.WakePerPoint = minInt(c.Readers, maxI(1, (c.ReadBudget+points-1)/points))
	c.Seed = r.Uint64()
	return c
}

func c05RunIsolation(run *runner, mon *c05Mon) {
	p := run.p
	n := int64(p.pick(24, 400))
	for idx := int64(0); idx < n; idx++ {
		if !p.mine(idx) || (p.ReplaySub != "" && p.ReplaySub != "isolation") {
			continue
		}
		r := p.rng(idx, "isolation")
		c := c05GenIso(r, idx, p.thorough())
		run.begin(idx, "isolation", c)
		verdict := c05History(run, mon, idx, c)
		run.end(idx, "isolation", verdict)
	}
}

func c05History(run *runner, mon *c05Mon, idx int64, c *c05IsoCase) string {
	label := "wal"
	if c.DB != "wal" {
		label = "mem"
	}
	env, err := newEnv(run.t, EnvOpts{Namespaces: c05Namespaces(), FileDB: c.DB == "wal"})
	if err != nil {
		run.inconclusive(fmt.Sprintf("isolation idx %d: env: %v", idx, err))
		return "inconclusive"
	}
	defer env.Close()
	cl, err := newC05Client(env, true)
	if err != nil {
		run.inconclusive(fmt.Sprintf("isolation idx %d: grpc: %v", idx, err))
		return "inconclusive"
	}
	defer cl.close()
	ctx := env.Ctx
	sizes := [4]int{c.PartSize, c.PartSize, c.SmallSize, c.SmallSize}
	partName := [4]string{"B0", "B1", "S0", "S1"}

	// ---- marker sets
	sets := make([]*c05Set, c.Writers)
	for w := range sets {
		s := &c05Set{rel: fmt.Sprintf("set%d", w), byObj: map[string]int32{}, byUUID: map[uuid.UUID]int32{}}
		for part := 0; part < 4; part++ {
			s.off[part+1] = s.off[part] + sizes[part]
			for i := 0; i < sizes[part]; i++ {
				t := tupID("m", fmt.Sprintf("w%d%s-%d", w, partName[part], i), s.rel, fmt.Sprintf("s%d-%s", w, partName[part]))
				s.parts[part] = append(s.parts[part], t)
				s.byObj[t.Object] = int32(s.off[part] + i)
			}
			// mappings of every part exist before the history (Manager writers need them)
			its, err := env.Reg.Mapper().FromTuple(ctx, s.parts[part]...)
			if err != nil {
				run.inconclusive(fmt.Sprintf("isolation idx %d: setup map: %v", idx, err))
				return "inconclusive"
			}
			s.iparts[part] = its
			for i, it := range its {
				s.byUUID[it.Object] = int32(s.off[part] + i)
			}
		}
		if err := env.Reg.RelationTupleManager().WriteRelationTuples(ctx, append(append([]*relationtuple.RelationTuple{}, s.iparts[1]...), s.iparts[3]...)...); err != nil {
			run.inconclusive(fmt.Sprintf("isolation idx %d: setup write: %v", idx, err))
			return "inconclusive"
		}
		sets[w] = s
	}

	// ---- recording
	var clock atomic.Int64
	var mu sync.Mutex
	var ops []*c05Op
	record := func(o *c05Op) {
		mu.Lock()
		ops = append(ops, o)
		mu.Unlock()
	}
	const callTimeout = 60 * time.Second

	// ---- hook: wake readers between the chunks of a running transact, then yield
	tick := make(chan struct{}, c.Readers)
	done := make(chan struct{})
	pt := &perturber{seed: c.Seed, level: 2}
	var hookN atomic.Uint64
	var hookHits, wakes atomic.Int64
	verifhook.Set(func(name string) {
		if !strings.HasPrefix(name, "sql.") {
			return
		}
		hookHits.Add(1)
		v := splitmix(c.Seed ^ hookN.Add(1))
		if v%uint64(c.WakeEvery) == 0 {
			for k := 0; k < c.WakePerPoint; k++ {
				select {
				case tick <- struct{}{}:
					wakes.Add(1)
				default:
				}
			}
			// let the woken readers start their statement while this transaction is open
			time.Sleep(time.Duration(1000+(v>>20)%4000) * time.Microsecond)
		}
		pt.point(name)
	})
	defer verifhook.Set(nil)

	var wg sync.WaitGroup
	// ---- writers
	var writersLeft atomic.Int64
	writersLeft.Store(int64(c.Writers))
	doWrite := func(o *c05Op, path string, ins, del []*Tup, iIns, iDel []*relationtuple.RelationTuple) bool {
		t0 := time.Now()
		o.Call = clock.Add(1)
		res := cl.doWrite(path, ins, del, iIns, iDel, callTimeout)
		ret := clock.Add(1)
		o.DurMS = time.Since(t0).Milliseconds()
		switch {
		case res.Open:
			o.Ret, o.Status, o.out.Status = -1, "open", c05StOpen
		case res.Failed:
			o.Ret, o.Status, o.out.Status = ret, "failed", c05StFailed
		default:
			o.Ret, o.Status, o.out.Status = ret, "ok", c05StOK
		}
		o.Result = res.Status + " " + trunc(res.Msg, 240)
		record(o)
		return o.Status == "ok"
	}
	for w := 0; w < c.Writers; w++ {
		wg.Add(1)
		go func(w int) {
			defer wg.Done()
			defer func() {
				if writersLeft.Add(-1) == 0 {
					close(done)
				}
			}()
			s := sets[w]
			for t := 0; t < c.Toggles; t++ {
				a := t % 2
				ins := append(append([]*Tup{}, s.parts[a]...), s.parts[2+a]...)
				iIns := append(append([]*relationtuple.RelationTuple{}, s.iparts[a]...), s.iparts[2+a]...)
				o := &c05Op{Client: w, Op: "transact-" + c.WriterVia[w], Set: w,
					Args: fmt.Sprintf("ins=%s(%d)+%s(%d) del=%s(%d)", partName[a], sizes[a], partName[2+a], sizes[2+a], partName[3-a], sizes[3-a]),
					in:   c05In{Set: w, Kind: "transact", InsPart: a}}
				if !doWrite(o, c.WriterVia[w], ins, s.parts[3-a], iIns, s.iparts[3-a]) {
					continue
				}
				o = &c05Op{Client: w, Op: "deleteall-" + c.DeleteVia[w], Set: w, Args: fmt.Sprintf("namespace=m relation=%s subject_id=%s (%s, %d tuples)", s.rel, *s.parts[1-a][0].SubjectID, partName[1-a], sizes[1-a]),
					in: c05In{Set: w, Kind: "deleteall", Part: 1 - a}}
				doWrite(o, c.DeleteVia[w], nil, s.parts[1-a][:1], nil, nil)
			}
		}(w)
	}
	// ---- readers
	var budget atomic.Int64
	budget.Store(int64(c.ReadBudget))
	for rd := 0; rd < c.Readers; rd++ {
		wg.Add(1)
		go func(rd int) {
			defer wg.Done()
			r := run.p.rng(idx, fmt.Sprintf("reader-%d", rd))
			client := c.Writers + rd
			for {
				final := false
				select {
				case <-tick:
				case <-done:
					final = true
				}
				if !final && budget.Add(-1) < 0 {
					<-done
					final = true
				}
				w := r.IntN(c.Writers)
				kind := []string{"list-mgr", "list-rest", "list-grpc", "list-mgr", "list-rest", "list-grpc", "exists-mgr", "check-rest", "check-grpc"}[r.IntN(9)]
				if final {
					kind = []string{"list-mgr", "list-rest", "list-grpc"}[rd%3]
					w = rd % c.Writers
				}
				record(c05Read(cl, sets[w], w, client, kind, r, &clock, callTimeout))
				if final {
					return
				}
			}
		}(rd)
	}
	wg.Wait()
	verifhook.Set(nil)
	if env.Dir != "" {
		// readers pin WAL snapshots, so the WAL is rarely reset during a history (informational)
		if fi, err := os.Stat(filepath.Join(env.Dir, "db.sqlite-wal")); err == nil {
			run.maxCounter("max_wal_file_mb", fi.Size()>>20)
		}
	}
	end := clock.Add(1)

	// ---- judge
	sort.Slice(ops, func(i, j int) bool { return ops[i].Call < ops[j].Call })
	run.count(label+"_histories", 1)
	run.count(label+"_ops_recorded", int64(len(ops)))
	run.maxCounter("max_ops_in_a_history", int64(len(ops)))
	run.count(label+"_hook_points_between_chunks", hookHits.Load())
	run.count(label+"_reader_wakeups_from_hook_points", wakes.Load())
	verdict := "ok"
	var writes []*c05Op
	for _, o := range ops {
		if o.isWrite() {
			writes = append(writes, o)
			run.count(label+"_"+o.in.Kind+"_"+o.Status, 1)
			run.count(label+"_writes_"+o.Status, 1)
			if o.Status != "ok" {
				cls := c05ErrClass(o.Result)
				run.count(label+"_write_error_"+cls, 1)
				if cls == "other" && o.Status == "failed" {
					// keep the innermost error text of unclassified failures in the evidence
					run.count(fmt.Sprintf("%s_write_error_other[%s: %s]", label, o.in.Kind, strings.TrimSpace(strings.Trim(c05Tail(o.Result, 90), "\"}\n"))), 1)
				}
			}
		}
	}
	for i, o := range ops {
		if o.isWrite() {
			continue
		}
		run.count(label+"_reads_"+o.Status, 1)
		if o.Status != "ok" {
			run.count(label+"_read_error_"+c05ErrClass(o.Result), 1)
			continue
		}
		run.count(label+"_reads_ok_"+o.Op, 1)
		overl := false
		for _, wo := range writes {
			wret := wo.Ret
			if wret < 0 {
				wret = end
			}
			if wo.Set == o.Set && wo.Status == "ok" && wo.in.Kind == "transact" && wo.Call < o.Ret && o.Call < wret {
				overl = true
			}
		}
		if overl {
			run.count(label+"_reads_overlapping_a_write", 1)
			run.nontrivial(fmt.Sprintf("isolation/%d/%d", idx, i))
		}
		if o.in.Kind != "list" || o.out.NoInfo {
			if o.out.NoInfo {
				run.count(label+"_reads_truncated_no_info", 1)
			}
			continue
		}
		run.eval(1)
		cls := ""
		sPresent := 0
		phase := -1
		for a := 0; a < 2; a++ {
			if o.out.C[2+a] > 0 {
				sPresent++
				phase = a
			}
		}
		switch {
		case o.out.Partial:
			cls = "partial-read"
		case sPresent == 2:
			cls = "mixed-parts" // inserts of a transact visible without its deletes
		case sPresent == 0:
			cls = "no-small-part"
		case o.out.C[phase] == 0:
			cls = "small-without-big" // second insert chunk visible without the first
		}
		if strings.Contains(o.Result, "foreign=") {
			cls = "foreign-rows"
		}
		if cls != "" {
			run.count(label+"_direct_oracle_"+cls, 1)
			mon.violate(idx, "isolation", fmt.Sprintf("C05:isolation:%s:%s:%s", cls, c.DB, o.Op),
				fmt.Sprintf("a single-statement %s of marker set %d (stamps %d..%d, overlapping a write: %v) returned %s; every sequential state has exactly one of S0/S1 together with the B part of that phase, each part with one multiplicity", o.Op, o.Set, o.Call, o.Ret, overl, o.Result),
				c, map[string]any{"read": o, "writes_of_set": c05OpsOfSet(writes, o.Set)})
			verdict = "violation"
		}
	}

	// porcupine
	run.eval(1)
	res := porcupine.CheckOperationsTimeout(c05Model(true), c05ToPorcupine(ops, end, true), 30*time.Second)
	switch res {
	case porcupine.Ok:
		run.count(label+"_porcupine_ok", 1)
	case porcupine.Unknown:
		run.count(label+"_porcupine_timeout", 1)
		run.inconclusive(fmt.Sprintf("isolation idx %d: porcupine did not finish in 30s (%d ops)", idx, len(ops)))
	case porcupine.Illegal:
		run.count(label+"_porcupine_illegal", 1)
		cls := "non-linearizable"
		if porcupine.CheckOperationsTimeout(c05Model(false), c05ToPorcupine(ops, end, false), 30*time.Second) == porcupine.Ok {
			cls = "failed-write-took-effect"
		}
		bad := -1
		for w := range sets {
			var part []*c05Op
			for _, o := range ops {
				if o.Set == w {
					part = append(part, o)
				}
			}
			m := c05Model(true)
			m.Partition = nil
			if porcupine.CheckOperationsTimeout(m, c05ToPorcupine(part, end, true), 30*time.Second) == porcupine.Illegal {
				bad = w
				break
			}
		}
		mon.violate(idx, "isolation", fmt.Sprintf("C05:isolation:%s:%s", cls, c.DB),
			fmt.Sprintf("history of %d client calls (%d writers, %d readers, db %s) is not linearizable against the sequential multiset model (marker set %d); class %s", len(ops), c.Writers, c.Readers, c.DB, bad, cls),
			c, map[string]any{"ops_of_set": c05OpsOfSet(ops, bad)})
		verdict = "violation"
	}
	if idx < 2 {
		run.sample(map[string]any{"case": c, "first_ops": ops[:minInt(len(ops), 12)]})
	}
	if os.Getenv("VERIF_C05_DUMP_OPS") != "" {
		fmt.Println(jsonStr(ops))
	}
	return verdict
}

func c05OpsOfSet(ops []*c05Op, set int) []*c05Op {
	var out []*c05Op
	for _, o := range ops {
		if o.Set == set {
			out = append(out, o)
		}
	}
	if len(out) > 120 {
		out = out[:120]
	}
	return out
}

// c05Read performs one single-statement read of one marker set at the client boundary.
func c05Read(cl *c05Client, s *c05Set, w, client int, kind string, r *rand.Rand, clock *atomic.Int64, timeout time.Duration) *c05Op {
	ctx, cancel := context.WithTimeout(cl.env.Ctx, timeout)
	defer cancel()
	total := s.off[4]
	page := 8*total + 10
	o := &c05Op{Client: client, Op: kind, Set: w}
	t0 := time.Now()
	defer func() { o.DurMS = time.Since(t0).Milliseconds() }()
	ns := "m"
	counts := make([]int32, total)
	foreign := 0
	var err error
	var errMsg string
	truncated := false
	see := func(k int32, ok bool) {
		if !ok {
			foreign++
			return
		}
		counts[k]++
	}
	if strings.HasPrefix(kind, "list") {
		o.in = c05In{Set: w, Kind: "list"}
		o.Args = fmt.Sprintf("namespace=m relation=%s page_size=%d", s.rel, page)
		switch kind {
		case "list-mgr":
			var its []*relationtuple.RelationTuple
			var next string
			o.Call = clock.Add(1)
			its, next, err = cl.env.Reg.RelationTupleManager().GetRelationTuples(ctx, &relationtuple.RelationQuery{Namespace: &ns, Relation: &s.rel}, x.WithSize(page))
			o.Ret = clock.Add(1)
			truncated = next != ""
			for _, it := range its {
				k, ok := s.byUUID[it.Object]
				see(k, ok)
			}
		case "list-rest":
			q := url.Values{"namespace": {ns}, "relation": {s.rel}, "page_size": {fmt.Sprint(page)}}
			o.Call = clock.Add(1)
			st, body, ptxt := httpDoCtx(ctx, timeout+time.Second, cl.read, "GET", "/relation-tuples?"+q.Encode(), "", nil)
			o.Ret = clock.Add(1)
			if ptxt != "" || st != 200 {
				errMsg = fmt.Sprintf("status %d %s %s", st, trunc(body, 200), trunc(ptxt, 200))
			} else {
				var resp ketoapi.GetResponse
				if e := json.Unmarshal([]byte(body), &resp); e != nil {
					errMsg = "undecodable: " + e.Error()
				} else {
					truncated = resp.NextPageToken != ""
					for _, t := range resp.RelationTuples {
						k, ok := s.byObj[t.Object]
						see(k, ok && t.Relation == s.rel)
					}
				}
			}
		case "list-grpc":
			o.Call = clock.Add(1)
			resp, e := cl.g.Read.ListRelationTuples(ctx, &rts.ListRelationTuplesRequest{RelationQuery: &rts.RelationQuery{Namespace: &ns, Relation: &s.rel}, PageSize: int32(page)})
			o.Ret = clock.Add(1)
			err = e
			if e == nil {
				truncated = resp.NextPageToken != ""
				for _, t := range resp.RelationTuples {
					k, ok := s.byObj[t.Object]
					see(k, ok && t.Relation == s.rel)
				}
			}
		}
	} else {
		part := r.IntN(4)
		i := r.IntN(len(s.parts[part]))
		t, it := s.parts[part][i], s.iparts[part][i]
		o.in = c05In{Set: w, Kind: "exists", Part: part}
		o.Args = t.String()
		switch kind {
		case "exists-mgr":
			o.Call = clock.Add(1)
			o.out.Present, err = cl.env.Reg.RelationTupleManager().ExistsRelationTuples(ctx, it.ToQuery())
			o.Ret = clock.Add(1)
		case "check-rest":
			o.Call = clock.Add(1)
			st, body, ptxt := httpDoCtx(ctx, timeout+time.Second, cl.read, "GET", "/relation-tuples/check?"+t.ToURLQuery().Encode(), "", nil)
			o.Ret = clock.Add(1)
			switch {
			case ptxt == "" && st == 200:
				o.out.Present = true
			case ptxt == "" && st == 403:
				o.out.Present = false
			default:
				errMsg = fmt.Sprintf("status %d %s %s", st, trunc(body, 200), trunc(ptxt, 200))
			}
		case "check-grpc":
			o.Call = clock.Add(1)
			resp, e := cl.g.Check.Check(ctx, &rts.CheckRequest{Tuple: t.ToProto()})
			o.Ret = clock.Add(1)
			err = e
			if e == nil {
				o.out.Present = resp.Allowed
			}
		}
	}
	if err != nil {
		errMsg = err.Error()
	}
	if errMsg != "" {
		o.Status, o.out.Status, o.Result = "failed", c05StFailed, trunc(errMsg, 200)
		if ctx.Err() != nil {
			o.Status, o.out.Status, o.Ret = "open", c05StOpen, -1
			cl.env.dirty = true
		}
		return o
	}
	o.Status, o.out.Status = "ok", c05StOK
	if o.in.Kind == "exists" {
		o.Result = fmt.Sprintf("present=%v", o.out.Present)
		return o
	}
	if truncated {
		o.out.NoInfo = true
		o.Result = "page did not cover the set (next_page_token set)"
		return o
	}
	// summarise: per part, multiplicity -> number of tuples
	var desc []string
	names := [4]string{"B0", "B1", "S0", "S1"}
	for part := 0; part < 4; part++ {
		hist := map[int32]int{}
		for _, v := range counts[s.off[part]:s.off[part+1]] {
			hist[v]++
		}
		if len(hist) == 1 {
			for v := range hist {
				o.out.C[part] = int(v)
			}
			desc = append(desc, fmt.Sprintf("%s x%d", names[part], o.out.C[part]))
		} else {
			o.out.Partial = true
			var ks []int
			for v := range hist {
				ks = append(ks, int(v))
			}
			sort.Ints(ks)
			var hs []string
			for _, v := range ks {
				hs = append(hs, fmt.Sprintf("%d tuples x%d", hist[int32(v)], v))
			}
			desc = append(desc, fmt.Sprintf("%s PARTIAL (%s)", names[part], strings.Join(hs, ", ")))
		}
	}
	if foreign > 0 {
		desc = append(desc, fmt.Sprintf("foreign=%d", foreign))
	}
	o.Result = strings.Join(desc, "; ")
	return o
}

// c05Tail keeps the end of a message (the innermost error text).
func c05Tail(s string, n int) string {
	if i := strings.Index(s, "...("); i > 0 {
		s = s[:i]
	}
	if len(s) > n {
		return "..." + s[len(s)-n:]
	}
	return s
}
