package verifh

// C05 — multi-relationship writes are atomic and isolated.
//
// Runtime monitor over the REAL keto code (registry, handlers, persister, SQLite).
// Three child modes (VERIF_MODE), one entry point:
//
//   faults     (this file)  statement faults injected INSIDE keto's transaction by SQLite
//                           triggers on a poison row (RAISE(ABORT) / RAISE(FAIL)) at every chunk
//                           index of the tuple INSERT (3000/chunk), the tuple DELETE (100/chunk)
//                           and the uuid-mapping INSERT (15000/chunk), plus invalid elements (nil
//                           subject / unknown namespace) at chunk-edge positions of large requests.
//                           Oracle: the request fails AND the full-database dump is unchanged
//                           (relationships judged strictly; uuid-mapping leftovers have their own
//                           signature). Fault-free controls: success AND state = apply(I, D, before).
//   isolation  (c05iso_test.go)   concurrent histories checked with porcupine + direct oracle.
//   crash      (c05crash_test.go) SIGKILL at the N-th pwrite64/fsync/fdatasync of a child process.
//
// An empty VERIF_MODE runs the three one after the other (journal "sub" = mode).

import (
	"context"
	"database/sql"
	"fmt"
	"math/rand/v2"
	"net/http"
	"net/url"
	"os"
	"path/filepath"
	"sort"
	"strings"
	"testing"
	"time"

	"github.com/gofrs/uuid"
	"google.golang.org/grpc/codes"
	"google.golang.org/grpc/status"

	"github.com/ory/keto/internal/namespace"
	"github.com/ory/keto/internal/relationtuple"
	"github.com/ory/keto/ketoapi"
	rts "github.com/ory/keto/proto/ory/keto/relation_tuples/v1alpha2"
)

const (
	c05ChunkInsert  = 3000
	c05ChunkDelete  = 100
	c05ChunkMapping = 15000
)

func c05Namespaces() []*namespace.Namespace {
	return []*namespace.Namespace{{Name: "m"}, {Name: "n"}}
}

func c05Chunks(n, size int) int { return (n + size - 1) / size }

// ---------------------------------------------------------------------------
// client boundary: one write request through one path

type c05Result struct {
	Failed bool   `json:"failed"` // an error / non-2xx answer was returned
	Open   bool   `json:"open"`   // the call's context ended before an answer: effect unknown
	Status string `json:"status"`
	Msg    string `json:"msg,omitempty"`
}

type c05Client struct {
	env   *Env
	g     *grpcClients
	write http.Handler
	read  http.Handler
}

func newC05Client(env *Env, withGRPC bool) (*c05Client, error) {
	c := &c05Client{env: env, write: env.Reg.WriteRouter(env.Ctx), read: env.Reg.ReadRouter(env.Ctx)}
	if withGRPC {
		g, err := newGRPC(env)
		if err != nil {
			return nil, err
		}
		c.g = g
	}
	return c, nil
}

func (c *c05Client) close() {
	if c.g != nil {
		c.g.Close()
	}
}

func c05HasSubject(t *Tup) bool { return t.SubjectID != nil || t.SubjectSet != nil }

func c05ToProto(t *Tup) *rts.RelationTuple {
	if c05HasSubject(t) {
		return t.ToProto()
	}
	return &rts.RelationTuple{Namespace: t.Namespace, Object: t.Object, Relation: t.Relation}
}

func c05PatchBody(ins, del []*Tup) string {
	deltas := make([]*ketoapi.PatchDelta, 0, len(ins)+len(del))
	for _, t := range ins {
		deltas = append(deltas, &ketoapi.PatchDelta{Action: ketoapi.ActionInsert, RelationTuple: t})
	}
	for _, t := range del {
		deltas = append(deltas, &ketoapi.PatchDelta{Action: ketoapi.ActionDelete, RelationTuple: t})
	}
	return jsonStr(deltas)
}

func c05ErrResult(ctx context.Context, err error) c05Result {
	if err == nil {
		return c05Result{Status: "ok"}
	}
	r := c05Result{Failed: true, Status: "err", Msg: trunc(err.Error(), 300)}
	if ctx.Err() != nil {
		r.Open = true
	}
	if st, ok := status.FromError(err); ok {
		r.Status = st.Code().String()
		if st.Code() == codes.DeadlineExceeded || st.Code() == codes.Canceled {
			r.Open = true
		}
	}
	return r
}

func c05HTTPResult(ctx context.Context, st int, body, pt string, okStatus ...int) c05Result {
	r := c05Result{Status: fmt.Sprint(st), Msg: trunc(body, 300)}
	if pt != "" {
		r.Failed, r.Status, r.Msg = true, "panic", trunc(pt, 300)
		return r
	}
	r.Failed = true
	for _, ok := range okStatus {
		if st == ok {
			r.Failed = false
		}
	}
	if r.Failed && ctx.Err() != nil {
		r.Open = true
	}
	return r
}

// doWrite sends one write request. ins/del are API tuples (REST, gRPC, mapper
// paths), iIns/iDel the same tuples in internal form (Manager paths).
func (c *c05Client) doWrite(path string, ins, del []*Tup, iIns, iDel []*relationtuple.RelationTuple, timeout time.Duration) (res c05Result) {
	ctx, cancel := context.WithTimeout(c.env.Ctx, timeout)
	defer cancel()
	defer func() {
		if res.Open {
			c.env.dirty = true
		}
	}()
	mgr := c.env.Reg.RelationTupleManager()
	var err error
	switch path {
	case "mgr-write":
		if pt := guard(func() { err = mgr.WriteRelationTuples(ctx, iIns...) }); pt != "" {
			return c05Result{Failed: true, Status: "panic", Msg: trunc(pt, 300)}
		}
		return c05ErrResult(ctx, err)
	case "mgr-delete":
		if pt := guard(func() { err = mgr.DeleteRelationTuples(ctx, iDel...) }); pt != "" {
			return c05Result{Failed: true, Status: "panic", Msg: trunc(pt, 300)}
		}
		return c05ErrResult(ctx, err)
	case "mgr-transact":
		if pt := guard(func() { err = mgr.TransactRelationTuples(ctx, iIns, iDel) }); pt != "" {
			return c05Result{Failed: true, Status: "panic", Msg: trunc(pt, 300)}
		}
		return c05ErrResult(ctx, err)
	case "mapper-mgr-transact":
		// the composition env.Write / the CLI use: map, then one Manager call
		if pt := guard(func() {
			var its []*relationtuple.RelationTuple
			its, err = c.env.Reg.Mapper().FromTuple(ctx, append(append([]*Tup{}, ins...), del...)...)
			if err == nil {
				err = mgr.TransactRelationTuples(ctx, its[:len(ins)], its[len(ins):])
			}
		}); pt != "" {
			return c05Result{Failed: true, Status: "panic", Msg: trunc(pt, 300)}
		}
		return c05ErrResult(ctx, err)
	case "rest-patch":
		st, body, pt := httpDoCtx(ctx, timeout+time.Second, c.write, "PATCH", "/admin/relation-tuples", c05PatchBody(ins, del), nil)
		return c05HTTPResult(ctx, st, body, pt, 204)
	case "rest-put":
		st, body, pt := httpDoCtx(ctx, timeout+time.Second, c.write, "PUT", "/admin/relation-tuples", jsonStr(ins[0]), nil)
		return c05HTTPResult(ctx, st, body, pt, 201)
	case "rest-delete-query":
		q := url.Values{"namespace": {del[0].Namespace}, "relation": {del[0].Relation}}
		st, body, pt := httpDoCtx(ctx, timeout+time.Second, c.write, "DELETE", "/admin/relation-tuples?"+q.Encode(), "", nil)
		return c05HTTPResult(ctx, st, body, pt, 204)
	case "grpc-transact":
		deltas := make([]*rts.RelationTupleDelta, 0, len(ins)+len(del))
		for _, t := range ins {
			deltas = append(deltas, &rts.RelationTupleDelta{Action: rts.RelationTupleDelta_ACTION_INSERT, RelationTuple: c05ToProto(t)})
		}
		for _, t := range del {
			deltas = append(deltas, &rts.RelationTupleDelta{Action: rts.RelationTupleDelta_ACTION_DELETE, RelationTuple: c05ToProto(t)})
		}
		_, err = c.g.Write.TransactRelationTuples(ctx, &rts.TransactRelationTuplesRequest{RelationTupleDeltas: deltas})
		return c05ErrResult(ctx, err)
	case "mgr-delete-subject", "rest-delete-subject", "grpc-delete-subject":
		// multi-tuple delete by query (namespace, relation, subject id): ONE statement
		d := del[0]
		switch path {
		case "mgr-delete-subject":
			if pt := guard(func() {
				var iq *relationtuple.RelationQuery
				iq, err = c.env.Reg.ReadOnlyMapper().FromQuery(ctx, &ketoapi.RelationQuery{Namespace: &d.Namespace, Relation: &d.Relation, SubjectID: d.SubjectID})
				if err == nil {
					err = mgr.DeleteAllRelationTuples(ctx, iq)
				}
			}); pt != "" {
				return c05Result{Failed: true, Status: "panic", Msg: trunc(pt, 300)}
			}
			return c05ErrResult(ctx, err)
		case "rest-delete-subject":
			q := url.Values{"namespace": {d.Namespace}, "relation": {d.Relation}, "subject_id": {*d.SubjectID}}
			st, body, pt := httpDoCtx(ctx, timeout+time.Second, c.write, "DELETE", "/admin/relation-tuples?"+q.Encode(), "", nil)
			return c05HTTPResult(ctx, st, body, pt, 204)
		}
		_, err = c.g.Write.DeleteRelationTuples(ctx, &rts.DeleteRelationTuplesRequest{RelationQuery: &rts.RelationQuery{Namespace: sp(d.Namespace), Relation: sp(d.Relation), Subject: rts.NewSubjectID(*d.SubjectID)}})
		return c05ErrResult(ctx, err)
	case "grpc-delete-query":
		_, err = c.g.Write.DeleteRelationTuples(ctx, &rts.DeleteRelationTuplesRequest{RelationQuery: &rts.RelationQuery{Namespace: sp(del[0].Namespace), Relation: sp(del[0].Relation)}})
		return c05ErrResult(ctx, err)
	}
	return c05Result{Failed: true, Status: "harness", Msg: "unknown path " + path}
}

func c05PathMapsInRequest(path string) bool {
	return strings.HasPrefix(path, "rest-p") || path == "grpc-transact" || path == "mapper-mgr-transact"
}

// ---------------------------------------------------------------------------
// state observation

// relCounts: the stored relationships as a multiset (shard id / commit time ignored).
func c05RelCounts(q func(string) (*sql.Rows, error)) (map[string]int, error) {
	rows, err := q("SELECT namespace, object, relation, COALESCE(subject_id,''), COALESCE(subject_set_namespace,''), COALESCE(subject_set_object,''), COALESCE(subject_set_relation,''), COUNT(*) FROM keto_relation_tuples GROUP BY 1,2,3,4,5,6,7")
	if err != nil {
		return nil, err
	}
	defer rows.Close()
	out := map[string]int{}
	for rows.Next() {
		var a [7]string
		var n int
		if err := rows.Scan(&a[0], &a[1], &a[2], &a[3], &a[4], &a[5], &a[6], &n); err != nil {
			return nil, err
		}
		out[strings.Join(a[:], "|")] = n
	}
	return out, rows.Err()
}

func c05InternalKey(t *relationtuple.RelationTuple) string {
	a := [7]string{t.Namespace, t.Object.String(), t.Relation}
	switch s := t.Subject.(type) {
	case *relationtuple.SubjectID:
		a[3] = s.ID.String()
	case *relationtuple.SubjectSet:
		a[4], a[5], a[6] = s.Namespace, s.Object.String(), s.Relation
	}
	return strings.Join(a[:], "|")
}

// applyModel: before + I, then every copy of a tuple of D removed (keto's order).
func c05Apply(before map[string]int, ins, del []*relationtuple.RelationTuple) map[string]int {
	out := map[string]int{}
	for k, v := range before {
		out[k] = v
	}
	for _, t := range ins {
		out[c05InternalKey(t)]++
	}
	for _, t := range del {
		delete(out, c05InternalKey(t))
	}
	return out
}

func c05CountsDiff(want, got map[string]int) string {
	var missing, extra int
	var ex string
	for k, v := range want {
		if got[k] != v {
			missing++
			if ex == "" {
				ex = fmt.Sprintf("%s want %d got %d", k, v, got[k])
			}
		}
	}
	for k, v := range got {
		if _, ok := want[k]; !ok {
			extra++
			if ex == "" {
				ex = fmt.Sprintf("%s want 0 got %d", k, v)
			}
		}
	}
	if missing+extra == 0 {
		return ""
	}
	return fmt.Sprintf("%d keys with a wrong count, %d unexpected keys; e.g. %s", missing, extra, ex)
}

func c05SplitDump(d []string) (rel, maps, other []string) {
	for _, l := range d {
		switch {
		case strings.HasPrefix(l, "keto_relation_tuples|"):
			rel = append(rel, l)
		case strings.HasPrefix(l, "keto_uuid_mappings|"):
			maps = append(maps, l)
		default:
			other = append(other, l)
		}
	}
	return
}

// ---------------------------------------------------------------------------
// fault / invalid-position plan

type c05Case struct {
	Plan     int    `json:"plan"` // index in the enumeration
	Rep      int    `json:"rep"`
	Kind     string `json:"kind"` // fault | control | invalid
	Path     string `json:"path"`
	NIns     int    `json:"n_insert"`
	NDel     int    `json:"n_delete"`
	Target   string `json:"target"` // fault: insert|delete|mapping ; invalid: nil-subject|unknown-namespace|unknown-subject-set-namespace ; control: none
	Chunk    int    `json:"chunk"`  // fault: chunk index of the poisoned statement
	Raise    string `json:"raise,omitempty"`
	Side     string `json:"side,omitempty"` // invalid: insert|delete
	PosLabel string `json:"pos_label,omitempty"`
	Pos      int    `json:"pos"` // position of the poison / invalid element in I or D (mapping: sorted position)
	Earlier  int    `json:"earlier_statements"`
	DB       string `json:"db"`
	Shape    string `json:"shape"`
	Poison   string `json:"poison,omitempty"`
}

func c05EarlierForFault(path, target string, nI, k int) int {
	maps := 0
	if c05PathMapsInRequest(path) {
		maps = 1
	}
	switch target {
	case "insert":
		return maps + k
	case "delete":
		n := maps + k
		if path != "mgr-delete" && !strings.HasSuffix(path, "delete-query") {
			n += c05Chunks(nI, c05ChunkInsert)
		}
		return n
	}
	return k // mapping
}

func c05Plan() []c05Case {
	var out []c05Case
	add := func(c c05Case) {
		c.Plan = len(out)
		if c.Kind == "fault" {
			c.Earlier = c05EarlierForFault(c.Path, c.Target, c.NIns, c.Chunk)
		}
		out = append(out, c)
	}
	raises := []string{"ABORT", "FAIL"}
	insSizes := []int{1, 2, 2999, 3000, 3001, 6001}
	delSizes := []int{0, 1, 99, 100, 101, 201}

	// (1) statement faults + fault-free controls
	for _, nI := range insSizes {
		add(c05Case{Kind: "control", Path: "mgr-write", NIns: nI, Target: "none"})
		for k := 0; k < c05Chunks(nI, c05ChunkInsert); k++ {
			for _, ra := range raises {
				add(c05Case{Kind: "fault", Path: "mgr-write", NIns: nI, Target: "insert", Chunk: k, Raise: ra})
			}
		}
	}
	for _, nD := range delSizes[1:] {
		add(c05Case{Kind: "control", Path: "mgr-delete", NDel: nD, Target: "none"})
		for k := 0; k < c05Chunks(nD, c05ChunkDelete); k++ {
			for _, ra := range raises {
				add(c05Case{Kind: "fault", Path: "mgr-delete", NDel: nD, Target: "delete", Chunk: k, Raise: ra})
			}
		}
	}
	for _, path := range []string{"mgr-transact", "rest-patch", "grpc-transact"} {
		for _, nI := range insSizes {
			for _, nD := range delSizes {
				add(c05Case{Kind: "control", Path: path, NIns: nI, NDel: nD, Target: "none"})
				for k := 0; k < c05Chunks(nI, c05ChunkInsert); k++ {
					for _, ra := range raises {
						add(c05Case{Kind: "fault", Path: path, NIns: nI, NDel: nD, Target: "insert", Chunk: k, Raise: ra})
					}
				}
				for k := 0; k < c05Chunks(nD, c05ChunkDelete); k++ {
					for _, ra := range raises {
						add(c05Case{Kind: "fault", Path: path, NIns: nI, NDel: nD, Target: "delete", Chunk: k, Raise: ra})
					}
				}
				if path != "mgr-transact" && (nD == 0 || nD == 201) {
					for _, ra := range raises {
						add(c05Case{Kind: "fault", Path: path, NIns: nI, NDel: nD, Target: "mapping", Chunk: 0, Raise: ra})
					}
				}
			}
		}
	}
	// REST PUT: one tuple = one mapping INSERT + one tuple INSERT
	add(c05Case{Kind: "control", Path: "rest-put", NIns: 1, Target: "none"})
	for _, ra := range raises {
		add(c05Case{Kind: "fault", Path: "rest-put", NIns: 1, Target: "insert", Raise: ra})
		add(c05Case{Kind: "fault", Path: "rest-put", NIns: 1, Target: "mapping", Raise: ra})
	}
	// multi-tuple delete by query (ONE statement; FAIL keeps the rows deleted before the poison row)
	for _, path := range []string{"rest-delete-query", "grpc-delete-query"} {
		for _, nD := range delSizes[1:] {
			add(c05Case{Kind: "control", Path: path, NDel: nD, Target: "none"})
			for _, ra := range raises {
				add(c05Case{Kind: "fault", Path: path, NDel: nD, Target: "delete", Raise: ra})
			}
		}
	}
	// second chunk of the uuid-mapping INSERT: > 15000 distinct strings in one request
	for _, path := range []string{"rest-patch", "grpc-transact"} {
		for k := 0; k < 2; k++ {
			for _, ra := range raises {
				add(c05Case{Kind: "fault", Path: path, NIns: 7501, NDel: 101, Target: "mapping", Chunk: k, Raise: ra, Shape: "distinct-subjects"})
			}
		}
	}

	// (1b) lock contention: another connection holds the database's write lock past the
	// busy timeout when the request starts; the SQL layer may retry the transaction.
	// Whatever it does, the request either fails without effect or succeeds completely.
	for _, path := range []string{"mgr-write", "mgr-delete", "mgr-transact", "rest-patch"} {
		for _, hold := range []int{600, 1400} {
			nI, nD := 6001, 201
			if path == "mgr-write" {
				nD = 0
			}
			if path == "mgr-delete" {
				nI = 0
			}
			add(c05Case{Kind: "busy", Path: path, NIns: nI, NDel: nD, Target: "write-lock-held", Pos: hold})
		}
	}
	// (2) invalid element at chunk-edge positions of a large request
	type pos struct {
		label string
		p     int
	}
	const bigI, bigD = 6001, 201
	insPos := []pos{{"0", 0}, {"1", 1}, {"mid", 4500}, {"2999", 2999}, {"3000", 3000}, {"last", bigI - 1}}
	delPos := []pos{{"0", 0}, {"1", 1}, {"mid", 150}, {"99", 99}, {"100", 100}, {"last", bigD - 1}}
	for _, path := range []string{"rest-patch", "grpc-transact", "mapper-mgr-transact"} {
		for _, kind := range []string{"nil-subject", "unknown-namespace", "unknown-subject-set-namespace"} {
			for _, ps := range insPos {
				add(c05Case{Kind: "invalid", Path: path, NIns: bigI, NDel: bigD, Target: kind, Side: "insert", PosLabel: ps.label, Pos: ps.p})
			}
			for _, ps := range delPos {
				add(c05Case{Kind: "invalid", Path: path, NIns: bigI, NDel: bigD, Target: kind, Side: "delete", PosLabel: ps.label, Pos: ps.p})
			}
		}
	}
	// Manager level: the persister meets the nil subject while building the chunk that contains it
	for _, ps := range insPos {
		add(c05Case{Kind: "invalid", Path: "mgr-write", NIns: bigI, Target: "nil-subject", Side: "insert", PosLabel: ps.label, Pos: ps.p, Earlier: ps.p / c05ChunkInsert})
		add(c05Case{Kind: "invalid", Path: "mgr-transact", NIns: bigI, NDel: bigD, Target: "nil-subject", Side: "insert", PosLabel: ps.label, Pos: ps.p, Earlier: ps.p / c05ChunkInsert})
	}
	for _, ps := range delPos {
		add(c05Case{Kind: "invalid", Path: "mgr-delete", NDel: bigD, Target: "nil-subject", Side: "delete", PosLabel: ps.label, Pos: ps.p, Earlier: ps.p / c05ChunkDelete})
		add(c05Case{Kind: "invalid", Path: "mgr-transact", NIns: bigI, NDel: bigD, Target: "nil-subject", Side: "delete", PosLabel: ps.label, Pos: ps.p, Earlier: c05Chunks(bigI, c05ChunkInsert) + ps.p/c05ChunkDelete})
	}
	return out
}

// ---------------------------------------------------------------------------
// tuples of a fault case

func c05Subject(t *Tup, shape string, i int) {
	set := false
	switch shape {
	case "sets":
		set = true
	case "mixed":
		set = i%3 == 1
	case "distinct-subjects":
		t.SubjectID = sp(fmt.Sprintf("u-%d", i))
		return
	}
	if set {
		t.SubjectSet = &ketoapi.SubjectSet{Namespace: "n", Object: fmt.Sprintf("g%d", i%11), Relation: "member"}
	} else {
		t.SubjectID = sp(fmt.Sprintf("u%d", i%7))
	}
}

func c05GenTuples(c *c05Case) (ins, del, by []*Tup) {
	for i := 0; i < c.NIns; i++ {
		t := &Tup{Namespace: "m", Object: fmt.Sprintf("ins-%d", i), Relation: "view"}
		c05Subject(t, c.Shape, i)
		ins = append(ins, t)
	}
	// requests that delete by exact tuple also delete TWINS: positions 4k+2 repeat
	// object, relation and subject of position 4k+1 in the other namespace (an
	// object's UUID does not depend on its namespace, so the two rows differ in the
	// namespace column only); a pair never straddles a delete chunk (100)
	twins := !strings.Contains(c.Path, "delete-query") && !strings.Contains(c.Path, "delete-subject")
	for j := 0; j < c.NDel; j++ {
		t := &Tup{Namespace: "m", Object: fmt.Sprintf("del-%d", j), Relation: "gone"}
		c05Subject(t, c.Shape, j+1)
		if twins && j%4 == 2 {
			t = &Tup{Namespace: "n", Object: fmt.Sprintf("del-%d", j-1), Relation: "gone"}
			c05Subject(t, c.Shape, j)
		}
		del = append(del, t)
	}
	for j := 0; j < 12; j++ {
		t := &Tup{Namespace: []string{"m", "n"}[j%2], Object: fmt.Sprintf("keep-%d", j), Relation: "keep"}
		c05Subject(t, "mixed", j)
		by = append(by, t)
	}
	return
}

type c05Mon struct {
	run  *runner
	seen map[string]int
}

func (m *c05Mon) violate(idx int64, sub, sig, summary string, c any, detail any) {
	m.seen[sig]++
	if m.seen[sig] > 3 {
		m.run.count("violations_beyond_3_per_signature", 1)
		return
	}
	m.run.violate(violation{Index: idx, Sub: sub, Sig: sig, Summary: trunc(summary, 900), Case: c, Detail: detail})
}

func c05Left(relBefore, relAfter []string) string {
	b := map[string]int{}
	for _, l := range relBefore {
		b[l]++
	}
	added, removed := 0, 0
	for _, l := range relAfter {
		if b[l] > 0 {
			b[l]--
		} else {
			added++
		}
	}
	for _, v := range b {
		removed += v
	}
	switch {
	case added > 0 && removed > 0:
		return fmt.Sprintf("inserted+deleted (%d rows added, %d rows removed)", added, removed)
	case added > 0:
		return fmt.Sprintf("inserted (%d rows added)", added)
	case removed > 0:
		return fmt.Sprintf("deleted (%d rows removed)", removed)
	}
	return ""
}

// ---------------------------------------------------------------------------

func c05RunFaults(run *runner, mon *c05Mon) {
	p := run.p
	plan := c05Plan()
	reps := p.pick(1, 14)
	n := int64(len(plan) * reps)
	run.maxCounter("max_plan_size", int64(len(plan)))
	for idx := int64(0); idx < n; idx++ {
		if !p.mine(idx) || (p.ReplaySub != "" && p.ReplaySub != "faults") {
			continue
		}
		r := p.rng(idx, "faults")
		c := plan[int(idx)%len(plan)]
		c.Rep = int(idx) / len(plan)
		if c.Shape == "" {
			c.Shape = []string{"ids", "sets", "mixed"}[r.IntN(3)]
		}
		c.DB = "memory"
		if r.IntN(4) == 0 {
			c.DB = "wal"
		}
		run.begin(idx, "faults", &c)
		verdict := c05FaultCase(run, mon, idx, &c, r)
		run.end(idx, "faults", verdict)
	}
}

func c05FaultCase(run *runner, mon *c05Mon, idx int64, c *c05Case, r *rand.Rand) string {
	opts := EnvOpts{Namespaces: c05Namespaces(), FileDB: c.DB == "wal"}
	if c.Kind == "busy" {
		dir, derr := os.MkdirTemp(scratchDir(), "c05busy")
		if derr != nil {
			run.inconclusive(fmt.Sprintf("faults idx %d: scratch: %v", idx, derr))
			return "inconclusive"
		}
		defer os.RemoveAll(dir)
		c.DB = "wal-busy-timeout-250ms"
		opts.FileDB, opts.DSN = false, fmt.Sprintf("sqlite://file:%s?_fk=true&_journal_mode=WAL&_busy_timeout=250", filepath.Join(dir, "db.sqlite"))
	}
	env, err := newEnv(run.t, opts)
	if err != nil {
		run.inconclusive(fmt.Sprintf("faults idx %d: env: %v", idx, err))
		return "inconclusive"
	}
	defer env.Close()
	cl, err := newC05Client(env, strings.HasPrefix(c.Path, "grpc"))
	if err != nil {
		run.inconclusive(fmt.Sprintf("faults idx %d: grpc: %v", idx, err))
		return "inconclusive"
	}
	defer cl.close()
	ctx := env.Ctx
	harness := func(what string, err error) string {
		run.inconclusive(fmt.Sprintf("faults idx %d (%s %s): %s: %v", idx, c.Path, c.Target, what, err))
		return "inconclusive"
	}

	ins, del, by := c05GenTuples(c)
	if err := env.Write(append(append([]*Tup{}, del...), by...)...); err != nil {
		return harness("seed", err)
	}
	iIns, err := env.Reg.ReadOnlyMapper().FromTuple(ctx, ins...)
	if err != nil {
		return harness("map I", err)
	}
	iDel, err := env.Reg.ReadOnlyMapper().FromTuple(ctx, del...)
	if err != nil {
		return harness("map D", err)
	}
	if strings.HasPrefix(c.Path, "mgr-") && len(ins) > 0 {
		// Manager callers map first (their own, earlier transaction): part of the setup here
		if _, err := env.Reg.Mapper().FromTuple(ctx, ins...); err != nil {
			return harness("pre-map I", err)
		}
	}
	// what the request would do when it succeeds (before the invalid element is planted)
	wantIns, wantDel := iIns, iDel
	switch c.Path {
	case "mgr-write", "rest-put":
		wantDel = nil
	case "mgr-delete", "rest-delete-query", "grpc-delete-query":
		wantIns = nil
	}

	// ---- plant the invalid element / choose the poison row
	var triggers []string
	trig := func(name, table, when, row, col, val string) string {
		triggers = append(triggers, name)
		return fmt.Sprintf("CREATE TRIGGER %s BEFORE %s ON %s WHEN %s.%s = '%s' BEGIN SELECT RAISE(%s,'injected'); END", name, when, table, row, col, val, c.Raise)
	}
	var ddl string
	switch c.Kind {
	case "fault":
		switch c.Target {
		case "insert":
			lo := c.Chunk * c05ChunkInsert
			hi := minInt(lo+c05ChunkInsert, len(ins))
			c.Pos = lo + r.IntN(hi-lo)
			c.Poison = iIns[c.Pos].Object.String()
			ddl = trig("verif_poison_i", "keto_relation_tuples", "INSERT", "NEW", "object", c.Poison)
		case "delete":
			if strings.HasSuffix(c.Path, "delete-query") {
				c.Pos = r.IntN(len(del)) // ONE statement: the poison is some row of it
			} else {
				lo := c.Chunk * c05ChunkDelete
				hi := minInt(lo+c05ChunkDelete, len(del))
				c.Pos = lo + r.IntN(hi-lo)
			}
			c.Poison = iDel[c.Pos].Object.String()
			ddl = trig("verif_poison_d", "keto_relation_tuples", "DELETE", "OLD", "object", c.Poison)
		case "mapping":
			// keto sorts the distinct (id, string) pairs by id and inserts them in chunks of 15000
			fresh := map[uuid.UUID]bool{}
			all := map[uuid.UUID]bool{}
			for _, t := range iIns {
				fresh[t.Object] = true
				all[t.Object] = true
				all[c05SubjectUUID(t)] = true
			}
			for _, t := range iDel {
				all[t.Object] = true
				all[c05SubjectUUID(t)] = true
			}
			ids := make([]uuid.UUID, 0, len(all))
			for id := range all {
				ids = append(ids, id)
			}
			sort.Slice(ids, func(i, j int) bool { return string(ids[i][:]) < string(ids[j][:]) })
			lo := c.Chunk * c05ChunkMapping
			hi := minInt(lo+c05ChunkMapping, len(ids))
			if lo >= hi {
				return harness("mapping chunk", fmt.Errorf("only %d distinct strings, chunk %d does not exist", len(ids), c.Chunk))
			}
			start := lo + r.IntN(hi-lo)
			c.Pos = -1
			for k := 0; k < hi-lo; k++ { // a string the database has not seen yet
				q := lo + (start-lo+k)%(hi-lo)
				if fresh[ids[q]] {
					c.Pos = q
					break
				}
			}
			if c.Pos < 0 {
				return harness("mapping chunk", fmt.Errorf("no fresh string in chunk %d", c.Chunk))
			}
			c.Poison = ids[c.Pos].String()
			ddl = trig("verif_poison_m", "keto_uuid_mappings", "INSERT", "NEW", "id", c.Poison)
		}
	case "invalid":
		var tgt []*Tup
		var itgt []*relationtuple.RelationTuple
		if c.Side == "insert" {
			tgt, itgt = ins, iIns
		} else {
			tgt, itgt = del, iDel
		}
		bad := cloneTup(tgt[c.Pos])
		switch c.Target {
		case "nil-subject":
			bad.SubjectID, bad.SubjectSet = nil, nil
			cp := *itgt[c.Pos]
			cp.Subject = nil
			itgt[c.Pos] = &cp
		case "unknown-namespace":
			bad.Namespace = "nope"
		case "unknown-subject-set-namespace":
			bad.SubjectID = nil
			bad.SubjectSet = &ketoapi.SubjectSet{Namespace: "nope", Object: "g", Relation: "member"}
		}
		tgt[c.Pos] = bad
	}

	var raw *sql.DB
	if ddl != "" {
		raw, err = env.rawDB()
		if err != nil {
			return harness("raw handle", err)
		}
		defer raw.Close()
		if _, err := raw.Exec(ddl); err != nil {
			return harness("create trigger", err)
		}
	}
	dropTriggers := func() {
		for _, name := range triggers {
			_, _ = raw.Exec("DROP TRIGGER IF EXISTS " + name)
		}
		triggers = nil
	}
	defer dropTriggers()

	conn, err := env.Reg.PopConnection(ctx)
	if err != nil {
		return harness("connection", err)
	}
	query := func(q string) (*sql.Rows, error) { return conn.Store.SQLDB().Query(q) }
	before, err := env.Dump()
	if err != nil {
		return harness("dump before", err)
	}
	countsBefore, err := c05RelCounts(query)
	if err != nil {
		return harness("counts before", err)
	}

	// ---- the request
	blockerDone := make(chan struct{})
	if c.Kind == "busy" {
		raw, rerr := env.rawDB()
		if rerr != nil {
			return harness("raw connection", rerr)
		}
		rc, rerr := raw.Conn(ctx)
		if rerr == nil {
			_, rerr = rc.ExecContext(ctx, "BEGIN IMMEDIATE")
		}
		if rerr != nil {
			_ = raw.Close()
			return harness("write lock", rerr)
		}
		go func() {
			defer close(blockerDone)
			time.Sleep(time.Duration(c.Pos) * time.Millisecond)
			_, _ = rc.ExecContext(context.Background(), "ROLLBACK")
			_ = rc.Close()
			_ = raw.Close()
		}()
	} else {
		close(blockerDone)
	}
	res := cl.doWrite(c.Path, ins, del, iIns, iDel, 120*time.Second)
	<-blockerDone

	after, err := env.Dump()
	if err != nil {
		return harness("dump after", err)
	}
	countsAfter, err := c05RelCounts(query)
	if err != nil {
		return harness("counts after", err)
	}
	dropTriggers()
	if res.Open {
		run.inconclusive(fmt.Sprintf("faults idx %d: request hit the harness deadline", idx))
		return "inconclusive"
	}
	run.eval(1)
	run.count("cases_"+c.Kind, 1)
	run.count("requests_via_"+c.Path, 1)
	run.count("db_"+c.DB, 1)
	if idx < 3 {
		run.sample(map[string]any{"case": c, "result": res})
	}
	relB, mapB, othB := c05SplitDump(before)
	relA, mapA, othA := c05SplitDump(after)
	sizes := fmt.Sprintf("|I|=%d |D|=%d", c.NIns, c.NDel)

	if c.Kind == "busy" {
		run.count("requests_under_write_lock_held_by_another_connection", 1)
		if res.Failed {
			run.count("busy_requests_failed", 1)
			if d := diffDumps(relB, relA); d != "" {
				mon.violate(idx, "faults", "C05:partial-write:"+c.Path+":busy:left="+strings.SplitN(c05Left(relB, relA), " ", 2)[0],
					fmt.Sprintf("%s with %s failed (%s %s) while another connection held the write lock for %d ms (busy timeout 250 ms), but the stored relationships changed: %s", c.Path, sizes, res.Status, trunc(res.Msg, 80), c.Pos, trunc(d, 300)), c, res)
				return "violation"
			}
			return "ok"
		}
		run.count("busy_requests_succeeded", 1)
		run.nontrivial(fmt.Sprintf("faults/%d", idx))
		want := c05Apply(countsBefore, wantIns, wantDel)
		if d := c05CountsDiff(want, countsAfter); d != "" {
			mon.violate(idx, "faults", "C05:incomplete-success:"+c.Path+":after-lock-contention",
				fmt.Sprintf("%s with %s reported success after waiting for a write lock that another connection held for %d ms (busy timeout 250 ms: the transaction was retried), but the stored relationships are not apply(I, D, before): %s", c.Path, sizes, c.Pos, d), c, nil)
			return "violation"
		}
		return "ok"
	}
	if c.Kind == "control" {
		if res.Failed {
			mon.violate(idx, "faults", "C05:control-failed:"+c.Path+":"+res.Status, fmt.Sprintf("fault-free %s with %s failed: %s %s", c.Path, sizes, res.Status, res.Msg), c, res)
			return "violation"
		}
		want := c05Apply(countsBefore, wantIns, wantDel)
		if d := c05CountsDiff(want, countsAfter); d != "" {
			mon.violate(idx, "faults", "C05:incomplete-success:"+c.Path, fmt.Sprintf("%s with %s succeeded but the stored relationships are not apply(I, D, before): %s", c.Path, sizes, d), c, nil)
			return "violation"
		}
		if othDiff := diffDumps(othB, othA); othDiff != "" {
			mon.violate(idx, "faults", "C05:other-table-changed:"+c.Path, "a successful write changed a table other than relationships / mappings: "+othDiff, c, nil)
			return "violation"
		}
		run.count("controls_equal_to_apply", 1)
		return "ok"
	}

	what := "fault=" + c.Target
	where := fmt.Sprintf("RAISE(%s) on the %s statement #%d (row %d), %d statement(s) of the request already executed", c.Raise, c.Target, c.Chunk, c.Pos, c.Earlier)
	if c.Kind == "invalid" {
		what = "invalid=" + c.Target + "@" + c.Side
		where = fmt.Sprintf("%s at %s position %d (%s)", c.Target, c.Side, c.Pos, c.PosLabel)
	} else {
		what += ":" + c.Raise
	}

	if !res.Failed {
		if c.Kind == "invalid" {
			// accepting the element is not an atomicity matter (C13 judges status classes)
			run.count("invalid_accepted_not_judged", 1)
			return "ok"
		}
		// did the poisoned statement run at all?
		fired := true
		switch c.Target {
		case "insert":
			fired = countsAfter[c05InternalKey(iIns[c.Pos])] == 0
		case "delete":
			fired = countsAfter[c05InternalKey(iDel[c.Pos])] > 0
		case "mapping":
			fired = !strings.Contains(strings.Join(mapA, "\n"), c.Poison)
		}
		if !fired {
			run.inconclusive(fmt.Sprintf("faults idx %d: the poison row went through, trigger did not fire (%s %s)", idx, c.Path, what))
			run.count("poison_not_reached", 1)
			return "inconclusive"
		}
		mon.violate(idx, "faults", "C05:fault-swallowed:"+c.Path+":"+what, fmt.Sprintf("%s with %s reported success although a statement failed (%s)", c.Path, sizes, where), c, res)
		return "violation"
	}
	if c.Kind == "fault" {
		if strings.Contains(res.Msg, "injected") {
			run.count(fmt.Sprintf("fault_reached_%s_chunk%d", c.Target, c.Chunk), 1)
			run.count("fault_reached_"+c.Raise, 1)
		} else {
			run.count("failed_with_other_error", 1)
			run.setAdd("other_errors", c.Path+":"+res.Status+":"+trunc(res.Msg, 60))
		}
	} else {
		run.count("invalid_rejected_"+c.Target, 1)
		run.count("invalid_rejected_at_"+c.Side+"_pos_"+c.PosLabel, 1)
	}
	run.count("failed_requests_judged", 1)
	if c.Earlier >= 1 {
		run.nontrivial(fmt.Sprintf("faults/%d", idx))
		run.count("failed_after_earlier_statements", 1)
	}
	verdict := "ok"
	if d := diffDumps(relB, relA); d != "" {
		left := c05Left(relB, relA)
		cls := left
		if i := strings.Index(cls, " "); i > 0 {
			cls = cls[:i]
		}
		mon.violate(idx, "faults", "C05:partial-write:"+c.Path+":"+what+":left="+cls,
			fmt.Sprintf("%s with %s failed (%s %s) but the stored relationships changed: %s; %s; %s", c.Path, sizes, res.Status, trunc(res.Msg, 80), left, where, trunc(d, 300)), c, map[string]any{"result": res, "diff": trunc(d, 1500)})
		verdict = "violation"
	} else if cd := c05CountsDiff(countsBefore, countsAfter); cd != "" {
		mon.violate(idx, "faults", "C05:partial-write:"+c.Path+":"+what+":left=counts", "relationship multiset changed after a failed request: "+cd, c, nil)
		verdict = "violation"
	}
	if d := diffDumps(mapB, mapA); d != "" {
		run.count("uuid_mapping_leftover_rows", int64(len(mapA)-len(mapB)))
		mon.violate(idx, "faults", "C05:uuid-mapping-leftover:"+c.Path+":"+what,
			fmt.Sprintf("%s with %s failed (%s) and the relationships are unchanged=%v, but keto_uuid_mappings changed (%d -> %d rows): %s", c.Path, sizes, where, verdict == "ok", len(mapB), len(mapA), trunc(d, 300)), c, nil)
		verdict = "violation"
	}
	if d := diffDumps(othB, othA); d != "" {
		mon.violate(idx, "faults", "C05:other-table-changed:"+c.Path+":"+what, "a failed write changed another table: "+trunc(d, 300), c, nil)
		verdict = "violation"
	}
	if verdict == "ok" {
		run.count("failed_requests_state_unchanged", 1)
	}
	return verdict
}

func c05SubjectUUID(t *relationtuple.RelationTuple) uuid.UUID {
	switch s := t.Subject.(type) {
	case *relationtuple.SubjectID:
		return s.ID
	case *relationtuple.SubjectSet:
		return s.Object
	}
	return uuid.Nil
}

// ---------------------------------------------------------------------------

func TestC05(t *testing.T) {
	run := newRunner(t, "C05")
	defer run.finish()
	mon := &c05Mon{run: run, seen: map[string]int{}}
	switch run.p.Mode {
	case "faults":
		c05RunFaults(run, mon)
	case "isolation", "isolation-race":
		// "isolation-race": the same histories in the -race binary (fewer of them)
		c05RunIsolation(run, mon)
	case "crash":
		c05RunCrash(run, mon)
	default:
		c05RunFaults(run, mon)
		c05RunIsolation(run, mon)
		c05RunCrash(run, mon)
	}
}
