package verifh

import (
	"context"
	"testing"

	opl "github.com/ory/keto/proto/ory/keto/opl/v1alpha1"
	rts "github.com/ory/keto/proto/ory/keto/relation_tuples/v1alpha2"
)

// TestSmoke: the harness plumbing itself (registry, routers, in-process gRPC).
func TestSmoke(t *testing.T) {
	cfg := &Cfg{NS: []*NSDef{{Name: "User"}, {Name: "Doc"}}}
	env := mustEnv(t, EnvOpts{Namespaces: cfg.toKeto()})
	defer env.Close()
	if err := env.Write(tupID("Doc", "d", "view", "alice")); err != nil {
		t.Fatal(err)
	}
	g, err := newGRPC(env)
	if err != nil {
		t.Fatal(err)
	}
	defer g.Close()
	resp, err := g.Check.Check(context.Background(), &rts.CheckRequest{Tuple: &rts.RelationTuple{Namespace: "Doc", Object: "d", Relation: "view", Subject: rts.NewSubjectID("alice")}})
	if err != nil || !resp.Allowed {
		t.Fatalf("grpc check: %v %v", resp, err)
	}
	sr, err := g.Syntax.Check(context.Background(), &opl.CheckRequest{Content: []byte("class X implements Namespace {}")})
	if err != nil || len(sr.ParseErrors) != 0 {
		t.Fatalf("syntax: %v %v", sr, err)
	}
	st, body, pt := httpDo(env.Reg.ReadRouter(env.Ctx), "GET", "/relation-tuples/check?namespace=Doc&object=d&relation=view&subject_id=alice", "", nil)
	if st != 200 || pt != "" {
		t.Fatalf("rest check: %d %s %s", st, body, pt)
	}
	st, body, _ = httpDo(env.Reg.WriteRouter(env.Ctx), "PUT", "/admin/relation-tuples", `{"namespace":"Doc","object":"e","relation":"view","subject_id":"bob"}`, nil)
	if st != 201 {
		t.Fatalf("rest put: %d %s", st, body)
	}
	d, err := env.Dump()
	if err != nil || len(d) < 4 {
		t.Fatalf("dump: %v %v", d, err)
	}
	t.Log(len(d), "rows")
}
