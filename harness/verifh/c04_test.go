package verifh

// C04 — the relationship store behaves as a per-network multiset under any API
// history.
//
// A case is a history of 5..60 write-API operations executed against a real
// registry (real REST routers, real gRPC servers, real SQLite persister):
//   REST  PUT / DELETE / PATCH /admin/relation-tuples
//   gRPC  TransactRelationTuples, DeleteRelationTuples with relation_query and
//         with the deprecated query message ("" = field absent)
// Arguments come from a small universe (3 namespaces, 3 objects, 2-3 relations,
// 3 subject ids, 3-4 subject sets; some of the strings adversarial), so deletes
// overlap creates; histories contain duplicates, insert+delete of one tuple in
// one request, unknown namespaces, missing subjects, REST deletes without the
// mandatory namespace, both subject kinds.
//
// Model: refstore (refstore_test.go). An operation is applied to the model iff
// the real request was accepted.
//
// Oracles, after EVERY step:
//   L  list with all 16 query shapes x {values of the touched tuple, values of a
//      random universe tuple, unknown values}, REST and gRPC, random page size,
//      pagination followed to the end = the model's matches as a multiset of
//      exact strings (a query naming an unknown namespace may be answered 404 /
//      NotFound, which is read as "no match");
//   W  a request the model calls invalid (unknown namespace, no subject, REST
//      delete without namespace) is rejected and the byte-level dump of all
//      tables is unchanged; ANY request that was not accepted leaves the dump
//      unchanged; a request the model calls valid is accepted;
//   N  the relationship table holds exactly |model| rows;
//   C  sampled checks (REST, gRPC) = reference semantics (refsem, rewrite-free
//      configuration) on the model's rows; checks whose run logged a depth/width
//      cut are skipped and counted;
//   E  sampled expands (REST, gRPC) satisfy expandOracle on the model's rows.

import (
	"context"
	"fmt"
	"math/rand/v2"
	"strings"
	"testing"
	"unicode/utf8"

	"github.com/ory/keto/ketoapi"
)

// ---------------------------------------------------------------------------
// universe + history generator (shared with C06)

type storeUniverse struct {
	Namespaces []string              `json:"namespaces"`
	UnknownNS  []string              `json:"unknown_namespaces"`
	Objects    []string              `json:"objects"`
	Relations  []string              `json:"relations"`
	SubjectIDs []string              `json:"subject_ids"`
	Sets       []*ketoapi.SubjectSet `json:"subject_sets"`
}

var uuidSpellings = []string{"6ba7b810-9dad-11d1-80b4-00c04fd430c8", "6BA7B810-9DAD-11D1-80B4-00C04FD430C8", "6ba7b8109dad11d180b400c04fd430c8", "{6ba7b810-9dad-11d1-80b4-00c04fd430c8}", "urn:uuid:6ba7b810-9dad-11d1-80b4-00c04fd430c8", "6Ba7b810-9dad-11d1-80b4-00c04fd430c8"}

var storeNSPool = []string{"User", "Doc", "a-b", "n s", "Группа", "Org", "x", "Doc2", "doc"}

func advShort(r *rand.Rand, max int) string {
	s := advString(r)
	if len(s) > max {
		s = s[:utf8Cut(s, max)]
	}
	if !utf8.ValidString(s) {
		s = "x"
	}
	return s
}

func genStoreUniverse(r *rand.Rand) *storeUniverse {
	u := &storeUniverse{}
	pool := shuffled(r, storeNSPool)
	u.Namespaces = pool[:3]
	known := map[string]bool{}
	for _, n := range u.Namespaces {
		known[n] = true
	}
	for _, cand := range []string{pool[3], "NoSuchNamespace", strings.ToUpper(u.Namespaces[0]), u.Namespaces[1] + " ", ""} {
		if !known[cand] {
			u.UnknownNS = append(u.UnknownNS, cand)
		}
	}
	distinct := func(xs []string) []string {
		seen := map[string]bool{}
		var out []string
		for _, x := range xs {
			if !seen[x] {
				seen[x] = true
				out = append(out, x)
			}
		}
		return out
	}
	u.Objects = distinct([]string{"o0", "o1", pickS(r, []string{"o2", advShort(r, 120), pickS(r, advPool), "u0", ""})})
	if r.IntN(6) == 0 {
		// names shaped like a UUID, several spellings of the same one: different names
		sp := shuffled(r, uuidSpellings)
		u.Objects = distinct([]string{sp[0], sp[1], "o0"})
	}
	u.Relations = distinct([]string{"r0", pickS(r, []string{"r1", "members", "", ""}), pickS(r, []string{"r1", advShort(r, 60), pickS(r, advPool), "R0", "r0 ", "...", "..."})})
	u.SubjectIDs = distinct([]string{"u0", "u1", pickS(r, []string{"u2", "o0", advShort(r, 120), pickS(r, advPool), ""})})
	nSets := 3 + r.IntN(2)
	for i := 0; i < nSets; i++ {
		u.Sets = append(u.Sets, &ketoapi.SubjectSet{Namespace: pickS(r, u.Namespaces), Object: pickS(r, u.Objects), Relation: pickS(r, u.Relations)})
	}
	return u
}

func (u *storeUniverse) knownNS() map[string]bool {
	m := map[string]bool{}
	for _, n := range u.Namespaces {
		m[n] = true
	}
	return m
}

func (u *storeUniverse) cfg() *Cfg {
	c := &Cfg{}
	for _, n := range u.Namespaces {
		c.NS = append(c.NS, &NSDef{Name: n})
	}
	return c
}

func (u *storeUniverse) tuple(r *rand.Rand) *Tup {
	t := &Tup{Namespace: pickS(r, u.Namespaces), Object: pickS(r, u.Objects), Relation: pickS(r, u.Relations)}
	if r.IntN(2) == 0 {
		t.SubjectID = sp(pickS(r, u.SubjectIDs))
	} else {
		ss := *u.Sets[r.IntN(len(u.Sets))]
		t.SubjectSet = &ss
	}
	return t
}

// unknownTuple: values that no history ever writes.
func (u *storeUniverse) unknownTuple(r *rand.Rand) *Tup {
	t := &Tup{Namespace: pickS(r, u.Namespaces), Object: "no-such-object", Relation: "no-such-relation"}
	if r.IntN(4) == 0 && len(u.UnknownNS) > 0 {
		t.Namespace = pickS(r, u.UnknownNS)
	}
	if r.IntN(2) == 0 {
		t.SubjectID = sp("nobody")
	} else {
		t.SubjectSet = &ketoapi.SubjectSet{Namespace: pickS(r, u.Namespaces), Object: "no-such-object", Relation: pickS(r, u.Relations)}
		if r.IntN(4) == 0 && len(u.UnknownNS) > 0 {
			t.SubjectSet.Namespace = pickS(r, u.UnknownNS)
		}
	}
	return t
}

type historyGen struct {
	r      *rand.Rand
	u      *storeUniverse
	recent []*Tup
	// transports for create/patch and for delete-query
	writeVias   []string
	deleteVias  []string
	maxPatch    int
	pEmptyDel   float64 // probability that a delete-query is the empty query
	pLargePatch float64
	pFault      float64 // probability that a valid create/patch runs with an injected statement failure
	retry       *storeOp
}

func (g *historyGen) pick() *Tup {
	if len(g.recent) > 0 && g.r.IntN(2) == 0 {
		return cloneTup(g.recent[g.r.IntN(len(g.recent))])
	}
	t := g.u.tuple(g.r)
	g.recent = append(g.recent, t)
	if len(g.recent) > 24 {
		g.recent = g.recent[1:]
	}
	return cloneTup(t)
}

func (g *historyGen) flawTuple(t *Tup) {
	switch g.r.IntN(3) {
	case 0:
		t.Namespace = pickS(g.r, g.u.UnknownNS)
	case 1:
		t.SubjectID, t.SubjectSet = nil, nil
	default:
		if t.SubjectSet == nil {
			ss := *g.u.Sets[g.r.IntN(len(g.u.Sets))]
			t.SubjectID, t.SubjectSet = nil, &ss
		}
		t.SubjectSet.Namespace = pickS(g.r, g.u.UnknownNS)
	}
}

func (g *historyGen) op() *storeOp {
	r := g.r
	if g.retry != nil {
		// the client retries the request that failed below keto, now without the fault
		op := g.retry
		g.retry = nil
		return op
	}
	op := g.op0()
	if g.pFault > 0 && op.Flaw == "" && (op.Kind == "create" || op.Kind == "patch") && r.Float64() < g.pFault {
		op.Fault = pickS(r, []string{"insert", "insert", "delete", "both"})
		if r.IntN(3) != 0 {
			cp := *op
			cp.Fault = ""
			g.retry = &cp
		}
	}
	return op
}

func (g *historyGen) op0() *storeOp {
	r := g.r
	flawed := r.IntN(8) == 0
	op := &storeOp{}
	switch k := r.IntN(100); {
	case k < 35:
		op.Kind, op.Via = "create", pickS(r, g.writeVias)
		op.Tuple = g.pick()
		if flawed {
			g.flawTuple(op.Tuple)
		}
	case k < 50:
		// delete exactly one tuple (all equal rows): a patch with one delete
		op.Kind, op.Via = "patch", pickS(r, g.writeVias)
		op.Deltas = []*ketoapi.PatchDelta{{Action: ketoapi.ActionDelete, RelationTuple: g.pick()}}
		if flawed {
			g.flawTuple(op.Deltas[0].RelationTuple)
		}
	case k < 75:
		op.Kind, op.Via = "patch", pickS(r, g.writeVias)
		n := 1 + r.IntN(g.maxPatch)
		if r.Float64() < g.pLargePatch {
			n = 40 + r.IntN(160)
		}
		for i := 0; i < n; i++ {
			act := ketoapi.ActionInsert
			if r.IntN(3) == 0 {
				act = ketoapi.ActionDelete
			}
			t := g.pick()
			switch {
			case i > 0 && r.IntN(5) == 0:
				// the same tuple again with the opposite (or the same) action
				prev := op.Deltas[r.IntN(len(op.Deltas))]
				t = cloneTup(prev.RelationTuple)
				if r.IntN(3) != 0 {
					act = ketoapi.ActionInsert
					if prev.Action == ketoapi.ActionInsert {
						act = ketoapi.ActionDelete
					}
				}
			}
			op.Deltas = append(op.Deltas, &ketoapi.PatchDelta{Action: act, RelationTuple: t})
		}
		if flawed {
			g.flawTuple(op.Deltas[r.IntN(len(op.Deltas))].RelationTuple)
		}
	default:
		op.Kind, op.Via = "delete-query", pickS(r, g.deleteVias)
		var t *Tup
		switch k := r.IntN(10); {
		case k < 6:
			t = g.pick()
		case k < 9:
			t = g.u.tuple(r)
		default:
			t = g.u.unknownTuple(r)
			t.Namespace = pickS(r, g.u.Namespaces)
			if t.SubjectSet != nil {
				t.SubjectSet.Namespace = pickS(r, g.u.Namespaces)
			}
		}
		shape := r.IntN(16)
		if op.Via == "rest" && r.IntN(8) != 0 {
			shape |= 1 // REST DELETE requires the namespace
		}
		if r.Float64() < g.pEmptyDel {
			shape = 0
		}
		op.Query = queryOfShape(shape, t)
		if flawed {
			switch {
			case op.Query.Namespace != nil && r.IntN(2) == 0:
				op.Query.Namespace = sp(pickS(r, g.u.UnknownNS))
			case op.Query.SubjectSet != nil:
				op.Query.SubjectSet.Namespace = pickS(r, g.u.UnknownNS)
			case op.Query.Namespace != nil:
				op.Query.Namespace = sp(pickS(r, g.u.UnknownNS))
			}
		}
	}
	op.Flaw = flawOf(op, g.u.knownNS())
	return op
}

// focusTuple: a complete tuple carrying the values the operation touched.
func focusTuple(r *rand.Rand, u *storeUniverse, op *storeOp) *Tup {
	var t *Tup
	switch op.Kind {
	case "create":
		t = cloneTup(op.Tuple)
	case "patch":
		t = cloneTup(op.Deltas[r.IntN(len(op.Deltas))].RelationTuple)
	default:
		t = u.tuple(r)
		q := op.Query
		if q.Namespace != nil {
			t.Namespace = *q.Namespace
		}
		if q.Object != nil {
			t.Object = *q.Object
		}
		if q.Relation != nil {
			t.Relation = *q.Relation
		}
		if q.SubjectID != nil {
			t.SubjectID, t.SubjectSet = sp(*q.SubjectID), nil
		} else if q.SubjectSet != nil {
			ss := *q.SubjectSet
			t.SubjectID, t.SubjectSet = nil, &ss
		}
	}
	if t.SubjectID == nil && t.SubjectSet == nil {
		t.SubjectID = sp(pickS(r, u.SubjectIDs))
	}
	return t
}

type c04Case struct {
	Universe *storeUniverse `json:"universe"`
	Ops      []*storeOp     `json:"ops"`
}

func genC04Case(r *rand.Rand, idx int64) *c04Case {
	c := &c04Case{Universe: genStoreUniverse(r)}
	g := &historyGen{r: r, u: c.Universe, writeVias: []string{"rest", "grpc"}, deleteVias: []string{"rest", "grpc", "grpc-deprecated"}, maxPatch: 6, pEmptyDel: 0.03, pFault: 0.1}
	if idx%3 == 0 {
		// failures while the names of the history are still new to the server
		g.pFault = 0.5
	}
	n := 5 + r.IntN(56)
	for i := 0; i < n; i++ {
		c.Ops = append(c.Ops, g.op())
		if i == 3 && idx%3 == 0 {
			g.pFault = 0.1
		}
	}
	return c
}

// ---------------------------------------------------------------------------
// monitor of one network's observable behaviour against the model

type storeMon struct {
	run   *runner
	prop  string
	idx   int64
	c     any
	fail  bool
	seen  map[string]int
	env   *Env
	u     *storeUniverse
	cfg   *Cfg
	model *refStore
	net   string // model key of the network under test
	// leak: optional classifier for C06 (rows of another network explain a difference)
	foreign []*Tup
}

func (m *storeMon) violate(sub, sig, summary string, detail any) {
	m.fail = true
	m.seen[sig]++
	if m.seen[sig] > 3 {
		m.run.count("violations_beyond_3_per_signature", 1)
		return
	}
	m.run.violate(violation{Index: m.idx, Sub: sub, Sig: sig, Summary: trunc(summary, 900), Case: m.c, Detail: detail})
}

func shapeLetters(shape int) string {
	b := []byte("----")
	for i, ch := range []byte("nors") {
		if shape&(1<<i) != 0 {
			b[i] = ch
		}
	}
	return string(b)
}

func hasUnknownNS(names []string, known map[string]bool) bool {
	for _, n := range names {
		if !known[n] {
			return true
		}
	}
	return false
}

// foreignExplains reports whether every surplus tuple of got over want is a
// row of the foreign network (C06: a leak).
func (m *storeMon) foreignExplains(want, got []*Tup) bool {
	if len(m.foreign) == 0 {
		return false
	}
	cnt := map[string]int{}
	for _, t := range want {
		cnt[tupKey(t)]++
	}
	f := map[string]bool{}
	for _, t := range m.foreign {
		f[tupKey(t)] = true
	}
	extra := 0
	for _, t := range got {
		k := tupKey(t)
		if cnt[k] > 0 {
			cnt[k]--
			continue
		}
		if !f[k] {
			return false
		}
		extra++
	}
	return extra > 0
}

// observeList compares one complete listing with the model.
func (m *storeMon) observeList(sub, after string, d storeDriver, q *ketoapi.RelationQuery, pageSize int) {
	want := m.model.match(m.net, q)
	got, pages, ans := listAll(d, q, pageSize)
	m.run.eval(1)
	m.run.count("list_queries", 1)
	m.run.count("list_pages", int64(pages))
	shape := shapeLetters(shapeOfQuery(q))
	if ans.Class != "ok" {
		if ans.Class == "notfound" && hasUnknownNS(queryNamespaces(q), m.u.knownNS()) {
			m.run.count("list_unknown_namespace_404", 1)
			if len(want) != 0 {
				m.violate(sub, fmt.Sprintf("%s:model-inconsistent:unknown-namespace-rows", m.prop), "model holds rows of an unknown namespace", nil)
			}
			return
		}
		m.violate(sub, fmt.Sprintf("%s:list-error:%s:%s:q=%s", m.prop, d.name(), ans.Code, shape),
			fmt.Sprintf("list %s via %s (page size %d) failed: %s %s", descQuery(q), d.name(), pageSize, ans.Code, ans.Text), map[string]any{"query": q, "after": after})
		return
	}
	if len(want) > 0 {
		m.run.count("list_queries_with_matches", 1)
	}
	if cls, det := multisetDiff(want, got); cls != "" {
		kind := "list-mismatch"
		if m.foreignExplains(want, got) {
			kind = "leak:list"
		}
		m.violate(sub, fmt.Sprintf("%s:%s:%s:%s:q=%s:after=%s", m.prop, kind, d.name(), cls, shape, after),
			fmt.Sprintf("after %s, list %s via %s (page size %d, %d pages) returned %d tuples, the model has %d matches: %s %v", after, descQuery(q), d.name(), pageSize, pages, len(got), len(want), cls, det),
			map[string]any{"query": q, "diff": det, "page_size": pageSize})
	}
}

var listPageSizes = []int{0, 0, 1, 2, 3, 7, 100, 1000}

// observeAllShapes: 16 shapes x (focus values on every driver, random-universe
// values and unknown values on alternating drivers).
func (m *storeMon) observeAllShapes(sub, after string, r *rand.Rand, drivers []storeDriver, focus *Tup, step int) {
	other := m.u.tuple(r)
	if rows := m.model.rows(m.net); len(rows) > 0 && r.IntN(2) == 0 {
		other = rows[r.IntN(len(rows))]
	}
	unknown := m.u.unknownTuple(r)
	for shape := 0; shape < 16; shape++ {
		q := queryOfShape(shape, focus)
		for _, d := range drivers {
			m.observeList(sub, after, d, q, listPageSizes[r.IntN(len(listPageSizes))])
		}
		d := drivers[(shape+step)%len(drivers)]
		m.observeList(sub, after, d, queryOfShape(shape, other), listPageSizes[r.IntN(len(listPageSizes))])
		if shape != 0 && (shape+step)%3 == 0 {
			d = drivers[(shape+step+1)%len(drivers)]
			m.observeList(sub, after, d, queryOfShape(shape, unknown), listPageSizes[r.IntN(len(listPageSizes))])
		}
	}
}

// checkQuery picks a check that is likely to need an indirection.
func (m *storeMon) checkQuery(r *rand.Rand, focus *Tup, k int) *Tup {
	rows := m.model.rows(m.net)
	switch {
	case k == 0:
		return cloneTup(focus)
	case len(rows) > 0 && k == 1:
		// row with a subject set whose set has rows: ask for one of those subjects
		g := newGraphModel(rows)
		for try := 0; try < 6; try++ {
			row := rows[r.IntN(len(rows))]
			if row.SubjectSet == nil {
				continue
			}
			inner := g.by[setKey(row.SubjectSet.Namespace, row.SubjectSet.Object, row.SubjectSet.Relation)]
			if len(inner) == 0 {
				continue
			}
			in := inner[r.IntN(len(inner))]
			q := cloneTup(row)
			q.SubjectID, q.SubjectSet = nil, nil
			if in.SubjectID != nil {
				q.SubjectID = sp(*in.SubjectID)
			} else {
				ss := *in.SubjectSet
				q.SubjectSet = &ss
			}
			return q
		}
	}
	t := m.u.tuple(r)
	if len(rows) > 0 && r.IntN(2) == 0 {
		row := rows[r.IntN(len(rows))]
		t.Namespace, t.Object, t.Relation = row.Namespace, row.Object, row.Relation
	}
	return t
}

func (m *storeMon) observeCheck(sub, after string, d storeDriver, q *Tup) {
	rows := m.model.rows(m.net)
	rr := newRefSem(m.cfg, false, rows).Check(q)
	cuts0 := m.env.Hook.cuts()
	ca := d.check(q, 0)
	cut := m.env.Hook.cuts() - cuts0
	m.run.eval(1)
	m.run.count("checks", 1)
	if rr.Unstratified || rr.SchemaError {
		m.run.count("checks_skipped_no_reference", 1)
		return
	}
	allowed := ca.Allowed
	switch {
	case ca.Class == "ok":
	case ca.Class == "notfound" && hasUnknownNS(tupleNamespaces(q), m.u.knownNS()):
		allowed = false
	default:
		m.violate(sub, fmt.Sprintf("%s:check-error:%s:%s", m.prop, d.name(), ca.Code), fmt.Sprintf("check %s via %s failed: %s %s", descTup(q), d.name(), ca.Code, ca.Text), map[string]any{"query": q, "after": after})
		return
	}
	if cut > 0 {
		m.run.count("checks_skipped_limit_cut", 1)
		return
	}
	if rr.Member {
		m.run.count("checks_ref_allowed", 1)
	}
	if rr.Indirect && rr.Member {
		m.run.count("checks_ref_allowed_indirect", 1)
	}
	if allowed != rr.Member {
		how := "direct"
		if rr.Indirect {
			how = "indirect"
		}
		kind := "check-mismatch"
		if len(m.foreign) > 0 && allowed && newRefSem(m.cfg, false, append(append([]*Tup(nil), rows...), m.foreign...)).Check(q).Member {
			kind = "leak:check"
		}
		m.violate(sub, fmt.Sprintf("%s:%s:%s:impl-%v/ref-%v:%s", m.prop, kind, d.name(), allowed, rr.Member, how),
			fmt.Sprintf("after %s, check %s via %s answered %v, the reference semantics on the model's %d rows says %v", after, descTup(q), d.name(), allowed, len(rows), rr.Member),
			map[string]any{"query": q, "after": after, "model_rows": tupStrings(rows)})
	}
}

func (m *storeMon) observeExpand(sub, after string, d storeDriver, root *ketoapi.SubjectSet, depth int) {
	rows := m.model.rows(m.net)
	ea := d.expand(root, depth)
	m.run.eval(1)
	m.run.count("expands", 1)
	switch {
	case ea.Class == "ok":
	case ea.Class == "notfound":
		// REST: empty subject set (or unknown namespace) => 404
		ea.Tree = nil
	default:
		m.violate(sub, fmt.Sprintf("%s:expand-error:%s:%s", m.prop, d.name(), ea.Code), fmt.Sprintf("expand %v depth %d via %s failed: %s %s", *root, depth, d.name(), ea.Code, ea.Text), map[string]any{"root": root, "after": after})
		return
	}
	if ea.Tree != nil && len(ea.Tree.Kids) > 0 {
		m.run.count("expands_with_children", 1)
	}
	if cls, det := expandOracle(rows, root, depth, ea.Tree); cls != "" {
		kind := "expand-mismatch"
		if len(m.foreign) > 0 {
			if c2, _ := expandOracle(append(append([]*Tup(nil), rows...), m.foreign...), root, depth, ea.Tree); c2 == "" {
				kind = "leak:expand"
			}
		}
		m.violate(sub, fmt.Sprintf("%s:%s:%s:%s", m.prop, kind, d.name(), cls),
			fmt.Sprintf("after %s, expand of %s:%s#%s depth %d via %s: %s: %s", after, descStr(root.Namespace), descStr(root.Object), descStr(root.Relation), depth, d.name(), cls, det),
			map[string]any{"root": root, "depth": depth, "tree": ea.Tree, "model_rows": tupStrings(rows)})
	}
}

func (m *storeMon) observeReads(sub, after string, r *rand.Rand, drivers []storeDriver, focus *Tup, step int) {
	for k := 0; k < 3; k++ {
		m.observeCheck(sub, after, drivers[(k+step)%len(drivers)], m.checkQuery(r, focus, k))
	}
	roots := []*ketoapi.SubjectSet{{Namespace: focus.Namespace, Object: focus.Object, Relation: focus.Relation}}
	if rows := m.model.rows(m.net); len(rows) > 0 {
		row := rows[r.IntN(len(rows))]
		roots = append(roots, &ketoapi.SubjectSet{Namespace: row.Namespace, Object: row.Object, Relation: row.Relation})
	}
	for k, root := range roots {
		m.observeExpand(sub, after, drivers[(k+step+1)%len(drivers)], root, 1+r.IntN(4))
	}
}

func countRows(dump []string, prefix string) int {
	n := 0
	for _, l := range dump {
		if strings.HasPrefix(l, prefix) {
			n++
		}
	}
	return n
}

// applyWrite executes op on d, judges acceptance / rejection / effect on the
// dump, and applies it to the model when it was accepted. Returns a label of the
// operation for later messages and whether the model changed.
func (m *storeMon) applyWrite(sub string, d storeDriver, op *storeOp, before []string, dump func() ([]string, error)) (label string, changed bool, stop bool) {
	label = fmt.Sprintf("%s-%s", op.Kind, op.Via)
	var ans opAnswer
	if op.Fault != "" {
		label += "-under-" + op.Fault + "-fault"
		undo, err := m.env.injectStatementFault(op.Fault)
		if err != nil {
			m.run.inconclusive(fmt.Sprintf("idx %d %s: cannot install the fault: %v", m.idx, sub, err))
			return label, false, true
		}
		ans = d.apply(op)
		if err := undo(); err != nil {
			m.run.inconclusive(fmt.Sprintf("idx %d %s: cannot remove the fault: %v", m.idx, sub, err))
			return label, false, true
		}
		m.run.count("writes_under_statement_fault", 1)
		if !ans.accepted() {
			m.run.count("writes_under_statement_fault_refused", 1)
		}
	} else {
		ans = d.apply(op)
	}
	m.run.eval(1)
	m.run.count("ops_"+op.Kind+"_"+op.Via, 1)
	m.run.count("op_answers_"+ans.Class, 1)
	switch ans.Class {
	case "timeout", "harness":
		m.env.dirty = true
		m.run.inconclusive(fmt.Sprintf("idx %d %s: %s no answer (%s %s)", m.idx, sub, label, ans.Code, ans.Text))
		return label, false, true
	}
	if ans.accepted() {
		if op.Flaw != "" {
			m.violate(sub, fmt.Sprintf("%s:invalid-write-accepted:%s:%s", m.prop, label, op.Flaw),
				fmt.Sprintf("%s with flaw %q was accepted (%s)", label, op.Flaw, ans.Code), map[string]any{"op": op})
			// follow what the store did: nothing can be said about the model any more
			return label, false, true
		}
		k0 := strings.Join(sortedKeys(m.model.rows(m.net)), "\x01")
		op.applyModel(m.model, m.net)
		changed = strings.Join(sortedKeys(m.model.rows(m.net)), "\x01") != k0
		return label, changed, false
	}
	// not accepted: nothing may have changed
	if op.Flaw != "" {
		m.run.count("invalid_writes_rejected", 1)
		if !ans.rejected() {
			m.run.count("invalid_writes_answered_with_server_error_or_panic", 1) // status class: C13's business
		}
	} else if op.Fault != "" {
		// a request that failed below keto: like any refused request it must leave no trace
	} else {
		m.violate(sub, fmt.Sprintf("%s:valid-write-rejected:%s:%s", m.prop, label, ans.Code),
			fmt.Sprintf("%s is valid by the model but was answered %s %s", label, ans.Code, ans.Text), map[string]any{"op": op})
	}
	after, err := dump()
	if err != nil {
		m.run.inconclusive(fmt.Sprintf("idx %d %s: dump: %v", m.idx, sub, err))
		return label, false, true
	}
	m.run.eval(1)
	if dd := diffDumps(before, after); dd != "" {
		m.violate(sub, fmt.Sprintf("%s:rejected-write-changed-state:%s:%s:%s", m.prop, label, op.Flaw, dumpDelta(before, after)),
			fmt.Sprintf("%s was answered %s but changed the database: %s", label, ans.Code, dd), map[string]any{"op": op, "diff": trunc(dd, 2000)})
		return label, false, true
	}
	return label, false, false
}

// ---------------------------------------------------------------------------

func TestC04(t *testing.T) {
	run := newRunner(t, "C04")
	defer run.finish()
	p := run.p
	nCases := int64(p.pick(128, 5000))
	seen := map[string]int{}
	for idx := int64(0); idx < nCases; idx++ {
		if !p.mine(idx) {
			continue
		}
		r := p.rng(idx, "case")
		c := genC04Case(r, idx)
		run.begin(idx, "", c)
		verdict := runC04Case(run, idx, c, seen)
		run.end(idx, "", verdict)
	}
	nWide := int64(p.pick(8, 96))
	for k := int64(0); k < nWide; k++ {
		idx := c04WideBase + k
		if !p.mine(idx) {
			continue
		}
		c := genC04Wide(p.rng(idx, "wide"), p.Tier == "thorough")
		run.begin(idx, "", c)
		verdict := runC04Wide(run, idx, c, seen)
		run.end(idx, "", verdict)
	}
}

// c04WideCase: one object#relation holding more subject sets than any internal
// page of keto (the SQL traverser pages by 1000 rows, expand by 100, list by the
// page size): N > 1000 groups are granted on one document, every group has one
// member of its own (some through a nested group), so a check is allowed only
// through exactly one of the N subject sets. Width and depth limits are far away.
type c04WideCase struct {
	N       int      `json:"n_subject_sets"`
	Chunks  []int    `json:"patch_sizes"`
	Vias    []string `json:"vias"`
	Deleted []int    `json:"deleted_groups"`
	Probes  []int    `json:"probed_groups"`
}

const c04WideBase = int64(1_000_000)

func genC04Wide(r *rand.Rand, thorough bool) *c04WideCase {
	c := &c04WideCase{N: 1001 + r.IntN(1400)}
	if r.IntN(4) == 0 {
		c.N = 2001 + r.IntN(1200)
	}
	for left := c.N; left > 0; {
		n := 150 + r.IntN(900)
		if n > left {
			n = left
		}
		c.Chunks = append(c.Chunks, n)
		c.Vias = append(c.Vias, pickS(r, []string{"rest", "grpc"}))
		left -= n
	}
	nd := 40 + r.IntN(200)
	seen := map[int]bool{}
	for len(c.Deleted) < nd {
		if i := r.IntN(c.N); !seen[i] {
			seen[i] = true
			c.Deleted = append(c.Deleted, i)
		}
	}
	np := 24
	if thorough {
		np = 60
	}
	for k := 0; k < np; k++ {
		switch {
		case k%4 == 0:
			c.Probes = append(c.Probes, c.Deleted[r.IntN(len(c.Deleted))])
		case k%4 == 1:
			c.Probes = append(c.Probes, 7*r.IntN(c.N/7)) // nested member
		default:
			c.Probes = append(c.Probes, r.IntN(c.N))
		}
	}
	return c
}

func runC04Wide(run *runner, idx int64, c *c04WideCase, seen map[string]int) string {
	u := &storeUniverse{Namespaces: []string{"Doc", "Group", "User"}, UnknownNS: []string{"Nope"}, Objects: []string{"doc"}, Relations: []string{"viewer", "member"}, SubjectIDs: []string{"u0"},
		Sets: []*ketoapi.SubjectSet{{Namespace: "Group", Object: "g0", Relation: "member"}}}
	env, err := newEnv(run.t, EnvOpts{Namespaces: c16NSConfig(u.Namespaces), MaxDepth: 8, MaxWidth: 10000})
	if err != nil {
		run.inconclusive(fmt.Sprintf("idx %d: env: %v", idx, err))
		return "inconclusive"
	}
	caseCtx, cancelCase := context.WithCancel(env.Ctx)
	g, err := newGRPC(env)
	if err != nil {
		cancelCase()
		env.Close()
		run.inconclusive(fmt.Sprintf("idx %d: grpc: %v", idx, err))
		return "inconclusive"
	}
	defer func() {
		cancelCase()
		g.Close()
		env.Close()
	}()
	rest := &restDriver{ctx: caseCtx, read: env.Reg.ReadRouter(env.Ctx), write: env.Reg.WriteRouter(env.Ctx)}
	grpcD := newGRPCDriver(caseCtx, g, nil)
	drivers := wrapFaults([]storeDriver{rest, grpcD}, nil)
	byVia := map[string]storeDriver{"rest": rest, "grpc": grpcD}
	m := &storeMon{run: run, prop: "C04", idx: idx, c: c, seen: seen, env: env, u: u, cfg: u.cfg(), model: newRefStore(), net: "default"}

	member := func(i int) string { return fmt.Sprintf("u%d", i) }
	groupTuples := func(i int) []*Tup {
		gi := fmt.Sprintf("g%d", i)
		out := []*Tup{tupSet("Doc", "doc", "viewer", "Group", gi, "member")}
		if i%7 == 0 {
			hi := fmt.Sprintf("h%d", i)
			out = append(out, tupSet("Group", gi, "member", "Group", hi, "member"), tupID("Group", hi, "member", member(i)))
		} else {
			out = append(out, tupID("Group", gi, "member", member(i)))
		}
		return out
	}
	write := func(sub string, via string, action ketoapi.PatchAction, groups []int, onlyEdge bool) bool {
		op := &storeOp{Kind: "patch", Via: via}
		for _, i := range groups {
			ts := groupTuples(i)
			if onlyEdge {
				ts = ts[:1]
			}
			for _, t := range ts {
				op.Deltas = append(op.Deltas, &ketoapi.PatchDelta{Action: action, RelationTuple: t})
			}
		}
		before, err := env.Dump()
		if err != nil {
			run.inconclusive(fmt.Sprintf("idx %d %s: dump: %v", idx, sub, err))
			return false
		}
		_, _, stop := m.applyWrite(sub, byVia[via], op, before, env.Dump)
		return !stop
	}
	probe := func(sub, after string, k, i int) {
		q := tupID("Doc", "doc", "viewer", member(i))
		m.observeCheck(sub, after, drivers[k%len(drivers)], q)
	}
	next := 0
	for k, n := range c.Chunks {
		var groups []int
		for j := 0; j < n; j++ {
			groups = append(groups, next)
			next++
		}
		if !write(fmt.Sprintf("wide-insert%d", k), c.Vias[k], ketoapi.ActionInsert, groups, false) {
			return "stopped"
		}
	}
	run.count("wide_cases", 1)
	run.maxCounter("max_subject_sets_on_one_relation", int64(c.N))
	run.nontrivial(fmt.Sprintf("wide/%d", c.N/250))
	for k, i := range c.Probes {
		probe(fmt.Sprintf("wide-check%d", k), "wide-inserts", k, i)
	}
	wideQ := &ketoapi.RelationQuery{Namespace: sp("Doc"), Object: sp("doc"), Relation: sp("viewer")}
	for k, d := range drivers {
		m.observeList("wide-list", "wide-inserts", d, wideQ, []int{1000, 100, 333}[(k+int(idx))%3])
		m.observeExpand("wide-expand", "wide-inserts", d, &ketoapi.SubjectSet{Namespace: "Doc", Object: "doc", Relation: "viewer"}, 2+k)
	}
	// removals take effect immediately: drop the grant of some groups (the members stay)
	if !write("wide-delete", c.Vias[0], ketoapi.ActionDelete, c.Deleted, true) {
		return "stopped"
	}
	for k, i := range c.Probes {
		probe(fmt.Sprintf("wide-check-after-delete%d", k), "wide-delete", k+1, i)
	}
	for k, d := range drivers {
		m.observeList("wide-list-after-delete", "wide-delete", d, wideQ, []int{1000, 100, 333}[(k+1+int(idx))%3])
	}
	// delete-by-query over what is left of the wide node (still more than 1000
	// rows in most cases): all and only the matching relationships go, at once
	dq := &storeOp{Kind: "delete-query", Via: c.Vias[len(c.Vias)-1], Query: wideQ}
	if before, err := env.Dump(); err == nil {
		if _, _, stop := m.applyWrite("wide-delete-query", byVia[dq.Via], dq, before, env.Dump); stop {
			return "stopped"
		}
		run.count("wide_delete_by_query", 1)
		for k, d := range drivers {
			m.observeList("wide-list-after-delete-query", "wide-delete-query", d, wideQ, []int{1000, 100, 333}[(k+int(idx))%3])
			m.observeList("wide-list-all-after-delete-query", "wide-delete-query", d, &ketoapi.RelationQuery{}, 1000)
		}
		for k, i := range c.Probes {
			if k < 8 {
				probe(fmt.Sprintf("wide-check-after-delete-query%d", k), "wide-delete-query", k, i)
			}
		}
	}
	if m.fail {
		return "violation"
	}
	return "ok"
}

func runC04Case(run *runner, idx int64, c *c04Case, seen map[string]int) string {
	env, err := newEnv(run.t, EnvOpts{Namespaces: c16NSConfig(c.Universe.Namespaces), MaxDepth: 64, MaxWidth: 1000})
	if err != nil {
		run.inconclusive(fmt.Sprintf("idx %d: env: %v", idx, err))
		return "inconclusive"
	}
	caseCtx, cancelCase := context.WithCancel(env.Ctx)
	g, err := newGRPC(env)
	if err != nil {
		cancelCase()
		env.Close()
		run.inconclusive(fmt.Sprintf("idx %d: grpc: %v", idx, err))
		return "inconclusive"
	}
	defer func() {
		cancelCase()
		g.Close()
		env.Close()
	}()
	rest := &restDriver{ctx: caseCtx, read: env.Reg.ReadRouter(env.Ctx), write: env.Reg.WriteRouter(env.Ctx)}
	grpcD := newGRPCDriver(caseCtx, g, nil)
	drivers := wrapFaults([]storeDriver{rest, grpcD}, nil)
	byVia := map[string]storeDriver{"rest": rest, "grpc": grpcD, "grpc-deprecated": grpcD}

	m := &storeMon{run: run, prop: "C04", idx: idx, c: c, seen: seen, env: env, u: c.Universe, cfg: c.Universe.cfg(), model: newRefStore(), net: "default"}
	r := run.p.rng(idx, "observe")
	for step, op := range c.Ops {
		sub := fmt.Sprintf("step%d", step)
		before, err := env.Dump()
		if err != nil {
			run.inconclusive(fmt.Sprintf("idx %d %s: dump: %v", idx, sub, err))
			return "inconclusive"
		}
		run.eval(1)
		if n := countRows(before, "keto_relation_tuples|"); n != m.model.size(m.net) {
			m.violate(sub, "C04:row-count:table-vs-model", fmt.Sprintf("before step %d the relationship table holds %d rows, the model %d", step, n, m.model.size(m.net)), nil)
			break
		}
		label, changed, stop := m.applyWrite(sub, byVia[op.Via], op, before, env.Dump)
		if stop {
			break
		}
		focus := focusTuple(r, c.Universe, op)
		m.observeAllShapes(sub, label, r, drivers, focus, step)
		m.observeReads(sub, label, r, drivers, focus, step)
		run.count("steps", 1)
		run.maxCounter("max_model_rows", int64(m.model.size(m.net)))
		if changed {
			run.count("steps_changing_the_model", 1)
			run.nontrivial(fmt.Sprintf("%d/%d", idx, step))
		}
		if m.fail {
			break // later steps would repeat the same difference
		}
	}
	if idx < 2 {
		run.sample(map[string]any{"index": idx, "universe": c.Universe, "first_ops": c.Ops[:minInt(len(c.Ops), 5)], "n_ops": len(c.Ops)})
	}
	if m.fail {
		return "violation"
	}
	return "ok"
}
