package verifh

// C09 — expand returns a sound and complete picture of a subject set.
//
// A case is a relationship multiset T over subject sets (chains, diamonds,
// cycles, nodes with 101-250 children, the "reached deep first, shallow later"
// shape R->S1->..->Sk->X->u plus R->X, random graphs, C02's chain generator with
// its rewrite configuration) and one or two subject sets to expand. Which child
// of a node is expanded first is the order of the random shard ids, so T is
// inserted c.Orders times into the wiped database; after every insertion every
// (root, request depth) of the grid {1..6, 0, negative, huge} is expanded through
//     engine  reg.ExpandEngine().BuildTree(ReadOnlyMapper.FromSubjectSet(S), d) + ReadOnlyMapper.ToTree
//     rest    GET /relation-tuples/expand
//     grpc    ExpandService.Expand
// under a global limit set through the configuration (changed once per case with
// Config.Set). eff(d, g) = g if d <= 0 or d > g, else d.
//
// Depth convention (internal/expand/engine.go, and keto's own test "respects max
// depth": chain ids[0]->..->ids[4] expanded with depth 4 shows ids[0..3], the
// last one as a leaf): the root is level 1; a node at level eff is never
// expanded; so a tree has at most eff levels and shows exactly the subjects at
// edge distance <= eff-1 from the root. depth 1 = the root alone, as a leaf. A
// root without any relationship yields no tree (engine nil, REST 404, gRPC empty).
//
// Oracles on every returned tree (reference: a breadth-first reachability model
// over T, written here, independent of keto):
//   S1 the root is the requested subject set;
//   S2 every parent->child edge is a relationship of T: the parent is a subject
//      set (ns, obj, rel) and T has (ns, obj, rel, child) at least as many times as
//      the child occurs below that parent;
//   S3 no subject set is expanded (has children) more than once in the tree;
//   S4 the tree has at most eff levels;
//   T1 the expansion returns (watchdog: a request that does not return is
//      inconclusive unless the goroutine dump shows buildTreeRecursive nested
//      deeper than the effective depth allows);
//   K1 completeness: every subject at distance <= eff-1 from the root occurs in
//      the tree;
//   K2 for configurations without rewrites and with depth not binding (no subject
//      set with relationships sits at level eff; no cut logged by the check
//      engine): { subject-id nodes of the tree } = { u | Check(S, u) = allowed }
//      over all subject ids of T plus one that is not in T (real check engine).
//
// Classification of a K1 failure (signature), by construction: let x be a
// missing subject of minimal distance; its breadth-first parents P are all in
// the tree.
//   child-dropped            some P is expanded in the tree but x is not below it
//                            (":parent-over-100" when P has more than one page of
//                            relationships, else ":parent-one-page")
//   visited-at-lower-depth   no P is expanded, and some P occurs as a leaf at level
//                            eff (cut there by depth, which marked it visited) although
//                            it also occurs, or is required, at a level < eff
//   parent-never-expanded    no P is expanded and none sits at the cut level
//   no-tree                  no tree although the root has relationships

import (
	"context"
	"encoding/json"
	"errors"
	"fmt"
	"math/rand/v2"
	"net/http"
	"net/url"
	"os"
	"sort"
	"strings"
	"testing"
	"time"

	"google.golang.org/grpc/status"

	"github.com/ory/keto/internal/relationtuple"
	"github.com/ory/keto/ketoapi"
	rts "github.com/ory/keto/proto/ory/keto/relation_tuples/v1alpha2"
)

const c09Timeout = 20 * time.Second

type c09Case struct {
	Shape   string   `json:"shape"`
	CfgKind string   `json:"cfg_kind"` // untyped | typed | chain-config
	Cfg     *Cfg     `json:"config"`
	Tuples  []string `json:"tuples"`
	NTuples int      `json:"n_tuples"`
	Roots   []string `json:"roots"`
	Global  int      `json:"global_max_depth"`
	Global2 int      `json:"global_max_depth_second_half"`
	Depths  []int    `json:"request_depths"`
	Orders  int      `json:"insertions"`

	tuples []*Tup
	roots  []*ketoapi.SubjectSet
}

var c09Depths = []int{1, 2, 3, 4, 5, 6, 0, -2, 1000000}

func gset(name string) *ketoapi.SubjectSet {
	return &ketoapi.SubjectSet{Namespace: "Group", Object: name, Relation: "members"}
}

func edgeSet(from, to *ketoapi.SubjectSet) *Tup {
	return tupSet(from.Namespace, from.Object, from.Relation, to.Namespace, to.Object, to.Relation)
}

func edgeID(from *ketoapi.SubjectSet, u string) *Tup {
	return tupID(from.Namespace, from.Object, from.Relation, u)
}

func genC09Case(r *rand.Rand, idx int64, orders int) *c09Case {
	c := &c09Case{Orders: orders, Depths: c09Depths}
	untyped := &Cfg{NS: []*NSDef{{Name: "User"}, {Name: "Group"}, {Name: "Doc"}}}
	typed := &Cfg{NS: []*NSDef{{Name: "User"},
		{Name: "Group", Rels: []*RelDef{{Name: "members", Types: []TypeRef{{NS: "User"}, {NS: "Group", Rel: "members"}, {NS: "Doc", Rel: "viewers"}}}}},
		{Name: "Doc", Rels: []*RelDef{{Name: "viewers", Types: []TypeRef{{NS: "User"}, {NS: "Group", Rel: "members"}, {NS: "Doc", Rel: "viewers"}}}}}}}
	c.Cfg, c.CfgKind = untyped, "untyped"
	if r.IntN(2) == 0 {
		c.Cfg, c.CfgKind = typed, "typed"
	}
	if idx%5 == 3 {
		// relations declared with PLAIN types only: in the default mode declared
		// types are not enforced on write and check follows every stored subject
		// set, so expand has to follow them as well
		c.Cfg, c.CfgKind = &Cfg{NS: []*NSDef{{Name: "User"},
			{Name: "Group", Rels: []*RelDef{{Name: "members", Types: []TypeRef{{NS: "User"}}}}},
			{Name: "Doc", Rels: []*RelDef{{Name: "viewers", Types: []TypeRef{{NS: "User"}}}}}}}, "typed-plain"
	}
	root := gset("R")
	if r.IntN(3) == 0 {
		root = &ketoapi.SubjectSet{Namespace: "Doc", Object: "d", Relation: "viewers"}
	}
	var ts []*Tup
	user := func() string { return fmt.Sprintf("u%d", r.IntN(5)) }
	var sets []*ketoapi.SubjectSet // candidates for the second root

	shapes := []string{"deep-first", "chain", "diamond", "cycle", "wide", "random", "deep-first", "chain-config", "random", "diamond", "cycle", "deep-first-long"}
	c.Shape = shapes[int(idx)%len(shapes)]
	switch c.Shape {
	case "deep-first", "deep-first-long":
		// R -> S1 -> .. -> Sk -> X -> u  and  R -> X
		k := 1
		if c.Shape == "deep-first-long" {
			k = 2 + r.IntN(3)
		}
		prev := root
		for i := 1; i <= k; i++ {
			s := gset(fmt.Sprintf("S%d", i))
			ts = append(ts, edgeSet(prev, s))
			sets = append(sets, s)
			prev = s
		}
		x := gset("X")
		ts = append(ts, edgeSet(prev, x), edgeSet(root, x), edgeID(x, "u"))
		sets = append(sets, x)
		if r.IntN(2) == 0 {
			// X continues
			y := gset("Y")
			ts = append(ts, edgeSet(x, y), edgeID(y, "v"))
		}
		if r.IntN(3) == 0 {
			ts = append(ts, edgeID(root, user()))
		}
	case "chain":
		L := 1 + r.IntN(7)
		prev := root
		for i := 1; i <= L; i++ {
			s := gset(fmt.Sprintf("g%d", i))
			ts = append(ts, edgeSet(prev, s))
			if r.IntN(3) == 0 {
				ts = append(ts, edgeID(prev, user()))
			}
			sets = append(sets, s)
			prev = s
		}
		ts = append(ts, edgeID(prev, "u"))
	case "diamond":
		// layers of 1..3 sets, every set points to 1..all sets of the next layer
		layers := 2 + r.IntN(3)
		cur := []*ketoapi.SubjectSet{root}
		for l := 1; l <= layers; l++ {
			w := 1 + r.IntN(3)
			var next []*ketoapi.SubjectSet
			for i := 0; i < w; i++ {
				next = append(next, gset(fmt.Sprintf("L%d_%d", l, i)))
			}
			for _, a := range cur {
				k := 1 + r.IntN(len(next))
				for _, j := range r.Perm(len(next))[:k] {
					ts = append(ts, edgeSet(a, next[j]))
				}
			}
			sets = append(sets, next...)
			cur = next
		}
		for _, a := range cur {
			ts = append(ts, edgeID(a, user()))
		}
		if r.IntN(2) == 0 {
			// a shortcut from the root to the last layer
			ts = append(ts, edgeSet(root, cur[r.IntN(len(cur))]))
		}
	case "cycle":
		k := 1 + r.IntN(5)
		ring := []*ketoapi.SubjectSet{root}
		for i := 1; i < k; i++ {
			ring = append(ring, gset(fmt.Sprintf("c%d", i)))
		}
		for i := range ring {
			ts = append(ts, edgeSet(ring[i], ring[(i+1)%len(ring)])) // k = 1: self loop
			if r.IntN(2) == 0 {
				ts = append(ts, edgeID(ring[i], user()))
			}
		}
		if r.IntN(2) == 0 && k > 2 {
			ts = append(ts, edgeSet(ring[r.IntN(k)], ring[r.IntN(k)])) // chord / extra loop
		}
		sets = append(sets, ring[1:]...)
		ts = append(ts, edgeID(ring[len(ring)-1], "u"))
	case "wide":
		W := 101 + r.IntN(150)
		hub := root
		if r.IntN(3) == 0 {
			hub = gset("hub")
			ts = append(ts, edgeSet(root, hub), edgeID(root, user()))
			sets = append(sets, hub)
		}
		nSets := r.IntN(4)
		for i := 0; i < W; i++ {
			if i < nSets {
				s := gset(fmt.Sprintf("w%d", i))
				ts = append(ts, edgeSet(hub, s), edgeID(s, fmt.Sprintf("deep%d", i)))
				sets = append(sets, s)
			} else {
				ts = append(ts, edgeID(hub, fmt.Sprintf("m%d", i)))
			}
		}
	case "chain-config":
		cc := genChainCase(r, idx)
		c.Cfg, c.CfgKind = cc.Cfg, "chain-config"
		ts = cc.tuples
		root = &ketoapi.SubjectSet{Namespace: "Doc", Object: "d", Relation: cc.tuples[0].Relation}
		for _, t := range ts {
			if t.SubjectSet != nil {
				sets = append(sets, t.SubjectSet)
			}
		}
	default: // random
		n := 3 + r.IntN(6)
		all := []*ketoapi.SubjectSet{root}
		for i := 1; i < n; i++ {
			all = append(all, gset(fmt.Sprintf("n%d", i)))
		}
		for _, a := range all {
			for k := r.IntN(4); k > 0; k-- {
				if r.IntN(3) == 0 {
					ts = append(ts, edgeID(a, user()))
				} else {
					ts = append(ts, edgeSet(a, all[r.IntN(n)]))
				}
			}
		}
		ts = append(ts, edgeSet(root, all[1]))
		sets = append(sets, all[1:]...)
	}
	// duplicates: the store is a multiset
	if r.IntN(4) == 0 && len(ts) > 0 {
		ts = append(ts, cloneTup(ts[r.IntN(len(ts))]))
	}
	// object references: in a third of the untyped cases one or two inner sets are
	// addressed with the EMPTY relation (`Group:n3#`, how OPL-style clients refer
	// to a plain object); an empty relation is a legal relation name
	if c.CfgKind == "untyped" && len(sets) > 0 && idx%3 == 2 {
		for k, n := 0, 1+r.IntN(2); k < n; k++ {
			v := sets[r.IntN(len(sets))]
			if v.Relation == "" || (v.Namespace == root.Namespace && v.Object == root.Object) {
				continue
			}
			for _, t := range ts {
				if t.Namespace == v.Namespace && t.Object == v.Object && t.Relation == v.Relation {
					t.Relation = ""
				}
				if ss := t.SubjectSet; ss != nil && ss.Namespace == v.Namespace && ss.Object == v.Object && ss.Relation == v.Relation {
					ss.Relation = ""
				}
			}
			v.Relation = ""
		}
	}
	// shadows: relationships with the SAME object name and relation name in the
	// other namespace (an object's UUID does not depend on its namespace): they
	// belong to other subject sets and must not show up in these trees
	if idx%4 == 1 {
		other := map[string]string{"Group": "Doc", "Doc": "Group"}
		seenSet := map[string]bool{}
		n := 0
		for _, t := range append([]*Tup(nil), ts...) {
			k := t.Namespace + "\x00" + t.Object + "\x00" + t.Relation
			if seenSet[k] || other[t.Namespace] == "" || n >= 6 {
				continue
			}
			seenSet[k] = true
			n++
			ts = append(ts, tupID(other[t.Namespace], t.Object, t.Relation, fmt.Sprintf("intruder%d", n)))
			if n%2 == 0 {
				ts = append(ts, tupSet(other[t.Namespace], t.Object, t.Relation, "Group", "intruders", "members"))
			}
		}
		ts = append(ts, tupID("Group", "intruders", "members", "intruder0"))
	}
	c.tuples = ts
	c.roots = []*ketoapi.SubjectSet{root}
	if len(sets) > 0 && r.IntN(2) == 0 {
		c.roots = append(c.roots, sets[r.IntN(len(sets))])
	}
	c.Global = []int{2, 3, 3, 4, 5, 6, 8}[r.IntN(7)]
	c.Global2 = []int{0, 0, 3, 4, 5, 12}[r.IntN(6)]
	if c.Global2 == c.Global {
		c.Global2 = 0
	}
	c.NTuples = len(ts)
	for i, t := range ts {
		if i < 40 {
			c.Tuples = append(c.Tuples, t.String())
		}
	}
	for _, s := range c.roots {
		c.Roots = append(c.Roots, s.String())
	}
	return c
}

// ---------------------------------------------------------------------------
// reference model: reachability with distance

func c09SetKey(s *ketoapi.SubjectSet) string {
	return subjKey(&Tup{SubjectSet: s})
}

type c09Model struct {
	out map[string]map[string]int // set key -> subject key -> multiplicity
	n   map[string]int            // set key -> number of relationships
}

func newC09Model(ts []*Tup) *c09Model {
	m := &c09Model{out: map[string]map[string]int{}, n: map[string]int{}}
	for _, t := range ts {
		p := c09SetKey(&ketoapi.SubjectSet{Namespace: t.Namespace, Object: t.Object, Relation: t.Relation})
		if m.out[p] == nil {
			m.out[p] = map[string]int{}
		}
		m.out[p][subjKey(t)]++
		m.n[p]++
	}
	return m
}

// dist: edge distance from root of every reachable subject (root = 0).
func (m *c09Model) dist(root string) map[string]int {
	d := map[string]int{root: 0}
	q := []string{root}
	for len(q) > 0 {
		a := q[0]
		q = q[1:]
		var kids []string
		for k := range m.out[a] {
			kids = append(kids, k)
		}
		sort.Strings(kids)
		for _, k := range kids {
			if _, ok := d[k]; !ok {
				d[k] = d[a] + 1
				q = append(q, k)
			}
		}
	}
	return d
}

// ---------------------------------------------------------------------------
// trees

type c09Node struct {
	Key  string
	Type string
	Kids []*c09Node
}

func nodeFromAPI(t *ketoapi.Tree[*ketoapi.RelationTuple]) *c09Node {
	if t == nil {
		return nil
	}
	n := &c09Node{Type: string(t.Type), Key: "nil"}
	if t.Tuple != nil {
		n.Key = subjKey(t.Tuple)
	}
	for _, c := range t.Children {
		n.Kids = append(n.Kids, nodeFromAPI(c))
	}
	return n
}

func nodeFromProto(t *rts.SubjectTree) *c09Node {
	if t == nil {
		return nil
	}
	n := &c09Node{Key: "nil"}
	switch t.NodeType {
	case rts.NodeType_NODE_TYPE_LEAF:
		n.Type = "leaf"
	case rts.NodeType_NODE_TYPE_UNION:
		n.Type = "union"
	default:
		n.Type = t.NodeType.String()
	}
	sub := t.GetTuple().GetSubject()
	if sub == nil {
		sub = t.GetSubject() //nolint:staticcheck
	}
	switch s := sub.GetRef().(type) {
	case *rts.Subject_Id:
		n.Key = "id:" + s.Id
	case *rts.Subject_Set:
		n.Key = c09SetKey(&ketoapi.SubjectSet{Namespace: s.Set.GetNamespace(), Object: s.Set.GetObject(), Relation: s.Set.GetRelation()})
	}
	for _, c := range t.Children {
		n.Kids = append(n.Kids, nodeFromProto(c))
	}
	return n
}

func (n *c09Node) canon(sb *strings.Builder) {
	if n == nil {
		sb.WriteString("<nil>")
		return
	}
	sb.WriteString(n.Key)
	sb.WriteString("/")
	sb.WriteString(n.Type)
	if len(n.Kids) > 0 {
		sb.WriteString("(")
		for i, k := range n.Kids {
			if i > 0 {
				sb.WriteString(",")
			}
			k.canon(sb)
		}
		sb.WriteString(")")
	}
}

func (n *c09Node) String() string {
	var sb strings.Builder
	n.canon(&sb)
	return sb.String()
}

type c09Finding struct {
	Sig     string
	Summary string
	Detail  map[string]any
}

type c09Stats struct {
	Levels, Nodes, Expanded, CutLeaves, RepeatLeaves, MaxKids int
}

// c09Judge applies S1-S4 and K1 to one tree.
func c09Judge(m *c09Model, root string, eff int, tree *c09Node) (fs []c09Finding, st c09Stats) {
	add := func(sig, summary string, detail map[string]any) {
		for _, f := range fs {
			if f.Sig == sig {
				return
			}
		}
		fs = append(fs, c09Finding{sig, summary, detail})
	}
	if tree == nil {
		if m.n[root] > 0 {
			add("C09:incomplete:no-tree", fmt.Sprintf("no tree for %s although it has %d relationship(s)", root, m.n[root]), nil)
		}
		return
	}
	if tree.Key != root {
		add("C09:root-differs", fmt.Sprintf("the root of the tree is %s, asked for %s", tree.Key, root), nil)
	}
	type occ struct {
		level    int
		expanded bool
	}
	occs := map[string][]occ{}
	var walk func(n *c09Node, level int)
	walk = func(n *c09Node, level int) {
		st.Nodes++
		if level > st.Levels {
			st.Levels = level
		}
		occs[n.Key] = append(occs[n.Key], occ{level, len(n.Kids) > 0})
		if len(n.Kids) == 0 {
			return
		}
		st.Expanded++
		if len(n.Kids) > st.MaxKids {
			st.MaxKids = len(n.Kids)
		}
		cnt := map[string]int{}
		for _, k := range n.Kids {
			cnt[k.Key]++
		}
		if !strings.HasPrefix(n.Key, "set:") {
			add("C09:unsound-edge:children-below-subject-id", fmt.Sprintf("%s is not a subject set but has %d children", n.Key, len(n.Kids)), nil)
		}
		for k, c := range cnt {
			have := m.out[n.Key][k]
			switch {
			case have == 0:
				add("C09:unsound-edge:not-a-relationship", fmt.Sprintf("edge %s -> %s (level %d) is not a stored relationship", n.Key, k, level), map[string]any{"parent": n.Key, "child": k})
			case c > have:
				add("C09:unsound-edge:multiplicity", fmt.Sprintf("edge %s -> %s occurs %d times below one node, stored %d time(s)", n.Key, k, c, have), map[string]any{"parent": n.Key, "child": k})
			}
		}
		for _, k := range n.Kids {
			walk(k, level+1)
		}
	}
	walk(tree, 1)
	for k, oo := range occs {
		ne := 0
		for _, o := range oo {
			if o.expanded {
				ne++
			}
			if !o.expanded && strings.HasPrefix(k, "set:") && m.n[k] > 0 {
				if o.level == eff {
					st.CutLeaves++
				} else {
					st.RepeatLeaves++
				}
			}
		}
		if ne > 1 {
			add("C09:expanded-twice", fmt.Sprintf("%s is expanded %d times in one tree", k, ne), map[string]any{"subject_set": k})
		}
	}
	if st.Levels > eff {
		add("C09:too-deep", fmt.Sprintf("the tree has %d levels, the effective max-depth is %d", st.Levels, eff), nil)
	}
	// K1
	dist := m.dist(root)
	var missing []string
	for k, d := range dist {
		if d <= eff-1 && len(occs[k]) == 0 {
			missing = append(missing, k)
		}
	}
	if len(missing) > 0 {
		sort.Slice(missing, func(i, j int) bool {
			if dist[missing[i]] != dist[missing[j]] {
				return dist[missing[i]] < dist[missing[j]]
			}
			return missing[i] < missing[j]
		})
		x := missing[0]
		var parents []string
		for p := range m.out {
			if dp, ok := dist[p]; ok && dp == dist[x]-1 && m.out[p][x] > 0 {
				parents = append(parents, p)
			}
		}
		sort.Strings(parents)
		class, why := "parent-never-expanded", ""
		for _, p := range parents {
			for _, o := range occs[p] {
				if o.expanded {
					class = "child-dropped:parent-one-page"
					if m.n[p] > 100 {
						class = "child-dropped:parent-over-100"
					}
					why = fmt.Sprintf("%s is expanded at level %d (%d relationships stored) without it", p, o.level, m.n[p])
				}
			}
		}
		if class == "parent-never-expanded" {
			for _, p := range parents {
				var lv []int
				cut := false
				for _, o := range occs[p] {
					lv = append(lv, o.level)
					if o.level == eff {
						cut = true
					}
				}
				if cut {
					class = "visited-at-lower-depth"
					why = fmt.Sprintf("its parent %s (distance %d) is never expanded: it occurs as a leaf at level(s) %v, one of them the cut level %d", p, dist[p], lv, eff)
					break
				}
				why = fmt.Sprintf("its parent %s (distance %d) occurs only as a leaf at level(s) %v, none of them the cut level %d", p, dist[p], lv, eff)
			}
		}
		add("C09:incomplete:"+class,
			fmt.Sprintf("%s is at distance %d from %s (effective max-depth %d shows distances <= %d) but is not in the tree; %s; %d subject(s) missing in all", x, dist[x], root, eff, eff-1, why, len(missing)),
			map[string]any{"missing": missing[:minInt(len(missing), 10)], "parents_of_first": parents})
	}
	return
}

func (n *c09Node) idLeaves(acc map[string]bool) {
	if n == nil {
		return
	}
	if strings.HasPrefix(n.Key, "id:") {
		acc[strings.TrimPrefix(n.Key, "id:")] = true
	}
	for _, k := range n.Kids {
		k.idLeaves(acc)
	}
}

// ---------------------------------------------------------------------------
// execution

type c09Exec struct {
	env  *Env
	ctx  context.Context
	read http.Handler
	g    *grpcClients
	bug  string // VERIF_C09_SELFTEST_BUG: drop-child | fake-edge (harness-side simulated defect)
}

type c09Answer struct {
	Tree    *c09Node
	Err     string // "" | class of the failure
	Timeout bool
	Dump    string
}

func (x *c09Exec) mutate(n *c09Node) *c09Node {
	if n == nil || x.bug == "" {
		return n
	}
	switch x.bug {
	case "drop-child":
		if len(n.Kids) > 1 {
			n.Kids = n.Kids[:len(n.Kids)-1]
		}
	case "fake-edge":
		if len(n.Kids) > 0 {
			n.Kids = append(n.Kids, &c09Node{Key: "id:intruder", Type: "leaf"})
		}
	}
	return n
}

func (x *c09Exec) engine(root *ketoapi.SubjectSet, depth int) c09Answer {
	ctx, cancel := context.WithTimeout(x.ctx, 2*c09Timeout)
	defer cancel()
	type res struct {
		tree *ketoapi.Tree[*ketoapi.RelationTuple]
		err  error
		pt   string
	}
	done := make(chan res, 1)
	go func() {
		var rr res
		rr.pt = guard(func() {
			is, err := x.env.Reg.ReadOnlyMapper().FromSubjectSet(ctx, root)
			if err != nil {
				rr.err = fmt.Errorf("map: %w", err)
				return
			}
			var it *relationtuple.Tree
			it, rr.err = x.env.Reg.ExpandEngine().BuildTree(ctx, is, depth)
			if rr.err != nil || it == nil {
				return
			}
			rr.tree, rr.err = x.env.Reg.ReadOnlyMapper().ToTree(ctx, it)
		})
		done <- rr
	}()
	tm := time.NewTimer(c09Timeout)
	defer tm.Stop()
	select {
	case rr := <-done:
		switch {
		case rr.pt != "":
			return c09Answer{Err: "panic:" + topFrames(rr.pt, 2)}
		case rr.err != nil:
			return c09Answer{Err: errClass(rr.err.Error())}
		}
		return c09Answer{Tree: x.mutate(nodeFromAPI(rr.tree))}
	case <-tm.C:
		_, dump := engineGoroutines()
		x.env.dirty = true
		cancel()
		select {
		case <-done:
		case <-time.After(10 * time.Second):
		}
		return c09Answer{Timeout: true, Dump: dump}
	}
}

func (x *c09Exec) rest(root *ketoapi.SubjectSet, depth int) c09Answer {
	v := url.Values{"namespace": {root.Namespace}, "object": {root.Object}, "relation": {root.Relation}, "max-depth": {fmt.Sprint(depth)}}
	st, body, pt := httpDoCtx(x.ctx, c09Timeout, x.read, "GET", "/relation-tuples/expand?"+v.Encode(), "", nil)
	switch {
	case pt != "":
		return c09Answer{Err: "panic:" + topFrames(pt, 2)}
	case st == 404:
		return c09Answer{}
	case st >= 500 && isCtxErr(body):
		x.env.dirty = true
		return c09Answer{Timeout: true}
	case st != 200:
		return c09Answer{Err: fmt.Sprintf("status-%d", st)}
	}
	var tree ketoapi.Tree[*ketoapi.RelationTuple]
	if err := json.Unmarshal([]byte(body), &tree); err != nil {
		return c09Answer{Err: "undecodable-body"}
	}
	return c09Answer{Tree: x.mutate(nodeFromAPI(&tree))}
}

func (x *c09Exec) grpc(root *ketoapi.SubjectSet, depth int) c09Answer {
	ctx, cancel := context.WithTimeout(x.ctx, c09Timeout)
	defer cancel()
	resp, err := x.g.Expand.Expand(ctx, &rts.ExpandRequest{Subject: rts.NewSubjectSet(root.Namespace, root.Object, root.Relation), MaxDepth: int32(depth)})
	switch {
	case ctx.Err() != nil:
		x.env.dirty = true
		return c09Answer{Timeout: true}
	case err != nil:
		return c09Answer{Err: "grpc-" + status.Code(err).String()}
	}
	return c09Answer{Tree: x.mutate(nodeFromProto(resp.GetTree()))}
}

type c09Mon struct {
	run  *runner
	idx  int64
	c    *c09Case
	x    *c09Exec
	m    *c09Model
	fail bool
	seen map[string]int
	// first engine-level incompleteness per signature of this case (shrunk at the end)
	toShrink map[string]c09Pending
}

type c09Pending struct {
	root   *ketoapi.SubjectSet
	depth  int
	global int
	sub    string
	f      c09Finding
	order  int
	tree   string
}

func (m *c09Mon) violate(sub, sig, summary string, detail any) {
	m.fail = true
	m.seen[sig]++
	if m.seen[sig] > 3 {
		m.run.count("violations_beyond_3_per_signature", 1)
		return
	}
	m.run.violate(violation{Index: m.idx, Sub: sub, Sig: sig, Summary: trunc(summary, 900), Case: m.c, Detail: detail})
}

func TestC09(t *testing.T) {
	run := newRunner(t, "C09")
	defer run.finish()
	p := run.p
	nCases := int64(p.pick(400, 6500))
	orders := p.pick(8, 16)
	seen := map[string]int{}

	for idx := int64(0); idx < nCases; idx++ {
		if !p.mine(idx) {
			continue
		}
		r := p.rng(idx, "case")
		c := genC09Case(r, idx, orders)
		run.begin(idx, "", c)
		verdict := runC09Case(run, idx, c, seen)
		run.end(idx, "", verdict)
	}
}

func runC09Case(run *runner, idx int64, c *c09Case, seen map[string]int) string {
	env, err := newEnv(run.t, EnvOpts{Namespaces: c.Cfg.toKeto(), MaxDepth: c.Global, MaxWidth: 1000})
	if err != nil {
		run.inconclusive(fmt.Sprintf("idx %d: env: %v", idx, err))
		return "inconclusive"
	}
	reqCtx, cancelReqs := context.WithCancel(env.Ctx)
	defer func() {
		cancelReqs()
		env.Close()
	}()
	g, err := newGRPC(env)
	if err != nil {
		run.inconclusive(fmt.Sprintf("idx %d: grpc: %v", idx, err))
		return "inconclusive"
	}
	defer g.Close()
	x := &c09Exec{env: env, ctx: reqCtx, read: env.Reg.ReadRouter(env.Ctx), g: g, bug: os.Getenv("VERIF_C09_SELFTEST_BUG")}
	if x.bug != "" {
		run.count("SELFTEST_BUG_ACTIVE_"+x.bug, 1)
	}
	m := &c09Mon{run: run, idx: idx, c: c, x: x, m: newC09Model(c.tuples), seen: seen, toShrink: map[string]c09Pending{}}
	run.count("cases_shape_"+c.Shape, 1)
	global := c.Global

	routes := []struct {
		name string
		f    func(*ketoapi.SubjectSet, int) c09Answer
	}{{"engine", x.engine}, {"rest", x.rest}, {"grpc", x.grpc}}

	for o := 0; o < c.Orders; o++ {
		if o > 0 {
			if err := env.wipe(); err != nil {
				run.inconclusive(fmt.Sprintf("idx %d: wipe: %v", idx, err))
				return "inconclusive"
			}
		}
		if o == c.Orders/2 && c.Global2 > 0 {
			if err := env.SetLimit(c.Global2, 0); err != nil {
				run.inconclusive(fmt.Sprintf("idx %d: setlimit: %v", idx, err))
				return "inconclusive"
			}
			global = c.Global2
		}
		if err := env.Write(shuffled(run.p.rng(idx, fmt.Sprintf("order-%d", o)), c.tuples)...); err != nil {
			run.inconclusive(fmt.Sprintf("idx %d: write: %v", idx, err))
			return "inconclusive"
		}
		for ri, root := range c.roots {
			rk := c09SetKey(root)
			for di, d := range c.Depths {
				eff := effDepth(d, global)
				var engineCanon string
				for k, rt := range routes {
					// wide nodes make one expansion cost hundreds of storage calls (ToTree maps
					// node by node): REST and gRPC take turns over (depth, insertion) there
					if c.Shape == "wide" && k > 0 && (di+o)%3 != k {
						continue
					}
					a := rt.f(root, d)
					sub := fmt.Sprintf("o%d/r%d/d%d/%s", o, ri, d, rt.name)
					run.eval(1)
					run.count("expansions_"+rt.name, 1)
					switch {
					case a.Timeout:
						deep := strings.Count(a.Dump, "expand.(*Engine).buildTree") // buildTreeRecursive, or whatever replaces it
						if deep > eff+1 {
							m.violate(sub, "C09:no-termination:recursion-deeper-than-depth", fmt.Sprintf("expand of %s (depth %d, effective %d) did not return within %v; the goroutine dump shows the tree builder nested %d deep", rk, d, eff, c09Timeout, deep), map[string]any{"dump": trunc(a.Dump, 3000)})
						} else {
							run.inconclusive(fmt.Sprintf("idx %d %s: expand did not return within %v (no recursion in the dump)", idx, sub, c09Timeout))
						}
						return "inconclusive"
					case a.Err != "":
						m.violate(sub, "C09:error:"+rt.name+":"+a.Err, fmt.Sprintf("expand of %s through %s with depth %d failed: %s", rk, rt.name, d, a.Err), nil)
						continue
					}
					canon := a.Tree.String()
					if rt.name == "engine" {
						engineCanon = canon
					} else if canon == engineCanon {
						continue // same tree, same verdicts
					} else {
						run.count("route_tree_differs_from_engine", 1)
					}
					fs, st := c09Judge(m.m, rk, eff, a.Tree)
					if rt.name == "engine" {
						run.setAdd("distinct_trees", fmt.Sprintf("%d/%s/%d/%d/%s", idx, rk, global, eff, canon))
						run.count("tree_nodes", int64(st.Nodes))
						run.count("leaves_cut_by_depth", int64(st.CutLeaves))
						run.count("leaves_repeated_subject_set", int64(st.RepeatLeaves))
						run.maxCounter("max_children_of_a_node", int64(st.MaxKids))
						if st.MaxKids > 100 {
							run.count("trees_with_node_over_100_children", 1)
						}
						if a.Tree == nil {
							run.count("no_tree", 1)
						}
						if st.Expanded >= 2 || st.RepeatLeaves > 0 || st.MaxKids > 100 {
							run.nontrivial(fmt.Sprintf("%d/%s/%d/%s", idx, rk, eff, canon))
						}
					}
					for _, f := range fs {
						sig := f.Sig
						if rt.name != "engine" {
							sig += ":via-" + rt.name + "-only"
						}
						if strings.HasPrefix(f.Sig, "C09:incomplete:") && rt.name == "engine" {
							run.count("incomplete_trees", 1)
							if _, ok := m.toShrink[sig]; !ok {
								m.toShrink[sig] = c09Pending{root: root, depth: d, global: global, sub: sub, f: f, order: o, tree: canon}
							}
							continue
						}
						det := map[string]any{"root": rk, "request_depth": d, "global": global, "effective": eff, "insertion": o, "tree": trunc(canon, 3000)}
						for k, v := range f.Detail {
							det[k] = v
						}
						m.violate(sub, sig, fmt.Sprintf("expand of %s via %s, depth %d (global %d, effective %d), insertion %d: %s", rk, rt.name, d, global, eff, o, f.Summary), det)
					}
				}
			}
		}
	}

	// --- K3: a storage failure during an expansion is an error, never a smaller tree
	m.faultPhase(env, global)
	// --- K2: differential against the real check engine
	if !cfgHasRewrite(c.Cfg) {
		m.differential(env)
	} else {
		run.count("differential_skipped_config_has_rewrites", 1)
	}
	// --- shrink and report incompleteness
	m.reportIncomplete(env)

	if idx < 12 {
		run.sample(map[string]any{"index": idx, "shape": c.Shape, "cfg_kind": c.CfgKind, "tuples": c.Tuples, "roots": c.Roots, "global": []int{c.Global, c.Global2}, "depths": c.Depths, "insertions": c.Orders})
	}
	if m.fail {
		return "violation"
	}
	return "ok"
}

// faultPhase: on the data of the last insertion order, every root is expanded
// once more through an engine whose storage calls are counted (N), then again
// with the k-th storage call failing once, for sampled k in 1..N. The answer must
// be an error or exactly the tree of the fault-free run on the same stored rows
// (listing order is the stable shard order, so the fault-free tree is unique):
// a tree that lost the failed page and everything after it is a violation.
func (m *c09Mon) faultPhase(env *Env, global int) {
	run := m.run
	st, _, eng := env.instrumented()
	build := func(root *ketoapi.SubjectSet, depth int, plan *faultPlan) (canon string, errText string, ok bool) {
		ctx, cancel := context.WithTimeout(m.x.ctx, c09Timeout)
		defer cancel()
		st.reset(plan)
		type res struct {
			canon, err, pt string
		}
		done := make(chan res, 1)
		go func() {
			var rr res
			rr.pt = guard(func() {
				is, err := env.Reg.ReadOnlyMapper().FromSubjectSet(ctx, root)
				if err != nil {
					rr.err = "map: " + err.Error()
					return
				}
				it, err := eng.BuildTree(ctx, is, depth)
				if err != nil {
					rr.err = err.Error()
					return
				}
				if it == nil {
					rr.canon = "<nil>"
					return
				}
				at, err := env.Reg.ReadOnlyMapper().ToTree(ctx, it)
				if err != nil {
					rr.err = "totree: " + err.Error()
					return
				}
				rr.canon = nodeFromAPI(at).String()
			})
			done <- rr
		}()
		select {
		case rr := <-done:
			if rr.pt != "" {
				return "", "panic:" + topFrames(rr.pt, 2), true
			}
			return rr.canon, rr.err, true
		case <-ctx.Done():
			env.dirty = true
			return "", "", false
		}
	}
	injected := errors.New("verif: injected storage failure")
	maxK := int64(run.p.pick(10, 40))
	for ri, root := range m.c.roots {
		if ri >= 3 {
			break
		}
		d := m.c.Depths[len(m.c.Depths)-1]
		rk := c09SetKey(root)
		ref, e0, ok := build(root, d, nil)
		if !ok || e0 != "" {
			run.count("fault_phase_reference_unavailable", 1)
			continue
		}
		n := st.calls()
		if n == 0 {
			continue
		}
		run.maxCounter("max_storage_calls_of_one_expansion", n)
		var ks []int64
		if n <= maxK {
			for k := int64(1); k <= n; k++ {
				ks = append(ks, k)
			}
		} else {
			r := run.p.rng(m.idx, fmt.Sprintf("fault-%d", ri))
			seen := map[int64]bool{1: true, 2: true, n: true}
			ks = []int64{1, 2, n}
			for int64(len(ks)) < maxK {
				if k := 1 + r.Int64N(n); !seen[k] {
					seen[k] = true
					ks = append(ks, k)
				}
			}
		}
		for _, k := range ks {
			got, e, ok := build(root, d, &faultPlan{FailAt: k, Err: injected})
			run.eval(1)
			switch {
			case !ok:
				run.inconclusive(fmt.Sprintf("idx %d: expand of %s with the %d-th storage call failing did not return within %v", m.idx, rk, k, c09Timeout))
				return
			case st.faulted == 0:
				run.count("fault_position_not_reached", 1)
			case strings.HasPrefix(e, "panic:"):
				m.violate(fmt.Sprintf("fault/r%d/k%d", ri, k), "C09:fault:"+e, fmt.Sprintf("expand of %s panicked when its %d-th storage call failed", rk, k), nil)
			case e != "":
				run.count("expansions_under_fault_answered_with_error", 1)
			case got == ref:
				run.count("expansions_under_fault_same_tree", 1)
			default:
				run.count("expansions_under_fault_other_tree", 1)
				m.violate(fmt.Sprintf("fault/r%d/k%d", ri, k), "C09:fault:partial-tree-returned-as-success",
					fmt.Sprintf("expand of %s (depth %d, global %d): the %d-th of %d storage calls failed once and expand answered WITHOUT an error with a tree that differs from the fault-free one on the same rows", rk, d, global, k, n),
					map[string]any{"root": rk, "depth": d, "failing_call": k, "calls": n, "fault_free_tree": trunc(ref, 2000), "tree_under_fault": trunc(got, 2000), "ops": trunc(st.opSequence(), 400)})
			}
		}
	}
	st.reset(nil)
}

func cfgHasRewrite(c *Cfg) bool {
	for _, n := range c.NS {
		for _, rd := range n.Rels {
			if rd.Rewrite != nil {
				return true
			}
		}
	}
	return false
}

func (m *c09Mon) differential(env *Env) {
	run := m.run
	const big = 40
	if err := env.SetLimit(big, 0); err != nil {
		run.inconclusive("setlimit: " + err.Error())
		return
	}
	users := map[string]bool{"nobody": true}
	for _, t := range m.c.tuples {
		if t.SubjectID != nil {
			users[*t.SubjectID] = true
		}
	}
	var ul []string
	for u := range users {
		ul = append(ul, u)
	}
	sort.Strings(ul)
	st, eng, _ := env.instrumented()
	st.record = false
	for ri, root := range m.c.roots {
		rk := c09SetKey(root)
		a := m.x.engine(root, 0)
		if a.Timeout || a.Err != "" {
			run.count("differential_skipped_no_tree_answer", 1)
			continue
		}
		_, stt := c09Judge(m.m, rk, big, a.Tree)
		if stt.CutLeaves > 0 || stt.Levels >= big {
			run.count("differential_skipped_depth_binding", 1)
			continue
		}
		leaves := map[string]bool{}
		a.Tree.idLeaves(leaves)
		ul := append([]string(nil), ul...)
		for u := range leaves {
			if !users[u] {
				ul = append(ul, u)
			}
		}
		sort.Strings(ul)
		var onlyTree, onlyCheck []string
		binding := false
		for _, u := range ul {
			d := engineCheck(env, st, eng, tupID(root.Namespace, root.Object, root.Relation, u), 0, 10*time.Second)
			if d.Err != "" || d.Cuts > 0 {
				binding = true
				break
			}
			if d.Allowed && !leaves[u] {
				onlyCheck = append(onlyCheck, u)
			}
			if !d.Allowed && leaves[u] {
				onlyTree = append(onlyTree, u)
			}
		}
		if binding {
			run.count("differential_skipped_check_cut_or_error", 1)
			continue
		}
		run.eval(1)
		run.count("differential_roots", 1)
		run.count("differential_checks", int64(len(ul)))
		if len(onlyTree)+len(onlyCheck) > 0 {
			cls := "leaf-not-allowed"
			if len(onlyCheck) > 0 {
				cls = "allowed-not-a-leaf"
			}
			m.violate(fmt.Sprintf("diff/r%d", ri), "C09:check-differential:"+cls,
				fmt.Sprintf("expand of %s (depth not binding): subject ids in the tree but denied by check: %v; allowed by check but not in the tree: %v", rk, onlyTree[:minInt(len(onlyTree), 5)], onlyCheck[:minInt(len(onlyCheck), 5)]),
				map[string]any{"root": rk, "tree": trunc(a.Tree.String(), 3000), "only_tree": onlyTree, "only_check": onlyCheck})
		}
	}
}

// reportIncomplete shrinks (drop relationships while the same class of
// incompleteness still shows up within c09ShrinkTries fresh insertions) and
// reports one violation per signature of the case.
const c09ShrinkTries = 6

func (m *c09Mon) reportIncomplete(env *Env) {
	var sigs []string
	for s := range m.toShrink {
		sigs = append(sigs, s)
	}
	sort.Strings(sigs)
	for _, sig := range sigs {
		p := m.toShrink[sig]
		rk := c09SetKey(p.root)
		eff := effDepth(p.depth, p.global)
		det := map[string]any{"root": rk, "request_depth": p.depth, "global": p.global, "effective": eff, "insertion": p.order, "tree": trunc(p.tree, 3000)}
		for k, v := range p.f.Detail {
			det[k] = v
		}
		if m.seen[sig] < 3 {
			if err := env.SetLimit(p.global, 0); err == nil {
				var witnessTree string
				still := func(ts []*Tup) bool {
					mod := newC09Model(ts)
					for try := 0; try < c09ShrinkTries; try++ {
						if env.wipe() != nil || env.Write(shuffled(m.run.p.rng(m.idx, fmt.Sprintf("shrink-%d", try)), ts)...) != nil {
							return false
						}
						a := m.x.engine(p.root, p.depth)
						if a.Timeout || a.Err != "" {
							return false
						}
						fs, _ := c09Judge(mod, rk, eff, a.Tree)
						for _, f := range fs {
							if f.Sig == p.f.Sig {
								witnessTree = a.Tree.String()
								return true
							}
						}
					}
					return false
				}
				ts := append([]*Tup(nil), m.c.tuples...)
				budget := 60
				for i := 0; i < len(ts) && budget > 0; {
					cand := append(append([]*Tup(nil), ts[:i]...), ts[i+1:]...)
					budget--
					if still(cand) {
						ts = cand
					} else {
						i++
					}
				}
				if len(ts) < len(m.c.tuples) || witnessTree != "" {
					det["shrunk_tuples"] = tupStrings(ts)
					det["shrunk_tree"] = trunc(witnessTree, 2000)
				}
			}
		}
		m.violate(p.sub, sig, fmt.Sprintf("expand of %s via engine, depth %d (global %d, effective %d), insertion %d of %d: %s", rk, p.depth, p.global, eff, p.order, m.c.Orders, p.f.Summary), det)
	}
}
