package verifh

// Environment construction: a real keto registry (driver.NewDefaultRegistry, the
// production constructor) on SQLite, with a silent logger that feeds a logrus
// hook (limit-cut events), plus storage wrappers handed to the engines through
// their dependency interfaces.

import (
	"context"
	"database/sql"
	"encoding/base64"
	"fmt"
	"io"
	"net/http"
	"net/http/httptest"
	"os"
	"path/filepath"
	"runtime"
	"sort"
	"strings"
	"sync"
	"sync/atomic"
	"testing"
	"time"

	"github.com/gofrs/uuid"
	"github.com/ory/x/configx"
	"github.com/ory/x/logrusx"
	"github.com/sirupsen/logrus"

	"github.com/ory/keto/internal/check"
	"github.com/ory/keto/internal/driver"
	"github.com/ory/keto/internal/driver/config"
	"github.com/ory/keto/internal/expand"
	"github.com/ory/keto/internal/namespace"
	"github.com/ory/keto/internal/persistence"
	"github.com/ory/keto/internal/relationtuple"
	"github.com/ory/keto/ketoapi"
	"github.com/ory/keto/ketoctx"
)

// ---------------------------------------------------------------------------
// log hook: counts limit-cut events and error-level logs

type logHook struct {
	depthCuts atomic.Int64
	widthCuts atomic.Int64
	errors    atomic.Int64
	mu        sync.Mutex
	changeLog []string // "A change to a namespace file was detected." sources
}

func (h *logHook) Levels() []logrus.Level { return logrus.AllLevels }
func (h *logHook) Fire(e *logrus.Entry) error {
	switch {
	case strings.HasPrefix(e.Message, "reached max-depth"):
		h.depthCuts.Add(1)
	case strings.HasPrefix(e.Message, "too many results"):
		h.widthCuts.Add(1)
	case strings.HasPrefix(e.Message, "A change to a namespace file was detected"):
		h.mu.Lock()
		h.changeLog = append(h.changeLog, fmt.Sprint(e.Data["file"]))
		h.mu.Unlock()
	}
	if e.Level <= logrus.ErrorLevel {
		h.errors.Add(1)
	}
	return nil
}
func (h *logHook) cuts() int64 { return h.depthCuts.Load() + h.widthCuts.Load() }
func (h *logHook) changes() int {
	h.mu.Lock()
	defer h.mu.Unlock()
	return len(h.changeLog)
}

// ---------------------------------------------------------------------------

type EnvOpts struct {
	// exactly one of Namespaces / OPL / NamespacesValue should be set (else: no namespaces)
	Namespaces      []*namespace.Namespace
	OPL             string // delivered as base64:// location (no file watcher)
	OPLLocation     string // explicit location (file://...), takes precedence over OPL
	NamespacesValue any    // raw value for the "namespaces" key (legacy URI string etc.)
	Strict          bool
	MaxDepth        int    // 0 => default (5)
	MaxWidth        int    // 0 => default (100)
	FileDB          bool   // on-disk WAL database instead of shared-cache memory
	DSN             string // explicit DSN (overrides FileDB)
	Contextualizer  ketoctx.Contextualizer
	Extra           map[string]any
	LogLevel        string
	// OPLViaHTTP: deliver OPL through an http:// location (a loopback server of the
	// test process; one path, the document selected by the query string)
	OPLViaHTTP bool
	// ConfigFile: a configuration file the provider loads and WATCHES (hot reload),
	// next to the values above (which win over the file)
	ConfigFile string
}

type Env struct {
	T      testing.TB
	Ctx    context.Context
	Cancel context.CancelFunc
	Reg    *driver.RegistryDefault
	Hook   *logHook
	DSN    string
	Dir    string
	closed bool
	// dirty: a request was abandoned (timeout/cancel); keto goroutines may still
	// use the connection, so Close must not pull it away under them.
	dirty bool
}

var envCounter atomic.Int64

func scratchDir() string {
	d := os.Getenv("VERIF_SCRATCH")
	if d == "" {
		d = os.TempDir()
	}
	return d
}

func newEnv(t testing.TB, o EnvOpts) (*Env, error) {
	hook := &logHook{}
	base := logrus.New()
	base.SetOutput(io.Discard)
	lvl := o.LogLevel
	if lvl == "" {
		lvl = "debug"
	}
	l := logrusx.New("Ory Keto", "verif", logrusx.UseLogger(base), logrusx.WithHook(hook))

	e := &Env{T: t, Hook: hook}
	n := envCounter.Add(1)
	dsn := o.DSN
	if dsn == "" {
		if o.FileDB {
			dir, err := os.MkdirTemp(scratchDir(), "verifdb")
			if err != nil {
				return nil, err
			}
			e.Dir = dir
			dsn = fmt.Sprintf("sqlite://file:%s?_fk=true&_journal_mode=WAL&_busy_timeout=10000", filepath.Join(dir, "db.sqlite"))
		} else {
			dsn = fmt.Sprintf("sqlite://file:verifmem_%d_%d?_fk=true&cache=shared&mode=memory", os.Getpid(), n)
		}
	}
	e.DSN = dsn

	values := map[string]any{
		config.KeyDSN: dsn,
		"log.level":   lvl,
	}
	switch {
	case o.OPLLocation != "":
		values[config.KeyNamespaces] = map[string]any{"location": o.OPLLocation, "experimental_strict_mode": o.Strict}
	case o.OPL != "" && o.OPLViaHTTP:
		values[config.KeyNamespaces] = map[string]any{"location": oplHTTPLocation(o.OPL), "experimental_strict_mode": o.Strict}
	case o.OPL != "":
		values[config.KeyNamespaces] = map[string]any{
			"location":                 "base64://" + base64.StdEncoding.EncodeToString([]byte(o.OPL)),
			"experimental_strict_mode": o.Strict,
		}
	case o.NamespacesValue != nil:
		values[config.KeyNamespaces] = o.NamespacesValue
	default:
		nn := o.Namespaces
		if nn == nil {
			nn = []*namespace.Namespace{}
		}
		values[config.KeyNamespaces] = nn
	}
	if o.MaxDepth > 0 {
		values[config.KeyLimitMaxReadDepth] = o.MaxDepth
	}
	if o.MaxWidth > 0 {
		values[config.KeyLimitMaxReadWidth] = o.MaxWidth
	}
	for k, v := range o.Extra {
		values[k] = v
	}

	ctx, cancel := context.WithCancel(context.Background())
	e.Cancel = cancel
	cfgOpts := []configx.OptionModifier{configx.WithValues(values)}
	if o.ConfigFile != "" {
		cfgOpts = append(cfgOpts, configx.WithConfigFiles(o.ConfigFile))
	}
	cfgCtx := configx.ContextWithConfigOptions(ctx, cfgOpts...)
	opts := []ketoctx.Option{ketoctx.WithLogger(l)}
	if o.Contextualizer != nil {
		opts = append(opts, ketoctx.WithContextualizer(o.Contextualizer))
	}
	memory := strings.Contains(dsn, "mode=memory")
	r, err := driver.NewDefaultRegistry(cfgCtx, nil, !memory, opts)
	if err != nil {
		cancel()
		return nil, fmt.Errorf("NewDefaultRegistry: %w", err)
	}
	rd := r.(*driver.RegistryDefault)
	if !memory {
		if err := rd.MigrateUp(cfgCtx); err != nil {
			cancel()
			return nil, fmt.Errorf("MigrateUp: %w", err)
		}
	}
	e.Reg = rd
	e.Ctx = ctx
	return e, nil
}

func mustEnv(t testing.TB, o EnvOpts) *Env {
	e, err := newEnv(t, o)
	if err != nil {
		t.Fatalf("cannot build environment: %v", err)
	}
	return e
}

// engineGoroutines counts goroutines that are currently inside keto's check or
// expand engine (stack contains a frame of those packages).
func engineGoroutines() (int, string) {
	buf := make([]byte, 1<<20)
	for {
		n := runtime.Stack(buf, true)
		if n < len(buf) {
			buf = buf[:n]
			break
		}
		buf = make([]byte, 2*len(buf))
	}
	cnt := 0
	var sample string
	for _, g := range strings.Split(string(buf), "\n\n") {
		if strings.Contains(g, "github.com/ory/keto/internal/check") || strings.Contains(g, "github.com/ory/keto/internal/expand.") {
			if strings.Contains(g, "verifh.engineGoroutines") {
				continue
			}
			cnt++
			if sample == "" {
				sample = g
			}
		}
	}
	return cnt, sample
}

// quiesce waits until no keto engine goroutine is left (stragglers of a check
// that already returned are cancelled asynchronously). Returns false when they
// are still there after the budget.
var leakedBaseline atomic.Int64

func quiesce(budget time.Duration) bool {
	if leakedBaseline.Load() > 0 && budget > 300*time.Millisecond {
		// goroutines already leaked in this process: an environment that does not
		// quiesce is simply never closed (dirty), so do not pay the full budget per case
		budget = 300 * time.Millisecond
	}
	deadline := time.Now().Add(budget)
	for i := 0; ; i++ {
		n, _ := engineGoroutines()
		if int64(n) <= leakedBaseline.Load() {
			return n == 0
		}
		if time.Now().After(deadline) {
			// goroutines that never go away (abandoned requests): remember them so
			// later waits do not pay the budget again
			leakedBaseline.Store(int64(n))
			return false
		}
		if i < 5 {
			runtime.Gosched()
		} else {
			time.Sleep(time.Duration(minInt(i, 50)) * 100 * time.Microsecond)
		}
	}
}

func (e *Env) Close() {
	if e.closed {
		return
	}
	e.closed = true
	if !quiesce(3 * time.Second) {
		e.dirty = true
	}
	if e.dirty {
		return
	}
	if c, err := e.Reg.PopConnection(e.Ctx); err == nil && c != nil {
		_ = c.Close()
	}
	e.Cancel()
	if e.Dir != "" {
		_ = os.RemoveAll(e.Dir)
	}
}

// SetNamespaces swaps the namespace configuration at run time (Config.Set).
func (e *Env) SetNamespaces(nn []*namespace.Namespace) error {
	return e.Reg.Config(e.Ctx).Set(config.KeyNamespaces, nn)
}

func (e *Env) SetLimit(depth, width int) error {
	c := e.Reg.Config(e.Ctx)
	if depth > 0 {
		if err := c.Set(config.KeyLimitMaxReadDepth, depth); err != nil {
			return err
		}
	}
	if width > 0 {
		if err := c.Set(config.KeyLimitMaxReadWidth, width); err != nil {
			return err
		}
	}
	return nil
}

// Write inserts API tuples through the real mapper + manager.
func (e *Env) Write(ts ...*ketoapi.RelationTuple) error {
	if len(ts) == 0 {
		return nil
	}
	its, err := e.Reg.Mapper().FromTuple(e.Ctx, ts...)
	if err != nil {
		return err
	}
	return e.Reg.RelationTupleManager().WriteRelationTuples(e.Ctx, its...)
}

// ---------------------------------------------------------------------------
// full-state dump through a second database/sql handle on the same DSN

func (e *Env) rawDB() (*sql.DB, error) {
	d := strings.TrimPrefix(e.DSN, "sqlite://")
	return sql.Open("sqlite3", d)
}

// Dump returns one line per row of every user table, sorted; byte-level state.
func (e *Env) Dump() ([]string, error) {
	c, err := e.Reg.PopConnection(e.Ctx)
	if err != nil {
		return nil, err
	}
	return dumpVia(func(q string) (*sql.Rows, error) { return c.Store.SQLDB().Query(q) })
}

func dumpVia(query func(q string) (*sql.Rows, error)) ([]string, error) {
	rows, err := query("SELECT name FROM sqlite_master WHERE type='table' AND name NOT LIKE 'sqlite_%' ORDER BY name")
	if err != nil {
		return nil, err
	}
	var tables []string
	for rows.Next() {
		var n string
		if err := rows.Scan(&n); err != nil {
			rows.Close()
			return nil, err
		}
		tables = append(tables, n)
	}
	rows.Close()
	var out []string
	for _, tbl := range tables {
		if tbl == "schema_migration" {
			continue
		}
		rs, err := query("SELECT * FROM " + tbl)
		if err != nil {
			return nil, err
		}
		cols, _ := rs.Columns()
		var lines []string
		for rs.Next() {
			vals := make([]any, len(cols))
			ptrs := make([]any, len(cols))
			for i := range vals {
				ptrs[i] = &vals[i]
			}
			if err := rs.Scan(ptrs...); err != nil {
				rs.Close()
				return nil, err
			}
			var sb strings.Builder
			sb.WriteString(tbl)
			for i, v := range vals {
				if cols[i] == "commit_time" {
					continue
				}
				sb.WriteString("|")
				switch x := v.(type) {
				case []byte:
					fmt.Fprintf(&sb, "%q", string(x))
				case string:
					fmt.Fprintf(&sb, "%q", x)
				case nil:
					sb.WriteString("NULL")
				default:
					fmt.Fprintf(&sb, "%v", x)
				}
			}
			lines = append(lines, sb.String())
		}
		rs.Close()
		sort.Strings(lines)
		out = append(out, lines...)
	}
	return out, nil
}

func diffDumps(a, b []string) string {
	ma := map[string]int{}
	for _, x := range a {
		ma[x]++
	}
	for _, x := range b {
		ma[x]--
	}
	var minus, plus []string
	for k, v := range ma {
		for ; v > 0; v-- {
			minus = append(minus, k)
		}
		for ; v < 0; v++ {
			plus = append(plus, k)
		}
	}
	sort.Strings(minus)
	sort.Strings(plus)
	if len(minus)+len(plus) == 0 {
		return ""
	}
	trunc := func(s []string) []string {
		if len(s) > 6 {
			return append(s[:6:6], fmt.Sprintf("... (%d more)", len(s)-6))
		}
		return s
	}
	return fmt.Sprintf("removed=%v added=%v", trunc(minus), trunc(plus))
}

// ---------------------------------------------------------------------------
// instrumented storage: wraps the real Manager + Traverser

type storeEvent struct {
	Seq  int64  `json:"seq"`
	Op   string `json:"op"`
	Arg  string `json:"arg,omitempty"`
	Err  string `json:"err,omitempty"`
	GID  int64  `json:"-"`
	Done bool   `json:"-"`
}

type faultPlan struct {
	// FailAt: 1-based index of the storage call that fails (0 = none).
	FailAt int64
	// Persistent: every call from FailAt on fails.
	Persistent bool
	Err        error
	// CancelAtStart / CancelAtReturn: cancel the request context when the
	// k-th call starts / returns (0 = never).
	CancelAtStart  int64
	CancelAtReturn int64
	Cancel         context.CancelFunc
	// FailOp / FailOpNth: fail the n-th call of this operation kind (Get, Exists,
	// TravExp, TravRew) instead of the FailAt-th call overall (n >= 1)
	FailOp    string
	FailOpNth int64
	opSeen    int64
}

type instrStore struct {
	mgr relationtuple.Manager
	trv relationtuple.Traverser

	mu       sync.Mutex
	seq      int64
	inflight int64
	events   []storeEvent
	plan     *faultPlan
	perturb  func(point string) // schedule perturbation at suspension points
	faulted  int64
	// calls that started after the context was cancelled
	lateCalls int64
	record    bool
	// repeats counts identical (op, args) calls since the last reset
	repeats   map[string]int
	maxRepeat int
}

func newInstrStore(mgr relationtuple.Manager, trv relationtuple.Traverser) *instrStore {
	return &instrStore{mgr: mgr, trv: trv, record: true}
}

func (s *instrStore) reset(plan *faultPlan) {
	s.mu.Lock()
	s.seq, s.events, s.plan, s.faulted, s.lateCalls = 0, nil, plan, 0, 0
	s.repeats, s.maxRepeat = map[string]int{}, 0
	s.mu.Unlock()
}

func (s *instrStore) calls() int64 {
	s.mu.Lock()
	defer s.mu.Unlock()
	return s.seq
}

func (s *instrStore) maxRepeated() int {
	s.mu.Lock()
	defer s.mu.Unlock()
	return s.maxRepeat
}

func (s *instrStore) inFlight() int64 {
	s.mu.Lock()
	defer s.mu.Unlock()
	return s.inflight
}

func (s *instrStore) opSequence() string {
	s.mu.Lock()
	defer s.mu.Unlock()
	var sb strings.Builder
	for _, e := range s.events {
		sb.WriteString(e.Op)
		sb.WriteString("(")
		sb.WriteString(e.Arg)
		sb.WriteString(");")
	}
	return sb.String()
}

func (s *instrStore) opKinds() []string {
	s.mu.Lock()
	defer s.mu.Unlock()
	out := make([]string, len(s.events))
	for i, e := range s.events {
		out[i] = e.Op
	}
	return out
}

// enter registers a call; returns its sequence number and an injected error (if any).
func (s *instrStore) enter(ctx context.Context, op, arg string) (int64, error) {
	s.mu.Lock()
	s.seq++
	k := s.seq
	s.inflight++
	if s.record {
		s.events = append(s.events, storeEvent{Seq: k, Op: op, Arg: arg})
	}
	if s.repeats != nil {
		n := s.repeats[op+"|"+arg] + 1
		s.repeats[op+"|"+arg] = n
		if n > s.maxRepeat {
			s.maxRepeat = n
		}
	}
	if ctx.Err() != nil {
		s.lateCalls++
	}
	p := s.plan
	var ferr error
	if p != nil {
		if p.CancelAtStart == k && p.Cancel != nil {
			p.Cancel()
		}
		if p.FailAt > 0 && (k == p.FailAt || (p.Persistent && k > p.FailAt)) {
			ferr = p.Err
			s.faulted++
		}
		if p.FailOp != "" && op == p.FailOp {
			p.opSeen++
			if p.opSeen == p.FailOpNth || (p.Persistent && p.opSeen > p.FailOpNth) {
				ferr = p.Err
				s.faulted++
			}
		}
	}
	pf := s.perturb
	s.mu.Unlock()
	if pf != nil {
		pf("store.enter")
	}
	return k, ferr
}

func (s *instrStore) exit(k int64, err error) {
	pf := s.perturb
	if pf != nil {
		pf("store.exit")
	}
	s.mu.Lock()
	s.inflight--
	if s.record && err != nil && int(k) <= len(s.events) {
		s.events[k-1].Err = err.Error()
	}
	p := s.plan
	if p != nil && p.CancelAtReturn == k && p.Cancel != nil {
		p.Cancel()
	}
	s.mu.Unlock()
}

func qdigest(q *relationtuple.RelationQuery) string {
	var sb strings.Builder
	if q.Namespace != nil {
		sb.WriteString(*q.Namespace)
	}
	sb.WriteString(":")
	if q.Object != nil {
		sb.WriteString(q.Object.String()[:8])
	}
	sb.WriteString("#")
	if q.Relation != nil {
		sb.WriteString(*q.Relation)
	}
	if q.Subject != nil {
		sb.WriteString("@")
		s := q.Subject.String()
		if len(s) > 8 {
			if _, ok := q.Subject.(*relationtuple.SubjectID); ok {
				s = s[:8]
			}
		}
		sb.WriteString(s)
	}
	return sb.String()
}

func tdigest(t *relationtuple.RelationTuple) string { return qdigest(t.ToQuery()) }

func (s *instrStore) GetRelationTuples(ctx context.Context, q *relationtuple.RelationQuery, options ...xPaginationOptionSetter) ([]*relationtuple.RelationTuple, string, error) {
	k, ferr := s.enter(ctx, "Get", qdigest(q))
	if ferr != nil {
		s.exit(k, ferr)
		return nil, "", ferr
	}
	r, n, err := s.mgr.GetRelationTuples(ctx, q, options...)
	s.exit(k, err)
	return r, n, err
}

func (s *instrStore) ExistsRelationTuples(ctx context.Context, q *relationtuple.RelationQuery) (bool, error) {
	k, ferr := s.enter(ctx, "Exists", qdigest(q))
	if ferr != nil {
		s.exit(k, ferr)
		return false, ferr
	}
	r, err := s.mgr.ExistsRelationTuples(ctx, q)
	s.exit(k, err)
	return r, err
}

func (s *instrStore) WriteRelationTuples(ctx context.Context, rs ...*relationtuple.RelationTuple) error {
	return s.mgr.WriteRelationTuples(ctx, rs...)
}
func (s *instrStore) DeleteRelationTuples(ctx context.Context, rs ...*relationtuple.RelationTuple) error {
	return s.mgr.DeleteRelationTuples(ctx, rs...)
}
func (s *instrStore) DeleteAllRelationTuples(ctx context.Context, q *relationtuple.RelationQuery) error {
	return s.mgr.DeleteAllRelationTuples(ctx, q)
}
func (s *instrStore) TransactRelationTuples(ctx context.Context, ins []*relationtuple.RelationTuple, del []*relationtuple.RelationTuple) error {
	return s.mgr.TransactRelationTuples(ctx, ins, del)
}

func (s *instrStore) TraverseSubjectSetExpansion(ctx context.Context, t *relationtuple.RelationTuple) ([]*relationtuple.TraversalResult, error) {
	k, ferr := s.enter(ctx, "TravExp", tdigest(t))
	if ferr != nil {
		s.exit(k, ferr)
		return nil, ferr
	}
	r, err := s.trv.TraverseSubjectSetExpansion(ctx, t)
	s.exit(k, err)
	return r, err
}

func (s *instrStore) TraverseSubjectSetRewrite(ctx context.Context, t *relationtuple.RelationTuple, css []string) ([]*relationtuple.TraversalResult, error) {
	k, ferr := s.enter(ctx, "TravRew", tdigest(t)+"/"+strings.Join(css, ","))
	if ferr != nil {
		s.exit(k, ferr)
		return nil, ferr
	}
	r, err := s.trv.TraverseSubjectSetRewrite(ctx, t, css)
	s.exit(k, err)
	return r, err
}

// engineDeps gives the engines the registry's real dependencies with the
// storage seams replaced by the instrumented store.
type engineDeps struct {
	*driver.RegistryDefault
	store *instrStore
}

func (d *engineDeps) RelationTupleManager() relationtuple.Manager { return d.store }
func (d *engineDeps) Traverser() relationtuple.Traverser          { return d.store }

var (
	_ check.EngineDependencies  = (*engineDeps)(nil)
	_ expand.EngineDependencies = (*engineDeps)(nil)
	_ persistence.Provider      = (*engineDeps)(nil)
)

func (e *Env) instrumented() (*instrStore, *check.Engine, *expand.Engine) {
	st := newInstrStore(e.Reg.RelationTupleManager(), e.Reg.Traverser())
	d := &engineDeps{RegistryDefault: e.Reg, store: st}
	return st, check.NewEngine(d), expand.NewEngine(d)
}

// fixed-network contextualizer for C06 wiring (i)
type ctxNetworkKey struct{}

type netContextualizer struct{}

func (netContextualizer) Network(ctx context.Context, def uuid.UUID) uuid.UUID {
	if n, ok := ctx.Value(ctxNetworkKey{}).(uuid.UUID); ok {
		return n
	}
	return def
}
func (netContextualizer) Config(_ context.Context, c *configx.Provider) *configx.Provider { return c }

// injectStatementFault makes INSERT and/or DELETE statements on the relationship
// table fail below keto (SQLite BEFORE-row triggers with RAISE(ABORT)); undo
// removes the triggers. kind: insert | delete | both.
func (e *Env) injectStatementFault(kind string) (undo func() error, err error) {
	conn, err := e.Reg.PopConnection(e.Ctx)
	if err != nil {
		return nil, err
	}
	var names []string
	mk := func(name, ev string) error {
		if err := conn.RawQuery("CREATE TRIGGER " + name + " BEFORE " + ev + " ON keto_relation_tuples BEGIN SELECT RAISE(ABORT, 'verif: injected statement failure'); END").Exec(); err != nil {
			return err
		}
		names = append(names, name)
		return nil
	}
	undo = func() error {
		var first error
		for _, n := range names {
			if err := conn.RawQuery("DROP TRIGGER IF EXISTS " + n).Exec(); err != nil && first == nil {
				first = err
			}
		}
		return first
	}
	if kind == "insert" || kind == "both" {
		if err := mk("verif_fault_ins", "INSERT"); err != nil {
			_ = undo()
			return nil, err
		}
	}
	if kind == "delete" || kind == "both" {
		if err := mk("verif_fault_del", "DELETE"); err != nil {
			_ = undo()
			return nil, err
		}
	}
	return undo, nil
}

// ---------------------------------------------------------------------------
// OPL documents served over loopback HTTP: ONE path, the document chosen by the
// query string (http://127.0.0.1:port/namespaces.ts?doc=17), the way a
// configuration service or a pre-signed URL would serve tenants / versions.

var (
	oplHTTPOnce sync.Once
	oplHTTPSrv  *httptest.Server
	oplHTTPDocs sync.Map // id -> text
	oplHTTPNext atomic.Int64
)

func oplHTTPLocation(text string) string {
	oplHTTPOnce.Do(func() {
		oplHTTPSrv = httptest.NewServer(http.HandlerFunc(func(w http.ResponseWriter, r *http.Request) {
			if v, ok := oplHTTPDocs.Load(r.URL.Query().Get("doc")); ok {
				_, _ = io.WriteString(w, v.(string))
				return
			}
			http.NotFound(w, r)
		}))
	})
	id := fmt.Sprint(oplHTTPNext.Add(1))
	oplHTTPDocs.Store(id, text)
	return oplHTTPSrv.URL + "/namespaces.ts?doc=" + id
}
