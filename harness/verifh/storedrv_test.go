package verifh

// Drivers for the write / list / check / expand API of one network, used by the
// store monitors C04, C06, C07. Every driver runs REAL keto code:
//
//   restDriver  the registry's REST routers (httpDoCtx: server-style request,
//               per-request deadline, parent context = the case context, which
//               may carry the network id for a contextualized registry)
//   grpcDriver  the registry's gRPC servers over bufconn (newGRPC); optional
//               outgoing metadata (network id for a contextualized registry)
//   mgrDriver   the handler-level path without a transport: Mapper + Manager +
//               Transactor + check/expand engines (what the handlers call), on
//               either the registry's own persister or a second sql.Persister
//               with its own network id (keto's IsolationTest wiring)
//
// A driver answers with a class: ok | notfound | client | server | panic | timeout.

import (
	"context"
	"encoding/json"
	"errors"
	"fmt"
	"net/http"
	"net/url"
	"os"
	"strconv"
	"time"

	"github.com/gofrs/uuid"
	"google.golang.org/grpc/codes"
	"google.golang.org/grpc/metadata"
	"google.golang.org/grpc/status"

	"github.com/ory/keto/internal/check"
	"github.com/ory/keto/internal/driver"
	"github.com/ory/keto/internal/expand"
	"github.com/ory/keto/internal/persistence"
	ksql "github.com/ory/keto/internal/persistence/sql"
	"github.com/ory/keto/internal/relationtuple"
	"github.com/ory/keto/internal/x"
	"github.com/ory/keto/ketoapi"
	rts "github.com/ory/keto/proto/ory/keto/relation_tuples/v1alpha2"
)

// ---------------------------------------------------------------------------
// operations

type storeOp struct {
	Kind string `json:"kind"` // create | delete-query | patch
	// Via: rest | grpc | grpc-deprecated (delete-query only) | mgr
	Via  string `json:"via"`
	Flaw string `json:"flaw,omitempty"` // why the model expects a rejection ("" = valid)
	// Fault: a statement failure injected BELOW keto while the request runs (SQLite
	// trigger on the relationship table): insert | delete | both. The request may
	// fail (no effect) or succeed (the failing statement was not needed).
	Fault  string                 `json:"fault,omitempty"`
	Tuple  *Tup                   `json:"tuple,omitempty"`
	Query  *ketoapi.RelationQuery `json:"query,omitempty"`
	Deltas []*ketoapi.PatchDelta  `json:"deltas,omitempty"`
}

func (op *storeOp) insDel() (ins, del []*Tup) {
	for _, d := range op.Deltas {
		if d.Action == ketoapi.ActionInsert {
			ins = append(ins, d.RelationTuple)
		} else {
			del = append(del, d.RelationTuple)
		}
	}
	return
}

// effQuery: the query the transport can express. The deprecated gRPC query
// message has plain strings, so "" means "field absent".
func (op *storeOp) effQuery() *ketoapi.RelationQuery {
	q := *op.Query
	if op.Via == "grpc-deprecated" {
		for _, f := range []**string{&q.Namespace, &q.Object, &q.Relation} {
			if *f != nil && **f == "" {
				*f = nil
			}
		}
	}
	return &q
}

// applyModel applies an accepted operation to the model.
func (op *storeOp) applyModel(m *refStore, net string) {
	switch op.Kind {
	case "create":
		m.create(net, op.Tuple)
	case "delete-query":
		m.deleteQuery(net, op.effQuery())
	case "patch":
		ins, del := op.insDel()
		m.transact(net, ins, del)
	}
}

// flawOf computes why a correct store must reject op ("" = it must accept it).
func flawOf(op *storeOp, knownNS map[string]bool) string {
	tupFlaw := func(t *Tup) string {
		if t == nil {
			return "nil-tuple"
		}
		if !knownNS[t.Namespace] {
			return "unknown-namespace"
		}
		if t.SubjectID == nil && t.SubjectSet == nil {
			return "nil-subject"
		}
		if t.SubjectSet != nil && !knownNS[t.SubjectSet.Namespace] {
			return "unknown-subject-set-namespace"
		}
		return ""
	}
	switch op.Kind {
	case "create":
		return tupFlaw(op.Tuple)
	case "patch":
		// the handlers look at all inserts first, then at all deletes; which flaw is
		// reported does not matter, any one makes the request invalid
		for _, d := range op.Deltas {
			if f := tupFlaw(d.RelationTuple); f != "" {
				return f
			}
		}
		return ""
	case "delete-query":
		q := op.effQuery()
		if op.Via == "rest" && op.Query.Namespace == nil {
			return "rest-delete-without-namespace"
		}
		if q.Namespace != nil && !knownNS[*q.Namespace] {
			return "unknown-namespace"
		}
		if q.SubjectSet != nil && !knownNS[q.SubjectSet.Namespace] {
			return "unknown-subject-set-namespace"
		}
		return ""
	}
	return "unknown-kind"
}

type opAnswer struct {
	Class string // ok | notfound | client | server | panic | timeout | harness
	Code  string // "201", "grpc:NotFound", "err:404", ...
	Text  string
}

func (a opAnswer) accepted() bool { return a.Class == "ok" }
func (a opAnswer) rejected() bool { return a.Class == "notfound" || a.Class == "client" }

func httpClass(st int) string {
	switch {
	case st == 0:
		return "panic"
	case st < 0:
		return "harness"
	case st >= 200 && st < 300:
		return "ok"
	case st == 404:
		return "notfound"
	case st >= 400 && st < 500:
		return "client"
	}
	return "server"
}

func grpcClass(err error) (string, string) {
	if err == nil {
		return "ok", "grpc:OK"
	}
	c := status.Code(err)
	code := "grpc:" + c.String()
	switch c {
	case codes.NotFound:
		return "notfound", code
	case codes.InvalidArgument, codes.FailedPrecondition, codes.OutOfRange, codes.AlreadyExists, codes.PermissionDenied, codes.Unauthenticated, codes.ResourceExhausted:
		return "client", code
	case codes.DeadlineExceeded, codes.Canceled:
		return "timeout", code
	}
	return "server", code
}

func goErrClass(ctx context.Context, err error) (string, string) {
	if err == nil {
		return "ok", "err:nil"
	}
	if ctx.Err() != nil || errors.Is(err, context.DeadlineExceeded) || errors.Is(err, context.Canceled) {
		return "timeout", "err:ctx"
	}
	var sc interface{ StatusCode() int }
	if errors.As(err, &sc) {
		st := sc.StatusCode()
		return httpClass(st), "err:" + strconv.Itoa(st)
	}
	return "server", "err:plain"
}

type pageAnswer struct {
	opAnswer
	Rows []*Tup
	Next string
}

type checkAnswer struct {
	opAnswer
	Allowed bool
}

type expandAnswer struct {
	opAnswer
	Tree *xnode // nil = empty answer (REST 404 / gRPC response without tree)
}

type storeDriver interface {
	name() string
	apply(op *storeOp) opAnswer
	// page fetches one page; size < 0 is sent as is; sizeSet=false omits the size.
	page(q *ketoapi.RelationQuery, size int, sizeSet bool, token string) pageAnswer
	check(t *Tup, depth int) checkAnswer
	expand(ss *ketoapi.SubjectSet, depth int) expandAnswer
}

// listAll follows next_page_token to the end.
func listAll(d storeDriver, q *ketoapi.RelationQuery, size int) (rows []*Tup, pages int, ans opAnswer) {
	token := ""
	for pages = 0; pages < 5000; {
		pa := d.page(q, size, size != 0, token)
		pages++
		if pa.Class != "ok" {
			return nil, pages, pa.opAnswer
		}
		rows = append(rows, pa.Rows...)
		if pa.Next == "" {
			return rows, pages, pa.opAnswer
		}
		token = pa.Next
	}
	return nil, pages, opAnswer{Class: "harness", Code: "no-end", Text: "pagination did not end after 5000 pages"}
}

const drvTimeout = 60 * time.Second

// ---------------------------------------------------------------------------
// REST

type restDriver struct {
	ctx   context.Context // parent of every request; may carry ctxNetworkKey
	read  http.Handler
	write http.Handler
}

func (d *restDriver) name() string { return "rest" }

func (d *restDriver) do(h http.Handler, method, target, body string) (opAnswer, string) {
	st, resp, pt := httpDoCtx(d.ctx, drvTimeout, h, method, target, body, nil)
	a := opAnswer{Class: httpClass(st), Code: strconv.Itoa(st)}
	if pt != "" {
		a.Class, a.Code, a.Text = "panic", "panic", trunc(pt, 600)
	} else if a.Class != "ok" {
		a.Text = trunc(resp, 300)
	}
	return a, resp
}

func (d *restDriver) apply(op *storeOp) opAnswer {
	var a opAnswer
	switch op.Kind {
	case "create":
		a, _ = d.do(d.write, "PUT", "/admin/relation-tuples", jsonStr(op.Tuple))
	case "delete-query":
		a, _ = d.do(d.write, "DELETE", "/admin/relation-tuples?"+op.Query.ToURLQuery().Encode(), "")
	case "patch":
		a, _ = d.do(d.write, "PATCH", "/admin/relation-tuples", jsonStr(op.Deltas))
	default:
		a = opAnswer{Class: "harness", Code: "kind"}
	}
	return a
}

func (d *restDriver) page(q *ketoapi.RelationQuery, size int, sizeSet bool, token string) pageAnswer {
	v := q.ToURLQuery()
	if sizeSet {
		v.Set("page_size", strconv.Itoa(size))
	}
	if token != "" {
		v.Set("page_token", token)
	}
	a, body := d.do(d.read, "GET", "/relation-tuples?"+v.Encode(), "")
	pa := pageAnswer{opAnswer: a}
	if a.Class != "ok" {
		return pa
	}
	var resp ketoapi.GetResponse
	if err := json.Unmarshal([]byte(body), &resp); err != nil {
		pa.Class, pa.Code, pa.Text = "server", "undecodable", "undecodable list response: "+err.Error()
		return pa
	}
	pa.Rows, pa.Next = resp.RelationTuples, resp.NextPageToken
	return pa
}

func (d *restDriver) check(t *Tup, depth int) checkAnswer {
	v := t.ToURLQuery()
	if depth != 0 {
		v.Set("max-depth", strconv.Itoa(depth))
	}
	a, body := d.do(d.read, "GET", "/relation-tuples/check/openapi?"+v.Encode(), "")
	ca := checkAnswer{opAnswer: a}
	if a.Class != "ok" {
		return ca
	}
	var resp struct {
		Allowed *bool `json:"allowed"`
	}
	if err := json.Unmarshal([]byte(body), &resp); err != nil || resp.Allowed == nil {
		ca.Class, ca.Code, ca.Text = "server", "undecodable", "undecodable check response: "+trunc(body, 200)
		return ca
	}
	ca.Allowed = *resp.Allowed
	return ca
}

func (d *restDriver) expand(ss *ketoapi.SubjectSet, depth int) expandAnswer {
	v := url.Values{"namespace": {ss.Namespace}, "object": {ss.Object}, "relation": {ss.Relation}}
	if depth != 0 {
		v.Set("max-depth", strconv.Itoa(depth))
	}
	a, body := d.do(d.read, "GET", "/relation-tuples/expand?"+v.Encode(), "")
	ea := expandAnswer{opAnswer: a}
	if a.Class != "ok" {
		return ea
	}
	var tree ketoapi.Tree[*ketoapi.RelationTuple]
	if err := json.Unmarshal([]byte(body), &tree); err != nil || tree.Tuple == nil {
		ea.Class, ea.Code, ea.Text = "server", "undecodable", fmt.Sprintf("undecodable expand response: %v %s", err, trunc(body, 200))
		return ea
	}
	ea.Tree = xnodeFromAPI(&tree)
	return ea
}

// ---------------------------------------------------------------------------
// gRPC

type grpcDriver struct {
	ctx context.Context // parent of every call (outgoing metadata attached by newGRPCDriver)
	g   *grpcClients
}

const netMetadataKey = "x-verif-network"

func newGRPCDriver(ctx context.Context, g *grpcClients, nid *uuid.UUID) *grpcDriver {
	if nid != nil {
		ctx = metadata.AppendToOutgoingContext(ctx, netMetadataKey, nid.String())
	}
	return &grpcDriver{ctx: ctx, g: g}
}

func (d *grpcDriver) name() string { return "grpc" }

func (d *grpcDriver) answer(err error) opAnswer {
	cls, code := grpcClass(err)
	a := opAnswer{Class: cls, Code: code}
	if err != nil {
		a.Text = trunc(err.Error(), 300)
	}
	return a
}

func protoQueryDeprecated(q *ketoapi.RelationQuery) (ns, obj, rel string, sub *rts.Subject) {
	return strOr(q.Namespace), strOr(q.Object), strOr(q.Relation), q.ToProto().Subject
}

func (d *grpcDriver) apply(op *storeOp) opAnswer {
	ctx, cancel := context.WithTimeout(d.ctx, drvTimeout)
	defer cancel()
	switch op.Kind {
	case "create":
		_, err := d.g.Write.TransactRelationTuples(ctx, &rts.TransactRelationTuplesRequest{RelationTupleDeltas: []*rts.RelationTupleDelta{
			{Action: rts.RelationTupleDelta_ACTION_INSERT, RelationTuple: protoTuple(op.Tuple)}}})
		return d.answer(err)
	case "patch":
		req := &rts.TransactRelationTuplesRequest{}
		for _, dl := range op.Deltas {
			act := rts.RelationTupleDelta_ACTION_INSERT
			if dl.Action == ketoapi.ActionDelete {
				act = rts.RelationTupleDelta_ACTION_DELETE
			}
			req.RelationTupleDeltas = append(req.RelationTupleDeltas, &rts.RelationTupleDelta{Action: act, RelationTuple: protoTuple(dl.RelationTuple)})
		}
		_, err := d.g.Write.TransactRelationTuples(ctx, req)
		return d.answer(err)
	case "delete-query":
		req := &rts.DeleteRelationTuplesRequest{}
		if op.Via == "grpc-deprecated" {
			ns, obj, rel, sub := protoQueryDeprecated(op.Query)
			req.Query = &rts.DeleteRelationTuplesRequest_Query{Namespace: ns, Object: obj, Relation: rel, Subject: sub} //nolint:staticcheck
		} else {
			req.RelationQuery = op.Query.ToProto()
		}
		_, err := d.g.Write.DeleteRelationTuples(ctx, req)
		return d.answer(err)
	}
	return opAnswer{Class: "harness", Code: "kind"}
}

func (d *grpcDriver) page(q *ketoapi.RelationQuery, size int, sizeSet bool, token string) pageAnswer {
	ctx, cancel := context.WithTimeout(d.ctx, drvTimeout)
	defer cancel()
	req := &rts.ListRelationTuplesRequest{RelationQuery: q.ToProto(), PageToken: token}
	if sizeSet {
		req.PageSize = int32(size)
	}
	resp, err := d.g.Read.ListRelationTuples(ctx, req)
	pa := pageAnswer{opAnswer: d.answer(err)}
	if err != nil {
		return pa
	}
	for _, pt := range resp.RelationTuples {
		t, err := (&Tup{}).FromDataProvider(pt)
		if err != nil {
			pa.Class, pa.Code, pa.Text = "server", "undecodable", "response tuple without subject"
			return pa
		}
		pa.Rows = append(pa.Rows, t)
	}
	pa.Next = resp.NextPageToken
	return pa
}

func (d *grpcDriver) check(t *Tup, depth int) checkAnswer {
	ctx, cancel := context.WithTimeout(d.ctx, drvTimeout)
	defer cancel()
	resp, err := d.g.Check.Check(ctx, &rts.CheckRequest{Tuple: protoTuple(t), MaxDepth: int32(depth)})
	ca := checkAnswer{opAnswer: d.answer(err)}
	if err == nil {
		ca.Allowed = resp.Allowed
	}
	return ca
}

func xnodeFromProto(t *rts.SubjectTree) *xnode {
	if t == nil {
		return nil
	}
	n := &xnode{Type: string(ketoapi.TreeNodeType("").FromProto(t.NodeType))}
	var subj *rts.Subject
	if t.Tuple != nil {
		subj = t.Tuple.Subject
	}
	if subj == nil {
		subj = t.Subject //nolint:staticcheck
	}
	switch ref := subj.GetRef().(type) {
	case *rts.Subject_Id:
		n.ID = sp(ref.Id)
	case *rts.Subject_Set:
		n.Set = &ketoapi.SubjectSet{Namespace: ref.Set.GetNamespace(), Object: ref.Set.GetObject(), Relation: ref.Set.GetRelation()}
	}
	for _, c := range t.Children {
		n.Kids = append(n.Kids, xnodeFromProto(c))
	}
	return n
}

func (d *grpcDriver) expand(ss *ketoapi.SubjectSet, depth int) expandAnswer {
	ctx, cancel := context.WithTimeout(d.ctx, drvTimeout)
	defer cancel()
	resp, err := d.g.Expand.Expand(ctx, &rts.ExpandRequest{Subject: rts.NewSubjectSet(ss.Namespace, ss.Object, ss.Relation), MaxDepth: int32(depth)})
	ea := expandAnswer{opAnswer: d.answer(err)}
	if err == nil && resp.Tree != nil {
		ea.Tree = xnodeFromProto(resp.Tree)
	}
	if ea.Class == "notfound" {
		// REST answers 404 for an empty subject set; gRPC answers OK without a tree.
		// An explicit NotFound here is the unknown-namespace answer: same meaning.
		ea.Tree = nil
	}
	return ea
}

// ---------------------------------------------------------------------------
// handler-level path (no transport)

type mgrDriver struct {
	label string
	ctx   context.Context
	mp    *relationtuple.Mapper
	ro    *relationtuple.Mapper
	mgr   relationtuple.Manager
	tx    interface {
		Transaction(ctx context.Context, f func(ctx context.Context) error) error
	}
	ce *check.Engine
	ee *expand.Engine
}

func newRegistryMgrDriver(ctx context.Context, reg *driver.RegistryDefault) *mgrDriver {
	return &mgrDriver{label: "mgr", ctx: ctx, mp: reg.Mapper(), ro: reg.ReadOnlyMapper(), mgr: reg.RelationTupleManager(), tx: reg.Transactor(),
		ce: reg.PermissionEngine(), ee: reg.ExpandEngine()}
}

func (d *mgrDriver) name() string { return d.label }

func (d *mgrDriver) answer(ctx context.Context, err error, pt string) opAnswer {
	if pt != "" {
		return opAnswer{Class: "panic", Code: "panic", Text: trunc(pt, 600)}
	}
	cls, code := goErrClass(ctx, err)
	a := opAnswer{Class: cls, Code: code}
	if err != nil {
		a.Text = trunc(err.Error(), 300)
	}
	return a
}

func (d *mgrDriver) apply(op *storeOp) opAnswer {
	ctx, cancel := context.WithTimeout(d.ctx, drvTimeout)
	defer cancel()
	var err error
	pt := guard(func() {
		switch op.Kind {
		case "create":
			if err = op.Tuple.Validate(); err != nil {
				return
			}
			err = d.tx.Transaction(ctx, func(ctx context.Context) error {
				its, err := d.mp.FromTuple(ctx, op.Tuple)
				if err != nil {
					return err
				}
				return d.mgr.WriteRelationTuples(ctx, its...)
			})
		case "patch":
			ins, del := op.insDel()
			err = d.tx.Transaction(ctx, func(ctx context.Context) error {
				its, err := d.mp.FromTuple(ctx, append(append([]*Tup(nil), ins...), del...)...)
				if err != nil {
					return err
				}
				return d.mgr.TransactRelationTuples(ctx, its[:len(ins)], its[len(ins):])
			})
		case "delete-query":
			var iq *relationtuple.RelationQuery
			if iq, err = d.ro.FromQuery(ctx, op.Query); err == nil {
				err = d.mgr.DeleteAllRelationTuples(ctx, iq)
			}
		default:
			err = errors.New("unknown kind")
		}
	})
	return d.answer(ctx, err, pt)
}

func (d *mgrDriver) page(q *ketoapi.RelationQuery, size int, sizeSet bool, token string) pageAnswer {
	ctx, cancel := context.WithTimeout(d.ctx, drvTimeout)
	defer cancel()
	var err error
	var rows []*Tup
	var next string
	pt := guard(func() {
		var iq *relationtuple.RelationQuery
		if iq, err = d.ro.FromQuery(ctx, q); err != nil {
			return
		}
		var opts []x.PaginationOptionSetter
		if sizeSet {
			opts = append(opts, x.WithSize(size))
		}
		if token != "" {
			opts = append(opts, x.WithToken(token))
		}
		var ir []*relationtuple.RelationTuple
		if ir, next, err = d.mgr.GetRelationTuples(ctx, iq, opts...); err != nil {
			return
		}
		rows, err = d.ro.ToTuple(ctx, ir...)
	})
	pa := pageAnswer{opAnswer: d.answer(ctx, err, pt)}
	if pa.Class == "ok" {
		pa.Rows, pa.Next = rows, next
	}
	return pa
}

func (d *mgrDriver) check(t *Tup, depth int) checkAnswer {
	ctx, cancel := context.WithTimeout(d.ctx, drvTimeout)
	defer cancel()
	var err error
	var allowed bool
	pt := guard(func() {
		var its []*relationtuple.RelationTuple
		if its, err = d.ro.FromTuple(ctx, t); err != nil {
			return
		}
		allowed, err = d.ce.CheckIsMember(ctx, its[0], depth)
	})
	return checkAnswer{opAnswer: d.answer(ctx, err, pt), Allowed: allowed}
}

func (d *mgrDriver) expand(ss *ketoapi.SubjectSet, depth int) expandAnswer {
	ctx, cancel := context.WithTimeout(d.ctx, drvTimeout)
	defer cancel()
	var err error
	var tree *xnode
	pt := guard(func() {
		var is *relationtuple.SubjectSet
		if is, err = d.ro.FromSubjectSet(ctx, ss); err != nil {
			return
		}
		var it *relationtuple.Tree
		if it, err = d.ee.BuildTree(ctx, is, depth); err != nil || it == nil {
			return
		}
		var at *ketoapi.Tree[*ketoapi.RelationTuple]
		if at, err = d.ro.ToTree(ctx, it); err == nil {
			tree = xnodeFromAPI(at)
		}
	})
	return expandAnswer{opAnswer: d.answer(ctx, err, pt), Tree: tree}
}

// ---------------------------------------------------------------------------
// a second persister (own network id) on the registry's connection, with its
// own traverser, mappers and engines — keto's IsolationTest wiring plus the
// read engines

type netDeps struct {
	*driver.RegistryDefault
	p   *ksql.Persister
	trv relationtuple.Traverser
	mgr relationtuple.Manager // p, or a wrapper around it
	mp  *relationtuple.Mapper
	ro  *relationtuple.Mapper
}

func (d *netDeps) RelationTupleManager() relationtuple.Manager  { return d.mgr }
func (d *netDeps) MappingManager() relationtuple.MappingManager { return d.p }
func (d *netDeps) Persister() persistence.Persister             { return d.p }
func (d *netDeps) Traverser() relationtuple.Traverser           { return d.trv }
func (d *netDeps) NetworkID(ctx context.Context) uuid.UUID      { return d.p.NetworkID(ctx) }
func (d *netDeps) Mapper() *relationtuple.Mapper                { return d.mp }
func (d *netDeps) ReadOnlyMapper() *relationtuple.Mapper        { return d.ro }

var (
	_ check.EngineDependencies  = (*netDeps)(nil)
	_ expand.EngineDependencies = (*netDeps)(nil)
)

func newNetDeps(ctx context.Context, reg *driver.RegistryDefault, nid uuid.UUID) (*netDeps, error) {
	p, err := ksql.NewPersister(ctx, reg, nid)
	if err != nil {
		return nil, err
	}
	d := &netDeps{RegistryDefault: reg, p: p, trv: ksql.NewTraverser(p), mgr: p}
	d.mp = &relationtuple.Mapper{D: d}
	d.ro = &relationtuple.Mapper{D: d, ReadOnly: true}
	return d, nil
}

func (d *netDeps) driver(ctx context.Context, label string) *mgrDriver {
	return &mgrDriver{label: label, ctx: ctx, mp: d.mp, ro: d.ro, mgr: d.mgr, tx: d.p, ce: check.NewEngine(d), ee: expand.NewEngine(d)}
}

// pagedDeps: the registry's dependencies with the manager replaced by keto's
// ManagerWrapper forcing a page size on every internal listing (C07).
type pagedDeps struct {
	*driver.RegistryDefault
	w *relationtuple.ManagerWrapper
}

func (d *pagedDeps) RelationTupleManager() relationtuple.Manager { return d.w }

var (
	_ check.EngineDependencies  = (*pagedDeps)(nil)
	_ expand.EngineDependencies = (*pagedDeps)(nil)
)

func newPagedDeps(reg *driver.RegistryDefault, pageSize int) *pagedDeps {
	return &pagedDeps{RegistryDefault: reg, w: relationtuple.NewManagerWrapper(nil, reg, x.WithSize(pageSize))}
}

// ---------------------------------------------------------------------------
// observation-path faults (validation of the monitors themselves)
//
// VERIF_HARNESS_FAULT=<mode> makes the drivers misreport what keto answered, so
// that one can see each monitor fail without touching keto:
//   drop-row     every 41st non-empty list page loses its first row
//   dup-row      every 41st non-empty list page repeats its first row
//   leak         every 41st list page gains a foreign tuple (C06: a tuple of B)
//   flip-check   every 23rd check answer is inverted
//   drop-child   every 7th expand answer with children loses one child
//   eat-token    every 41st page with a successor loses its next_page_token
// The variable can only turn a passing run into a failing one.

type faultDriver struct {
	storeDriver
	mode    string
	foreign []*Tup
}

// one counter per process: short cases must reach the fault period too
var faultN int

func harnessFault() string { return os.Getenv("VERIF_HARNESS_FAULT") }

func wrapFault(d storeDriver, foreign []*Tup) storeDriver {
	if m := harnessFault(); m != "" {
		return &faultDriver{storeDriver: d, mode: m, foreign: foreign}
	}
	return d
}

func wrapFaults(ds []storeDriver, foreign []*Tup) []storeDriver {
	out := make([]storeDriver, len(ds))
	for i, d := range ds {
		out[i] = wrapFault(d, foreign)
	}
	return out
}

func (f *faultDriver) page(q *ketoapi.RelationQuery, size int, sizeSet bool, token string) pageAnswer {
	pa := f.storeDriver.page(q, size, sizeSet, token)
	if pa.Class != "ok" {
		return pa
	}
	switch f.mode {
	case "drop-row":
		if len(pa.Rows) > 0 {
			if faultN++; faultN%41 == 0 {
				pa.Rows = pa.Rows[1:]
			}
		}
	case "dup-row":
		if len(pa.Rows) > 0 {
			if faultN++; faultN%41 == 0 {
				pa.Rows = append([]*Tup{pa.Rows[0]}, pa.Rows...)
			}
		}
	case "leak":
		if faultN++; faultN%41 == 0 {
			t := tupID("Doc", "leaked", "r", "x")
			for _, ft := range f.foreign {
				if matchesQuery(ft, q) {
					t = ft
					break
				}
			}
			pa.Rows = append(pa.Rows, t)
		}
	case "eat-token":
		if pa.Next != "" {
			if faultN++; faultN%41 == 0 {
				pa.Next = ""
			}
		}
	}
	return pa
}

func (f *faultDriver) check(t *Tup, depth int) checkAnswer {
	ca := f.storeDriver.check(t, depth)
	if f.mode == "flip-check" && ca.Class == "ok" {
		if faultN++; faultN%23 == 0 {
			ca.Allowed = !ca.Allowed
		}
	}
	return ca
}

func (f *faultDriver) expand(ss *ketoapi.SubjectSet, depth int) expandAnswer {
	ea := f.storeDriver.expand(ss, depth)
	if f.mode == "drop-child" && ea.Tree != nil && len(ea.Tree.Kids) > 0 {
		if faultN++; faultN%7 == 0 {
			ea.Tree.Kids = ea.Tree.Kids[1:]
		}
	}
	return ea
}

// ---------------------------------------------------------------------------
// rawDriver: the Manager / engine API below the string<->UUID mapping.
//
// keto maps every object / subject string to UUIDv5(network id, string), so two
// networks never share an object UUID when they are driven through the API: the
// `nid = ?` predicates of all statements that also name an object are shadowed.
// keto's own IsolationTest therefore writes internal tuples with the SAME UUIDs
// into both networks. rawDriver does that for whole histories: strings are
// mapped by a fixed, network-independent table (UUIDv5 of a constant), and the
// Manager, the check engine and the expand engine are called with internal
// tuples directly (no Mapper, hence no namespace validation either).

var rawNamespace = uuid.Must(uuid.FromString("6ba7b810-9dad-11d1-80b4-00c04fd430c8"))

type rawDriver struct {
	label string
	ctx   context.Context
	mgr   relationtuple.Manager
	tx    interface {
		Transaction(ctx context.Context, f func(ctx context.Context) error) error
	}
	ce    *check.Engine
	ee    *expand.Engine
	names map[uuid.UUID]string
}

func (d *rawDriver) name() string { return d.label }

func (d *rawDriver) id(s string) uuid.UUID {
	u := uuid.NewV5(rawNamespace, s)
	if d.names == nil {
		d.names = map[uuid.UUID]string{}
	}
	d.names[u] = s
	return u
}

func (d *rawDriver) str(u uuid.UUID) string {
	if s, ok := d.names[u]; ok {
		return s
	}
	return "unmapped:" + u.String()
}

func (d *rawDriver) subject(t *Tup) relationtuple.Subject {
	switch {
	case t.SubjectID != nil:
		return &relationtuple.SubjectID{ID: d.id(*t.SubjectID)}
	case t.SubjectSet != nil:
		return &relationtuple.SubjectSet{Namespace: t.SubjectSet.Namespace, Object: d.id(t.SubjectSet.Object), Relation: t.SubjectSet.Relation}
	}
	return nil
}

func (d *rawDriver) internal(ts ...*Tup) []*relationtuple.RelationTuple {
	out := make([]*relationtuple.RelationTuple, len(ts))
	for i, t := range ts {
		out[i] = &relationtuple.RelationTuple{Namespace: t.Namespace, Object: d.id(t.Object), Relation: t.Relation, Subject: d.subject(t)}
	}
	return out
}

func (d *rawDriver) query(q *ketoapi.RelationQuery) *relationtuple.RelationQuery {
	iq := &relationtuple.RelationQuery{Namespace: q.Namespace, Relation: q.Relation}
	if q.Object != nil {
		u := d.id(*q.Object)
		iq.Object = &u
	}
	if q.SubjectID != nil {
		iq.Subject = &relationtuple.SubjectID{ID: d.id(*q.SubjectID)}
	} else if q.SubjectSet != nil {
		iq.Subject = &relationtuple.SubjectSet{Namespace: q.SubjectSet.Namespace, Object: d.id(q.SubjectSet.Object), Relation: q.SubjectSet.Relation}
	}
	return iq
}

func (d *rawDriver) api(it *relationtuple.RelationTuple) *Tup {
	t := &Tup{Namespace: it.Namespace, Object: d.str(it.Object), Relation: it.Relation}
	switch s := it.Subject.(type) {
	case *relationtuple.SubjectID:
		t.SubjectID = sp(d.str(s.ID))
	case *relationtuple.SubjectSet:
		t.SubjectSet = &ketoapi.SubjectSet{Namespace: s.Namespace, Object: d.str(s.Object), Relation: s.Relation}
	}
	return t
}

func (d *rawDriver) answer(ctx context.Context, err error, pt string) opAnswer {
	return (&mgrDriver{}).answer(ctx, err, pt)
}

func (d *rawDriver) apply(op *storeOp) opAnswer {
	ctx, cancel := context.WithTimeout(d.ctx, drvTimeout)
	defer cancel()
	var err error
	pt := guard(func() {
		switch op.Kind {
		case "create":
			err = d.tx.Transaction(ctx, func(ctx context.Context) error { return d.mgr.WriteRelationTuples(ctx, d.internal(op.Tuple)...) })
		case "patch":
			ins, del := op.insDel()
			err = d.tx.Transaction(ctx, func(ctx context.Context) error {
				return d.mgr.TransactRelationTuples(ctx, d.internal(ins...), d.internal(del...))
			})
		case "delete-query":
			err = d.mgr.DeleteAllRelationTuples(ctx, d.query(op.Query))
		default:
			err = errors.New("unknown kind")
		}
	})
	return d.answer(ctx, err, pt)
}

func (d *rawDriver) page(q *ketoapi.RelationQuery, size int, sizeSet bool, token string) pageAnswer {
	ctx, cancel := context.WithTimeout(d.ctx, drvTimeout)
	defer cancel()
	var err error
	var ir []*relationtuple.RelationTuple
	var next string
	pt := guard(func() {
		var opts []x.PaginationOptionSetter
		if sizeSet {
			opts = append(opts, x.WithSize(size))
		}
		if token != "" {
			opts = append(opts, x.WithToken(token))
		}
		ir, next, err = d.mgr.GetRelationTuples(ctx, d.query(q), opts...)
	})
	pa := pageAnswer{opAnswer: d.answer(ctx, err, pt)}
	if pa.Class == "ok" {
		for _, it := range ir {
			pa.Rows = append(pa.Rows, d.api(it))
		}
		pa.Next = next
	}
	return pa
}

func (d *rawDriver) check(t *Tup, depth int) checkAnswer {
	ctx, cancel := context.WithTimeout(d.ctx, drvTimeout)
	defer cancel()
	var err error
	var allowed bool
	pt := guard(func() { allowed, err = d.ce.CheckIsMember(ctx, d.internal(t)[0], depth) })
	return checkAnswer{opAnswer: d.answer(ctx, err, pt), Allowed: allowed}
}

func (d *rawDriver) xnode(t *relationtuple.Tree) *xnode {
	if t == nil {
		return nil
	}
	n := &xnode{Type: string(t.Type)}
	switch s := t.Subject.(type) {
	case *relationtuple.SubjectID:
		n.ID = sp(d.str(s.ID))
	case *relationtuple.SubjectSet:
		n.Set = &ketoapi.SubjectSet{Namespace: s.Namespace, Object: d.str(s.Object), Relation: s.Relation}
	}
	for _, c := range t.Children {
		n.Kids = append(n.Kids, d.xnode(c))
	}
	return n
}

func (d *rawDriver) expand(ss *ketoapi.SubjectSet, depth int) expandAnswer {
	ctx, cancel := context.WithTimeout(d.ctx, drvTimeout)
	defer cancel()
	var err error
	var it *relationtuple.Tree
	pt := guard(func() {
		it, err = d.ee.BuildTree(ctx, &relationtuple.SubjectSet{Namespace: ss.Namespace, Object: d.id(ss.Object), Relation: ss.Relation}, depth)
	})
	ea := expandAnswer{opAnswer: d.answer(ctx, err, pt)}
	if ea.Class == "ok" {
		ea.Tree = d.xnode(it)
	}
	return ea
}

func (d *netDeps) rawDriver(ctx context.Context, label string) *rawDriver {
	return &rawDriver{label: label, ctx: ctx, mgr: d.mgr, tx: d.p, ce: check.NewEngine(d), ee: expand.NewEngine(d)}
}

func newRegistryRawDriver(ctx context.Context, reg *driver.RegistryDefault) *rawDriver {
	return &rawDriver{label: "raw", ctx: ctx, mgr: reg.RelationTupleManager(), tx: reg.Transactor(), ce: reg.PermissionEngine(), ee: reg.ExpandEngine()}
}

// rawFlaw: what the Manager API itself must reject (no Mapper => no namespace validation).
func rawFlaw(op *storeOp) string {
	nilSubj := func(t *Tup) bool { return t == nil || (t.SubjectID == nil && t.SubjectSet == nil) }
	switch op.Kind {
	case "create":
		if nilSubj(op.Tuple) {
			return "nil-subject"
		}
	case "patch":
		for _, d := range op.Deltas {
			if nilSubj(d.RelationTuple) {
				return "nil-subject"
			}
		}
	}
	return ""
}
