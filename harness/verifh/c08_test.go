package verifh

// C08 — all check transports agree with the engine and with each other.
//
// State: a generated configuration (C01/C02 generators: random rewrites, dense
// diamonds, chains), loaded as AST or as OPL text (sometimes strict), plus its
// relationships and a few relationships over adversarial object / subject names,
// written through the real mapper + persister. One registry serves everything.
//
// For every probe tuple t (stored tuples, generated queries, adversarial names,
// names the database never saw, unknown namespace, unknown subject-set namespace,
// undeclared relation) and every max-depth value {absent, 0, 1, 2, 3, big,
// negative} the decision of
//     engine    reg.PermissionEngine().CheckIsMember on ReadOnlyMapper.FromTuple(t)
// is compared with
//     rest-get          GET  /relation-tuples/check          (status mirrors the decision)
//     rest-get-openapi  GET  /relation-tuples/check/openapi  (always 200)
//     rest-post         POST /relation-tuples/check
//     rest-post-openapi POST /relation-tuples/check/openapi
//     grpc-tuple        CheckService.Check{tuple}
//     grpc-flat         CheckService.Check{namespace, object, relation, subject} (deprecated fields)
// and, per entry, with
//     rest-batch        POST /relation-tuples/batch/check
//     grpc-batch        CheckService.BatchCheck
//
// Oracles (decision = allowed | denied; an error answer is "no decision"):
//   D1 engine allowed  => every transport answers allowed;
//      engine denied   => every transport answers denied (an error answer is reported
//                         under its own signature class "no-decision");
//      engine error / tuple not mappable (unknown namespace) / malformed entry
//                      => no transport answers allowed.
//   D2 mirror endpoints: status 200 iff the body says allowed, 403 iff it says not
//      allowed; the openapi endpoints answer 200 for either decision.
//   B1 batches of size 0..limit are answered with exactly one result per entry, in
//      request order: results[i] is judged against the engine decision of entry i
//      (entries of one batch have different decisions by construction: stored
//      tuples, denied queries, unknown namespaces, entries without a subject), so a
//      permuted, shifted or cross-talking result array is a D1 failure at some i.
//   B2 an entry that is invalid (no subject: REST only, absent gRPC subjects are
//      C13's input; unknown namespace: both) is not allowed and leaves the other
//      entries' results as they are without it (same oracle as B1).
//   B3 a batch of limit+1 entries is refused by both batch transports or by neither
//      (and, if answered, is judged like any batch).
//
// Answers under a BINDING depth limit may legitimately differ between two runs of
// the same request (race between the pipelined sub-checks of the engine: a shared
// subject set reached deep first is cut, reached shallow first it is expanded).
// Every disagreement is therefore re-run (engine and transport interleaved,
// c08Reruns times each) and reported only when the two outcome sets are disjoint;
// otherwise it is counted as nondeterministic_under_binding_limit.
//
// A request that hits c08ReqTimeout gives no decision; the case is then abandoned
// (also after c08CaseBudget), which is counted and never judged: states on which
// one check costs fan-out^depth are C15's subject.

import (
	"context"
	"encoding/json"
	"fmt"
	"math/rand/v2"
	"net/http"
	"net/url"
	"os"
	"sort"
	"strings"
	"testing"
	"time"
	"unicode/utf8"

	"google.golang.org/grpc/status"

	"github.com/ory/keto/ketoapi"
	rts "github.com/ory/keto/proto/ory/keto/relation_tuples/v1alpha2"
)

const (
	c08Reruns     = 8
	c08ReqTimeout = 10 * time.Second
	// a state on which checks are this expensive (recursive traverse over cyclic
	// data costs fan-out^depth: C15's subject) is abandoned, never judged by the clock
	c08CaseBudget = 90 * time.Second
)

type c08Depth struct {
	Name   string `json:"name"`
	Absent bool   `json:"absent,omitempty"`
	V      int    `json:"v"`
}

var c08Depths = []c08Depth{
	{Name: "absent", Absent: true}, {Name: "0", V: 0}, {Name: "1", V: 1}, {Name: "2", V: 2}, {Name: "3", V: 3},
	{Name: "big", V: 1000000}, {Name: "negative", V: -3},
}

type c08Probe struct {
	Desc   string `json:"t"`
	Flavor string `json:"flavor"` // stored | query | adv-stored | adv-indirect | adv-other | unseen | unknown-ns | unknown-subject-ns | undeclared-relation | missing-subject
	T      *Tup   `json:"-"`
}

type c08Batch struct {
	Kind    string   `json:"kind"`
	Entries []int    `json:"entries"` // indices into Probes
	Depth   c08Depth `json:"depth"`
}

type c08Case struct {
	Variant    string `json:"variant"`
	Load       string `json:"load"` // ast | opl | opl-strict
	Cfg        *Cfg   `json:"cfg"`
	OPL        string `json:"opl,omitempty"`
	Global     int    `json:"global_max_depth"`
	BatchLimit int    `json:"max_batch_check_size"`
	// Parallel: limit.batch_check_max_parallelization (0 = not set, default 5); a
	// function of the index, not of the generator's random stream
	Parallel int         `json:"batch_check_max_parallelization"`
	Tuples   []string    `json:"tuples"`
	Probes   []*c08Probe `json:"probes"`
	Batches  []*c08Batch `json:"batches"`
	// GRPCSubst: probe index that replaces an entry without subject in the gRPC
	// rendering of a batch (an unknown-namespace entry)
	GRPCSubst int `json:"grpc_subst_for_missing_subject"`

	tuples []*Tup
}

func c08Desc(t *Tup) string {
	if t.SubjectID == nil && t.SubjectSet == nil {
		return fmt.Sprintf("%s:%s#%s@<no subject>", descStr(t.Namespace), descStr(t.Object), descStr(t.Relation))
	}
	return descTup(t)
}

func c08Adv(r *rand.Rand) string {
	for {
		s := advString(r)
		if utf8.ValidString(s) && len(s) <= 9000 {
			return s
		}
	}
}

func c08UnknownNS(r *rand.Rand, cfg *Cfg) string {
	for {
		s := pickS(r, []string{"NoSuchNamespace", "nosuch", "", " ", "doc", "USER", "Doc ", "n/a", "*", "%"}) + pickS(r, []string{"", "", "~x", "\x00"})
		if cfg.ns(s) == nil {
			return s
		}
	}
}

func genC08Case(r *rand.Rand, idx int64) *c08Case {
	var cc *checkCase
	switch idx % 4 {
	case 0:
		cc = genChainCase(r, idx)
	case 1:
		cc = genDenseCase(r, idx)
	default:
		j := (idx/4)*2 + (idx%4 - 2)
		cc = genCheckCase(r, 3*j, nil) // 3j: never the dense branch, all 8 variants
	}
	c := &c08Case{Variant: cc.Variant, Cfg: cc.Cfg, Load: "ast", BatchLimit: 8}
	if cfgIsOPLRenderable(cc.Cfg) {
		switch idx % 5 {
		case 1, 3:
			c.Load = "opl"
		case 4:
			c.Load = "opl-strict"
		}
	}
	c.Global = []int{2, 3, 5, 5, 8}[r.IntN(5)]
	if cc.Variant == "rec-ttu" && c.Global > 5 {
		c.Global = 5 // recursive traverse on cyclic data costs fan-out^depth
	}
	if r.IntN(4) == 0 {
		c.BatchLimit = 5
	}
	c.Parallel = []int{0, 1, 0, 2, 1, 0, 16, 3}[(idx/3)%8]
	c.tuples = append(c.tuples, cc.tuples...)

	add := func(t *Tup, flavor string) int {
		c.Probes = append(c.Probes, &c08Probe{T: t, Flavor: flavor, Desc: c08Desc(t)})
		return len(c.Probes) - 1
	}

	// --- adversarial names: a slot (namespace, plain relation) of the configuration
	type slot struct{ ns, rel string }
	var slots []slot
	for _, n := range c.Cfg.NS {
		if len(n.Rels) == 0 {
			slots = append(slots, slot{n.Name, pickS(r, []string{"r", "", "a b", "members"})})
		}
		for _, rd := range n.Rels {
			if rd.Rewrite == nil {
				slots = append(slots, slot{n.Name, rd.Name})
			}
		}
	}
	s := slots[r.IntN(len(slots))]
	a1, a2, a3, a4 := c08Adv(r), c08Adv(r), c08Adv(r), c08Adv(r)
	c.tuples = append(c.tuples,
		tupID(s.ns, a1, s.rel, a2),
		tupSet(s.ns, a3, s.rel, s.ns, a1, s.rel))
	add(tupID(s.ns, a1, s.rel, a2), "adv-stored")
	add(tupSet(s.ns, a3, s.rel, s.ns, a1, s.rel), "adv-stored")
	add(tupID(s.ns, a3, s.rel, a2), "adv-indirect")
	add(tupID(s.ns, a2, s.rel, a1), "adv-other")
	add(tupID(s.ns, a1, s.rel, a4), "adv-other")
	add(tupSet(s.ns, a3, s.rel, s.ns, a4, s.rel), "adv-other")

	// --- look-alikes: two DIFFERENT relationships whose printed forms coincide
	// (a subject id whose text is the printed form of a subject set); one is
	// stored, the other is not
	lkSet := tupSet(s.ns, "lk", s.rel, s.ns, "lkgroup", s.rel)
	lkID := tupID(s.ns, "lk", s.rel, lkSet.SubjectSet.String())
	c.tuples = append(c.tuples, lkSet)
	lk1 := add(cloneTup(lkSet), "lookalike-set-stored")
	lk2 := add(lkID, "lookalike-id-not-stored")

	// --- stored tuples and generated queries
	for _, i := range r.Perm(len(cc.tuples))[:minInt(3, len(cc.tuples))] {
		add(cloneTup(cc.tuples[i]), "stored")
	}
	for _, q := range cc.queries {
		add(cloneTup(q), "query")
	}
	base := c.tuples[len(c.tuples)-2] // adv-stored, if the generator produced no relationship
	if len(cc.tuples) > 0 {
		base = cc.tuples[r.IntN(len(cc.tuples))]
	}
	// --- a name the database never saw
	u := cloneTup(base)
	u.Object = fmt.Sprintf("unseen-%d", idx)
	add(u, "unseen")
	// --- unknown namespaces
	un := cloneTup(base)
	un.Namespace = c08UnknownNS(r, c.Cfg)
	add(un, "unknown-ns")
	un2 := cloneTup(cc.queries[r.IntN(len(cc.queries))])
	un2.Namespace = c08UnknownNS(r, c.Cfg)
	c.GRPCSubst = add(un2, "unknown-ns")
	us := cloneTup(base)
	us.SubjectID = nil
	us.SubjectSet = &ketoapi.SubjectSet{Namespace: c08UnknownNS(r, c.Cfg), Object: "o", Relation: "r"}
	add(us, "unknown-subject-ns")
	// --- undeclared relation of a configured namespace (engine answers with an error)
	for _, n := range c.Cfg.NS {
		if len(n.Rels) > 0 {
			ur := cloneTup(base)
			ur.Namespace, ur.Relation = n.Name, "no-such-relation"
			add(ur, "undeclared-relation")
			break
		}
	}
	nSingle := len(c.Probes)
	// --- entries without a subject (REST batches only)
	ms := cloneTup(base)
	ms.SubjectID, ms.SubjectSet = nil, nil
	missing := add(ms, "missing-subject")
	ms2 := cloneTup(un)
	ms2.SubjectID, ms2.SubjectSet = nil, nil
	add(ms2, "missing-subject")

	// --- batches
	L := c.BatchLimit
	depth := func() c08Depth { return c08Depths[r.IntN(len(c08Depths))] }
	valid := func() int { return r.IntN(nSingle) }
	randBatch := func(n int) []int {
		out := make([]int, n)
		for i := range out {
			out[i] = valid()
		}
		return out
	}
	c.Batches = append(c.Batches,
		&c08Batch{Kind: "empty", Entries: []int{}, Depth: depth()},
		&c08Batch{Kind: "limit", Entries: randBatch(L), Depth: depth()},
		&c08Batch{Kind: "limit+1", Entries: randBatch(L + 1), Depth: depth()},
		&c08Batch{Kind: "random", Entries: randBatch(1 + r.IntN(L)), Depth: depth()},
	)
	// look-alikes in one batch, in both orders (a batch may not treat them as one)
	c.Batches = append(c.Batches,
		&c08Batch{Kind: "lookalikes", Entries: []int{lk1, lk2}, Depth: depth()},
		&c08Batch{Kind: "lookalikes-reversed", Entries: []int{lk2, lk1, lk2}, Depth: depth()})
	// duplicates: one entry several times between others
	{
		n := 2 + r.IntN(L-1)
		b := randBatch(n)
		d := valid()
		for k := 0; k < 2+r.IntN(2) && k < n; k++ {
			b[r.IntN(n)] = d
		}
		c.Batches = append(c.Batches, &c08Batch{Kind: "duplicates", Entries: b, Depth: depth()})
	}
	// a batch, a shuffle of it, and the batch with an invalid entry at every position
	{
		n := 2 + r.IntN(L-1)
		// distinguishable by construction: alternate stored (allowed) / other entries
		b := make([]int, n)
		for i := range b {
			if i%2 == 0 {
				b[i] = r.IntN(2) // adv-stored
			} else {
				b[i] = valid()
			}
		}
		d := depth()
		c.Batches = append(c.Batches, &c08Batch{Kind: "base", Entries: b, Depth: d},
			&c08Batch{Kind: "shuffle", Entries: shuffled(r, b), Depth: d})
		for p := 0; p < n; p++ {
			v := append([]int(nil), b...)
			kind := "invalid-missing-subject"
			v[p] = missing + r.IntN(2)
			if p%2 == 1 {
				kind = "invalid-unknown-ns"
				v[p] = c.GRPCSubst
			}
			c.Batches = append(c.Batches, &c08Batch{Kind: fmt.Sprintf("%s@%d", kind, p), Entries: v, Depth: d})
		}
	}
	c.Tuples = make([]string, len(c.tuples))
	for i, t := range c.tuples {
		c.Tuples[i] = descTup(t)
	}
	return c
}

// ---------------------------------------------------------------------------
// outcomes

type c08Out struct {
	Kind   string `json:"kind"`   // allowed | denied | error | timeout
	Status string `json:"status"` // transport-level status ("200", "403", "grpc:NotFound", "engine", "unmappable", ...)
	Msg    string `json:"msg,omitempty"`
}

func (o c08Out) String() string {
	if o.Kind == "error" {
		return "error(" + o.Status + ")"
	}
	return o.Kind
}

func (o c08Out) allowed() bool { return o.Kind == "allowed" }

type c08Exec struct {
	env  *Env
	ctx  context.Context
	read http.Handler
	g    *grpcClients
	// bug: harness-side simulated defect, only for validating that the monitor can
	// fail (VERIF_C08_SELFTEST_BUG = flip-<single transport> | reverse-<batch transport>)
	bug string
}

func isCtxErr(s string) bool {
	return strings.Contains(s, "deadline") || strings.Contains(s, "canceled")
}

func (x *c08Exec) engine(t *Tup, d c08Depth) (out c08Out, cuts int64) {
	if t.SubjectID == nil && t.SubjectSet == nil {
		return c08Out{Kind: "error", Status: "invalid"}, 0
	}
	ctx, cancel := context.WithTimeout(x.ctx, c08ReqTimeout)
	defer cancel()
	its, err := x.env.Reg.ReadOnlyMapper().FromTuple(ctx, t)
	if err != nil {
		return c08Out{Kind: "error", Status: "unmappable", Msg: trunc(err.Error(), 120)}, 0
	}
	c0 := x.env.Hook.cuts()
	var allowed bool
	pt := guard(func() { allowed, err = x.env.Reg.PermissionEngine().CheckIsMember(ctx, its[0], d.V) })
	cuts = x.env.Hook.cuts() - c0
	switch {
	case pt != "":
		return c08Out{Kind: "error", Status: "engine-panic", Msg: trunc(pt, 200)}, cuts
	case ctx.Err() != nil || (err != nil && isCtxErr(err.Error())):
		x.env.dirty = true
		return c08Out{Kind: "timeout", Status: "engine"}, cuts
	case err != nil:
		return c08Out{Kind: "error", Status: "engine", Msg: trunc(err.Error(), 120)}, cuts
	case allowed:
		return c08Out{Kind: "allowed", Status: "engine"}, cuts
	}
	return c08Out{Kind: "denied", Status: "engine"}, cuts
}

func c08DepthQuery(v url.Values, d c08Depth) {
	if !d.Absent {
		v.Set("max-depth", fmt.Sprint(d.V))
	}
}

func restOut(st int, body, pt string) c08Out {
	switch {
	case pt != "":
		return c08Out{Kind: "error", Status: "panic", Msg: trunc(pt, 200)}
	case st == 200 || st == 403:
		var m map[string]json.RawMessage
		if err := json.Unmarshal([]byte(body), &m); err == nil {
			if raw, ok := m["allowed"]; ok {
				var b bool
				if json.Unmarshal(raw, &b) == nil {
					if b {
						return c08Out{Kind: "allowed", Status: fmt.Sprint(st)}
					}
					return c08Out{Kind: "denied", Status: fmt.Sprint(st)}
				}
			}
		}
	case st == 499 || st == 504 || (st >= 500 && isCtxErr(body)):
		return c08Out{Kind: "timeout", Status: fmt.Sprint(st)}
	}
	return c08Out{Kind: "error", Status: fmt.Sprint(st), Msg: trunc(body, 160)}
}

func grpcOut(ctx context.Context, allowed bool, err error) c08Out {
	switch {
	case ctx.Err() != nil:
		return c08Out{Kind: "timeout", Status: "grpc"}
	case err != nil:
		return c08Out{Kind: "error", Status: "grpc:" + status.Code(err).String(), Msg: trunc(err.Error(), 160)}
	case allowed:
		return c08Out{Kind: "allowed", Status: "grpc:OK"}
	}
	return c08Out{Kind: "denied", Status: "grpc:OK"}
}

var c08Singles = []string{"rest-get", "rest-get-openapi", "rest-post", "rest-post-openapi", "grpc-tuple", "grpc-flat"}

func (x *c08Exec) single(tr string, t *Tup, d c08Depth) c08Out {
	var out c08Out
	switch tr {
	case "rest-get", "rest-get-openapi":
		v := t.ToURLQuery()
		c08DepthQuery(v, d)
		path := "/relation-tuples/check"
		if tr == "rest-get-openapi" {
			path += "/openapi"
		}
		st, body, pt := httpDoCtx(x.ctx, c08ReqTimeout, x.read, "GET", path+"?"+v.Encode(), "", nil)
		out = restOut(st, body, pt)
	case "rest-post", "rest-post-openapi":
		v := url.Values{}
		c08DepthQuery(v, d)
		path := "/relation-tuples/check"
		if tr == "rest-post-openapi" {
			path += "/openapi"
		}
		if len(v) > 0 {
			path += "?" + v.Encode()
		}
		st, body, pt := httpDoCtx(x.ctx, c08ReqTimeout, x.read, "POST", path, jsonStr(t), map[string]string{"Content-Type": "application/json"})
		out = restOut(st, body, pt)
	case "grpc-tuple", "grpc-flat":
		ctx, cancel := context.WithTimeout(x.ctx, c08ReqTimeout)
		req := &rts.CheckRequest{MaxDepth: int32(d.V)}
		if tr == "grpc-flat" {
			req.Namespace, req.Object, req.Relation, req.Subject = t.Namespace, t.Object, t.Relation, protoSubject(t) //nolint:staticcheck
		} else {
			req.Tuple = protoTuple(t)
		}
		resp, err := x.g.Check.Check(ctx, req)
		out = grpcOut(ctx, resp.GetAllowed(), err)
		cancel()
	}
	if x.bug == "flip-"+tr && (out.Kind == "allowed" || out.Kind == "denied") {
		if out.Kind == "allowed" {
			out.Kind = "denied"
		} else {
			out.Kind = "allowed"
		}
	}
	return out
}

// batch sends ts as one batch. whole describes the request-level answer
// ("ok", or an error / refusal); outs has one outcome per returned result.
func (x *c08Exec) batch(tr string, ts []*Tup, d c08Depth) (outs []c08Out, whole c08Out) {
	switch tr {
	case "rest-batch":
		v := url.Values{}
		c08DepthQuery(v, d)
		path := "/relation-tuples/batch/check"
		if len(v) > 0 {
			path += "?" + v.Encode()
		}
		if ts == nil {
			ts = []*Tup{}
		}
		st, body, pt := httpDoCtx(x.ctx, c08ReqTimeout, x.read, "POST", path, jsonStr(map[string]any{"tuples": ts}), map[string]string{"Content-Type": "application/json"})
		switch {
		case pt != "":
			return nil, c08Out{Kind: "error", Status: "panic", Msg: trunc(pt, 200)}
		case st != 200:
			if st >= 500 && isCtxErr(body) {
				return nil, c08Out{Kind: "timeout", Status: fmt.Sprint(st)}
			}
			return nil, c08Out{Kind: "error", Status: fmt.Sprint(st), Msg: trunc(body, 160)}
		}
		var resp struct {
			Results []*struct {
				Allowed *bool  `json:"allowed"`
				Error   string `json:"error"`
			} `json:"results"`
		}
		if err := json.Unmarshal([]byte(body), &resp); err != nil {
			return nil, c08Out{Kind: "error", Status: "200-undecodable", Msg: trunc(body, 160)}
		}
		for _, r := range resp.Results {
			switch {
			case r == nil || r.Allowed == nil:
				outs = append(outs, c08Out{Kind: "error", Status: "entry-without-allowed"})
			case *r.Allowed && r.Error != "":
				outs = append(outs, c08Out{Kind: "allowed", Status: "entry-allowed-with-error", Msg: trunc(r.Error, 120)})
			case *r.Allowed:
				outs = append(outs, c08Out{Kind: "allowed", Status: "entry"})
			case r.Error != "" && isCtxErr(r.Error):
				outs = append(outs, c08Out{Kind: "timeout", Status: "entry"})
			case r.Error != "":
				outs = append(outs, c08Out{Kind: "error", Status: "entry-error", Msg: trunc(r.Error, 120)})
			default:
				outs = append(outs, c08Out{Kind: "denied", Status: "entry"})
			}
		}
	case "grpc-batch":
		ctx, cancel := context.WithTimeout(x.ctx, c08ReqTimeout)
		defer cancel()
		req := &rts.BatchCheckRequest{MaxDepth: int32(d.V)}
		for _, t := range ts {
			req.Tuples = append(req.Tuples, protoTuple(t))
		}
		resp, err := x.g.Check.BatchCheck(ctx, req)
		if ctx.Err() != nil {
			return nil, c08Out{Kind: "timeout", Status: "grpc"}
		}
		if err != nil {
			return nil, c08Out{Kind: "error", Status: "grpc:" + status.Code(err).String(), Msg: trunc(err.Error(), 160)}
		}
		for _, r := range resp.Results {
			switch {
			case r == nil:
				outs = append(outs, c08Out{Kind: "error", Status: "entry-nil"})
			case r.Allowed && r.Error != "":
				outs = append(outs, c08Out{Kind: "allowed", Status: "entry-allowed-with-error", Msg: trunc(r.Error, 120)})
			case r.Allowed:
				outs = append(outs, c08Out{Kind: "allowed", Status: "entry"})
			case r.Error != "" && isCtxErr(r.Error):
				outs = append(outs, c08Out{Kind: "timeout", Status: "entry"})
			case r.Error != "":
				outs = append(outs, c08Out{Kind: "error", Status: "entry-error", Msg: trunc(r.Error, 120)})
			default:
				outs = append(outs, c08Out{Kind: "denied", Status: "entry"})
			}
		}
	}
	if x.bug == "reverse-"+tr {
		for i, j := 0, len(outs)-1; i < j; i, j = i+1, j-1 {
			outs[i], outs[j] = outs[j], outs[i]
		}
	}
	return outs, c08Out{Kind: "ok", Status: "ok"}
}

// c08Agree is oracle D1; class is "" when e and x agree.
func c08Agree(e, x c08Out) (class string) {
	switch e.Kind {
	case "allowed":
		if x.Kind != "allowed" {
			return "decision-differs"
		}
	case "denied":
		switch x.Kind {
		case "allowed":
			return "decision-differs"
		case "error":
			return "no-decision"
		}
	default: // engine error, unmappable, invalid
		if x.Kind == "allowed" {
			if e.Status == "unmappable" || e.Status == "invalid" {
				return "allowed-" + e.Status
			}
			return "decision-differs"
		}
	}
	return ""
}

// sigKind: outcome as it appears in signatures (kind, plus the transport status of an error answer).
func (o c08Out) sigKind() string {
	if o.Kind == "error" {
		return "error[" + o.Status + "]"
	}
	return o.Kind
}

type c08Mon struct {
	run  *runner
	idx  int64
	c    *c08Case
	x    *c08Exec
	fail bool
	seen map[string]int

	engCache map[string]c08Out
	engCuts  map[string]int64

	start     time.Time
	abandoned string // reason; the rest of the case is skipped (counted, not judged)
}

// giveUp reports whether the rest of the case is to be skipped: a request timed
// out (every further request on this state may cost the full timeout) or the
// case used up its time budget. Skipping affects coverage only, never a verdict.
func (m *c08Mon) giveUp() bool {
	if m.abandoned == "" && time.Since(m.start) > c08CaseBudget {
		m.abandoned = "time_budget"
	}
	return m.abandoned != ""
}

func (m *c08Mon) violate(sub, sig, summary string, detail any) {
	m.fail = true
	m.seen[sig]++
	if m.seen[sig] > 3 {
		m.run.count("violations_beyond_3_per_signature", 1)
		return
	}
	m.run.violate(violation{Index: m.idx, Sub: sub, Sig: sig, Summary: trunc(summary, 900), Case: m.c, Detail: detail})
}

func (m *c08Mon) engineDecision(pi int, d c08Depth) (c08Out, int64) {
	k := fmt.Sprintf("%d/%s", pi, d.Name)
	if o, ok := m.engCache[k]; ok {
		return o, m.engCuts[k]
	}
	o, cuts := m.x.engine(m.c.Probes[pi].T, d)
	m.engCache[k], m.engCuts[k] = o, cuts
	return o, cuts
}

// recheck re-runs both sides interleaved; reports whether the outcome sets are
// disjoint (a reproducible disagreement) and the sets.
func (m *c08Mon) recheck(e0, x0 c08Out, engine func() c08Out, transport func() c08Out) (disjoint bool, setE, setX map[string]int) {
	setE = map[string]int{e0.String(): 1}
	setX = map[string]int{x0.String(): 1}
	for k := 0; k < c08Reruns; k++ {
		setE[engine().String()]++
		setX[transport().String()]++
	}
	delete(setE, "timeout")
	delete(setX, "timeout")
	// compare as decisions: an outcome pair that agrees under D1 makes the sets overlap
	for ke := range setE {
		for kx := range setX {
			if c08Agree(c08FromString(ke), c08FromString(kx)) == "" {
				return false, setE, setX
			}
		}
	}
	return len(setE) > 0 && len(setX) > 0, setE, setX
}

func c08FromString(s string) c08Out {
	if strings.HasPrefix(s, "error(") {
		return c08Out{Kind: "error", Status: strings.TrimSuffix(strings.TrimPrefix(s, "error("), ")")}
	}
	return c08Out{Kind: s}
}

// judge applies D1 to one (probe, depth, transport) observation.
func (m *c08Mon) judge(sub, tr string, pi int, d c08Depth, e c08Out, cuts int64, x c08Out, again func() c08Out) {
	run := m.run
	run.eval(1)
	if e.Kind == "timeout" || x.Kind == "timeout" {
		run.count("timeout_no_decision", 1)
		if m.abandoned == "" {
			m.abandoned = "request_timeout"
		}
		return
	}
	cls := c08Agree(e, x)
	if cls == "" {
		return
	}
	p := m.c.Probes[pi]
	// cut events are counted over the whole re-check (engine and transport runs of
	// this process are sequential, so the hook delta belongs to them)
	h0 := m.x.env.Hook.cuts()
	disjoint, setE, setX := m.recheck(e, x, func() c08Out {
		o, _ := m.x.engine(p.T, d)
		return o
	}, again)
	cuts += m.x.env.Hook.cuts() - h0
	if !disjoint {
		if cuts > 0 {
			run.count("nondeterministic_under_binding_limit", 1)
		} else {
			run.count("nondeterministic_without_logged_cut", 1)
		}
		return
	}
	sig := fmt.Sprintf("C08:%s:%s:engine-%s/transport-%s", cls, tr, e.sigKind(), x.sigKind())
	m.violate(sub, sig,
		fmt.Sprintf("%s answers %v for %s (%s) with max-depth %s, the engine answers %v (%d runs each, interleaved; global max-depth %d, %d cut events logged)", tr, setX, p.Desc, p.Flavor, d.Name, setE, c08Reruns+1, m.c.Global, cuts),
		map[string]any{"probe": trunc(jsonStr(p.T), 2000), "flavor": p.Flavor, "depth": d, "transport": tr, "engine_outcomes": setE, "transport_outcomes": setX, "transport_first": x, "engine_first": e})
}

// mirror applies D2 to a REST single answer.
func (m *c08Mon) mirror(sub, tr string, pi int, d c08Depth, x c08Out) {
	if x.Kind != "allowed" && x.Kind != "denied" {
		return
	}
	m.run.eval(1)
	want := "200"
	if x.Kind == "denied" && !strings.HasSuffix(tr, "-openapi") {
		want = "403"
	}
	if x.Status != want {
		cls := "mirror-status"
		if strings.HasSuffix(tr, "-openapi") {
			cls = "openapi-status"
		}
		p := m.c.Probes[pi]
		m.violate(sub, fmt.Sprintf("C08:%s:%s:status-%s/body-%s", cls, tr, x.Status, x.Kind),
			fmt.Sprintf("%s answered status %s with body allowed=%v for %s (max-depth %s); expected status %s", tr, x.Status, x.Kind == "allowed", p.Desc, d.Name, want),
			map[string]any{"probe": trunc(jsonStr(p.T), 2000), "depth": d})
	}
}

func TestC08(t *testing.T) {
	run := newRunner(t, "C08")
	defer run.finish()
	p := run.p
	nCases := int64(p.pick(420, 10000))
	seen := map[string]int{}

	for idx := int64(0); idx < nCases; idx++ {
		if !p.mine(idx) {
			continue
		}
		r := p.rng(idx, "case")
		c := genC08Case(r, idx)
		run.begin(idx, "", c)
		verdict := runC08Case(run, idx, c, seen)
		run.end(idx, "", verdict)
	}
}

func runC08Case(run *runner, idx int64, c *c08Case, seen map[string]int) string {
	opts := EnvOpts{MaxDepth: c.Global, Extra: map[string]any{"limit.max_batch_check_size": c.BatchLimit}}
	if c.Parallel > 0 {
		opts.Extra["limit.batch_check_max_parallelization"] = c.Parallel
	}
	run.count(fmt.Sprintf("cases_batch_parallelization_%d", c.Parallel), 1)
	if c.Load != "ast" {
		text := (&renderStyle{FullParens: true}).render(c.Cfg)
		if _, errs := parseOPL(text); len(errs) > 0 {
			// text -> AST is C10's business; judge the transports on the AST instead
			run.count("opl_rejected_loaded_as_ast", 1)
			c.Load = "ast"
		} else {
			c.OPL = text
			opts.OPL, opts.Strict = text, c.Load == "opl-strict"
		}
	}
	if c.Load == "ast" {
		opts.Namespaces = c.Cfg.toKeto()
	}
	env, err := newEnv(run.t, opts)
	if err != nil {
		run.inconclusive(fmt.Sprintf("idx %d: env: %v", idx, err))
		return "inconclusive"
	}
	reqCtx, cancelReqs := context.WithCancel(env.Ctx)
	defer func() {
		cancelReqs()
		env.Close()
	}()
	if err := env.Write(c.tuples...); err != nil {
		run.inconclusive(fmt.Sprintf("idx %d: write: %v", idx, err))
		return "inconclusive"
	}
	g, err := newGRPC(env)
	if err != nil {
		run.inconclusive(fmt.Sprintf("idx %d: grpc: %v", idx, err))
		return "inconclusive"
	}
	defer g.Close()
	if lim := env.Reg.Config(env.Ctx).BatchCheckMaxBatchSize(); lim != c.BatchLimit {
		run.inconclusive(fmt.Sprintf("idx %d: configured batch limit %d not in effect (%d)", idx, c.BatchLimit, lim))
		return "inconclusive"
	}
	x := &c08Exec{env: env, ctx: reqCtx, read: env.Reg.ReadRouter(env.Ctx), g: g, bug: os.Getenv("VERIF_C08_SELFTEST_BUG")}
	if x.bug != "" {
		run.count("SELFTEST_BUG_ACTIVE_"+x.bug, 1)
	}
	m := &c08Mon{run: run, idx: idx, c: c, x: x, seen: seen, engCache: map[string]c08Out{}, engCuts: map[string]int64{}, start: time.Now()}
	run.count("cases_load_"+c.Load, 1)
	run.count("cases_variant_"+c.Variant, 1)

	// --- singles
	for pi, pr := range c.Probes {
		if pr.Flavor == "missing-subject" {
			continue
		}
		stored := pr.Flavor == "stored" || pr.Flavor == "adv-stored"
		for _, d := range c08Depths {
			if m.giveUp() {
				break
			}
			e, cuts := m.engineDecision(pi, d)
			run.count("engine_"+e.Kind, 1)
			if cuts > 0 {
				run.count("engine_limit_binding", 1)
			}
			if (e.Kind == "allowed" && !stored) || (cuts > 0 && e.Kind != "timeout") {
				run.nontrivial(fmt.Sprintf("%d/p%d/%s", idx, pi, d.Name))
			}
			run.setAdd("flavor_depth_engine", pr.Flavor+"/"+d.Name+"/"+e.String())
			for _, tr := range c08Singles {
				tr, d := tr, d
				if e.Kind == "timeout" || m.giveUp() {
					if m.abandoned == "" {
						m.abandoned = "request_timeout"
					}
					break
				}
				h0 := env.Hook.cuts()
				o := x.single(tr, pr.T, d)
				cutsX := env.Hook.cuts() - h0
				sub := fmt.Sprintf("p%d/%s/%s", pi, d.Name, tr)
				run.setAdd("transport_answers", tr+"/"+pr.Flavor+"/"+o.Kind+"/"+o.Status)
				run.count("answers_"+tr+"_"+o.Kind, 1)
				m.judge(sub, tr, pi, d, e, cuts+cutsX, o, func() c08Out { return x.single(tr, pr.T, d) })
				if strings.HasPrefix(tr, "rest-") {
					m.mirror(sub, tr, pi, d, o)
				}
			}
		}
	}

	// --- batches
	for bi, b := range c.Batches {
		kinds := map[string]bool{}
		for _, tr := range []string{"rest-batch", "grpc-batch"} {
			tr := tr
			if m.giveUp() {
				break
			}
			entries := append([]int(nil), b.Entries...)
			if tr == "grpc-batch" {
				for i, pi := range entries {
					if c.Probes[pi].Flavor == "missing-subject" {
						entries[i] = c.GRPCSubst
					}
				}
			}
			ts := make([]*Tup, len(entries))
			for i, pi := range entries {
				ts[i] = c.Probes[pi].T
			}
			sub := fmt.Sprintf("b%d/%s/%s", bi, b.Kind, tr)
			h0 := env.Hook.cuts()
			outs, whole := x.batch(tr, ts, b.Depth)
			cutsB := env.Hook.cuts() - h0 // any entry of the batch
			run.eval(1)
			run.count("batches_"+tr, 1)
			run.setAdd("batch_sizes", fmt.Sprintf("%s/%d", tr, len(ts)))
			if whole.Kind == "timeout" {
				run.count("timeout_no_decision", 1)
				m.abandoned = "request_timeout"
				continue
			}
			if len(ts) > c.BatchLimit {
				// B3: refused by both or by neither
				kinds[tr+"="+whole.Kind] = true
				if whole.Kind != "ok" {
					run.count("batch_over_limit_refused", 1)
					continue
				}
				run.count("batch_over_limit_answered", 1)
			} else if whole.Kind != "ok" {
				m.violate(sub, fmt.Sprintf("C08:batch-refused:%s:%s:size<=limit", tr, whole.Status),
					fmt.Sprintf("%s refused a batch of %d entries (limit %d, kind %s): %s %s", tr, len(ts), c.BatchLimit, b.Kind, whole.Status, whole.Msg),
					map[string]any{"batch": b, "answer": whole})
				continue
			}
			if len(outs) != len(ts) {
				m.violate(sub, fmt.Sprintf("C08:batch-count:%s", tr),
					fmt.Sprintf("%s returned %d results for a batch of %d entries (kind %s)", tr, len(outs), len(ts), b.Kind),
					map[string]any{"batch": b, "results": outs})
				continue
			}
			distinct := map[string]bool{}
			for i, pi := range entries {
				i := i
				e, cuts := m.engineDecision(pi, b.Depth)
				distinct[e.Kind] = true
				run.count("answers_"+tr+"-entry_"+outs[i].Kind, 1)
				if outs[i].Status == "entry-allowed-with-error" {
					run.count("batch_entry_allowed_with_error_not_judged_here", 1) // C03's clause
				}
				m.judge(fmt.Sprintf("%s/e%d", sub, i), tr+"-entry", pi, b.Depth, e, cuts+cutsB, outs[i], func() c08Out {
					o2, w2 := x.batch(tr, ts, b.Depth)
					if w2.Kind != "ok" || len(o2) != len(ts) {
						return c08Out{Kind: "error", Status: "batch-" + w2.Status}
					}
					return o2[i]
				})
			}
			if len(distinct) >= 2 {
				run.nontrivial(fmt.Sprintf("%d/b%d/%s", idx, bi, tr))
				run.count("batches_with_distinguishable_entries", 1)
			}
			if strings.HasPrefix(b.Kind, "invalid-") {
				run.count("batches_with_invalid_entry", 1)
			}
		}
		if len(kinds) == 2 && kinds["rest-batch=ok"] != kinds["grpc-batch=ok"] {
			var ks []string
			for k := range kinds {
				ks = append(ks, k)
			}
			sort.Strings(ks)
			m.violate(fmt.Sprintf("b%d/%s", bi, b.Kind), "C08:batch-limit-differs:"+strings.Join(ks, ","),
				fmt.Sprintf("a batch of %d entries (limit %d) is answered by one batch transport and refused by the other: %v", len(b.Entries), c.BatchLimit, ks),
				map[string]any{"batch": b})
		}
	}
	// --- the batch-size limit is a live setting: after batches were served under
	// the first limit it is RAISED on the running server; a batch whose size lies
	// between the two limits is then within the limit and must get one result per
	// tuple, each equal to the single check
	if m.abandoned == "" && !m.fail && len(c.Batches) > 0 && idx%2 == 0 {
		newLimit := c.BatchLimit + 4
		if err := env.Reg.Config(env.Ctx).Set("limit.max_batch_check_size", newLimit); err != nil {
			run.inconclusive(fmt.Sprintf("idx %d: raising the batch limit: %v", idx, err))
		} else {
			var pool []int
			for pi, pr := range c.Probes {
				if pr.Flavor != "missing-subject" {
					pool = append(pool, pi)
				}
			}
			size := c.BatchLimit + 2
			var entries []int
			for i := 0; len(pool) > 0 && i < size; i++ {
				entries = append(entries, pool[(i+int(idx))%len(pool)])
			}
			if len(entries) == size {
				ts := make([]*Tup, size)
				for i, pi := range entries {
					ts[i] = c.Probes[pi].T
				}
				d := c08Depths[0]
				for _, tr := range []string{"rest-batch", "grpc-batch"} {
					tr := tr
					sub := fmt.Sprintf("raised-limit/%s", tr)
					h0 := env.Hook.cuts()
					outs, whole := x.batch(tr, ts, d)
					cutsB := env.Hook.cuts() - h0
					run.eval(1)
					run.count("batches_after_the_limit_was_raised", 1)
					switch {
					case whole.Kind == "timeout":
						run.count("timeout_no_decision", 1)
					case whole.Kind != "ok":
						m.violate(sub, fmt.Sprintf("C08:batch-refused:%s:%s:size<=raised-limit", tr, whole.Status),
							fmt.Sprintf("%s refused a batch of %d entries after limit.max_batch_check_size was raised from %d to %d on the running server: %s %s", tr, size, c.BatchLimit, newLimit, whole.Status, whole.Msg),
							map[string]any{"size": size, "old_limit": c.BatchLimit, "new_limit": newLimit, "answer": whole})
					case len(outs) != size:
						m.violate(sub, fmt.Sprintf("C08:batch-count:%s", tr), fmt.Sprintf("%s returned %d results for a batch of %d entries (raised limit)", tr, len(outs), size), nil)
					default:
						for i, pi := range entries {
							i := i
							e, cuts := m.engineDecision(pi, d)
							m.judge(fmt.Sprintf("%s/e%d", sub, i), tr+"-entry", pi, d, e, cuts+cutsB, outs[i], func() c08Out {
								o2, w2 := x.batch(tr, ts, d)
								if w2.Kind != "ok" || len(o2) != len(ts) {
									return c08Out{Kind: "error", Status: "batch-" + w2.Status}
								}
								return o2[i]
							})
						}
					}
				}
			}
		}
	}
	if idx < 3 {
		run.sample(map[string]any{"index": idx, "variant": c.Variant, "load": c.Load, "config": c.Cfg, "tuples": c.Tuples[:minInt(len(c.Tuples), 12)], "probes": c.Probes, "batches": c.Batches[:minInt(len(c.Batches), 6)], "depths": c08Depths})
	}
	if m.abandoned != "" {
		run.count("cases_abandoned_"+m.abandoned, 1)
		if !m.fail {
			return "abandoned-" + m.abandoned
		}
	}
	if m.fail {
		return "violation"
	}
	return "ok"
}
