package verifh

// C14 — concurrent requests do not interfere with each other.
//
// (1) determinism: every request of a multiset returns, when run concurrently
//     with the others on unchanging data, exactly what it returns alone;
// (2) data races: the same kind of workload plus writes and namespace reloads,
//     including the first requests on a cold registry, under the race detector
//     (VERIF_MODE=race runs in the -race binary; reports are collected by the
//     supervisor from GORACE log files).

import (
	"context"
	"encoding/json"
	"fmt"
	"math/rand/v2"
	"net/http"
	"net/url"
	"os"
	"runtime"
	"sort"
	"strings"
	"sync"
	"sync/atomic"
	"testing"
	"time"

	"github.com/ory/keto/internal/driver/config"
	rts "github.com/ory/keto/proto/ory/keto/relation_tuples/v1alpha2"
)

type c14Req struct {
	Kind   string `json:"kind"`
	Target string `json:"target,omitempty"` // REST
	Body   string `json:"body,omitempty"`
	Tuple  *Tup   `json:"tuple,omitempty"` // gRPC check / expand subject set
	Depth  int32  `json:"depth,omitempty"`
}

func tupleQuery(t *Tup) url.Values { return t.ToURLQuery() }

func genC14Requests(r *rand.Rand, cc *checkCase, n int) []*c14Req {
	var reqs []*c14Req
	// few keys: requests are drawn from a small pool so that identical and
	// overlapping requests run at the same time
	var pool []*Tup
	pool = append(pool, cc.queries...)
	for i := 0; i < 6 && i < len(cc.tuples) && cc.Variant != "fork-wide"; i++ {
		pool = append(pool, cc.tuples[r.IntN(len(cc.tuples))])
	}
	for i := 0; i < n; i++ {
		t := pool[r.IntN(len(pool))]
		switch r.IntN(11) {
		case 9:
			// requests that are REFUSED: the refusal belongs to the request as well
			// (every client its own malformed page token / unknown namespace)
			switch r.IntN(3) {
			case 0:
				q := url.Values{"namespace": {t.Namespace}, "page_token": {fmt.Sprintf("not-a-token-%d", i)}}
				reqs = append(reqs, &c14Req{Kind: "rest-list", Target: "/relation-tuples?" + q.Encode()})
			case 1:
				reqs = append(reqs, &c14Req{Kind: "grpc-list", Tuple: t, Body: fmt.Sprintf("bad-token-%d", i)})
			default:
				v := tupleQuery(t)
				v.Set("namespace", fmt.Sprintf("nope%d", i))
				reqs = append(reqs, &c14Req{Kind: "rest-check", Target: "/relation-tuples/check/openapi?" + v.Encode()})
			}
		case 10:
			// a 36-character token that is not a UUID, the same for several clients
			q := url.Values{"namespace": {t.Namespace}, "page_token": {"zzzzzzzz-zzzz-zzzz-zzzz-zzzzzzzzzzzz"}, "page_size": {fmt.Sprint(1 + r.IntN(3))}}
			reqs = append(reqs, &c14Req{Kind: "rest-list", Target: "/relation-tuples?" + q.Encode()})
		case 0, 1:
			v := tupleQuery(t)
			if d := r.IntN(5); d > 0 {
				// the same tuple with different request depths at the same time
				v.Set("max-depth", fmt.Sprint(d))
			}
			reqs = append(reqs, &c14Req{Kind: "rest-check", Target: "/relation-tuples/check/openapi?" + v.Encode()})
		case 2:
			b, _ := json.Marshal(t)
			reqs = append(reqs, &c14Req{Kind: "rest-check-post", Target: "/relation-tuples/check/openapi", Body: string(b)})
		case 3:
			k := 2 + r.IntN(5)
			var ts []*Tup
			for j := 0; j < k; j++ {
				ts = append(ts, pool[r.IntN(len(pool))])
			}
			b, _ := json.Marshal(map[string]any{"tuples": ts})
			reqs = append(reqs, &c14Req{Kind: "rest-batch", Target: "/relation-tuples/batch/check", Body: string(b)})
		case 4:
			q := url.Values{"namespace": {t.Namespace}, "object": {t.Object}, "relation": {t.Relation}, "max-depth": {"4"}}
			reqs = append(reqs, &c14Req{Kind: "rest-expand", Target: "/relation-tuples/expand?" + q.Encode()})
		case 5:
			q := url.Values{"namespace": {t.Namespace}}
			if r.IntN(2) == 0 {
				q.Set("relation", t.Relation)
			}
			q.Set("page_size", fmt.Sprint(1+r.IntN(5)))
			reqs = append(reqs, &c14Req{Kind: "rest-list", Target: "/relation-tuples?" + q.Encode()})
		case 6:
			reqs = append(reqs, &c14Req{Kind: "grpc-check", Tuple: t, Depth: int32(r.IntN(5))})
		case 7:
			reqs = append(reqs, &c14Req{Kind: "grpc-expand", Tuple: t, Depth: 4})
		default:
			reqs = append(reqs, &c14Req{Kind: "grpc-list", Tuple: t})
		}
	}
	return reqs
}

func (q *c14Req) key() string {
	return q.Kind + "|" + q.Target + "|" + q.Body + "|" + fmt.Sprint(q.Tuple) + "|" + fmt.Sprint(q.Depth)
}

// c14Exec executes the request and returns a normalised answer.
func c14Exec(ctx context.Context, env *Env, read http.Handler, g *grpcClients, q *c14Req) string {
	// REST requests are served on the caller's goroutine: a handler that ignores
	// its context would keep the client forever. The request runs on its own
	// goroutine; when it has not returned 5 s after its deadline the client moves
	// on (the goroutine stays behind and shows in the profiles).
	done := make(chan string, 1)
	go func() { done <- c14ExecInner(ctx, env, read, g, q) }()
	tm := time.NewTimer(c14ReqTimeout() + 5*time.Second)
	defer tm.Stop()
	select {
	case a := <-done:
		return a
	case <-tm.C:
		env.dirty = true
		return "NO-RETURN: deadline passed 5 s ago and the request has not returned"
	}
}

func c14ExecInner(ctx context.Context, env *Env, read http.Handler, g *grpcClients, q *c14Req) string {
	switch q.Kind {
	case "rest-check", "rest-expand", "rest-list":
		st, body, pt := httpDoCtx(ctx, c14ReqTimeout(), read, "GET", q.Target, "", nil)
		if pt != "" {
			return "PANIC " + firstLine(pt)
		}
		return fmt.Sprintf("%d %s", st, body)
	case "rest-check-post", "rest-batch":
		st, body, pt := httpDoCtx(ctx, c14ReqTimeout(), read, "POST", q.Target, q.Body, nil)
		if pt != "" {
			return "PANIC " + firstLine(pt)
		}
		return fmt.Sprintf("%d %s", st, body)
	case "grpc-check":
		c, cancel := context.WithTimeout(ctx, c14ReqTimeout())
		defer cancel()
		resp, err := g.Check.Check(c, &rts.CheckRequest{Tuple: q.Tuple.ToProto(), MaxDepth: q.Depth})
		if err != nil {
			return "ERR " + err.Error()
		}
		return fmt.Sprintf("allowed=%v", resp.Allowed)
	case "grpc-expand":
		c, cancel := context.WithTimeout(ctx, c14ReqTimeout())
		defer cancel()
		resp, err := g.Expand.Expand(c, &rts.ExpandRequest{Subject: rts.NewSubjectSet(q.Tuple.Namespace, q.Tuple.Object, q.Tuple.Relation), MaxDepth: q.Depth})
		if err != nil {
			return "ERR " + err.Error()
		}
		return resp.String()
	case "grpc-list":
		c, cancel := context.WithTimeout(ctx, c14ReqTimeout())
		defer cancel()
		resp, err := g.Read.ListRelationTuples(c, &rts.ListRelationTuplesRequest{RelationQuery: &rts.RelationQuery{Namespace: &q.Tuple.Namespace, Relation: &q.Tuple.Relation}, PageSize: 3, PageToken: q.Body})
		if err != nil {
			return "ERR " + err.Error()
		}
		return resp.String()
	}
	return "?"
}

// c14Hung: set once a request was shown (state based) never to return; later
// requests of this child then get a short deadline, the child stops after a few cases.
var c14Hung atomic.Int64

func c14ReqTimeout() time.Duration {
	if c14Hung.Load() > 0 {
		return 3 * time.Second
	}
	return 30 * time.Second
}

// c14Parked lists goroutines that are blocked (channel / select / lock) inside
// keto's request-serving packages: "state@innermost keto frame".
func c14Parked() map[string]bool {
	buf := make([]byte, 4<<20)
	n := runtime.Stack(buf, true)
	out := map[string]bool{}
	for _, g := range strings.Split(string(buf[:n]), "\n\n") {
		first := g
		if i := strings.IndexByte(g, '\n'); i > 0 {
			first = g[:i]
		}
		state := ""
		for _, st := range []string{"chan send", "chan receive", "select", "semacquire", "sync.Mutex.Lock", "sync.WaitGroup.Wait", "sync.Cond.Wait"} {
			if strings.Contains(first, st) {
				state = st
				break
			}
		}
		if state == "" || strings.Contains(g, "/verifh.") && !strings.Contains(g, "github.com/ory/keto/internal/check") {
			continue
		}
		for _, l := range strings.Split(g, "\n") {
			l = strings.TrimSpace(l)
			if strings.HasPrefix(l, "github.com/ory/keto/internal/check") || strings.HasPrefix(l, "github.com/ory/keto/internal/expand") || strings.HasPrefix(l, "github.com/ory/keto/internal/relationtuple") {
				f := strings.TrimPrefix(l, "github.com/ory/keto/internal/")
				if i := strings.LastIndex(f, "("); i > 0 {
					f = f[:i]
				}
				out[state+"@"+f] = true
				break
			}
		}
	}
	return out
}

func isTransientAnswer(a string) bool {
	return strings.Contains(a, "deadline") || strings.Contains(a, "canceled") || strings.Contains(a, "database table is locked") || strings.Contains(a, "database is locked") || strings.Contains(a, "serialize access")
}

func TestC14(t *testing.T) {
	run := newRunner(t, "C14")
	defer run.finish()
	p := run.p
	raceMode := p.Mode == "race"
	rounds := int64(p.pick(48, 1200))
	if raceMode {
		rounds = int64(p.pick(32, 600))
	}
	for idx := int64(0); idx < rounds; idx++ {
		if !p.mine(idx) {
			continue
		}
		if c14Hung.Load() >= 2 {
			// requests of this server process do not return any more (reported twice)
			run.count("cases_skipped_after_requests_never_returned", 1)
			continue
		}
		r := p.rng(idx, "case")
		var cc *checkCase
		switch idx % 3 {
		case 0:
			cc = genDenseCase(r, idx*2)
		case 1:
			cc = genChainCase(r, idx)
		default:
			cc = genCheckCase(r, idx*3, nil)
		}
		nReq := 50 + r.IntN(200)
		if raceMode {
			nReq = 40 + r.IntN(60)
		}
		if idx%8 == 5 {
			cc = genForkWideCase(r)
			nReq = 24 // every request of this case is a few thousand storage calls
			if raceMode {
				nReq = 8
			}
		}
		reqs := genC14Requests(r, cc, nReq)
		desc := map[string]any{"variant": cc.Variant, "config": cc.Cfg, "tuples": cc.Tuples, "requests": len(reqs), "race_mode": raceMode}
		run.begin(idx, "", desc)
		verdict := runC14Round(run, idx, cc, reqs, raceMode)
		if idx < 3 {
			var ss []any
			for _, q := range reqs[:minInt(5, len(reqs))] {
				ss = append(ss, q)
			}
			desc["sample_requests"] = ss
			run.sample(desc)
		}
		run.end(idx, "", verdict)
	}
}

// genForkWideCase: inside ONE check a wide expansion (a group with 50-90 nested
// groups, each adding to the request's visited set) runs next to sibling
// permissions built from && and ! (each operand forks the visited set): state
// that belongs to one request but is shared between its own goroutines.
func genForkWideCase(r *rand.Rand) *checkCase {
	cc := &checkCase{Variant: "fork-wide"}
	ut := []TypeRef{{NS: "User"}, {NS: "Team", Rel: "member"}}
	nAllow := 12 + r.IntN(10)
	acl := &NSDef{Name: "Acl", Rels: []*RelDef{{Name: "deny", Types: ut}}}
	access := &Expr{Op: "and"}
	for k := 0; k < nAllow; k++ {
		rn := fmt.Sprintf("allow%d", k)
		acl.Rels = append(acl.Rels, &RelDef{Name: rn, Types: ut})
		access.Kids = append(access.Kids, &Expr{Op: "csr", Rel: rn})
	}
	access.Kids = append(access.Kids, &Expr{Op: "not", Kids: []*Expr{{Op: "csr", Rel: "deny"}}})
	acl.Rels = append(acl.Rels, &RelDef{Name: "access", Perm: true, Rewrite: access})
	cc.Cfg = &Cfg{NS: []*NSDef{{Name: "User"},
		{Name: "Team", Rels: []*RelDef{{Name: "member", Types: ut}}},
		{Name: "Folder", Rels: []*RelDef{{Name: "viewer", Types: []TypeRef{{NS: "User"}, {NS: "Team", Rel: "member"}, {NS: "Acl", Rel: "access"}}}}},
		acl}}
	folders, teams, nested, acls := 2, 4+r.IntN(3), 90+r.IntN(60), 4+r.IntN(4)
	var ts []*Tup
	for f := 0; f < folders; f++ {
		fo := fmt.Sprintf("f%d", f)
		for i := 0; i < teams; i++ {
			tm := fmt.Sprintf("t%d_%d", f, i)
			ts = append(ts, tupSet("Folder", fo, "viewer", "Team", tm, "member"))
			for j := 0; j < nested; j++ {
				ts = append(ts, tupSet("Team", tm, "member", "Team", fmt.Sprintf("n%d_%d_%d", f, i, j), "member"))
			}
		}
		for i := 0; i < acls; i++ {
			ao := fmt.Sprintf("d%d_%d", f, i)
			ts = append(ts, tupSet("Folder", fo, "viewer", "Acl", ao, "access"))
			ts = append(ts, tupID("Acl", ao, "deny", "mallory"))
			for k := 0; k < nAllow; k++ {
				ts = append(ts, tupID("Acl", ao, fmt.Sprintf("allow%d", k), "mallory"))
			}
		}
	}
	ts = append(ts, tupID("Team", "n0_0_0", "member", "alice"))
	cc.tuples = shuffled(r, ts)
	for f := 0; f < folders; f++ {
		for _, u := range []string{"mallory", "mallory", "nobody", "alice"} {
			cc.queries = append(cc.queries, tupID("Folder", fmt.Sprintf("f%d", f), "viewer", u))
		}
	}
	cc.Tuples = tupStrings(cc.tuples[:minInt(len(cc.tuples), 60)])
	cc.Queries = tupStrings(cc.queries)
	return cc
}

func runC14Round(run *runner, idx int64, cc *checkCase, reqs []*c14Req, raceMode bool) string {
	verdict := "ok"
	// generous limits: answers under a binding limit may legitimately vary
	env, err := newEnv(run.t, EnvOpts{Namespaces: cc.Cfg.toKeto(), MaxDepth: 12, MaxWidth: 200, FileDB: raceMode,
		Extra: map[string]any{config.KeyBatchCheckMaxBatchSize: 50}})
	if err != nil {
		run.inconclusive(fmt.Sprintf("idx %d: env: %v", idx, err))
		return "inconclusive"
	}
	defer env.Close()
	caseCtx, cancelCase := context.WithCancel(env.Ctx)
	defer cancelCase()
	if err := env.Write(shuffled(run.p.rng(idx, "order"), cc.tuples)...); err != nil {
		run.inconclusive(fmt.Sprintf("idx %d: write: %v", idx, err))
		return "inconclusive"
	}
	// routers and servers are built sequentially, like ServeAll does at start-up;
	// everything else in the registry is still cold when the first requests arrive
	read := env.Reg.ReadRouter(env.Ctx)
	write := env.Reg.WriteRouter(env.Ctx)
	g, err := newGRPC(env)
	if err != nil {
		run.inconclusive("grpc: " + err.Error())
		return "inconclusive"
	}
	defer g.Close()

	clients := []int{4, 16, 64}[int(idx)%3]
	gmp := []int{16, 2}[int(idx/3)%2]
	prev := runtime.GOMAXPROCS(gmp)
	defer runtime.GOMAXPROCS(prev)
	pt := &perturber{seed: uint64(idx)*104729 + 7, level: 1 + int(idx%2)}
	un := pt.install()
	defer un()

	if raceMode {
		// cold registry: the very first requests run concurrently (with writers and
		// namespace reloads); answers are not compared while data changes
		var wg sync.WaitGroup
		var ops atomic.Int64
		stop := make(chan struct{})
		for c := 0; c < clients; c++ {
			wg.Add(1)
			go func(c int) {
				defer wg.Done()
				rr := run.p.rng(idx, fmt.Sprintf("client-%d", c))
				for i := 0; i < len(reqs)/clients+1; i++ {
					_ = c14Exec(caseCtx, env, read, g, reqs[rr.IntN(len(reqs))])
					ops.Add(1)
				}
			}(c)
		}
		for wcl := 0; wcl < 2; wcl++ {
			wg.Add(1)
			go func(wcl int) {
				defer wg.Done()
				rr := run.p.rng(idx, fmt.Sprintf("writer-%d", wcl))
				for i := 0; i < 12; i++ {
					select {
					case <-stop:
						return
					default:
					}
					t := cloneTup(cc.tuples[rr.IntN(len(cc.tuples))])
					t.Object = fmt.Sprintf("w%d-%d", wcl, i)
					b, _ := json.Marshal(t)
					httpDoCtx(caseCtx, 30*time.Second, write, "PUT", "/admin/relation-tuples", string(b), nil)
					pb, _ := json.Marshal([]map[string]any{{"action": "delete", "relation_tuple": t}})
					httpDoCtx(caseCtx, 30*time.Second, write, "PATCH", "/admin/relation-tuples", string(pb), nil)
					_, _ = g.Write.TransactRelationTuples(caseCtx, &rts.TransactRelationTuplesRequest{RelationTupleDeltas: []*rts.RelationTupleDelta{{Action: rts.RelationTupleDelta_ACTION_INSERT, RelationTuple: t.ToProto()}, {Action: rts.RelationTupleDelta_ACTION_DELETE, RelationTuple: t.ToProto()}}})
					ops.Add(3)
				}
			}(wcl)
		}
		wg.Add(1)
		go func() { // namespace reloads (same content, new manager)
			defer wg.Done()
			for i := 0; i < 4; i++ {
				_ = env.SetNamespaces(cc.Cfg.toKeto())
				httpDoCtx(caseCtx, 30*time.Second, read, "GET", "/namespaces", "", nil)
				ops.Add(2)
			}
		}()
		wg.Wait()
		close(stop)
		run.eval(ops.Load())
		run.count("race_round_ops", ops.Load())
		run.nontrivial(fmt.Sprintf("race/%d", idx))
		run.count("perturbation_points_hit", pt.hits.Load())
		// fall through to the determinism part on the now quiet registry
	}

	// solo answers (three times: a request whose solo answer varies is excluded)
	distinct := map[string]*c14Req{}
	for _, q := range reqs {
		distinct[q.key()] = q
	}
	keys := make([]string, 0, len(distinct))
	for k := range distinct {
		keys = append(keys, k)
	}
	sort.Strings(keys)
	solo := map[string]string{}             // first solo answer
	soloSet := map[string]map[string]bool{} // every answer seen alone
	unstable := map[string]bool{}
	binding := map[string]bool{} // requests for which a limit was binding when run alone: not judged
	depthLimited := func(q *c14Req) bool {
		return (q.Kind == "rest-check" && strings.Contains(q.Target, "max-depth=")) || (q.Kind == "grpc-check" && q.Depth > 0)
	}
	for rep := 0; rep < 8; rep++ {
		for _, k := range keys {
			q := distinct[k]
			if rep >= 3 && !depthLimited(q) {
				continue // three runs for requests whose answer may not vary at all
			}
			cuts0 := env.Hook.cuts()
			a := c14Exec(caseCtx, env, read, g, q)
			if env.Hook.cuts() != cuts0 {
				binding[k] = true // a depth / width cut was logged while this request ran alone
			}
			if soloSet[k] == nil {
				soloSet[k] = map[string]bool{}
				solo[k] = a
			}
			soloSet[k][a] = true
			if solo[k] != a {
				unstable[k] = true
			}
		}
	}
	run.count("requests_with_unstable_solo_answer", int64(len(unstable)))
	// Alone, on unchanged data, a request must give one answer. The only
	// legitimate exception is a check whose REQUEST depth is binding (the
	// engine's answer under a binding limit may vary between runs, see DESIGN
	// §9.1); expand, list and checks under the generous global limits may not vary.
	soloReported := map[string]bool{}
	for k := range unstable {
		q := distinct[k]
		if binding[k] {
			run.count("unstable_solo_answer_under_binding_limit_not_judged", 1)
			continue
		}
		sig := "C14:solo-answer-varies:" + q.Kind
		if !soloReported[sig] {
			soloReported[sig] = true
			run.violate(violation{Index: idx, Sub: q.Kind, Sig: sig,
				Summary: fmt.Sprintf("%s request gave different answers in three runs ALONE on unchanged data (first: %q)", q.Kind, clip(solo[k], 200)),
				Case:    map[string]any{"variant": cc.Variant, "config": cc.Cfg, "tuples": cc.Tuples}, Detail: q})
		}
		verdict = "violation"
	}
	type obs struct {
		key, ans string
	}
	results := make(chan obs, len(reqs)+clients)
	var noAnswer atomic.Int64
	var wg sync.WaitGroup
	work := make(chan *c14Req, len(reqs))
	for _, q := range reqs {
		work <- q
	}
	close(work)
	for c := 0; c < clients; c++ {
		wg.Add(1)
		go func() {
			defer wg.Done()
			for q := range work {
				if noAnswer.Load() >= 3 {
					continue // requests stopped returning: the rest of the round adds nothing but waiting
				}
				a := c14Exec(caseCtx, env, read, g, q)
				if strings.Contains(a, "deadline") && !isTransientAnswer(solo[q.key()]) {
					noAnswer.Add(1)
				}
				results <- obs{q.key(), a}
			}
		}()
	}
	// neighbours that abandon their requests: check / expand requests whose
	// context is cancelled after a PRNG-chosen number of storage-level yields
	// (tiny deadlines), running next to the compared requests. Their answers are
	// not judged; whatever they leave behind must not change a neighbour's answer.
	stopCancellers := make(chan struct{})
	var cwg sync.WaitGroup
	var abandoned atomic.Int64
	nCancellers := 2
	if os.Getenv("VERIF_C14_NO_CANCELLERS") != "" {
		nCancellers = 0
	}
	for c := 0; c < nCancellers; c++ {
		cwg.Add(1)
		go func(c int) {
			defer cwg.Done()
			rr := run.p.rng(idx, fmt.Sprintf("canceller-%d", c))
			for {
				select {
				case <-stopCancellers:
					return
				default:
				}
				q := reqs[rr.IntN(len(reqs))]
				d := time.Duration(20+rr.IntN(3000)) * time.Microsecond
				cctx, cancel := context.WithTimeout(caseCtx, d)
				_ = c14Exec(cctx, env, read, g, q)
				cancel()
				abandoned.Add(1)
			}
		}(c)
	}
	wg.Wait()
	close(stopCancellers)
	cwg.Wait()
	run.count("abandoned_neighbour_requests", abandoned.Load())
	close(results)
	reported := map[string]bool{}
	var timedOut []string
	for o := range results {
		run.eval(1)
		if (strings.Contains(o.ans, "deadline") || strings.Contains(o.ans, "context canceled")) && !isTransientAnswer(solo[o.key]) {
			timedOut = append(timedOut, o.key)
		}
		if binding[o.key] {
			// answers under a binding limit may legitimately vary with the schedule
			run.count("requests_under_binding_limit_not_judged", 1)
			continue
		}
		if unstable[o.key] {
			continue // reported above
		}
		if isTransientAnswer(o.ans) || isTransientAnswer(solo[o.key]) {
			run.count("transient_storage_error_no_decision", 1)
			continue
		}
		run.nontrivial(fmt.Sprintf("%d/%s", idx, o.key))
		if !soloSet[o.key][o.ans] {
			kind := distinct[o.key].Kind
			cls := "differs"
			if strings.HasPrefix(o.ans, "PANIC") {
				cls = "panic"
			} else if strings.HasPrefix(o.ans, "5") || strings.Contains(o.ans, "Internal") {
				cls = "server-error"
			}
			sig := fmt.Sprintf("C14:concurrent-answer-%s:%s", cls, kind)
			if !reported[sig] {
				reported[sig] = true
				if os.Getenv("VERIF_DEBUG") != "" {
					again := c14Exec(caseCtx, env, read, g, distinct[o.key])
					fmt.Printf("DEBUG key=%q concurrent=%q soloSet=%v again=%q\n", o.key, clip(o.ans, 80), soloSet[o.key], clip(again, 80))
				}
				run.violate(violation{Index: idx, Sub: kind, Sig: sig,
					Summary: fmt.Sprintf("%s request answered %q alone (3x) but %q when run concurrently with %d clients on unchanged data", kind, clip(solo[o.key], 200), clip(o.ans, 200), clients),
					Case:    map[string]any{"variant": cc.Variant, "config": cc.Cfg, "tuples": cc.Tuples}, Detail: distinct[o.key]})
			}
			verdict = "violation"
		}
	}
	// A compared request (nobody cancelled it) that got no answer within its
	// deadline although it answers at once when alone: state-based verdict - some
	// goroutine is parked inside keto's request-serving code, in the same place in
	// two profiles taken half a second apart, while nothing is being requested.
	if len(timedOut) > 0 {
		p1 := c14Parked()
		time.Sleep(500 * time.Millisecond)
		p2 := c14Parked()
		var stuck []string
		for k := range p1 {
			if p2[k] {
				stuck = append(stuck, k)
			}
		}
		sort.Strings(stuck)
		if len(stuck) > 0 {
			c14Hung.Add(1)
			q := distinct[timedOut[0]]
			run.violate(violation{Index: idx, Sub: q.Kind, Sig: "C14:request-never-returned:" + q.Kind + ":" + stuck[0],
				Summary: fmt.Sprintf("%d of the compared requests (e.g. a %s request that answers %q alone) got no answer within their deadline when issued next to other requests, and with no request in flight any more goroutines stay parked inside keto: %v", len(timedOut), q.Kind, clip(solo[timedOut[0]], 120), stuck),
				Case:    map[string]any{"variant": cc.Variant, "config": cc.Cfg, "tuples": cc.Tuples}, Detail: map[string]any{"request": q, "parked": stuck}})
			verdict = "violation"
			env.dirty = true
		} else {
			run.count("requests_without_answer_within_deadline_no_parked_goroutine", int64(len(timedOut)))
		}
	}
	run.count("perturbation_points_hit", pt.hits.Load())
	run.setAdd("client_counts", fmt.Sprint(clients))
	cancelCase()
	return verdict
}
