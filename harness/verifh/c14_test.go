package verifh

// C14 — concurrent requests do not interfere with each other.
//
// (1) determinism: every request of a multiset returns, when run concurrently
//     with the others on unchanging data, exactly what it returns alone;
// (2) data races: the same kind of workload plus writes and namespace reloads,
//     including the first requests on a cold registry, under the race detector
//     (VERIF_MODE=race runs in the -race binary; reports are collected by the
//     supervisor from GORACE log files).

import (
	"context"
	"encoding/json"
	"fmt"
	"math/rand/v2"
	"net/http"
	"net/url"
	"os"
	"runtime"
	"sort"
	"strings"
	"sync"
	"sync/atomic"
	"testing"
	"time"

	"github.com/ory/keto/internal/driver/config"
	rts "github.com/ory/keto/proto/ory/keto/relation_tuples/v1alpha2"
)

type c14Req struct {
	Kind   string `json:"kind"`
	Target string `json:"target,omitempty"` // REST
	Body   string `json:"body,omitempty"`
	Tuple  *Tup   `json:"tuple,omitempty"` // gRPC check / expand subject set
	Depth  int32  `json:"depth,omitempty"`
}

func tupleQuery(t *Tup) url.Values { return t.ToURLQuery() }

func genC14Requests(r *rand.Rand, cc *checkCase, n int) []*c14Req {
	var reqs []*c14Req
	// few keys: requests are drawn from a small pool so that identical and
	// overlapping requests run at the same time
	var pool []*Tup
	pool = append(pool, cc.queries...)
	for i := 0; i < 6 && i < len(cc.tuples); i++ {
		pool = append(pool, cc.tuples[r.IntN(len(cc.tuples))])
	}
	for i := 0; i < n; i++ {
		t := pool[r.IntN(len(pool))]
		switch r.IntN(11) {
		case 9:
			// requests that are REFUSED: the refusal belongs to the request as well
			// (every client its own malformed page token / unknown namespace)
			switch r.IntN(3) {
			case 0:
				q := url.Values{"namespace": {t.Namespace}, "page_token": {fmt.Sprintf("not-a-token-%d", i)}}
				reqs = append(reqs, &c14Req{Kind: "rest-list", Target: "/relation-tuples?" + q.Encode()})
			case 1:
				reqs = append(reqs, &c14Req{Kind: "grpc-list", Tuple: t, Body: fmt.Sprintf("bad-token-%d", i)})
			default:
				v := tupleQuery(t)
				v.Set("namespace", fmt.Sprintf("nope%d", i))
				reqs = append(reqs, &c14Req{Kind: "rest-check", Target: "/relation-tuples/check/openapi?" + v.Encode()})
			}
		case 10:
			// a 36-character token that is not a UUID, the same for several clients
			q := url.Values{"namespace": {t.Namespace}, "page_token": {"zzzzzzzz-zzzz-zzzz-zzzz-zzzzzzzzzzzz"}, "page_size": {fmt.Sprint(1 + r.IntN(3))}}
			reqs = append(reqs, &c14Req{Kind: "rest-list", Target: "/relation-tuples?" + q.Encode()})
		case 0, 1:
			v := tupleQuery(t)
			if d := r.IntN(5); d > 0 {
				// the same tuple with different request depths at the same time
				v.Set("max-depth", fmt.Sprint(d))
			}
			reqs = append(reqs, &c14Req{Kind: "rest-check", Target: "/relation-tuples/check/openapi?" + v.Encode()})
		case 2:
			b, _ := json.Marshal(t)
			reqs = append(reqs, &c14Req{Kind: "rest-check-post", Target: "/relation-tuples/check/openapi", Body: string(b)})
		case 3:
			k := 2 + r.IntN(5)
			var ts []*Tup
			for j := 0; j < k; j++ {
				ts = append(ts, pool[r.IntN(len(pool))])
			}
			b, _ := json.Marshal(map[string]any{"tuples": ts})
			reqs = append(reqs, &c14Req{Kind: "rest-batch", Target: "/relation-tuples/batch/check", Body: string(b)})
		case 4:
			q := url.Values{"namespace": {t.Namespace}, "object": {t.Object}, "relation": {t.Relation}, "max-depth": {"4"}}
			reqs = append(reqs, &c14Req{Kind: "rest-expand", Target: "/relation-tuples/expand?" + q.Encode()})
		case 5:
			q := url.Values{"namespace": {t.Namespace}}
			if r.IntN(2) == 0 {
				q.Set("relation", t.Relation)
			}
			q.Set("page_size", fmt.Sprint(1+r.IntN(5)))
			reqs = append(reqs, &c14Req{Kind: "rest-list", Target: "/relation-tuples?" + q.Encode()})
		case 6:
			reqs = append(reqs, &c14Req{Kind: "grpc-check", Tuple: t, Depth: int32(r.IntN(5))})
		case 7:
			reqs = append(reqs, &c14Req{Kind: "grpc-expand", Tuple: t, Depth: 4})
		default:
			reqs = append(reqs, &c14Req{Kind: "grpc-list", Tuple: t})
		}
	}
	return reqs
}

func (q *c14Req) key() string {
	return q.Kind + "|" + q.Target + "|" + q.Body + "|" + fmt.Sprint(q.Tuple) + "|" + fmt.Sprint(q.Depth)
}

// c14Exec executes the request and returns a normalised answer.
func c14Exec(ctx context.Context, env *Env, read http.Handler, g *grpcClients, q *c14Req) string {
	switch q.Kind {
	case "rest-check", "rest-expand", "rest-list":
		st, body, pt := httpDoCtx(ctx, 30*time.Second, read, "GET", q.Target, "", nil)
		if pt != "" {
			return "PANIC " + firstLine(pt)
		}
		return fmt.Sprintf("%d %s", st, body)
	case "rest-check-post", "rest-batch":
		st, body, pt := httpDoCtx(ctx, 30*time.Second, read, "POST", q.Target, q.Body, nil)
		if pt != "" {
			return "PANIC " + firstLine(pt)
		}
		return fmt.Sprintf("%d %s", st, body)
	case "grpc-check":
		c, cancel := context.WithTimeout(ctx, 30*time.Second)
		defer cancel()
		resp, err := g.Check.Check(c, &rts.CheckRequest{Tuple: q.Tuple.ToProto(), MaxDepth: q.Depth})
		if err != nil {
			return "ERR " + err.Error()
		}
		return fmt.Sprintf("allowed=%v", resp.Allowed)
	case "grpc-expand":
		c, cancel := context.WithTimeout(ctx, 30*time.Second)
		defer cancel()
		resp, err := g.Expand.Expand(c, &rts.ExpandRequest{Subject: rts.NewSubjectSet(q.Tuple.Namespace, q.Tuple.Object, q.Tuple.Relation), MaxDepth: q.Depth})
		if err != nil {
			return "ERR " + err.Error()
		}
		return resp.String()
	case "grpc-list":
		c, cancel := context.WithTimeout(ctx, 30*time.Second)
		defer cancel()
		resp, err := g.Read.ListRelationTuples(c, &rts.ListRelationTuplesRequest{RelationQuery: &rts.RelationQuery{Namespace: &q.Tuple.Namespace, Relation: &q.Tuple.Relation}, PageSize: 3, PageToken: q.Body})
		if err != nil {
			return "ERR " + err.Error()
		}
		return resp.String()
	}
	return "?"
}

func isTransientAnswer(a string) bool {
	return strings.Contains(a, "deadline") || strings.Contains(a, "canceled") || strings.Contains(a, "database table is locked") || strings.Contains(a, "database is locked") || strings.Contains(a, "serialize access")
}

func TestC14(t *testing.T) {
	run := newRunner(t, "C14")
	defer run.finish()
	p := run.p
	raceMode := p.Mode == "race"
	rounds := int64(p.pick(48, 1200))
	if raceMode {
		rounds = int64(p.pick(32, 600))
	}
	for idx := int64(0); idx < rounds; idx++ {
		if !p.mine(idx) {
			continue
		}
		r := p.rng(idx, "case")
		var cc *checkCase
		switch idx % 3 {
		case 0:
			cc = genDenseCase(r, idx*2)
		case 1:
			cc = genChainCase(r, idx)
		default:
			cc = genCheckCase(r, idx*3, nil)
		}
		nReq := 50 + r.IntN(200)
		if raceMode {
			nReq = 40 + r.IntN(60)
		}
		reqs := genC14Requests(r, cc, nReq)
		desc := map[string]any{"variant": cc.Variant, "config": cc.Cfg, "tuples": cc.Tuples, "requests": len(reqs), "race_mode": raceMode}
		run.begin(idx, "", desc)
		verdict := runC14Round(run, idx, cc, reqs, raceMode)
		if idx < 3 {
			var ss []any
			for _, q := range reqs[:minInt(5, len(reqs))] {
				ss = append(ss, q)
			}
			desc["sample_requests"] = ss
			run.sample(desc)
		}
		run.end(idx, "", verdict)
	}
}

func runC14Round(run *runner, idx int64, cc *checkCase, reqs []*c14Req, raceMode bool) string {
	verdict := "ok"
	// generous limits: answers under a binding limit may legitimately vary
	env, err := newEnv(run.t, EnvOpts{Namespaces: cc.Cfg.toKeto(), MaxDepth: 12, MaxWidth: 200, FileDB: raceMode,
		Extra: map[string]any{config.KeyBatchCheckMaxBatchSize: 50}})
	if err != nil {
		run.inconclusive(fmt.Sprintf("idx %d: env: %v", idx, err))
		return "inconclusive"
	}
	defer env.Close()
	caseCtx, cancelCase := context.WithCancel(env.Ctx)
	defer cancelCase()
	if err := env.Write(shuffled(run.p.rng(idx, "order"), cc.tuples)...); err != nil {
		run.inconclusive(fmt.Sprintf("idx %d: write: %v", idx, err))
		return "inconclusive"
	}
	// routers and servers are built sequentially, like ServeAll does at start-up;
	// everything else in the registry is still cold when the first requests arrive
	read := env.Reg.ReadRouter(env.Ctx)
	write := env.Reg.WriteRouter(env.Ctx)
	g, err := newGRPC(env)
	if err != nil {
		run.inconclusive("grpc: " + err.Error())
		return "inconclusive"
	}
	defer g.Close()

	clients := []int{4, 16, 64}[int(idx)%3]
	gmp := []int{16, 2}[int(idx/3)%2]
	prev := runtime.GOMAXPROCS(gmp)
	defer runtime.GOMAXPROCS(prev)
	pt := &perturber{seed: uint64(idx)*104729 + 7, level: 1 + int(idx%2)}
	un := pt.install()
	defer un()

	if raceMode {
		// cold registry: the very first requests run concurrently (with writers and
		// namespace reloads); answers are not compared while data changes
		var wg sync.WaitGroup
		var ops atomic.Int64
		stop := make(chan struct{})
		for c := 0; c < clients; c++ {
			wg.Add(1)
			go func(c int) {
				defer wg.Done()
				rr := run.p.rng(idx, fmt.Sprintf("client-%d", c))
				for i := 0; i < len(reqs)/clients+1; i++ {
					_ = c14Exec(caseCtx, env, read, g, reqs[rr.IntN(len(reqs))])
					ops.Add(1)
				}
			}(c)
		}
		for wcl := 0; wcl < 2; wcl++ {
			wg.Add(1)
			go func(wcl int) {
				defer wg.Done()
				rr := run.p.rng(idx, fmt.Sprintf("writer-%d", wcl))
				for i := 0; i < 12; i++ {
					select {
					case <-stop:
						return
					default:
					}
					t := cloneTup(cc.tuples[rr.IntN(len(cc.tuples))])
					t.Object = fmt.Sprintf("w%d-%d", wcl, i)
					b, _ := json.Marshal(t)
					httpDoCtx(caseCtx, 30*time.Second, write, "PUT", "/admin/relation-tuples", string(b), nil)
					pb, _ := json.Marshal([]map[string]any{{"action": "delete", "relation_tuple": t}})
					httpDoCtx(caseCtx, 30*time.Second, write, "PATCH", "/admin/relation-tuples", string(pb), nil)
					_, _ = g.Write.TransactRelationTuples(caseCtx, &rts.TransactRelationTuplesRequest{RelationTupleDeltas: []*rts.RelationTupleDelta{{Action: rts.RelationTupleDelta_ACTION_INSERT, RelationTuple: t.ToProto()}, {Action: rts.RelationTupleDelta_ACTION_DELETE, RelationTuple: t.ToProto()}}})
					ops.Add(3)
				}
			}(wcl)
		}
		wg.Add(1)
		go func() { // namespace reloads (same content, new manager)
			defer wg.Done()
			for i := 0; i < 4; i++ {
				_ = env.SetNamespaces(cc.Cfg.toKeto())
				httpDoCtx(caseCtx, 30*time.Second, read, "GET", "/namespaces", "", nil)
				ops.Add(2)
			}
		}()
		wg.Wait()
		close(stop)
		run.eval(ops.Load())
		run.count("race_round_ops", ops.Load())
		run.nontrivial(fmt.Sprintf("race/%d", idx))
		run.count("perturbation_points_hit", pt.hits.Load())
		// fall through to the determinism part on the now quiet registry
	}

	// solo answers (three times: a request whose solo answer varies is excluded)
	distinct := map[string]*c14Req{}
	for _, q := range reqs {
		distinct[q.key()] = q
	}
	keys := make([]string, 0, len(distinct))
	for k := range distinct {
		keys = append(keys, k)
	}
	sort.Strings(keys)
	solo := map[string]string{}             // first solo answer
	soloSet := map[string]map[string]bool{} // every answer seen alone
	unstable := map[string]bool{}
	binding := map[string]bool{} // requests for which a limit was binding when run alone: not judged
	depthLimited := func(q *c14Req) bool {
		return (q.Kind == "rest-check" && strings.Contains(q.Target, "max-depth=")) || (q.Kind == "grpc-check" && q.Depth > 0)
	}
	for rep := 0; rep < 8; rep++ {
		for _, k := range keys {
			q := distinct[k]
			if rep >= 3 && !depthLimited(q) {
				continue // three runs for requests whose answer may not vary at all
			}
			cuts0 := env.Hook.cuts()
			a := c14Exec(caseCtx, env, read, g, q)
			if env.Hook.cuts() != cuts0 {
				binding[k] = true // a depth / width cut was logged while this request ran alone
			}
			if soloSet[k] == nil {
				soloSet[k] = map[string]bool{}
				solo[k] = a
			}
			soloSet[k][a] = true
			if solo[k] != a {
				unstable[k] = true
			}
		}
	}
	run.count("requests_with_unstable_solo_answer", int64(len(unstable)))
	// Alone, on unchanged data, a request must give one answer. The only
	// legitimate exception is a check whose REQUEST depth is binding (the
	// engine's answer under a binding limit may vary between runs, see DESIGN
	// §9.1); expand, list and checks under the generous global limits may not vary.
	soloReported := map[string]bool{}
	for k := range unstable {
		q := distinct[k]
		if binding[k] {
			run.count("unstable_solo_answer_under_binding_limit_not_judged", 1)
			continue
		}
		sig := "C14:solo-answer-varies:" + q.Kind
		if !soloReported[sig] {
			soloReported[sig] = true
			run.violate(violation{Index: idx, Sub: q.Kind, Sig: sig,
				Summary: fmt.Sprintf("%s request gave different answers in three runs ALONE on unchanged data (first: %q)", q.Kind, clip(solo[k], 200)),
				Case:    map[string]any{"variant": cc.Variant, "config": cc.Cfg, "tuples": cc.Tuples}, Detail: q})
		}
		verdict = "violation"
	}
	type obs struct {
		key, ans string
	}
	results := make(chan obs, len(reqs)+clients)
	var wg sync.WaitGroup
	work := make(chan *c14Req, len(reqs))
	for _, q := range reqs {
		work <- q
	}
	close(work)
	for c := 0; c < clients; c++ {
		wg.Add(1)
		go func() {
			defer wg.Done()
			for q := range work {
				results <- obs{q.key(), c14Exec(caseCtx, env, read, g, q)}
			}
		}()
	}
	// neighbours that abandon their requests: check / expand requests whose
	// context is cancelled after a PRNG-chosen number of storage-level yields
	// (tiny deadlines), running next to the compared requests. Their answers are
	// not judged; whatever they leave behind must not change a neighbour's answer.
	stopCancellers := make(chan struct{})
	var cwg sync.WaitGroup
	var abandoned atomic.Int64
	nCancellers := 2
	if os.Getenv("VERIF_C14_NO_CANCELLERS") != "" {
		nCancellers = 0
	}
	for c := 0; c < nCancellers; c++ {
		cwg.Add(1)
		go func(c int) {
			defer cwg.Done()
			rr := run.p.rng(idx, fmt.Sprintf("canceller-%d", c))
			for {
				select {
				case <-stopCancellers:
					return
				default:
				}
				q := reqs[rr.IntN(len(reqs))]
				d := time.Duration(20+rr.IntN(3000)) * time.Microsecond
				cctx, cancel := context.WithTimeout(caseCtx, d)
				_ = c14Exec(cctx, env, read, g, q)
				cancel()
				abandoned.Add(1)
			}
		}(c)
	}
	wg.Wait()
	close(stopCancellers)
	cwg.Wait()
	run.count("abandoned_neighbour_requests", abandoned.Load())
	close(results)
	reported := map[string]bool{}
	for o := range results {
		run.eval(1)
		if binding[o.key] {
			// answers under a binding limit may legitimately vary with the schedule
			run.count("requests_under_binding_limit_not_judged", 1)
			continue
		}
		if unstable[o.key] {
			continue // reported above
		}
		if isTransientAnswer(o.ans) || isTransientAnswer(solo[o.key]) {
			run.count("transient_storage_error_no_decision", 1)
			continue
		}
		run.nontrivial(fmt.Sprintf("%d/%s", idx, o.key))
		if !soloSet[o.key][o.ans] {
			kind := distinct[o.key].Kind
			cls := "differs"
			if strings.HasPrefix(o.ans, "PANIC") {
				cls = "panic"
			} else if strings.HasPrefix(o.ans, "5") || strings.Contains(o.ans, "Internal") {
				cls = "server-error"
			}
			sig := fmt.Sprintf("C14:concurrent-answer-%s:%s", cls, kind)
			if !reported[sig] {
				reported[sig] = true
				if os.Getenv("VERIF_DEBUG") != "" {
					again := c14Exec(caseCtx, env, read, g, distinct[o.key])
					fmt.Printf("DEBUG key=%q concurrent=%q soloSet=%v again=%q\n", o.key, clip(o.ans, 80), soloSet[o.key], clip(again, 80))
				}
				run.violate(violation{Index: idx, Sub: kind, Sig: sig,
					Summary: fmt.Sprintf("%s request answered %q alone (3x) but %q when run concurrently with %d clients on unchanged data", kind, clip(solo[o.key], 200), clip(o.ans, 200), clients),
					Case:    map[string]any{"variant": cc.Variant, "config": cc.Cfg, "tuples": cc.Tuples}, Detail: distinct[o.key]})
			}
			verdict = "violation"
		}
	}
	run.count("perturbation_points_hit", pt.hits.Load())
	run.setAdd("client_counts", fmt.Sprint(clients))
	cancelCase()
	return verdict
}
