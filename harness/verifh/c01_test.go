package verifh

// C01 — check decisions equal the relationship-graph semantics.

import (
	"context"
	"fmt"
	"math/rand/v2"
	"runtime"
	"strings"
	"testing"
	"time"

	"github.com/ory/keto/internal/check"
	"github.com/ory/keto/internal/check/checkgroup"
	"github.com/ory/keto/internal/namespace"
	"github.com/ory/keto/internal/schema"
)

type checkCase struct {
	Variant string   `json:"variant"`
	Cfg     *Cfg     `json:"cfg"`
	OPL     string   `json:"opl,omitempty"`
	Tuples  []string `json:"tuples"`
	Queries []string `json:"queries"`
	tuples  []*Tup
	queries []*Tup

	failOpenSeen map[int]bool
}

// genCheckCase builds the C01-family case of index idx.
func genCheckCase(r *rand.Rand, idx int64, forceOpts *genOpts) *checkCase {
	variants := []struct {
		name string
		o    genOpts
	}{
		{"or", genOpts{MaxExprDepth: 2}},
		{"or-ttu", genOpts{AllowTTU: true, MaxExprDepth: 2}},
		{"and", genOpts{AllowAnd: true, AllowTTU: true, MaxExprDepth: 3}},
		{"not", genOpts{AllowAnd: true, AllowNot: true, AllowTTU: true, MaxExprDepth: 3}},
		{"rec-ttu", genOpts{AllowTTU: true, RecursiveTTU: true, MaxExprDepth: 2}},
		{"ast-names", genOpts{ASTNames: true, AllowAnd: true, AllowTTU: true, MaxExprDepth: 2}},
		{"not-deep", genOpts{AllowAnd: true, AllowNot: true, AllowTTU: true, MaxExprDepth: 4}},
		{"plain", genOpts{MaxExprDepth: 0}},
	}
	v := variants[int(idx)%len(variants)]
	if forceOpts == nil && idx%3 == 1 {
		return genDenseCase(r, idx)
	}
	if forceOpts == nil && idx%12 == 5 {
		return genTwinCase(r, idx)
	}
	o := v.o
	if forceOpts != nil {
		o = *forceOpts
	}
	cc := &checkCase{Variant: v.name}
	cc.Cfg = genCfg(r, o)
	if v.name == "plain" {
		// no permissions at all, half of the time no relation config either
		for _, n := range cc.Cfg.NS {
			var keep []*RelDef
			for _, rd := range n.Rels {
				if rd.Rewrite == nil {
					keep = append(keep, rd)
				}
			}
			n.Rels = keep
		}
	}
	w := genWorld(r, cc.Cfg, false)
	cc.tuples = genTuples(r, cc.Cfg, w, 3+r.IntN(38), true)
	cc.queries = genQueries(r, cc.Cfg, w, cc.tuples, 6)
	cc.Tuples = tupStrings(cc.tuples)
	cc.Queries = tupStrings(cc.queries)
	return cc
}

// genDenseCase: few objects, every relation typed with a subject set of one
// central group relation, permissions combining them with && / ! / ||, and a
// wrapper relation whose subjects are permission subject sets. Produces
// diamonds: several operands reaching the same subject set through expansion.
func genDenseCase(r *rand.Rand, idx int64) *checkCase {
	cc := &checkCase{Variant: "dense"}
	user := &NSDef{Name: "User"}
	group := &NSDef{Name: "Group", Rels: []*RelDef{{Name: "members", Types: []TypeRef{{NS: "User"}, {NS: "Group", Rel: "members"}}}}}
	doc := &NSDef{Name: "Doc"}
	rels := []string{"a", "b", "c"}[:2+r.IntN(2)]
	for _, rn := range rels {
		doc.Rels = append(doc.Rels, &RelDef{Name: rn, Types: []TypeRef{{NS: "User"}, {NS: "Group", Rel: "members"}}})
	}
	// relations with a plain Group type: operands `this.related.pa.traverse(g => g.related.members.includes(...))`
	prels := []string{"pa", "pb"}[:r.IntN(3)]
	for _, rn := range prels {
		doc.Rels = append(doc.Rels, &RelDef{Name: rn, Types: []TypeRef{{NS: "Group"}}})
	}
	cfg := &Cfg{NS: []*NSDef{user, group, doc}}
	o := genOpts{AllowAnd: true, AllowNot: idx%2 == 0, AllowTTU: len(prels) > 0, MaxExprDepth: 2}
	nP := 1 + r.IntN(2)
	for j := 0; j < nP; j++ {
		pd := &RelDef{Name: permNames[j], Perm: true}
		e := genExpr(r, cfg, doc, pd, o, 2)
		if !e.hasOp("and") && !e.hasOp("not") {
			e = &Expr{Op: "and", Kids: []*Expr{e, genLeaf(r, cfg, doc, pd, o)}}
		}
		pd.Rewrite = e
		doc.Rels = append(doc.Rels, pd)
	}
	box := &NSDef{Name: "Box", Rels: []*RelDef{{Name: "r", Types: []TypeRef{{NS: "Doc", Rel: permNames[0]}, {NS: "User"}, {NS: "Group", Rel: "members"}}}}}
	cfg.NS = append(cfg.NS, box)
	cc.Cfg = cfg
	users := []string{"u0", "u1", "u2"}
	groups := []string{"g0", "g1", "g2"}
	docs := []string{"d0", "d1"}
	if idx%4 >= 2 {
		// the same object names in every namespace: different objects, one UUID each
		groups, docs = []string{"o0", "o1", "o2"}, []string{"o0", "o1"}
	}
	var ts []*Tup
	n := 4 + r.IntN(14)
	for i := 0; i < n; i++ {
		switch r.IntN(5) {
		case 0:
			ts = append(ts, tupID("Group", pickS(r, groups), "members", pickS(r, users)))
		case 1:
			ts = append(ts, tupSet("Group", pickS(r, groups), "members", "Group", pickS(r, groups), "members"))
		case 2, 3:
			ts = append(ts, tupSet("Doc", pickS(r, docs), pickS(r, rels), "Group", pickS(r, groups), "members"))
		case 4:
			ts = append(ts, tupID("Doc", pickS(r, docs), pickS(r, rels), pickS(r, users)))
		}
		if len(prels) > 0 && r.IntN(3) == 0 {
			ts = append(ts, tupSet("Doc", pickS(r, docs), pickS(r, prels), "Group", pickS(r, groups), ""))
		}
	}
	for _, d := range docs {
		if r.IntN(2) == 0 {
			ts = append(ts, tupSet("Box", "x", "r", "Doc", d, permNames[0]))
		}
	}
	if idx%2 == 1 {
		// the wrapper relation also holds plain groups next to permission subject
		// sets, and some relationships are stored directly ON a permission (granting
		// in the default mode, ignored in strict mode)
		for k, n := 0, 1+r.IntN(2); k < n; k++ {
			ts = append(ts, tupSet("Box", "x", "r", "Group", pickS(r, groups), "members"))
		}
		for k, n := 0, 1+r.IntN(2); k < n; k++ {
			ts = append(ts, tupID("Doc", pickS(r, docs), permNames[r.IntN(nP)], pickS(r, users)))
		}
	}
	cc.tuples = ts
	for i := 0; i < 6; i++ {
		u := pickS(r, users)
		if i%2 == 0 {
			cc.queries = append(cc.queries, tupID("Box", "x", "r", u))
		} else {
			cc.queries = append(cc.queries, tupID("Doc", pickS(r, docs), permNames[r.IntN(nP)], u))
		}
	}
	cc.Tuples = tupStrings(cc.tuples)
	cc.Queries = tupStrings(cc.queries)
	return cc
}

// genTwinCase: two or three namespaces with the SAME relation and permission
// names (viewers, banned, parents, access, view), chained through `parents`, and
// objects with the SAME names in all of them - the situation of a Folder
// "readme" containing a Doc "readme". Everything inside keto that identifies a
// node by less than (namespace, object, relation) is wrong here. The permissions
// put the same-named permission of the next namespace below && / ! / || in
// varying positions.
func genTwinCase(r *rand.Rand, idx int64) *checkCase {
	cc := &checkCase{Variant: "twin"}
	names := []string{"Folder", "Doc", "Org"}[:2+r.IntN(2)]
	cfg := &Cfg{NS: []*NSDef{{Name: "User"}}}
	csr := func(rel string, perm bool) *Expr { return &Expr{Op: "csr", Rel: rel, ViaPermits: perm} }
	not := func(e *Expr) *Expr { return &Expr{Op: "not", Kids: []*Expr{e}} }
	nary := func(op string, ks ...*Expr) *Expr { return &Expr{Op: op, Kids: ks} }
	for i, name := range names {
		n := &NSDef{Name: name, Rels: []*RelDef{
			{Name: "viewers", Types: []TypeRef{{NS: "User"}}},
			{Name: "banned", Types: []TypeRef{{NS: "User"}}},
		}}
		var access *Expr
		if i+1 < len(names) {
			n.Rels = append(n.Rels, &RelDef{Name: "parents", Types: []TypeRef{{NS: names[i+1]}}})
			access = &Expr{Op: "ttu", Rel: "parents", Comp: []string{"view", "access"}[r.IntN(2)], ViaPermits: true}
			if r.IntN(2) == 0 {
				access = nary("or", access, csr("viewers", false))
			}
		} else {
			access = csr("viewers", false)
		}
		var view *Expr
		switch r.IntN(5) {
		case 0:
			view = nary("and", not(csr("banned", false)), csr("access", true))
		case 1:
			view = nary("and", csr("access", true), not(csr("banned", false)))
		case 2:
			view = not(nary("or", csr("banned", false), not(csr("access", true))))
		case 3:
			view = nary("or", nary("and", csr("viewers", false), csr("access", true)), nary("and", not(csr("banned", false)), csr("access", true)))
		default:
			view = nary("and", nary("or", csr("viewers", false), csr("access", true)), not(csr("banned", false)))
		}
		n.Rels = append(n.Rels, &RelDef{Name: "access", Perm: true, Rewrite: access}, &RelDef{Name: "view", Perm: true, Rewrite: view})
		cfg.NS = append(cfg.NS, n)
	}
	cc.Cfg = cfg
	objs := []string{"readme", "notes", "misc"}
	users := []string{"alice", "bob", "mallory"}
	var ts []*Tup
	for i, name := range names {
		for _, o := range objs {
			for _, u := range users {
				if r.IntN(3) == 0 {
					ts = append(ts, tupID(name, o, "viewers", u))
				}
				if r.IntN(6) == 0 {
					ts = append(ts, tupID(name, o, "banned", u))
				}
			}
			if i+1 < len(names) {
				// mostly the parent of the same name
				po := o
				if r.IntN(3) == 0 {
					po = pickS(r, objs)
				}
				ts = append(ts, tupSet(name, o, "parents", names[i+1], po, ""))
			}
		}
	}
	cc.tuples = ts
	for i := 0; i < 8; i++ {
		cc.queries = append(cc.queries, tupID(names[r.IntN(len(names)-1)], pickS(r, objs), []string{"view", "view", "access"}[r.IntN(3)], pickS(r, users)))
	}
	cc.Tuples = tupStrings(cc.tuples)
	cc.Queries = tupStrings(cc.queries)
	return cc
}

func cfgIsOPLRenderable(c *Cfg) bool {
	for _, n := range c.NS {
		if !isIdent(n.Name) {
			return false
		}
	}
	return true
}

type decision struct {
	Allowed bool
	Err     string
	Cuts    int64
	Calls   int64
	Ops     string
}

func (d decision) String() string {
	if d.Err != "" {
		return "error(" + d.Err + ")"
	}
	if d.Allowed {
		return "allowed"
	}
	return "denied"
}

// engineCheck runs one check through the real engine on the instrumented store.
func engineCheck(env *Env, st *instrStore, eng *check.Engine, q *Tup, depth int, timeout time.Duration) decision {
	ctx, cancel := context.WithTimeout(env.Ctx, timeout)
	defer cancel()
	its, err := env.Reg.ReadOnlyMapper().FromTuple(ctx, q)
	if err != nil {
		return decision{Err: "map: " + err.Error()}
	}
	cuts0 := env.Hook.cuts()
	st.reset(nil)
	res := eng.CheckRelationTuple(ctx, its[0], depth)
	d := decision{Cuts: env.Hook.cuts() - cuts0, Calls: st.calls(), Ops: st.opSequence()}
	if ctx.Err() != nil {
		env.dirty = true // engine goroutines may still be using the connection
	}
	if res.Err != nil {
		d.Err = res.Err.Error()
		if res.Membership == checkgroup.IsMember {
			d.Err = "IsMember+" + d.Err
		}
		return d
	}
	d.Allowed = res.Membership == checkgroup.IsMember
	return d
}

func shuffled[T any](r *rand.Rand, xs []T) []T {
	out := append([]T(nil), xs...)
	r.Shuffle(len(out), func(i, j int) { out[i], out[j] = out[j], out[i] })
	return out
}

// wipe removes every relationship (new inserts get new random shard ids).
func (e *Env) wipe() error {
	quiesce(3 * time.Second)
	c, err := e.Reg.PopConnection(e.Ctx)
	if err != nil {
		return err
	}
	return c.RawQuery("DELETE FROM keto_relation_tuples").Exec()
}

func exprOpsInCfg(c *Cfg) string {
	var ops []string
	for _, op := range []string{"and", "not", "ttu", "or"} {
		if c.hasOp(op) {
			ops = append(ops, op)
		}
	}
	if len(ops) == 0 {
		return "none"
	}
	return strings.Join(ops, "+")
}

type modeSpec struct {
	name   string
	strict bool
	opl    bool
}

func TestC01(t *testing.T) {
	run := newRunner(t, "C01")
	defer run.finish()
	p := run.p
	nCases := int64(p.pick(480, 16000))
	schedules := p.pick(3, 5)
	const maxDepth = 10

	for idx := int64(0); idx < nCases; idx++ {
		if !p.mine(idx) {
			continue
		}
		r := p.rng(idx, "case")
		cc := genCheckCase(r, idx, nil)
		run.begin(idx, "", cc)
		verdict := runC01Case(run, idx, cc, schedules, maxDepth)
		run.end(idx, "", verdict)
	}
}

func runC01Case(run *runner, idx int64, cc *checkCase, schedules int, maxDepth int) string {
	p := run.p
	modes := []modeSpec{{"ast-default", false, false}}
	if cfgIsOPLRenderable(cc.Cfg) {
		modes = append(modes, modeSpec{"opl-default", false, true}, modeSpec{"opl-strict", true, true})
	}
	verdict := "ok"
	for _, m := range modes {
		cfg := cc.Cfg
		opts := EnvOpts{MaxDepth: maxDepth, MaxWidth: 1000}
		if cc.Variant == "rec-ttu" {
			opts.MaxDepth = 7 // recursive traverse on cyclic data costs fan-out^depth
		}
		if m.opl {
			text := (&renderStyle{FullParens: true}).render(cc.Cfg)
			cc.OPL = text
			nn, errs := schema.Parse(text)
			if len(errs) > 0 {
				// text -> AST is C10's business; here the engine is judged on the AST it gets
				run.count("opl_rejected_skipped", 1)
				continue
			}
			parsed, err := cfgFromKeto(nn)
			if err != nil {
				run.count("opl_unreadable_skipped", 1)
				continue
			}
			cfg = parsed
			opts.OPL = text
			opts.Strict = m.strict
		} else {
			opts.Namespaces = cc.Cfg.toKeto()
		}
		env, err := newEnv(run.t, opts)
		if err != nil {
			run.inconclusive(fmt.Sprintf("idx %d mode %s: env: %v", idx, m.name, err))
			continue
		}
		ref := newRefSem(cfg, m.strict, cc.tuples)
		st, eng, _ := env.instrumented()
		answers := make([]map[string]int, len(cc.queries))
		for s := 0; s < schedules; s++ {
			sr := p.rng(idx, fmt.Sprintf("sched-%s-%d", m.name, s))
			if s > 0 {
				if err := env.wipe(); err != nil {
					run.inconclusive("wipe: " + err.Error())
					break
				}
			}
			if err := env.Write(shuffled(sr, cc.tuples)...); err != nil {
				run.inconclusive(fmt.Sprintf("idx %d: write: %v", idx, err))
				break
			}
			gmp := []int{16, 1, 2, 4, 16}[s%5]
			prev := runtime.GOMAXPROCS(gmp)
			pt := &perturber{seed: sr.Uint64(), level: s % 3}
			st.perturb = pt.point
			un := pt.install()
			for qi, q := range cc.queries {
				rr := ref.Check(q)
				d := engineCheck(env, st, eng, q, 0, 4*time.Second)
				run.eval(1)
				run.count("storage_calls", d.Calls)
				run.setAdd("call_orders", fmt.Sprintf("%d/%s/%d/%s", idx, m.name, qi, d.Ops))
				if answers[qi] == nil {
					answers[qi] = map[string]int{}
				}
				if !(strings.Contains(d.Err, "deadline") || strings.Contains(d.Err, "canceled")) && d.Cuts == 0 {
					answers[qi][d.String()]++
				}
				if d.Calls >= 2 && rr.Indirect {
					run.nontrivial(fmt.Sprintf("%d/%s/%d", idx, m.name, qi))
				}
				switch {
				case rr.Unstratified:
					run.count("skipped_unstratified", 1)
					continue
				case rr.SchemaError:
					run.count("skipped_schema_error", 1)
					continue
				}
				if d.Cuts > 0 {
					run.count("limit_binding", 1)
				}
				if rr.Member {
					run.count("ref_allowed", 1)
				} else {
					run.count("ref_denied", 1)
				}
				if d.Err != "" {
					if strings.Contains(d.Err, "deadline") || strings.Contains(d.Err, "canceled") {
						run.count("engine_timeout_no_decision", 1) // C15's business
						continue
					}
					run.violate(violation{Index: idx, Sub: fmt.Sprintf("%s/q%d", m.name, qi),
						Sig:     "C01:error:" + errClass(d.Err),
						Summary: fmt.Sprintf("check %s in mode %s returned %s; reference says %v", q, m.name, d, rr.Member),
						Case:    cc, Detail: map[string]any{"query": q.String(), "mode": m.name, "schedule": s}})
					verdict = "violation"
					continue
				}
				if d.Allowed != rr.Member {
					if d.Cuts > 0 {
						run.count("mismatch_under_binding_limit_skipped", 1) // C02's business
						continue
					}
					dir := "impl-denied/ref-allowed"
					if d.Allowed {
						dir = "impl-allowed/ref-denied"
					}
					needs := shrinkNeeds(run, cc, cfg, m, q, maxDepth, d.Allowed)
					if m.strict {
						needs += ":strict"
					}
					run.violate(violation{Index: idx, Sub: fmt.Sprintf("%s/q%d", m.name, qi),
						Sig:     fmt.Sprintf("C01:mismatch:%s:needs=%s", dir, needs),
						Summary: fmt.Sprintf("check %s in mode %s: engine %s, reference %v (no limit cut logged; %d storage calls)", q, m.name, d, rr.Member, d.Calls),
						Case:    cc, Detail: map[string]any{"query": q.String(), "mode": m.name, "schedule": s, "ops": d.Ops, "needs": needs}})
					verdict = "violation"
				}
			}
			un()
			st.perturb = nil
			runtime.GOMAXPROCS(prev)
		}
		// the same property for a configuration that REPLACES another one on a live
		// server: same registry, same engine instance, other definitions for the
		// same namespace / relation names
		if m.name == "ast-default" && idx%2 == 0 {
			if v := runC01Replaced(run, idx, env, st, eng, maxDepth); v != "ok" {
				verdict = v
			}
		}
		// schedule/storage-order independence
		for qi, a := range answers {
			if len(a) > 1 && ref.Check(cc.queries[qi]).SchemaError {
				// The query reaches a relation that the configuration of that namespace
				// does not declare (stored relationships that do not conform to the
				// declared types): the reference has no answer there, keto answers
				// "relation does not exist" - or a decision, when && / || is decided by
				// another operand first. Only differing DECISIONS are judged.
				dec := map[string]int{}
				for k, n := range a {
					if !strings.HasPrefix(k, "error(") {
						dec[k] = n
					}
				}
				run.count("schema_error_or_decision_depending_on_order", 1)
				a = dec
			}
			if len(a) > 1 {
				run.violate(violation{Index: idx, Sub: fmt.Sprintf("%s/q%d", m.name, qi),
					Sig:     "C01:order-dependent:" + exprOpsInCfg(cfg),
					Summary: fmt.Sprintf("check %s in mode %s gave different answers across insertion orders/schedules: %v", cc.queries[qi], m.name, a),
					Case:    cc, Detail: map[string]any{"answers": a}})
				verdict = "violation"
			}
		}
		env.Close()
	}
	run.sample(map[string]any{"variant": cc.Variant, "config": cc.Cfg, "tuples": cc.Tuples, "queries": cc.Queries})
	return verdict
}

func errClass(e string) string {
	switch {
	case strings.Contains(e, "does not exist"):
		return "relation-does-not-exist"
	case strings.Contains(e, "not implemented"):
		return "not-implemented"
	case strings.Contains(e, "deadline"):
		return "deadline"
	case strings.Contains(e, "canceled"):
		return "canceled"
	case strings.Contains(e, "map:"):
		return "mapping"
	}
	if len(e) > 40 {
		e = e[:40]
	}
	return e
}

// shrinkNeeds determines which operator kinds are necessary for the mismatch
// (see shrinkAndClassify).
func shrinkNeeds(run *runner, cc *checkCase, cfg *Cfg, m modeSpec, q *Tup, maxDepth int, implAllowed bool) string {
	still := func(c *Cfg, ts []*Tup) bool {
		rr := newRefSem(c, m.strict, ts).Check(q)
		if rr.Unstratified || rr.SchemaError || rr.Member == implAllowed {
			return false
		}
		opts := EnvOpts{MaxDepth: maxDepth, MaxWidth: 1000}
		if m.opl {
			text := (&renderStyle{FullParens: true}).render(c)
			nn, errs := schema.Parse(text)
			if len(errs) > 0 {
				return false
			}
			pc, err := cfgFromKeto(nn)
			if err != nil {
				return false
			}
			if r2 := newRefSem(pc, m.strict, ts).Check(q); r2.Unstratified || r2.SchemaError || r2.Member == implAllowed {
				return false
			}
			opts.OPL, opts.Strict = text, m.strict
		} else {
			opts.Namespaces = c.toKeto()
		}
		env, err := newEnv(run.t, opts)
		if err != nil {
			return false
		}
		defer env.Close()
		st, eng, _ := env.instrumented()
		for try := 0; try < 3; try++ {
			if try > 0 {
				_ = env.wipe()
			}
			if err := env.Write(shuffled(run.p.rng(int64(try), "shrink"), ts)...); err != nil {
				return false
			}
			d := engineCheck(env, st, eng, q, 0, 20*time.Second)
			if d.Err == "" && d.Cuts == 0 && d.Allowed == implAllowed {
				return true
			}
		}
		return false
	}
	needs, _, _ := shrinkAndClassify(cfg, cc.tuples, q, still, 60)
	return needs
}

// shrinkAndClassify greedily simplifies a failing case while `still` holds
// (drop tuples, replace a composite expression by one of its operands, `!x` by
// x, drop operands) and reports which of {and, not, perm-tuple} remain
// necessary: the operators left in the expressions reachable from the query,
// and whether a relationship written directly on a permission is needed.
// Bounded (budget = number of `still` evaluations) and deterministic up to
// what `still` itself depends on.
func shrinkAndClassify(cfg *Cfg, tuplesIn []*Tup, q *Tup, still func(*Cfg, []*Tup) bool, budget int) (string, *Cfg, []*Tup) {
	cur := cloneCfg(cfg)
	tuples := append([]*Tup(nil), tuplesIn...)
	// 1. drop tuples
	for i := 0; i < len(tuples) && budget > 0; {
		cand := append(append([]*Tup(nil), tuples[:i]...), tuples[i+1:]...)
		budget--
		if still(cur, cand) {
			tuples = cand
		} else {
			i++
		}
	}
	// 2. simplify expressions
	changed := true
	for changed && budget > 0 {
		changed = false
		for _, n := range cur.NS {
			for _, rd := range n.Rels {
				if rd.Rewrite == nil {
					continue
				}
				for _, cand := range simplifications(rd.Rewrite) {
					if budget <= 0 {
						break
					}
					budget--
					old := rd.Rewrite
					rd.Rewrite = cand
					if still(cur, tuples) {
						changed = true
						break
					}
					rd.Rewrite = old
				}
			}
		}
	}
	// operators reachable from the query
	ops := map[string]bool{}
	seen := map[string]bool{}
	var visit func(ns, rel string)
	visit = func(ns, rel string) {
		k := ns + "\x00" + rel
		if seen[k] {
			return
		}
		seen[k] = true
		n := cur.ns(ns)
		if n == nil {
			return
		}
		rd := n.rel(rel)
		if rd == nil || rd.Rewrite == nil {
			return
		}
		var walk func(e *Expr)
		walk = func(e *Expr) {
			switch e.Op {
			case "csr":
				visit(ns, e.Rel)
			case "ttu":
				ops["ttu"] = true
				for _, n2 := range cur.NS {
					visit(n2.Name, e.Comp)
				}
			default:
				if e.Op != "or" || len(e.Kids) > 1 {
					ops[e.Op] = true
				}
				for _, k := range e.Kids {
					walk(k)
				}
			}
		}
		walk(rd.Rewrite)
	}
	visit(q.Namespace, q.Relation)
	for _, t := range tuples {
		if t.SubjectSet != nil {
			visit(t.SubjectSet.Namespace, t.SubjectSet.Relation)
		}
	}
	var out []string
	for _, op := range []string{"and", "not"} {
		if ops[op] {
			out = append(out, op)
		}
	}
	// is a relationship written directly on a permission necessary?
	var noPermTuples []*Tup
	for _, t := range tuples {
		if n := cur.ns(t.Namespace); n != nil {
			if rd := n.rel(t.Relation); rd != nil && rd.Rewrite != nil {
				continue
			}
		}
		noPermTuples = append(noPermTuples, t)
	}
	if len(noPermTuples) < len(tuples) && !still(cur, noPermTuples) {
		out = append(out, "perm-tuple")
	}
	if len(out) == 0 {
		return "none", cur, tuples
	}
	return strings.Join(out, "+"), cur, tuples
}

func simplifications(e *Expr) []*Expr {
	var out []*Expr
	switch e.Op {
	case "csr", "ttu":
		return nil
	case "not":
		out = append(out, e.Kids[0])
		for _, s := range simplifications(e.Kids[0]) {
			out = append(out, &Expr{Op: "not", Kids: []*Expr{s}})
		}
	default:
		for _, k := range e.Kids {
			out = append(out, k)
		}
		if len(e.Kids) > 2 {
			for i := range e.Kids {
				ne := &Expr{Op: e.Op}
				ne.Kids = append(ne.Kids, e.Kids[:i]...)
				ne.Kids = append(ne.Kids, e.Kids[i+1:]...)
				out = append(out, ne)
			}
		}
		for i, k := range e.Kids {
			for _, s := range simplifications(k) {
				ne := &Expr{Op: e.Op, Kids: append([]*Expr(nil), e.Kids...)}
				ne.Kids[i] = s
				out = append(out, ne)
			}
		}
	}
	return out
}

func cloneExpr(e *Expr) *Expr {
	if e == nil {
		return nil
	}
	c := *e
	c.Kids = nil
	for _, k := range e.Kids {
		c.Kids = append(c.Kids, cloneExpr(k))
	}
	return &c
}

func cloneCfg(c *Cfg) *Cfg {
	out := &Cfg{}
	for _, n := range c.NS {
		nn := &NSDef{Name: n.Name}
		for _, r := range n.Rels {
			rr := &RelDef{Name: r.Name, Types: append([]TypeRef(nil), r.Types...), Rewrite: cloneExpr(r.Rewrite), Perm: r.Perm}
			nn.Rels = append(nn.Rels, rr)
		}
		out.NS = append(out.NS, nn)
	}
	return out
}

// parseOPL wraps schema.Parse (guarded: a parser panic is C12's business).
func parseOPL(text string) (nn []namespace.Namespace, errs []string) {
	pt := guard(func() {
		n, ee := schema.Parse(text)
		nn = n
		for _, e := range ee {
			errs = append(errs, e.ToAPI().Message)
		}
	})
	if pt != "" {
		return nil, []string{"panic: " + pt}
	}
	return nn, errs
}

func runC01Replaced(run *runner, idx int64, env *Env, st *instrStore, eng *check.Engine, maxDepth int) string {
	p := run.p
	cc2 := genCheckCase(p.rng(idx, "replacement"), idx+8, nil)
	if err := env.SetNamespaces(cc2.Cfg.toKeto()); err != nil {
		run.inconclusive(fmt.Sprintf("idx %d: replace namespaces: %v", idx, err))
		return "ok"
	}
	if err := env.wipe(); err != nil {
		return "ok"
	}
	if err := env.Write(shuffled(p.rng(idx, "replacement-order"), cc2.tuples)...); err != nil {
		run.count("replacement_write_failed_skipped", 1)
		return "ok"
	}
	ref := newRefSem(cc2.Cfg, false, cc2.tuples)
	verdict := "ok"
	reported := map[string]bool{}
	for qi, q := range cc2.queries {
		rr := ref.Check(q)
		d := engineCheck(env, st, eng, q, 0, 4*time.Second)
		run.eval(1)
		run.count("checks_after_config_replacement", 1)
		if rr.Unstratified || rr.SchemaError || d.Cuts > 0 || isNoDecision(d) {
			continue
		}
		if d.Calls >= 2 && rr.Indirect {
			run.nontrivial(fmt.Sprintf("%d/replaced/%d", idx, qi))
		}
		var sig, what string
		switch {
		case d.Err != "":
			sig, what = "C01:error-after-config-replacement:"+errClass(d.Err), d.String()
		case d.Allowed != rr.Member:
			dir := "impl-denied/ref-allowed"
			if d.Allowed {
				dir = "impl-allowed/ref-denied"
			}
			sig, what = "C01:mismatch-after-config-replacement:"+dir, d.String()
		default:
			continue
		}
		verdict = "violation"
		if reported[sig] {
			continue
		}
		reported[sig] = true
		run.violate(violation{Index: idx, Sub: fmt.Sprintf("replaced/q%d", qi), Sig: sig,
			Summary: fmt.Sprintf("after the namespace configuration of the live registry was replaced, check %s answers %s; the reference semantics of the NEW configuration says %v", q, what, rr.Member),
			Case:    cc2, Detail: map[string]any{"query": q.String()}})
	}
	return verdict
}
