package verifh

// C10 — OPL permission expressions mean what the same TypeScript means.
//
// Differential monitor: a generated namespace AST is rendered to OPL text by
// the harness renderer (trusted base: valid TypeScript, minimal parentheses by
// TypeScript precedence ! > && > ||, random documented spellings), parsed by
// the real schema.Parse and compared with the generating AST:
//   * Parse reports no error                                   (else "rejected")
//   * namespaces, relations and relation types are the generated ones
//   * per permission: truth table over the distinct leaves of parsed vs
//     generated agrees                                          (else "truth-table-differs")
//     and parsed.normalize().equal(generated.normalize())       (else "structure-differs")
// A failing case is shrunk (feature set of the rendering, namespaces,
// relations, permissions, sub-expressions) while the same failure class
// persists; the signature is computed from the minimal witness only.
// End-to-end (sampled): a server is configured with the rendered text, tuples
// make chosen leaves true, and the engine's decision is compared with the
// TypeScript truth value of the generated expression.

import (
	"fmt"
	"math/rand/v2"
	"regexp"
	"sort"
	"strings"
	"testing"
	"time"

	"github.com/ory/keto/internal/namespace"
	"github.com/ory/keto/internal/schema"
)

// documented limit (internal/schema/limits.go): "expressionNestingMaxDepth is
// the maximum number of nested '(' and '!' in a single 'permits'" = 10, error
// text "maximal nesting depth is 10".
const c10DocumentedNesting = 10

type c10Case struct {
	Variant  string   `json:"variant"`
	Cfg      *Cfg     `json:"cfg"`
	Text     string   `json:"text"`
	Features []string `json:"features,omitempty"`
	MaxNest  int      `json:"max_nest"`
	style    *renderStyle
}

// ---------------------------------------------------------------------------
// generation

// c10DeepExpr builds an expression whose minimal-parentheses rendering nests
// "(" and "!" about `target` deep: alternating or-inside-and (needs parens)
// and negated groups.
func c10DeepExpr(r *rand.Rand, leaf func() *Expr, target int) *Expr {
	e := leaf()
	nest := 0
	for nest < target {
		switch k := r.IntN(4); {
		case k == 0 && target-nest >= 2:
			// !( e || x )  -> 2 levels
			e = &Expr{Op: "not", Kids: []*Expr{{Op: pickS(r, []string{"or", "and"}), Kids: shuffledExprs(r, e, leaf())}}}
			nest += 2
		case k == 1 && (e.Op == "csr" || e.Op == "ttu"):
			e = &Expr{Op: "not", Kids: []*Expr{e}}
			nest++
		default:
			// ( e || x ) && y -> 1 level
			if e.Op != "or" {
				e = &Expr{Op: "or", Kids: shuffledExprs(r, e, leaf())}
			}
			e = &Expr{Op: "and", Kids: shuffledExprs(r, e, leaf())}
			nest++
		}
	}
	return e
}

func shuffledExprs(r *rand.Rand, xs ...*Expr) []*Expr {
	r.Shuffle(len(xs), func(i, j int) { xs[i], xs[j] = xs[j], xs[i] })
	return xs
}

func genC10Case(r *rand.Rand, idx int64) *c10Case {
	cc := &c10Case{}
	o := genOpts{AllowAnd: true, AllowNot: true, AllowTTU: true, RecursiveTTU: r.IntN(3) == 0, MaxExprDepth: 1 + r.IntN(5)}
	switch idx % 8 {
	case 0:
		cc.Variant = "or-only"
		o.AllowAnd, o.AllowNot = false, false
	case 1:
		cc.Variant = "and-or"
		o.AllowNot = false
	case 2:
		cc.Variant = "no-ttu"
		o.AllowTTU = false
	case 3, 4:
		cc.Variant = "deep"
	default:
		cc.Variant = "all"
	}
	cfg := genCfg(r, o)
	if cc.Variant == "deep" {
		// one extra permission per configured namespace, nesting 1..limit (+ a few beyond)
		for _, n := range cfg.NS[1:] {
			if n.rel("deep") != nil || len(n.Rels) == 0 {
				continue
			}
			pd := &RelDef{Name: "deep", Perm: true}
			n := n
			target := 1 + r.IntN(c10DocumentedNesting)
			if r.IntN(12) == 0 {
				target = c10DocumentedNesting + 1 + r.IntN(3)
			}
			pd.Rewrite = c10DeepExpr(r, func() *Expr { return genLeaf(r, cfg, n, pd, o) }, target)
			n.Rels = append(n.Rels, pd)
		}
	}
	// identifiers that merely START with a keyword of the language are ordinary
	// identifiers (classification, thisTeam, ctxAdmins, implementsPolicy, ...)
	if idx%4 == 1 {
		c10RenameKeywordPrefixed(r, cfg)
	}
	cc.Cfg = cfg
	cc.style = &renderStyle{R: r}
	cc.Text = cc.style.render(cfg)
	cc.MaxNest = cc.style.MaxNest
	cc.Features = usedFeatures(cc.style)
	return cc
}

var c10KeywordPrefixed = []string{"classification", "classes", "thisTeam", "this_one", "ctxAdmins", "ctxs", "implementsPolicy", "implementsX", "thistle", "Classy", "Context2", "subclass", "related2", "permitsAll", "includesAll", "traverser", "Namespace2", "boolean2", "string2", "SubjectSet2", "Array2", "import2", "from2"}

// c10RenameKeywordPrefixed renames one or two relations / permissions and possibly
// one namespace, consistently, to identifiers that start with (or contain) a keyword.
func c10RenameKeywordPrefixed(r *rand.Rand, cfg *Cfg) {
	used := map[string]bool{}
	for _, n := range cfg.NS {
		used[n.Name] = true
		for _, rd := range n.Rels {
			used[rd.Name] = true
		}
	}
	fresh := func() string {
		for try := 0; try < 20; try++ {
			if c := pickS(r, c10KeywordPrefixed); !used[c] {
				used[c] = true
				return c
			}
		}
		return ""
	}
	var renameExpr func(e *Expr, old, nw string)
	renameExpr = func(e *Expr, old, nw string) {
		if e == nil {
			return
		}
		if e.Rel == old {
			e.Rel = nw
		}
		if e.Comp == old {
			e.Comp = nw
		}
		for _, k := range e.Kids {
			renameExpr(k, old, nw)
		}
	}
	// relation names are global in the model (a traverse names a relation of another
	// namespace by the same string), so a relation name is renamed everywhere
	var rels []string
	seen := map[string]bool{}
	for _, n := range cfg.NS {
		for _, rd := range n.Rels {
			if !seen[rd.Name] && isIdent(rd.Name) {
				seen[rd.Name] = true
				rels = append(rels, rd.Name)
			}
		}
	}
	for k, cnt := 0, 1+r.IntN(2); k < cnt && len(rels) > 0; k++ {
		old, nw := rels[r.IntN(len(rels))], fresh()
		if nw == "" {
			break
		}
		for _, n := range cfg.NS {
			for _, rd := range n.Rels {
				if rd.Name == old {
					rd.Name = nw
				}
				for i := range rd.Types {
					if rd.Types[i].Rel == old {
						rd.Types[i].Rel = nw
					}
				}
				renameExpr(rd.Rewrite, old, nw)
			}
		}
	}
	if r.IntN(2) == 0 && len(cfg.NS) > 0 {
		n := cfg.NS[r.IntN(len(cfg.NS))]
		if nw := fresh(); nw != "" && isIdent(n.Name) {
			old := n.Name
			n.Name = nw
			for _, m := range cfg.NS {
				for _, rd := range m.Rels {
					for i := range rd.Types {
						if rd.Types[i].NS == old {
							rd.Types[i].NS = nw
						}
					}
				}
			}
		}
	}
}

func usedFeatures(st *renderStyle) []string {
	var out []string
	for f := range st.Used {
		out = append(out, f)
	}
	sort.Strings(out)
	return out
}

// ---------------------------------------------------------------------------
// judging one (cfg, text) pair

type c10Verdict struct {
	Class  string // "", "panic", "rejected", "truth-table-differs", "structure-differs", "declarations-differ"
	Key    string // class plus what must stay the same while shrinking
	Msg    string
	NS     string // namespace / permission the verdict is about
	Perm   string
	Assign map[string]bool // distinguishing assignment (truth-table-differs)
	GenVal bool
	Parsed *Expr
}

var reQuoted = regexp.MustCompile(`"[^"]*"|'[^']*'|[0-9]+`)

func msgTemplate(m string) string { return reQuoted.ReplaceAllString(m, "_") }

// truthTablesDiffer compares g and p over the union of their distinct leaves;
// returns a distinguishing assignment.
func truthTablesDiffer(g, p *Expr, r *rand.Rand) (map[string]bool, bool) {
	var leaves []string
	g.leaves(&leaves)
	p.leaves(&leaves)
	n := len(leaves)
	try := func(bits uint64) (map[string]bool, bool) {
		env := make(map[string]bool, n)
		for i, l := range leaves {
			env[l] = bits>>uint(i%64)&1 == 1
		}
		if g.evalBool(env) != p.evalBool(env) {
			return env, true
		}
		return nil, false
	}
	if n <= 12 {
		for bits := uint64(0); bits < 1<<uint(n); bits++ {
			if env, d := try(bits); d {
				return env, true
			}
		}
		return nil, false
	}
	// many leaves: backtracking search with three-valued evaluation under a
	// partial assignment (a branch is cut as soon as both sides are determined
	// and equal); bounded, with random sampling as a fallback.
	part := make(map[string]int8, n)
	nodes := 0
	var search func(i int) (bool, bool) // found, exhausted-budget
	search = func(i int) (bool, bool) {
		nodes++
		if nodes > 400000 {
			return false, true
		}
		vg, vp := eval3(g, part), eval3(p, part)
		if vg != 0 && vp != 0 {
			return vg != vp, false
		}
		if i >= n {
			return false, false
		}
		for _, val := range []int8{-1, 1} {
			part[leaves[i]] = val
			if f, ex := search(i + 1); f || ex {
				return f, ex
			}
		}
		delete(part, leaves[i])
		return false, false
	}
	found, exhausted := search(0)
	if found {
		env := make(map[string]bool, n)
		for _, l := range leaves {
			env[l] = part[l] > 0
		}
		// undetermined leaves are irrelevant for both sides; double-check on the total assignment
		if g.evalBool(env) != p.evalBool(env) {
			return env, true
		}
	}
	if exhausted {
		for i := 0; i < 4096; i++ {
			env := make(map[string]bool, n)
			dens := []int{1, 2, 5, 8, 9}[i%5]
			for _, l := range leaves {
				env[l] = r.IntN(10) < dens
			}
			if g.evalBool(env) != p.evalBool(env) {
				return env, true
			}
		}
	}
	return nil, false
}

// eval3: Kleene evaluation under a partial assignment (1 true, -1 false, 0 unknown).
func eval3(e *Expr, part map[string]int8) int8 {
	switch e.Op {
	case "csr", "ttu":
		return part[e.String()]
	case "not":
		return -eval3(e.Kids[0], part)
	case "and":
		if len(e.Kids) == 0 {
			return -1
		}
		res := int8(1)
		for _, k := range e.Kids {
			switch eval3(k, part) {
			case -1:
				return -1
			case 0:
				res = 0
			}
		}
		return res
	default:
		res := int8(-1)
		for _, k := range e.Kids {
			switch eval3(k, part) {
			case 1:
				return 1
			case 0:
				res = 0
			}
		}
		return res
	}
}

func c10Judge(cfg *Cfg, text string, r *rand.Rand) c10Verdict {
	var nn []namespace.Namespace
	var errs []*schema.ParseError
	if pt := guard(func() { nn, errs = schema.Parse(text) }); pt != "" {
		return c10Verdict{Class: "panic", Key: "panic:" + topFrames(pt, 2), Msg: firstLine(pt)}
	}
	if len(errs) > 0 {
		m := errs[0].ToAPI().Message
		if len(m) > 300 {
			m = m[:300]
		}
		return c10Verdict{Class: "rejected", Key: "rejected:" + msgTemplate(m), Msg: m}
	}
	parsed, err := cfgFromKeto(nn)
	if err != nil {
		return c10Verdict{Class: "declarations-differ", Key: "declarations-differ:malformed", Msg: err.Error()}
	}
	// declarations
	if len(parsed.NS) != len(cfg.NS) {
		return c10Verdict{Class: "declarations-differ", Key: "declarations-differ:namespace-count", Msg: fmt.Sprintf("%d namespaces parsed, %d generated", len(parsed.NS), len(cfg.NS))}
	}
	var weak *c10Verdict
	for i, gn := range cfg.NS {
		pn := parsed.NS[i]
		if pn.Name != gn.Name {
			return c10Verdict{Class: "declarations-differ", Key: "declarations-differ:namespace-name", Msg: fmt.Sprintf("namespace %d is %q, generated %q", i, pn.Name, gn.Name)}
		}
		if len(pn.Rels) != len(gn.Rels) {
			return c10Verdict{Class: "declarations-differ", Key: "declarations-differ:relation-count", NS: gn.Name, Msg: fmt.Sprintf("namespace %s: %d relations parsed, %d generated", gn.Name, len(pn.Rels), len(gn.Rels))}
		}
		for _, gr := range gn.Rels {
			pr := pn.rel(gr.Name)
			if pr == nil {
				return c10Verdict{Class: "declarations-differ", Key: "declarations-differ:relation-missing", NS: gn.Name, Perm: gr.Name, Msg: fmt.Sprintf("%s.%s not in the parsed namespace", gn.Name, gr.Name)}
			}
			if (pr.Rewrite == nil) != (gr.Rewrite == nil) {
				return c10Verdict{Class: "declarations-differ", Key: "declarations-differ:relation-kind", NS: gn.Name, Perm: gr.Name, Msg: fmt.Sprintf("%s.%s: relation/permission kind differs", gn.Name, gr.Name)}
			}
			if gr.Rewrite == nil {
				if len(pr.Types) != len(gr.Types) {
					return c10Verdict{Class: "declarations-differ", Key: "declarations-differ:types", NS: gn.Name, Perm: gr.Name, Msg: fmt.Sprintf("%s.%s: types %v, generated %v", gn.Name, gr.Name, pr.Types, gr.Types)}
				}
				for k := range gr.Types {
					if pr.Types[k] != gr.Types[k] {
						return c10Verdict{Class: "declarations-differ", Key: "declarations-differ:types", NS: gn.Name, Perm: gr.Name, Msg: fmt.Sprintf("%s.%s: types %v, generated %v", gn.Name, gr.Name, pr.Types, gr.Types)}
					}
				}
				continue
			}
			if env, differ := truthTablesDiffer(gr.Rewrite, pr.Rewrite, r); differ {
				return c10Verdict{Class: "truth-table-differs", Key: "truth-table-differs", NS: gn.Name, Perm: gr.Name, Assign: env, GenVal: gr.Rewrite.evalBool(env), Parsed: pr.Rewrite,
					Msg: fmt.Sprintf("%s.%s: generated %s, parsed %s", gn.Name, gr.Name, gr.Rewrite, pr.Rewrite)}
			}
			if weak == nil && !pr.Rewrite.normalize().equal(gr.Rewrite.normalize()) {
				weak = &c10Verdict{Class: "structure-differs", Key: "structure-differs", NS: gn.Name, Perm: gr.Name, Parsed: pr.Rewrite,
					Msg: fmt.Sprintf("%s.%s: generated %s, parsed %s (same truth table)", gn.Name, gr.Name, gr.Rewrite, pr.Rewrite)}
			}
		}
	}
	if weak != nil {
		return *weak
	}
	return c10Verdict{}
}

// ---------------------------------------------------------------------------
// shrinking

// exprShape: minimal-parentheses TypeScript text with every leaf written "L".
func exprShape(e *Expr) string {
	switch e.Op {
	case "csr", "ttu":
		return "L"
	case "not":
		k := e.Kids[0]
		if k.Op == "or" || k.Op == "and" {
			return "!(" + exprShape(k) + ")"
		}
		return "!" + exprShape(k)
	}
	tok := "||"
	if e.Op == "and" {
		tok = "&&"
	}
	var parts []string
	for _, k := range e.Kids {
		s := exprShape(k)
		if (k.Op == "or" || k.Op == "and") && prec(k.Op) < prec(e.Op) {
			s = "(" + s + ")"
		}
		parts = append(parts, s)
	}
	return strings.Join(parts, tok)
}

var c10ShapeNames = map[string]string{
	"L||L&&L": "or-before-and",
	"!!L":     "double-negation",
}

func shapeName(e *Expr) string {
	s := exprShape(e)
	if n, ok := c10ShapeNames[s]; ok {
		return n
	}
	return "shape=" + s
}

// c10Standalone: the expression structure of e over distinct plain relations.
func c10Standalone(e *Expr) *Cfg {
	n := 0
	var conv func(x *Expr) *Expr
	conv = func(x *Expr) *Expr {
		switch x.Op {
		case "csr", "ttu":
			l := &Expr{Op: "csr", Rel: fmt.Sprintf("r%d", n)}
			n++
			return l
		}
		out := &Expr{Op: x.Op}
		for _, k := range x.Kids {
			out.Kids = append(out.Kids, conv(k))
		}
		return out
	}
	ne := conv(e)
	doc := &NSDef{Name: "Doc"}
	for i := 0; i < n; i++ {
		doc.Rels = append(doc.Rels, &RelDef{Name: fmt.Sprintf("r%d", i), Types: []TypeRef{{NS: "User"}}})
	}
	doc.Rels = append(doc.Rels, &RelDef{Name: "p", Perm: true, Rewrite: ne})
	return &Cfg{NS: []*NSDef{{Name: "User"}, doc}}
}

type c10Shrunk struct {
	Cfg      *Cfg
	Text     string
	Cause    string   // "ast" | "spelling"
	Features []string // spelling features needed
	Verdict  c10Verdict
	Sig      string
	Steps    int
}

// shrinkCfg greedily drops namespaces / relations / permissions and simplifies
// permission expressions while still(c) holds.
func shrinkCfg(c *Cfg, still func(*Cfg) bool, budget *int) *Cfg {
	cur := cloneCfg(c)
	for changed := true; changed && *budget > 0; {
		changed = false
		// drop namespaces
		for i := len(cur.NS) - 1; i >= 0 && *budget > 0; i-- {
			cand := cloneCfg(cur)
			cand.NS = append(cand.NS[:i], cand.NS[i+1:]...)
			*budget--
			if still(cand) {
				cur, changed = cand, true
			}
		}
		// drop relations / permissions
		for ni := range cur.NS {
			for ri := len(cur.NS[ni].Rels) - 1; ri >= 0 && *budget > 0; ri-- {
				cand := cloneCfg(cur)
				cand.NS[ni].Rels = append(cand.NS[ni].Rels[:ri], cand.NS[ni].Rels[ri+1:]...)
				*budget--
				if still(cand) {
					cur, changed = cand, true
				}
			}
		}
		// drop relation types
		for ni := range cur.NS {
			for ri := range cur.NS[ni].Rels {
				for ti := len(cur.NS[ni].Rels[ri].Types) - 1; ti >= 0 && len(cur.NS[ni].Rels[ri].Types) > 1 && *budget > 0; ti-- {
					cand := cloneCfg(cur)
					ts := cand.NS[ni].Rels[ri].Types
					cand.NS[ni].Rels[ri].Types = append(ts[:ti], ts[ti+1:]...)
					*budget--
					if still(cand) {
						cur, changed = cand, true
					}
				}
			}
		}
		// simplify expressions
		for ni := range cur.NS {
			for ri := range cur.NS[ni].Rels {
				if cur.NS[ni].Rels[ri].Rewrite == nil {
					continue
				}
				for again := true; again && *budget > 0; {
					again = false
					for _, s := range simplifications(cur.NS[ni].Rels[ri].Rewrite) {
						if *budget <= 0 {
							break
						}
						cand := cloneCfg(cur)
						cand.NS[ni].Rels[ri].Rewrite = cloneExpr(s)
						*budget--
						if still(cand) {
							cur, changed, again = cand, true, true
							break
						}
					}
				}
			}
		}
	}
	return cur
}

// plain styles: no optional spelling except the two that decide where
// parentheses stand between equal operators / stacked negations.
var c10PlainStyles = []map[string]bool{
	{},
	{"no-parens-same-op": true},
	{"no-parens-same-op": true, "parens-between-nots": true},
	{"parens-between-nots": true},
}

// shrinkKey: what must persist while shrinking. "truth table differs" and
// "structure differs" are one class here (the exact class is decided on the
// minimal witness, where the truth table is compared exhaustively).
func shrinkKey(v c10Verdict) string {
	if v.Class == "truth-table-differs" || v.Class == "structure-differs" {
		return "differs"
	}
	return v.Key
}

func differsClass(c string) bool { return c == "truth-table-differs" || c == "structure-differs" }

var c10ParenFeatures = []string{"redundant-parens-leaf", "redundant-parens-group", "parens-after-not-leaf", "parens-between-nots", "no-parens-same-op"}

func firstPerm(c *Cfg) *Expr {
	for _, n := range c.NS {
		for _, rd := range n.Rels {
			if rd.Rewrite != nil {
				return rd.Rewrite
			}
		}
	}
	return nil
}

func c10Shrink(cc *c10Case, v c10Verdict, r *rand.Rand) (out c10Shrunk) {
	budget := 3000
	out = c10Shrunk{Cfg: cc.Cfg, Text: cc.Text, Verdict: v, Cause: "unshrunk"}
	defer func() { out.Steps = 3000 - budget }()
	// judge cfg rendered with exactly the forced spellings; inDomain: nesting within the documented limit
	judge := func(cfg *Cfg, force map[string]bool) (c10Verdict, string, int) {
		st := &renderStyle{Force: force}
		text := st.render(cfg)
		return c10Judge(cfg, text, r), text, st.MaxNest
	}
	// shrinkUnder shrinks cfg under a forced style while the verdict key stays key
	shrinkUnder := func(cfg *Cfg, force map[string]bool, key string) (*Cfg, c10Verdict) {
		var last c10Verdict
		still := func(c *Cfg) bool {
			if cfgTypeErrors(c) != nil {
				return false
			}
			nv, _, nest := judge(c, force)
			if shrinkKey(nv) == key && nest <= c10DocumentedNesting {
				last = nv
				return true
			}
			return false
		}
		if !still(cfg) {
			return nil, last
		}
		min := shrinkCfg(cfg, still, &budget)
		still(min)
		return min, last
	}
	finishAST := func(min *Cfg, force map[string]bool, last c10Verdict) {
		_, text, nest := judge(min, force)
		out.Cfg, out.Text, out.Verdict, out.Cause = min, text, last, "ast"
		fe := firstPerm(min)
		switch {
		case last.Class == "rejected" && strings.Contains(last.Msg, "nested too deeply"):
			out.Sig = fmt.Sprintf("C10:rejected:nesting-depth-%d-of-documented-%d", nest, c10DocumentedNesting)
		case fe != nil:
			out.Sig = "C10:" + last.Class + ":" + shapeName(fe)
		default:
			out.Sig = "C10:" + last.Class + ":" + strings.TrimPrefix(last.Key, last.Class+":")
		}
	}
	// generalise tries the failing permission's structure over distinct plain relations
	generalise := func(e *Expr, accept func(class string) bool) bool {
		if e == nil {
			return false
		}
		sa := c10Standalone(e)
		for _, force := range c10PlainStyles {
			nv, _, nest := judge(sa, force)
			if nest > c10DocumentedNesting || !accept(nv.Class) {
				continue
			}
			if min, last := shrinkUnder(sa, force, shrinkKey(nv)); min != nil {
				finishAST(min, force, last)
				return true
			}
		}
		return false
	}
	permExpr := func(c *Cfg, ns, perm string) *Expr {
		if n := c.ns(ns); n != nil {
			if rd := n.rel(perm); rd != nil {
				return rd.Rewrite
			}
		}
		return nil
	}

	// the nesting limit: the message names the cause
	if v.Class == "rejected" && strings.Contains(v.Msg, "nested too deeply") {
		out.Sig = fmt.Sprintf("C10:rejected:nesting-depth-%d-of-documented-%d", cc.MaxNest, c10DocumentedNesting)
		out.Cause = "ast"
		for _, force := range c10PlainStyles {
			if nv, _, nest := judge(cc.Cfg, force); nv.Key == v.Key && nest <= c10DocumentedNesting {
				if min, last := shrinkUnder(cc.Cfg, force, shrinkKey(v)); min != nil {
					finishAST(min, force, last)
					return out
				}
			}
		}
		// one permission alone, with plain or redundant parentheses: shrink while
		// the parser still reports the nesting error; the minimal such expression
		// nests exactly as deep as the parser's real limit
		forces := append([]map[string]bool{}, c10PlainStyles...)
		forces = append(forces, map[string]bool{"redundant-parens-leaf": true}, map[string]bool{"redundant-parens-group": true},
			map[string]bool{"parens-after-not-leaf": true}, map[string]bool{"redundant-parens-leaf": true, "redundant-parens-group": true, "parens-after-not-leaf": true})
		for _, n := range cc.Cfg.NS {
			for _, rd := range n.Rels {
				if rd.Rewrite == nil {
					continue
				}
				sa := c10Standalone(rd.Rewrite)
				for _, force := range forces {
					still := func(c *Cfg) bool {
						if cfgTypeErrors(c) != nil {
							return false
						}
						nv, _, _ := judge(c, force)
						return nv.Key == v.Key
					}
					if !still(sa) {
						continue
					}
					min := shrinkCfg(sa, still, &budget)
					nv, text, nest := judge(min, force)
					if nest <= c10DocumentedNesting && nv.Key == v.Key {
						out.Cfg, out.Text, out.Verdict = min, text, nv
						out.Sig = fmt.Sprintf("C10:rejected:nesting-depth-%d-of-documented-%d", nest, c10DocumentedNesting)
						return out
					}
				}
			}
		}
		out.Cfg, out.Text = seededShrink(cc, nil, v, r, &budget)
		return out
	}

	// 0. the failing permission alone, leaves made distinct. A difference that
	// is only structural on the generated leaves but changes the truth table
	// once the leaves are distinct is the stronger finding.
	if differsClass(v.Class) {
		if generalise(permExpr(cc.Cfg, v.NS, v.Perm), differsClass) {
			return out
		}
	}

	// 1. the whole configuration in a plain spelling: the AST is the cause
	for _, force := range c10PlainStyles {
		nv, _, nest := judge(cc.Cfg, force)
		if (nv.Class != v.Class && !(differsClass(nv.Class) && differsClass(v.Class))) || nest > c10DocumentedNesting {
			continue
		}
		min, last := shrinkUnder(cc.Cfg, force, shrinkKey(nv))
		if min == nil {
			continue
		}
		finishAST(min, force, last)
		if differsClass(last.Class) {
			generalise(permExpr(min, last.NS, last.Perm), differsClass)
		} else if last.Class == "rejected" {
			// which permission is it? the one whose structure alone is rejected the same way
			for _, n := range min.NS {
				for _, rd := range n.Rels {
					if rd.Rewrite != nil {
						want := last.Key
						if generalise(rd.Rewrite, func(c string) bool { return c == "rejected" }) && out.Verdict.Key == want {
							return out
						}
					}
				}
			}
			finishAST(min, force, last)
		}
		return out
	}

	// 2. an optional spelling is the cause: force the used spellings everywhere,
	// shrink the configuration, then minimise the set of spellings.
	used := map[string]bool{}
	for _, f := range usedFeatures(cc.style) {
		used[f] = true
	}
	fewerParens := func(m map[string]bool) map[string]bool {
		out := map[string]bool{}
		for f := range m {
			out[f] = true
		}
		for _, f := range []string{"redundant-parens-leaf", "redundant-parens-group", "parens-after-not-leaf"} {
			delete(out, f)
		}
		out["no-parens-same-op"] = true
		return out
	}
	trySpelling := func(force map[string]bool) bool {
		nv, _, nest := judge(cc.Cfg, force)
		if nest > c10DocumentedNesting || strings.Contains(nv.Msg, "nested too deeply") {
			return false
		}
		if differsClass(v.Class) {
			if !differsClass(nv.Class) {
				return false
			}
		} else if nv.Key != v.Key {
			return false
		}
		key := shrinkKey(nv)
		min, last := shrinkUnder(cc.Cfg, force, key)
		if min == nil {
			return false
		}
		cur := map[string]bool{}
		var names []string
		for f := range force {
			cur[f] = true
			names = append(names, f)
		}
		sort.Strings(names)
		for _, f := range names {
			delete(cur, f)
			if m2, l2 := shrinkUnder(min, cur, key); m2 != nil {
				min, last = m2, l2
			} else {
				cur[f] = true
			}
		}
		var needed []string
		for f := range cur {
			needed = append(needed, f)
		}
		sort.Strings(needed)
		_, text, _ := judge(min, cur)
		out.Cfg, out.Text, out.Verdict, out.Cause, out.Features = min, text, last, "spelling", needed
		out.Sig = "C10:" + last.Class + ":" + strings.Join(needed, "+")
		return true
	}
	if trySpelling(used) || trySpelling(fewerParens(used)) {
		return out
	}

	// 3. fallback: switch the used spellings off one by one in the original
	// rendering; then try again with only the spellings that were needed there
	off := map[string]bool{}
	feats := usedFeatures(cc.style)
	for _, f := range feats {
		off[f] = true
		text := cc.style.reseeded(off).render(cc.Cfg)
		if nv := c10Judge(cc.Cfg, text, r); nv.Key != v.Key {
			delete(off, f)
		}
	}
	needed := map[string]bool{}
	var neededList []string
	for _, f := range feats {
		if !off[f] {
			needed[f] = true
			neededList = append(neededList, f)
		}
	}
	if trySpelling(needed) || trySpelling(fewerParens(needed)) {
		return out
	}
	out.Features, out.Cause = neededList, "spelling-unshrunk"
	out.Cfg, out.Text = seededShrink(cc, off, v, r, &budget)
	out.Sig = "C10:" + v.Class + ":" + strings.Join(neededList, "+")
	return out
}

// seededShrink shrinks the configuration under the case's own (seeded) style.
func seededShrink(cc *c10Case, off map[string]bool, v c10Verdict, r *rand.Rand, budget *int) (*Cfg, string) {
	render := func(c *Cfg) (string, int) {
		st := cc.style.reseeded(off)
		return st.render(c), st.MaxNest
	}
	still := func(c *Cfg) bool {
		if cfgTypeErrors(c) != nil {
			return false
		}
		text, nest := render(c)
		return nest <= c10DocumentedNesting && c10Judge(c, text, r).Key == v.Key
	}
	if !still(cc.Cfg) {
		text, _ := render(cc.Cfg)
		return cc.Cfg, text
	}
	min := shrinkCfg(cc.Cfg, still, budget)
	text, _ := render(min)
	return min, text
}

// ---------------------------------------------------------------------------
// end-to-end

type c10E2EResult struct {
	Ran      int
	Mismatch []string
	Errors   []string
	Cuts     int
}

// c10E2E configures a server with text (denoting cfg) and compares the
// decisions on permission Doc.p of a standalone configuration with the
// TypeScript value of the generated expression.
func c10E2E(t testing.TB, cfg *Cfg, text string, r *rand.Rand, maxAssign int) (*c10E2EResult, error) {
	doc := cfg.ns("Doc")
	pd := doc.rel("p")
	var leaves []string
	pd.Rewrite.leaves(&leaves)
	env, err := newEnv(t, EnvOpts{OPL: text, MaxDepth: 100, MaxWidth: 1000})
	if err != nil {
		return nil, err
	}
	defer env.Close()
	st, eng, _ := env.instrumented()
	res := &c10E2EResult{}
	seen := map[uint64]bool{}
	n := len(leaves)
	for a := 0; a < maxAssign; a++ {
		var bits uint64
		switch a {
		case 0:
			bits = 0
		case 1:
			bits = ^uint64(0)
		default:
			bits = r.Uint64()
		}
		if n < 64 {
			bits &= 1<<uint(n) - 1
		}
		if seen[bits] {
			continue
		}
		seen[bits] = true
		assign := map[string]bool{}
		obj := fmt.Sprintf("o%d", a)
		var ts []*Tup
		for i, l := range leaves {
			assign[l] = bits>>uint(i%64)&1 == 1
			if assign[l] {
				ts = append(ts, tupID("Doc", obj, l, "alice"))
			}
		}
		if err := env.Write(ts...); err != nil {
			return nil, err
		}
		want := pd.Rewrite.evalBool(assign)
		d := engineCheck(env, st, eng, tupID("Doc", obj, "p", "alice"), 0, 20*time.Second)
		res.Ran++
		switch {
		case d.Cuts > 0:
			res.Cuts++
		case d.Err != "":
			res.Errors = append(res.Errors, d.Err)
		case d.Allowed != want:
			var tl []string
			for _, l := range leaves {
				if assign[l] {
					tl = append(tl, l)
				}
			}
			res.Mismatch = append(res.Mismatch, fmt.Sprintf("true leaves %v: keto %s, TypeScript %v", tl, d, want))
		}
	}
	return res, nil
}

// ---------------------------------------------------------------------------

func TestC10(t *testing.T) {
	run := newRunner(t, "C10")
	defer run.finish()
	p := run.p
	nCases := int64(p.pick(32000, 600000))
	e2eEvery := int64(p.pick(50, 400))
	reported := map[string]int{}
	lim := newSigLimiter()

	report := func(idx int64, sub string, cc *c10Case, v c10Verdict) {
		sh := c10Shrink(cc, v, p.rng(idx, "shrink"+sub))
		run.count("shrink_steps", int64(sh.Steps))
		detail := map[string]any{
			"class": v.Class, "cause": sh.Cause, "needed_features": sh.Features, "first_message": v.Msg,
			"minimal_text": sh.Text, "minimal_cfg": sh.Cfg, "minimal_message": sh.Verdict.Msg,
		}
		if sh.Verdict.Assign != nil {
			detail["distinguishing_assignment"] = sh.Verdict.Assign
			detail["typescript_value"] = sh.Verdict.GenVal
		}
		// the first witnesses of a signature get an end-to-end confirmation
		if reported[sh.Sig] < 2 && sh.Verdict.Class == "truth-table-differs" && sh.Cfg.ns("Doc") != nil && sh.Cfg.ns("Doc").rel("p") != nil {
			if res, err := c10E2E(run.t, sh.Cfg, sh.Text, p.rng(idx, "e2e-confirm"), 16); err == nil {
				detail["end_to_end"] = res.Mismatch
			}
		}
		reported[sh.Sig]++
		lim.violate(run, violation{Index: idx, Sub: sub, Sig: sh.Sig,
			Summary: fmt.Sprintf("%s (%s): %s; minimal witness:\n%s", v.Class, sh.Cause, sh.Verdict.Msg, clip(sh.Text, 700)),
			Case:    cc, Detail: detail})
	}

	for idx := int64(0); idx < nCases; idx++ {
		if !p.mine(idx) {
			continue
		}
		r := p.rng(idx, "case")
		cc := genC10Case(r, idx)
		// journal a compact description (the case is a pure function of (seed, idx); violations carry it in full)
		run.begin(idx, "", map[string]any{"variant": cc.Variant, "max_nest": cc.MaxNest, "features": cc.Features, "text_len": len(cc.Text), "text_head": clip(cc.Text, 400)})
		verdict := "ok"
		for _, f := range cc.Features {
			run.setAdd("features", f)
		}
		run.maxCounter("max_nesting_rendered", int64(cc.MaxNest))
		if te := cfgTypeErrors(cc.Cfg); te != nil {
			run.count("generated_not_welltyped", 1)
			run.inconclusive(fmt.Sprintf("C10 idx %d: generated configuration is not well-typed by the harness rules: %v", idx, te))
		}
		switch {
		case cc.MaxNest > c10DocumentedNesting:
			// outside the documented language: nothing is required
			run.count("skipped_beyond_documented_nesting", 1)
		default:
			v := c10Judge(cc.Cfg, cc.Text, p.rng(idx, "tt"))
			run.eval(1)
			run.count(fmt.Sprintf("nesting_%02d", cc.MaxNest), 1)
			nperm := 0
			for _, n := range cc.Cfg.NS {
				for _, rd := range n.Rels {
					if rd.Rewrite != nil {
						nperm++
						run.nontrivial(fmt.Sprintf("%d/%s/%s", idx, n.Name, rd.Name))
						run.setAdd("expr_shapes", exprShape(rd.Rewrite))
					}
				}
			}
			run.count("permissions", int64(nperm))
			if v.Class != "" {
				run.count("class_"+v.Class, 1)
				report(idx, "", cc, v)
				verdict = "violation"
			}
		}
		// end-to-end part
		if idx%e2eEvery == 0 {
			if v := runC10E2E(run, idx, lim, report); v != "ok" {
				verdict = v
			}
		}
		if idx%1500 == 7 {
			run.sample(map[string]any{"variant": cc.Variant, "text": cc.Text, "features": cc.Features})
		}
		run.end(idx, "", verdict)
	}
}

// runC10E2E: a standalone configuration (one permission over distinct plain
// relations) rendered with random spellings, judged at parse level like any
// other case and then executed on a real server.
func runC10E2E(run *runner, idx int64, lim *sigLimiter, report func(int64, string, *c10Case, c10Verdict)) string {
	p := run.p
	r := p.rng(idx, "e2e")
	leafN := 0
	leaf := func() *Expr { leafN++; return &Expr{Op: "csr", Rel: fmt.Sprintf("x%d", leafN)} }
	var e *Expr
	if r.IntN(2) == 0 {
		e = c10DeepExpr(r, leaf, 1+r.IntN(6))
	} else {
		base := &Cfg{NS: []*NSDef{{Name: "User"}, {Name: "Doc", Rels: []*RelDef{{Name: "a"}, {Name: "b"}, {Name: "c"}, {Name: "d"}}}}}
		e = genExpr(r, base, base.NS[1], nil, genOpts{AllowAnd: true, AllowNot: true, MaxExprDepth: 3}, 1+r.IntN(3))
	}
	cfg := c10Standalone(e)
	st := &renderStyle{R: r}
	cc := &c10Case{Variant: "e2e", Cfg: cfg, style: st}
	cc.Text = st.render(cfg)
	cc.MaxNest, cc.Features = st.MaxNest, usedFeatures(st)
	if cc.MaxNest > c10DocumentedNesting {
		return "ok"
	}
	run.jwrite(map[string]any{"ev": "e2e", "idx": idx, "text": cc.Text})
	v := c10Judge(cfg, cc.Text, p.rng(idx, "e2e-tt"))
	run.eval(1)
	run.count("e2e_cases", 1)
	verdict := "ok"
	if v.Class != "" {
		run.count("class_"+v.Class, 1)
		report(idx, "e2e", cc, v)
		verdict = "violation"
		if v.Class == "rejected" || v.Class == "panic" {
			return verdict
		}
	}
	res, err := c10E2E(run.t, cfg, cc.Text, p.rng(idx, "e2e-assign"), 8)
	if err != nil {
		if v.Class == "" {
			run.inconclusive(fmt.Sprintf("C10 e2e idx %d: %v", idx, err))
		}
		return verdict
	}
	run.count("e2e_checks", int64(res.Ran))
	run.count("e2e_limit_cuts", int64(res.Cuts))
	run.nontrivial(fmt.Sprintf("%d/e2e", idx))
	if len(res.Errors) > 0 {
		run.count("e2e_check_errors", int64(len(res.Errors)))
	}
	if len(res.Mismatch) > 0 {
		if v.Class != "" {
			// the parse-level finding above already explains the decision
			run.count("e2e_confirms_parse_level_finding", 1)
			return verdict
		}
		lim.violate(run, violation{Index: idx, Sub: "e2e", Sig: "C10:e2e-decision-differs:" + shapeName(cfg.ns("Doc").rel("p").Rewrite),
			Summary: fmt.Sprintf("server configured with the rendered text decides differently from TypeScript although the parsed AST matches: %s", res.Mismatch[0]),
			Case:    cc, Detail: map[string]any{"mismatches": res.Mismatch}})
		verdict = "violation"
	}
	return verdict
}
