package verifh

// Reference semantics of check (independent of keto's engine): ground atoms
// (namespace, object, relation); for a fixed subject s, membership is the
// least fixpoint of
//   D  (ns,obj,rel,s) in T
//   E  (ns,obj,rel,(n',o',r')) in T  and  member(n',o',r')
//   R  the relation's rewrite evaluates to true
// with local stratification for negation (SCCs of the ground dependency graph
// in reverse topological order). A case with a negative edge inside an SCC has
// no agreed meaning and is reported as unstratified.

import (
	"fmt"
)

type atom struct{ ns, obj, rel string }

func (a atom) String() string { return fmt.Sprintf("%s:%s#%s", a.ns, a.obj, a.rel) }

type refSem struct {
	cfg    *Cfg
	strict bool
	// index: tuples by (ns,obj,rel)
	byAtom map[atom][]*Tup
}

func newRefSem(cfg *Cfg, strict bool, ts []*Tup) *refSem {
	rs := &refSem{cfg: cfg, strict: strict, byAtom: map[atom][]*Tup{}}
	for _, t := range ts {
		a := atom{t.Namespace, t.Object, t.Relation}
		rs.byAtom[a] = append(rs.byAtom[a], t)
	}
	return rs
}

// relFor mirrors the *documented* lookup: nil when the namespace is unknown,
// has no relations configured, or the relation name is empty; schemaErr when a
// configured namespace lacks the relation.
func (rs *refSem) relFor(a atom) (rd *RelDef, schemaErr bool) {
	if a.rel == "" {
		return nil, false
	}
	n := rs.cfg.ns(a.ns)
	if n == nil || len(n.Rels) == 0 {
		return nil, false
	}
	if r := n.rel(a.rel); r != nil {
		return r, false
	}
	return nil, true
}

type dep struct {
	to  atom
	neg bool
}

type refResult struct {
	Member       bool
	Unstratified bool
	SchemaError  bool // some reachable atom names an undeclared relation of a configured namespace
	Atoms        int
	Indirect     bool // evaluation needed more than the direct lookup at the root
}

func sameSubject(t *Tup, q *Tup) bool {
	if q.SubjectID != nil {
		return t.SubjectID != nil && *t.SubjectID == *q.SubjectID
	}
	if q.SubjectSet != nil {
		return t.SubjectSet != nil && *t.SubjectSet == *q.SubjectSet
	}
	return false
}

// exprDeps collects the atoms an expression evaluated at (ns,obj) depends on.
func (rs *refSem) exprDeps(e *Expr, ns, obj string, neg bool, out *[]dep) {
	switch e.Op {
	case "csr":
		*out = append(*out, dep{atom{ns, obj, e.Rel}, neg})
	case "ttu":
		for _, t := range rs.byAtom[atom{ns, obj, e.Rel}] {
			if t.SubjectSet != nil {
				*out = append(*out, dep{atom{t.SubjectSet.Namespace, t.SubjectSet.Object, e.Comp}, neg})
			}
		}
	case "not":
		rs.exprDeps(e.Kids[0], ns, obj, !neg, out)
	default:
		for _, k := range e.Kids {
			rs.exprDeps(k, ns, obj, neg, out)
		}
	}
}

func (rs *refSem) expandAllowed(rd *RelDef) bool {
	if !rs.strict || rd == nil {
		return true
	}
	for _, t := range rd.Types {
		if t.Rel != "" {
			return true
		}
	}
	return false
}

func (rs *refSem) directAllowed(rd *RelDef) bool {
	return !rs.strict || rd == nil || rd.Rewrite == nil
}

func (rs *refSem) deps(a atom) (ds []dep, schemaErr bool) {
	rd, serr := rs.relFor(a)
	if serr {
		return nil, true
	}
	if rs.expandAllowed(rd) {
		for _, t := range rs.byAtom[a] {
			if t.SubjectSet != nil {
				ds = append(ds, dep{atom{t.SubjectSet.Namespace, t.SubjectSet.Object, t.SubjectSet.Relation}, false})
			}
		}
	}
	if rd != nil && rd.Rewrite != nil {
		rs.exprDeps(rd.Rewrite, a.ns, a.obj, false, &ds)
	}
	return ds, false
}

func (rs *refSem) evalExpr(e *Expr, ns, obj string, val map[atom]bool) bool {
	switch e.Op {
	case "csr":
		return val[atom{ns, obj, e.Rel}]
	case "ttu":
		for _, t := range rs.byAtom[atom{ns, obj, e.Rel}] {
			if t.SubjectSet != nil && val[atom{t.SubjectSet.Namespace, t.SubjectSet.Object, e.Comp}] {
				return true
			}
		}
		return false
	case "not":
		return !rs.evalExpr(e.Kids[0], ns, obj, val)
	case "and":
		if len(e.Kids) == 0 {
			return false
		}
		for _, k := range e.Kids {
			if !rs.evalExpr(k, ns, obj, val) {
				return false
			}
		}
		return true
	default:
		for _, k := range e.Kids {
			if rs.evalExpr(k, ns, obj, val) {
				return true
			}
		}
		return false
	}
}

func (rs *refSem) evalAtom(a atom, q *Tup, val map[atom]bool) bool {
	rd, _ := rs.relFor(a)
	if rs.directAllowed(rd) {
		for _, t := range rs.byAtom[a] {
			if sameSubject(t, q) {
				return true
			}
		}
	}
	if rs.expandAllowed(rd) {
		for _, t := range rs.byAtom[a] {
			if t.SubjectSet != nil && val[atom{t.SubjectSet.Namespace, t.SubjectSet.Object, t.SubjectSet.Relation}] {
				return true
			}
		}
	}
	if rd != nil && rd.Rewrite != nil {
		return rs.evalExpr(rd.Rewrite, a.ns, a.obj, val)
	}
	return false
}

// Check evaluates the query q (namespace, object, relation, subject).
func (rs *refSem) Check(q *Tup) refResult {
	root := atom{q.Namespace, q.Object, q.Relation}
	// 1. reachable atoms and dependency edges
	edges := map[atom][]dep{}
	order := []atom{}
	res := refResult{}
	var stack []atom
	seen := map[atom]bool{root: true}
	stack = append(stack, root)
	for len(stack) > 0 {
		a := stack[len(stack)-1]
		stack = stack[:len(stack)-1]
		order = append(order, a)
		ds, serr := rs.deps(a)
		if serr {
			res.SchemaError = true
		}
		edges[a] = ds
		for _, d := range ds {
			if !seen[d.to] {
				seen[d.to] = true
				stack = append(stack, d.to)
			}
		}
	}
	res.Atoms = len(order)
	res.Indirect = len(edges[root]) > 0

	// 2. SCCs (Tarjan, iterative enough for our sizes: recursion depth <= atoms)
	index := map[atom]int{}
	low := map[atom]int{}
	onStack := map[atom]bool{}
	comp := map[atom]int{}
	var tstack []atom
	var comps [][]atom
	idx := 0
	var strong func(v atom)
	strong = func(v atom) {
		index[v] = idx
		low[v] = idx
		idx++
		tstack = append(tstack, v)
		onStack[v] = true
		for _, d := range edges[v] {
			w := d.to
			if _, ok := index[w]; !ok {
				strong(w)
				if low[w] < low[v] {
					low[v] = low[w]
				}
			} else if onStack[w] && index[w] < low[v] {
				low[v] = index[w]
			}
		}
		if low[v] == index[v] {
			var cc []atom
			for {
				w := tstack[len(tstack)-1]
				tstack = tstack[:len(tstack)-1]
				onStack[w] = false
				comp[w] = len(comps)
				cc = append(cc, w)
				if w == v {
					break
				}
			}
			comps = append(comps, cc)
		}
	}
	for _, a := range order {
		if _, ok := index[a]; !ok {
			strong(a)
		}
	}
	// 3. negative edge inside an SCC => unstratified
	for a, ds := range edges {
		for _, d := range ds {
			if d.neg && comp[a] == comp[d.to] {
				res.Unstratified = true
			}
		}
	}
	if res.Unstratified {
		return res
	}
	// 4. Tarjan emits SCCs in reverse topological order (dependencies first)
	val := map[atom]bool{}
	for _, cc := range comps {
		for changed := true; changed; {
			changed = false
			for _, a := range cc {
				if !val[a] && rs.evalAtom(a, q, val) {
					val[a] = true
					changed = true
				}
			}
		}
	}
	res.Member = val[root]
	return res
}
